from . import _m3

MANIFEST = {
    "text": "PARTIAL. Lean 4 theorems over the model M3: C20_print_idem_partial (for every parser-shaped expression tree of the fragment wf: print, scan, parse, print again yields the same "
            "items, tokens and blanks) and C20_fixed_point (the tree after one pass is a fixed point of print-then-parse). Layout that depends on source line breaks (exprList, linebreak, funcBody), "
            "statements, declarations and comments are not modelled: searched with the real code: Source(Source(x)) = Source(x) on every corpus file, generated programs with perturbed layout and "
            "printed AST mutants; expression level: Fprint(ParseExpr(Fprint(e))) = Fprint(e) on corpus expressions.",
    "note": "trusted: Lean kernel; model M3 tied by the differential run and the translator target prec (shared with C19/C22); idempotence of the real formatter outside single-line expressions rests on the search only.",
    "technique": "Lean 4 proof (corollary of the print/parse round trip) + translator tie (prec) + differential correspondence + bounded search with the real format.Source",
}

RULE = ("as C19: all corpus files (a third of the .go files per seed in quick), regression inputs, N template programs + N grammar-directed programs (harness/exprx/gram.go: every ast.Stmt/ast.Decl kind, labelled statements incl. empty ones in every position, `;`-separated and empty statements, goto/fallthrough, redundant parentheses to depth 3 in every expression/type position, import blocks with named/dot/blank imports, duplicate paths under different names, raw-string and escaped path spellings, comments and groups; text written by the generator itself with random blanks / line breaks / comments, not by the printer under test) with perturbed layout, N/2 printed AST mutants, corpus expressions; "
        "a case is the pair (source, twice-formatted source); non-trivial = valid source longer than 40 bytes")


def run(ctx):
    ctx.assumptions += ["only the single-line expression fragment wf is proved; line-break dependent layout is search only"]
    _m3.flow(ctx, "GopModel.Props.C20", "c20", 4000, 60000, RULE)
