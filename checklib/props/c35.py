from .. import common

MANIFEST = {
    "text": "Lean 4 theorems (C35_concat_eq_input, C35_files_runs_maximal, C35_mixed_error_iff, C35_terminates, C35_ok_or_mixed) "
            "about a line-by-line model of ParseOne/ParseAll/isFile/isLocal/filepath.Ext hold for every argument list; the model is tied to "
            "/repo by a differential run (exhaustive short lists + random) of the real xgoprojs.ParseAll against the compiled model, plus an "
            "independent property oracle on the implementation's outputs. Full-strength statement.",
    "note": "trusted: Lean kernel + propext/Classical.choice/Quot.sound; hand-written model tied only by the differential run (generator quality bounds it); "
            "filepath.Ext modelled for Unix separators.",
    "technique": "Lean 4 proof (induction on loop fuel) + differential correspondence model vs real ParseAll",
}

RULE = ("exhaustive argument lists up to length L (quick 4, thorough 6) over 9 argument classes "
        "(file ext, local ./ / \\ drive-letter, pkg path, trailing dot, empty) + random lists (len<=8) "
        "incl. arbitrary bytes; non-trivial = distinct list with >= 2 arguments")


def run(ctx):
    ctx.assumptions += ["path/filepath.Ext modelled for Unix (separator '/') and validated by the differential run"]
    common.standard(ctx, "GopModel.Props.C35", "c35", 3000, 60000, RULE)
