from .. import common

MANIFEST = {
    "text": "PARTIAL. Lean 4 theorems C01_fuel_mono, C01_eval_det and C01_lower_id_partial are proved about a reference semantics "
            "`evalG` (a small-step machine for a Go subset: 64-bit ints, bools, strings, slices, if/for/range/switch, multi-result functions, "
            "recursion, closures-as-blocks, panic(value), os.Exit) and about the MODEL lowering of that subset (identity, hence "
            "outcome-preserving). They are near-definitional: the compiler itself (cl ~7 kLoC + gogen, outside /repo) is NOT modelled and no "
            "theorem speaks about it. The weight of this check is the three-way differential run, which is search, not proof: every generated "
            "program is (a) built with plain Go and run, (b) compiled as main.xgo by the real XGo compiler, built and run, (c) evaluated by "
            "evalG; (a)=(b) on stdout, exit status and panic value is the property's oracle on the implementation, (a)=(c) validates the "
            "model. Programs outside the model (maps, structs, methods, defer/recover, labelled loops, capturing closures, run-time panics of "
            "several kinds), 38 name-resolution scenarios (one identifier at two scope levels, used in value and in type/constant positions, "
            "package-level declaration before and after its user) and a fixed list of mutated corpus Go mains are compared two-way (a)=(b).",
    "note": "trusted: Lean kernel (propext/Classical.choice/Quot.sound), the Go toolchain as the reference for Go's meaning, the program "
            "generators (compa/gogen.go, goext.go) and their discipline (no observable slice aliasing, no call mixed with a possibly-panicking "
            "operand, no constant arithmetic), gogen/qiniu x as shipped. Only sampled programs are covered; bounded loops; no floats, no "
            "goroutine scheduling dependence, documented XGo deviations (println to stderr, ${..}, auto-capitalised members) excluded.",
    "technique": "Lean 4 proof (determinism / fuel monotonicity of a CEK machine; identity lowering by mutual structural induction) + "
                 "three-way differential: go build+run vs real XGo compile+build+run vs compiled Lean model",
}

RULE = ("programs generated from the model's AST (typed, terminating, deterministic; random layout) - each is one case and is non-trivial "
        "(>= 6 statements in main, functions, loops); plus extended template programs (12 feature snippets x 10 panicking/exiting tails) and "
        "mutated self-contained Go mains of /repo compared two-way (reported as `skip` lines to the model); distinct = distinct source")


def run(ctx):
    ctx.assumptions += [
        "Go's own toolchain defines the meaning of the Go program (side (a))",
        "generator discipline keeps slice aliasing and gc's evaluation-order freedom unobservable (design_notes/C01.md)",
    ]
    n_quick, n_thorough = 18, 240

    def post(ctx, outdir, dis):
        st = ctx.coverage.get("distribution", {})
        if st.get("generator_invalid_go", 0):
            ctx.broken.append("the program generator produced %d invalid Go programs (harness defect, see stderr)" % st["generator_invalid_go"])

    common.standard(ctx, "GopModel.Props.C01", "c01", n_quick, n_thorough, RULE, driver="drv_comp", post=post)
