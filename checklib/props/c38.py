from .. import common
from .. import replay as _replay

MANIFEST = {
    "text": "Lean 4 theorems over a byte-level model of x/jsonrpc2 frame.go (headerReader.Read incl. ReadString, strings.TrimSpace with Unicode spaces, "
            "IndexRune, ParseInt(.,10,32), ReadFull; headerWriter.Write): C38_frames_roundtrip (any list of payloads of 1..2^31-1 bytes reads back exactly, "
            "then clean EOF), C38_read_exact and C38_read_independent_of_rest (a Read consumes exactly header+declared length; its result does not depend on "
            "what follows), C38_read_total (every byte stream gives frame/EOF/error, the header loop terminates), C38_read_err_consumes, C38_header_rules / "
            "C38_header_rejections (last Content-Length wins, unknown headers ignored, <=0 / unparsable / missing rejected). Message layer PARTIAL over an abstract "
            "injective JSON codec: C38_msg_roundtrip_partial, C38_stream_roundtrip_partial, C38_relay_roundtrip_partial / C38_relay_bytes_partial (decode(encode(decode bytes)) = decode bytes, error data included) (requests with a method, responses with an id, integer ids up to 2^53), "
            "with machine-checked counterexamples to the full statement: C38_int_id_beyond_2p53_changes (ids decoded through float64) and "
            "C38_length_2p31_not_readable (32-bit Content-Length). Both are replayed on the real code and recorded as known findings.",
    "note": "trusted: Lean kernel; the model of the Go library calls (bufio/strings/strconv/io/fmt) is hand-written and tied by the differential run; encoding/json is an "
            "assumption (structure Codec: decode(encode w) = view w, numbers come back as float64; inhabited by a toy codec); the byte stream is a finite in-memory "
            "reader (only EOF as transport error); float64->int64 conversion of out-of-range values as on amd64.",
    "technique": "Lean 4 proof (induction over header lines / frames, fuel adequacy) + differential correspondence through the real HeaderFramer Reader/Writer",
}

RULE = ("message sequences (0-5 messages: calls, notifications, responses; int ids incl. beyond 2^53 and the int64 extremes, string ids, unicode methods, raw params/"
        "results in non-compact form, wire/plain/wrapped errors, degenerate messages) written by the real Writer and read back by the real Reader fed one byte at a time; "
        "mutated copies of such streams (bit flips, deletions, insertions, truncation, duplicated slices, changed length digits, inserted header lines, CRLF->LF); "
        "relay runs (hand-built wire texts: all id spellings, error objects with data of every JSON kind, unknown/duplicate/misplaced members, shuffled member order and white space -> real Reader -> real Writer -> real Reader; pass 1 = pass 2 and written payload = original up to the stated normalisation); synthetic header blocks (name/space/sign/size variants incl. Unicode spaces and 32-bit limits); short garbage; fixed corner streams; int64 ids through "
        "Encode->Decode. Non-trivial = distinct case with >= 2 messages or a non-empty stream")


def run(ctx):
    ctx.assumptions += [
        "encoding/json behaves as an injective codec up to `view` (strings valid UTF-8, raw JSON compared after compaction; DESIGN 2.6)",
        "the transport delivers bytes and then io.EOF (no other read errors)",
        "int64(float64) for out-of-range values as on amd64 (only MaxInt64 is affected)",
    ]
    common.standard(ctx, "GopModel.Props.C38", "c38", 1500, 50000, RULE, driver="drv_pureb")


def replay(ctx, obj):
    ctx.driver_exe = "drv_pureb"
    return _replay.generic(ctx, obj)
