from .. import common, compa_flow

MANIFEST = {
    "text": "PARTIAL. Lean 4 theorem C07_entry_never_panics_partial (with C07_entry_list, C07_recover_sites_handle, "
            "C07_rethrow_sites_guarded, C07_build_helpers_set_err) is proved over the entry points and recover() sites the translator extracts "
            "from cl/*.go and x/build/build.go on every run, in a model of Go's defer/recover discipline: with enableRecover set and no panic "
            "inside the non-recovering deferred functions, a panic of the body never leaves cl.NewPackage / build.BuildFile / BuildFSDir / "
            "BuildDir and always becomes a non-nil returned error; both hypotheses are shown necessary by model witnesses "
            "(C07_needs_enableRecover, C07_recorder_defer_unprotected: rec.Complete is deferred outside the recover). The model cannot exhibit "
            "runtime fatal errors (stack overflow, out of memory, deadlock), wall-clock hangs, panics in goroutines, nor anything about error "
            "positions: those parts of the property are covered only by search - mutated corpus, generated programs and the partial ASTs "
            "returned with parse errors are fed to the real cl.NewPackage (with and without a Recorder) and x/build in a child process "
            "(address-space limit, GOMEMLIMIT, bounded stack, 10 s CPU / 120 s wall per input); oracle: no escaped panic, no fatal error, no "
            "timeout, no (nil, nil) result, every positioned error inside a compiled file.",
    "note": "trusted: Lean kernel; translator extract/errsinks.go (recover shapes it does not know break the tie); the child-process "
            "harness; `cleanup` calls (ResetStmt/ResetInit) and recoverErr are assumed not to panic; failure keys are the panic kind + top "
            "frames (function names), so a new crash kind is a VIOLATION and a recorded one a KNOWN-FINDING. Panics of gogen's WriteTo on "
            "partial ASTs are counted, not judged (outside NewPackage). Positions are checked without //line adjustment.",
    "technique": "Lean 4 proof over translator-extracted defer/recover facts + crash/hang/position search of the real compiler in a "
                 "resource-limited child process with shrinking",
}

RULE = ("inputs = a rotating quarter (quick) or all (thorough) of /repo's XGo corpus incl. test snippets, every sugar piece, and mutants of "
        "corpus/generated packages by 24 mutation kinds (near-miss + stray statements + token drop/insert/swap/dup-span/truncate/nesting/splice, 1-3 per input); "
        "each input goes through parser.ParseFSDir, cl.NewPackage (also on partial ASTs, also with a Recorder), build.BuildFSDir and "
        "build.BuildFile; non-trivial = the parser did not panic; distinct = distinct file set")


def run(ctx):
    ctx.assumptions += [
        "enableRecover = true (cl.SetDisableRecover(true) voids the theorem: C07_needs_enableRecover)",
        "runtime fatal errors and hangs cannot be exhibited by the model; searched only",
    ]
    compa_flow.run_search(ctx, "GopModel.Props.C07", "c07", 4000, 60000, RULE, timeout=6000)
