"""Shared pieces of the TPL matcher checks (C28, C29)."""
import re

DRIVER = "drv_tplmatch"


def core(line):
    """What the property statements are about: success/failure, consumed count, result tree
    (error kinds/positions and ctx.Left/LastErr are correspondence-only details)."""
    parts = [p.strip() for p in line.split("|")]
    out = []
    for p in parts:
        if p.startswith("chk="):
            out.append(p.split()[0].split(":")[0])        # ok / rec (not which variable)
        elif p.startswith("M "):
            f = p.split()
            if f[1] == "ok":
                out.append("M ok %s %s" % (f[2], p[p.index(f[2]) + len(f[2]):].split(" L=")[0].strip()))
            elif f[1] == "fail":
                out.append("M fail")
            else:
                out.append("M " + f[1])
        elif p.startswith("P ") or p.startswith("E "):
            f = p.split(None, 2)
            if f[1] == "ok":
                out.append(f[0] + " ok " + (f[2] if len(f) > 2 else ""))
            elif f[1] in ("HANG", "PANIC"):
                out.append(f[0] + " " + f[1])
            else:
                out.append(f[0] + " err")
    return out


def canon(line):
    """Which variable of a left-recursive cycle is reported is not part of any property."""
    return re.sub(r"chk=rec:\S+", "chk=rec", line)


def promote_core_mismatch(ctx, dis, key, harness):
    """A disagreement in the README-level observables on a concrete input is a failing input."""
    n = 0
    for i, case, impl, model in (dis or []):
        if case.startswith("tplm-tie"):
            continue
        ci, cm = core(impl), core(model)
        if ci != cm and ci[:1] == cm[:1] == ["chk=ok"]:
            which = next((a.split()[0] for a, b in zip(ci, cm) if a != b), "M")
            ctx.report_concrete("%s-%s" % (key, {"M": "match", "P": "parse", "E": "parseexpr"}.get(which, which)),
                                {"case": case, "impl": impl, "model_says": model, "harness": harness,
                                 "how": "success/failure, consumed count or result tree of the real Compiler.Match/Parse/ParseExpr "
                                        "differs from the proved model (README semantics) on this input"})
            n += 1
            if n >= 3:
                break


def replay(ctx, obj):
    from .. import replay as rp
    ctx.driver_exe = DRIVER
    return rp.generic(ctx, obj)
