import os
from .. import common

MANIFEST = {
    "text": "Lean 4 theorems about a transcription of the command-style call detection (parsePrimaryExpr / isCmd / checkCmd / parseStmt; token sets "
            "regenerated from parser.go): C14_no_cmd_on_adjacent_partial and C14_gofmt_not_ambiguous (in gofmt-like layout the command-call branch, the only "
            "XGo production reachable from Go tokens at statement level, is never taken), C14_site_nonadjacent, and C14_known_shapes_ambiguous (the recorded "
            "deviations `a [0] = 1`, `get (1).Run()`, `f (1)`, `ch <-v` are sites: the full statement is false on the unchanged tree). PARTIAL: equality of the "
            "trees is not a theorem; it is checked by structural comparison of the real parser.ParseFile and go/parser.ParseFile trees on every .go file of the "
            "tree, a GOROOT/src sample, layout-mutated variants with identical token sequence, and generated go/types-checked files; every difference must be "
            "explained by a command-call site of the real tree (then repaired and re-compared) or by one of the recorded unsupported constructs, else it is a violation.",
    "note": "trusted: Lean kernel; translator target parsercmd (shape check of isCmd/checkCmd and the case lists); the model is tied to the real parser per "
            "statement (decision of the real parser on a wrapped snippet vs the model on the real scanner's tokens); the tree comparison (reflection over go/ast "
            "types; positions, comments, objects ignored; BasicLit.Extra ignored); corpus files outside testdata/_* directories are assumed type-correct, generated "
            "files are checked with go/types.",
    "technique": "Lean 4 proof (induction over the token walk) + translator + differential tie per statement + structural tree comparison oracle",
}

RULE = ("fixed regression mini-corpus corpus/C14 (47 files, one rare construct each) first; file level: all .go files of the tree (quick: sample) + GOROOT/src sample + generated type-checked programs (generics, labels, goto, select, types of every form in every expression position, non-ASCII identifiers, "
        "type switches, struct tags, iota), each also re-laid-out with random non-gofmt layout (4 profiles; all file endings: no final newline, comment at EOF, CRLF, BOM; comments at line ends), with single blanks before ( [ {, and with literals re-spelt (same value: prefixes, separators, hex floats, escapes, raw strings); "
        "statement level (cases): sampled simple statements of those texts with their context (list/header), tokens from the real scanner; "
        "non-trivial = distinct statement token list")


def canon(line):
    # model lines carry the gofmt-hypothesis flag; 'outside' (not modelled) is compatible with 'none'
    if line.endswith(" g") or line.endswith(" n"):
        line = line[:-2]
    if line == "outside":
        line = "none"
    return line


def post(ctx, outdir, dis):
    if not outdir:
        return
    p = os.path.join(outdir, "model.txt")
    if not os.path.exists(p):
        return
    g = n = site = outside = bad = 0
    for line in open(p, errors="replace"):
        line = line.rstrip("\n")
        if line.endswith(" g"):
            g += 1
            if line.startswith("site"):
                bad += 1
        elif line.endswith(" n"):
            n += 1
        if line.startswith("site"):
            site += 1
        if line.startswith("outside"):
            outside += 1
    ctx.coverage["statements_in_proved_domain_gofmt_layout"] = g
    ctx.coverage["statements_outside_proved_domain"] = n
    ctx.coverage["model_sites"] = site
    ctx.coverage["model_outside"] = outside
    if bad:
        ctx.broken.append("driver reports a site on a statement in gofmt layout (contradicts C14_no_cmd_on_adjacent_partial)")


def run(ctx):
    ctx.assumptions += [
        "corpus .go files outside testdata and _-prefixed directories are type-correct (they are compiled code of the repository / toolchain); generated files are checked with go/types",
        "layout-mutated variants keep the go/scanner token sequence (verified), hence validity and the go/parser tree up to positions",
        "a difference is attributed to the command-style heuristic only through command-style calls present in the real XGo tree before the first error, or found by parsing the statement holding an error on its own",
    ]
    common.standard(ctx, "GopModel.Props.C14", "c14", 300, 1800, RULE,
                    extract=("parsercmd",), canon=canon, post=post, driver="drv_parser")
