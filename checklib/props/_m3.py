"""Shared flow of the M3 checks (C22, C19, C20): translator target `prec`, Lean build + axiom
audit, harness run, oracle failures, model-vs-implementation comparison through drv_expr.

The comparison skips lines where the model answers UNSUPP (input outside the modelled
fragment), where the real tree contains node kinds outside M3 (`Unk(`) and where the real parser
panicked (that is property C13's business, counted as `impl_panics`)."""
import os
from .. import common

DRIVER = "drv_expr"


def compare(ctx, outdir):
    cases = os.path.join(outdir, "cases.txt")
    impl = os.path.join(outdir, "impl.txt")
    model = os.path.join(outdir, "model.txt")
    if not ctx.driver(cases, model):
        return None
    rd = lambda p: [l for l in open(p, errors="replace").read().split("\n")]
    cl, il, ml = rd(cases), rd(impl), rd(model)
    for l in (cl, il, ml):
        if l and l[-1] == "": l.pop()
    if not (len(cl) == len(il) == len(ml)):
        ctx.broken.append("line count mismatch cases=%d impl=%d model=%d" % (len(cl), len(il), len(ml)))
    dis, skipped, panics, compared = [], 0, 0, 0
    for i, (c, a, b) in enumerate(zip(cl, il, ml)):
        if not c.startswith(("pp\t", "parse\t", "glue\t")):
            continue          # source-level cases (C19/C20) have no model counterpart
        if a.endswith("PANIC"):
            panics += 1; continue
        if b.endswith("UNSUPP") or "Unk(" in a:
            skipped += 1; continue
        compared += 1
        if a != b:
            dis.append((i, c, a, b))
    cov = ctx.coverage
    cov["disagreements_checked"] = cov.get("disagreements_checked", 0) + compared
    cov["model_skipped_outside_fragment"] = cov.get("model_skipped_outside_fragment", 0) + skipped
    cov["impl_panics"] = cov.get("impl_panics", 0) + panics
    return dis


def flow(ctx, prop_module, harness, n_quick, n_thorough, rule, level="proof", timeout=3000):
    concrete_before = len(ctx.violations)
    ok, msg = ctx.extract("prec")
    if not ok:
        ctx.broken.append("translator tie: " + msg)
    ctx.driver_exe = DRIVER
    proved = ctx.prove(prop_module, [prop_module, DRIVER])
    if proved and ctx.tier == "thorough":
        ctx.leanchecker(prop_module)
    n = n_thorough if ctx.tier == "thorough" else n_quick
    outdir = ctx.run_harness(harness, n, timeout=timeout)
    dis = None
    if outdir:
        ctx.load_stats(outdir)
        for key, case, detail in ctx.oracle_failures(outdir):
            ctx.report_concrete(key, {"case": case, "detail": detail[:2000], "harness": harness,
                                      "how": "property predicate evaluated on the real implementation"})
        if os.path.exists(os.path.join(common.LEAN, ".lake", "build", "bin", DRIVER)):
            dis = compare(ctx, outdir)
            if dis:
                for i, c, a, b in dis[:3]:
                    ctx.broken.append("correspondence: case %r impl=%r model=%r" % (c[:300], a[:300], b[:300]))
                ctx.coverage["disagreements"] = len(dis)
    concrete_new = [v for v in ctx.violations[concrete_before:] if v[2]]
    if ctx.broken and not concrete_new:
        first = dis[0] if dis else None
        ctx.report_unproved("; ".join(ctx.broken[:4]),
                            {"case": first[1], "impl": first[2], "model": first[3], "harness": harness} if first else {"harness": harness})
    ctx.finish(level=level, rule=rule)
