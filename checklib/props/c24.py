import os
from .. import common
from .. import replay as _replay

MANIFEST = {
    "text": "Lean 4 theorems over a line-by-line model of format/formatutil (splitStmts, tokOf, isDecl/isFuncDecl, seekAfter, startWith, "
            "firstNonDecl, codeOf, RearrangeFuncs, SourceEx) working on the (offset, token) list of the REAL scanner: C24_rearrange_chunks "
            "(src = pre ++ chunks, out = pre ++ func chunks ++ other chunks, chunks = src cut at the first token of every top-level statement "
            "from the first non-declaration on), C24_split_at_top_semicolons (statements = maximal pieces ending at a depth-0 ';'), "
            "C24_bytes_perm (byte permutation, equal length), C24_chunks_perm_stable (funcs first, order kept in each class), "
            "C24_no_nondecl_id / C24_one_class_id (identity), C24_no_panic, C24_sourceEx_ok / C24_sourceEx_result (Source a parameter). "
            "FULL under the hypothesis that token offsets are non-decreasing and within the source (checked on every real token list). "
            "Which statements count as function declarations is tied to the real parser by the harness oracle.",
    "note": "trusted: Lean kernel; the scanner is not modelled (its token list is an input, its ordering property is C15's); hand-written model "
            "tied by a differential run of the real RearrangeFuncs/SourceEx vs the compiled model; format.Source is a parameter of the SourceEx "
            "theorems and is run for real in a child process by the harness.",
    "technique": "Lean 4 proof (induction over the token list / statement list) + differential correspondence + parser-based classification oracle",
}

RULE = ("regression inputs in corpus/C24 first + fixed scripts + a seed-dependent sample of the repo's .xgo/.gop/.gox/.data files (all in thorough) + generated scripts: 0-10 chunks drawn "
        "from declarations, function/method/overload declarations, statements incl. function literals with/without results, comments (line, block, "
        "#, between func and '('), unbalanced braces, token soup; 30% of the chunks additionally get 1-2 comments inserted at random token boundaries (taken from the real scanner); 22% are well-formed 'statements then functions' scripts that need the hoisting; 60% are re-spelled between the tokens (blank/tab/nothing/newline/CRLF/glued comment/BOM, token sequence verified by re-scanning); separators newline/;/CRLF/none. Non-trivial = distinct script in which the "
        "rearrangement moves at least one chunk")


def post(ctx, outdir, dis):
    if not outdir:
        return
    p = os.path.join(outdir, "hyp.txt")
    if os.path.exists(p):
        lines = [l for l in open(p, errors="replace").read().split("\n") if l]
        ctx.coverage["hypothesis_failures"] = len(lines)
        if lines:
            ctx.broken.append("hypothesis WF (token offsets ordered, in range) fails on real scanner output: " + lines[0][:300])


def run(ctx):
    ctx.assumptions += [
        "the real scanner returns token offsets in non-decreasing order and within the file (hypothesis WF of the theorems; part of C15; re-checked on every case)",
        "sources on which the real scanner itself panics are outside C24 (they are C15's subject) and are only counted",
        "format.Source is deterministic (the SourceEx clause compares three separate calls)",
    ]
    common.standard(ctx, "GopModel.Props.C24", "c24", 600, 40000, RULE, driver="drv_pureb", post=post)


def replay(ctx, obj):
    ctx.driver_exe = "drv_pureb"
    return _replay.generic(ctx, obj)
