from .. import common
from . import _tplm

MANIFEST = {
    "text": "Lean 4 theorems over a transcription of List/ListOp/RangeOp/BinaryOpNR/R/BinaryExprNR/R of tpl/tpl.go (failed type assertions and "
            "index errors are an explicit panic outcome): C30_list_of, C30_listOp_map, C30_rangeOp_order (R results in source order, each once), "
            "C30_binaryOpNR_foldl, C30_binaryOpR_foldl_nested (left fold with the separators in order; nested lists folded recursively first), "
            "C30_binaryExpr_leftassoc, C30_binaryExprR_leftassoc_nested, C30_listOp_calls_in_order / C30_listOp_log / C30_rangeOp_calls_in_order / "
            "C30_binaryOp_calls_in_order / C30_binaryOpR_calls_in_order (helpers modelled over a state-passing callback: fn is called on the R results / "
            "separators in source order, each once; nested operands are folded right before the call that consumes them), C30_helpers_pure / C30_helpers_repeatable / C30_exprHelpers_pure / C30_list_then_rangeOp "
            "(in a sequence of helper calls on the same match result every call answers as on the original tree), C30_match_result_is_mkList (the matcher's R1 % R2 result has the shape the "
            "helpers expect), and C30_calc_correct: for the README calculator grammar (matcher tree calcEnv, return procedures built from BinaryOp(true,…)) "
            "over an abstract number type, parsing any lexed arithmetic expression yields the value a precedence-climbing reference evaluator yields. "
            "Tie: differential run of the real helpers on generated result trees (well-formed and damaged), of SEQUENCES h1,h2,h1 of helpers on one and the same "
            "real tree (exact-capacity, spare-capacity, prefix-of-a-longer-result layouts and results of a real Match; after every call the tree must be "
            "deep-equal to its copy: key helper-mutates-input) and of the real calculator (tpl.New of the "
            "README grammar + Go return procedures) against the compiled model; the real compiled calculator matcher tree is compared with calcEnv.",
    "note": "trusted: Lean kernel; hand-written model tied by the differential run; callbacks are total functions (fncall's re-panic and RetProc panics "
            "not modelled); calculator compared on integer-valued + - * expressions only (float64 exact there); BinaryExpr values are compared as "
            "(X, operator token index, Y) trees.",
    "technique": "Lean 4 proof (list induction; matcher evaluation lemmas) + differential correspondence + independent order/value oracle",
}

RULE = ("callbacks are RECORDING (log of arguments + call number in the returned value), so call order is compared and checked by the oracle; operands of the non-recursive helpers are also list-valued (vectors, pairs, empty lists, look-alikes of unfolded X % op results); 2/3 helper cases (one third of them sequences h1,h2,h1 over all helper pairs on the same tree in 3 memory layouts, plus all 25 pairs on real Match results of INT % \",\" with 1-5 elements, whole and as prefix self[:2] of a longer result; the calculator folds every match result twice): result trees generated from a nesting structure (depth<=3, 0-3 (op,operand) pairs per level; operands leaf/token/nil/nested), "
        "70% well-formed (with the expected order computed from the structure, not from the tree) and 30% damaged (missing/short/extra elements, "
        "non-list, non-token operator) for each of list, listop, rangeop, bopnr, bopr, bexnr, bexr; 1/3 calculator cases: expressions of 1-7 operands "
        "(0..12, repeated unary minus) over + - *, random spacing, 25% damaged; non-trivial = distinct case with >= 2 elements / >= 3 tokens")


def run(ctx):
    ctx.assumptions += ["callbacks passed to the helpers are total functions", "calculator values compared on integers (exact in float64)"]
    common.standard(ctx, "GopModel.Props.C30", "c30", 6000, 200000, RULE, driver=_tplm.DRIVER)


replay = _tplm.replay
