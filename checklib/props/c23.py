from .. import common
from .. import replay as _replay

MANIFEST = {
    "text": "Lean 4 theorems over a model of ast.SortImports/sortSpecs/collapse (run splitting by line gaps, stable sort by (path, name, comment), adjacent "
            "dedup, position reassignment, break at the first non-import declaration): C23_imports_set (the set of (name, path) imports of the file is unchanged), "
            "C23_only_dups_removed (result + removed specs is a permutation of the input specs up to positions; every removed spec has no comment and an exact "
            "duplicate survives), C23_pair_kept, C23_commented_kept, C23_runs_sorted (runs partition the block in order; every run of >1 specs comes out sorted by "
            "(path,name,comment), hence by path, on the first positions of the run), C23_ungrouped_untouched, C23_stops_at_first_other. FULL at the level of "
            "SortImports; that the printer keeps the runs apart (blank lines) is checked on the real output by the oracle only.",
    "note": "trusted: Lean kernel; hand-written model tied by a differential run of the real format.Source (before/after views through the real parser); sort.Slice is "
            "modelled as a stable sort (exact up to 12 specs per run, beyond that only for specs that differ in the observed (name, path)); comment re-attachment and "
            "MergeLine are not modelled.",
    "technique": "Lean 4 proof (insertion sort over a lexicographic strict total order, permutation/sublist reasoning) + differential correspondence via real format.Source and format.Node",
}

RULE = ("every file is formatted through BOTH format.Source and parser.ParseFile+format.Node; generated complete files (with //line and /*line*/ directives before/inside/after import blocks): optional package clause, 1-3 import declarations (ungrouped, parenthesised, empty), 0-21 specs per block drawn from a small path pool "
        "(so duplicates are frequent), names (alias . _), quoted/raw/escaped literals, trailing line and block comments (never with empty text, DESIGN 2.6), doc-comment "
        "and block-comment lines, blank lines (run boundaries), two specs on one line, file ending right after the last spec, a following func/var/statement; "
        "non-trivial = distinct file with a parenthesised import declaration and >= 2 specs")


def run(ctx):
    ctx.assumptions += [
        "trailing import comments have non-empty text (DESIGN 2.6: with an empty text the unstable sort may legitimately keep either duplicate)",
        "runs longer than 12 specs: specs with equal (path, name, comment text) are observably identical in (name, path), so the unspecified order of sort.Slice is not visible",
    ]
    common.standard(ctx, "GopModel.Props.C23", "c23", 2500, 80000, RULE, driver="drv_pureb")


def replay(ctx, obj):
    ctx.driver_exe = "drv_pureb"
    return _replay.generic(ctx, obj)
