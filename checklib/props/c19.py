from . import _m3

MANIFEST = {
    "text": "PARTIAL. Lean 4 theorems over the model M3 (expression printer + parser.ParseExpr): C19_print_parse_partial (for every expression tree of the fragment wf that is "
            "parser-shaped, i.e. has explicit paren nodes exactly where a context needs them, the printed items scan to the printed tokens and parse back to the very same tree), "
            "C19_print_parse_norm (for any wf tree the parser returns the tree with the printer's parentheses added and nested parentheses collapsed), C19_blank_sound (no two adjacent printed "
            "tokens combine), C19_nested_parens_collapse (witness that the full statement is false: ((a)) loses a ParenExpr; replayed on format.Source). Statements, declarations, comments, "
            "import sorting, line breaks and class files are not modelled: for them the property is only searched: real format.Source on every corpus file of the tree (*.xgo *.gox *.gop *.go ...), "
            "generated XGo programs (template generator + a grammar-directed generator over every statement/declaration kind written by the harness's own pretty-printer, normal/class) and printed AST mutants; output re-parsed and compared structurally modulo positions, comments and import order.",
    "note": "trusted: Lean kernel; hand-written model M3 tied by the differential run (real printer text, scanner tokens and ParseExpr tree on thousands of single-line expressions taken from the "
            "corpus) and by the translator target prec; the AST comparison (reflection dump that drops token.Pos, comments, scopes; sorts import specs) is part of the harness. "
            "Redundant-parentheses removal inherited from gofmt is recorded as known findings, not hidden.",
    "technique": "Lean 4 proof (structural induction with precedence invariants) + translator tie (prec) + differential correspondence on corpus expressions + bounded search with the real format.Source",
}

RULE = ("every source file of the tree under test (all XGo/class files, a seed-dependent third of the .go files in quick, all in thorough), 10 regression inputs, N template programs + N grammar-directed programs (harness/exprx/gram.go: every ast.Stmt/ast.Decl kind, labelled statements incl. empty ones in every position, `;`-separated and empty statements, goto/fallthrough, redundant parentheses to depth 3 in every expression/type position, import blocks with named/dot/blank imports, duplicate paths under different names, raw-string and escaped path spellings, comments and groups; text written by the generator itself with random blanks / line breaks / comments, not by the printer under test) "
        "(templates over all XGo statement kinds with synthesized expressions, 60% with perturbed blanks/line breaks/comments), N/2 AST mutants (operator change/swap, paren add/remove, unary/errwrap wrap, "
        "combine) printed and fed back as sources; up to 40 distinct single-line M3 expressions per corpus file as model cases; non-trivial = valid source longer than 40 bytes / expression with more than one node")


def run(ctx):
    ctx.assumptions += ["tree equality is evaluated modulo token.Pos fields, comments, scopes/objects and the order (and exact duplicates) of import specs inside one import declaration",
                        "only the single-line expression fragment wf is proved; everything else is search"]
    _m3.flow(ctx, "GopModel.Props.C19", "c19", 4000, 60000, RULE)
