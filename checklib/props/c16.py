from .. import common

MANIFEST = {
    "text": "PARTIAL. Statement: for every byte string in the decidable domain GoLexemesOnly (Model/ScanDomain.lean: no ILLEGAL token, no number+letter, "
            "no c\"/py\", no -> => <>, and not one of the three by-design deviations) the models of the XGo scanner and of go/scanner 1.23 return the same "
            "tokens (offset, kind, literal, inserted semicolons) and the same error-handler calls. Proved in Lean over the regenerated tables: "
            "C16_token_tables_embed, C16_keywords_equal, C16_codes_equal (same numeric kinds), C16_switch_agrees + C16_switch_differences + C16_switch_xgo_only "
            "(the operator switches coincide except for exactly -> <> => the '!' insertSemi, the parenthesis counter, ? $), "
            "C16_bang_newline_differs / C16_ellipsis_newline_differs / C16_semicolon_order_differs (the by-design deviations are real and outside the domain; "
            "known findings), C16_domain_examples. The general agreement theorem is NOT proved; it is checked per run by the differential harness: both models are "
            "validated against the real go/scanner and the real XGo scanner (tokens, errors), the model's domain decision and agreement verdict are "
            "compared with those computed on the real scanners, and any in-domain input on which the real scanners differ is a violation.",
    "note": "go/scanner is the one of the installed toolchain (go1.23.5); its model (dialect go, incl. the nlPos semicolon rule of Go >= 1.20) is "
            "validated only differentially; error lists are compared in call order (stronger than the statement's 'same offsets').",
    "technique": "Lean 4 proof over regenerated tables (kernel evaluation) + witnesses + differential correspondence of two models with two real scanners + domain oracle",
}

RULE = ("per source, comments on and off: Go-lexeme sequences (keywords, identifiers incl. non-ASCII, all numeric spellings, strings/runes/raw strings with "
        "escapes/CR, // and /* */ comments incl. //line directives, all Go operators) joined by white space or nothing, mutations, the C15 source stream "
        "(corpus windows of /repo, random bytes); thorough adds all numeric spellings <=5 chars over 12 symbols and string/rune spellings <=6 over 8 symbols; "
        "non-trivial = distinct in-domain source with >= 2 bytes")


def run(ctx):
    ctx.assumptions += ["reference = go/scanner of go1.23.5 in the sandbox; positions as byte offsets; kinds compared by Token.String()"]
    common.standard(ctx, "GopModel.Props.C16", "c16", 5000, 120000, RULE,
                    extract=("tokens", "scanswitch"), driver="drv_scan")
