from .. import common

MANIFEST = {
    "text": "FULL on a decidable domain. Lean 4 theorem C16_xgo_eq_go (and C16_agree): for EVERY byte string, every classification of non-ASCII "
            "letters/digits and every scanning mode, if the source is in GoLexemesOnly (Model/ScanDomain.lean, evaluated on the go model's own run: no ILLEGAL "
            "token, no number directly followed by a letter, no c\"/C\"/py\", no - = < directly followed by >, and none of the by-design deviations: '!' or '...' "
            "before a line end/comment, a comment beginning while a semicolon is pending) then the model of the XGo scanner and the model of go/scanner 1.23 "
            "return the same ScanOut: same tokens (offset, end, numeric kind, literal, inserted semicolons), same error-handler calls (offset, message) in the "
            "same order, same status. Proof: relational invariant R16 + lockstep of the two token loops (Lemmas/ScanCongr, ScanC16a-e) on top of C15's "
            "invariants. Also proved over the regenerated tables: C16_token_tables_embed, C16_keywords_equal, C16_codes_equal (equal numbers = same tokens), "
            "C16_switch_agrees / C16_switch_differences / C16_switch_xgo_only, and witnesses that every exclusion is a real difference "
            "(C16_bang_newline_differs, C16_ellipsis_newline_differs, C16_semicolon_order_differs, C16_lookahead_error_twice; known findings). "
            "Both models are tied to the real go/scanner and the real XGo scanner by the differential run, which also compares the model's domain decision and "
            "agreement verdict with those computed on the real scanners; an in-domain input on which the real scanners differ is a violation.",
    "note": "go/scanner is the one of the installed toolchain (go1.23.5); its model (dialect go, incl. the nlPos semicolon rule of Go >= 1.20) is "
            "validated only differentially; error lists are compared in call order (stronger than the statement's 'same offsets'); the domain excludes every "
            "comment that directly follows an operand on the same line (needed: there the XGo scanner's look-ahead reports read errors twice).",
    "technique": "Lean 4 proof (simulation between two dialects of one executable model, congruence lemmas, lockstep induction) + regenerated tables + differential correspondence of two models with two real scanners + domain oracle",
}

RULE = ("per source, comments on and off: Go-lexeme sequences (keywords, identifiers incl. non-ASCII, all numeric spellings, strings/runes/raw strings with "
        "escapes/CR, // and /* */ comments incl. //line directives, all Go operators) joined by white space or nothing, mutations, the C15 source stream "
        "(corpus windows of /repo, random bytes); thorough adds all numeric spellings <=5 chars over 12 symbols and string/rune spellings <=6 over 8 symbols; "
        "non-trivial = distinct in-domain source with >= 2 bytes")


def run(ctx):
    ctx.assumptions += ["reference = go/scanner of go1.23.5 in the sandbox; positions as byte offsets; kinds compared by Token.String()"]
    common.standard(ctx, "GopModel.Props.C16", "c16", 5000, 120000, RULE,
                    extract=("tokens", "scanswitch"), driver="drv_scan")
