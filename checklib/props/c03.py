from .. import common

MANIFEST = {
    "text": "PARTIAL (construct FULL for `!` and `?:`; statement shapes for `?`). Lean 4 theorems over M4: for every "
            "callee with n values + error, every argument list and every outcome, the lowered closure of `f(args)!` "
            "(cl/expr.go compileErrWrapExpr: `_gop_ret.., _gop_err = f(args)`, errors.NewFrame, panic) evaluates to "
            "the values or panics with the callee's error wrapped in a frame (C03_errwrap_bang, C03_bang_values_or_panic), "
            "`f(args)?:d` yields the value or d and d is not evaluated on success (C03_errwrap_default, "
            "C03_default_lazy); `f(args)?` in statement, define/assign and argument position (pure operands before "
            "it) equals the documented 'values, or the enclosing function returns zero values + wrapped error' up "
            "to the compiler's `_autoGo_n` temporary (C03_errwrap_q_stmt, C03_errwrap_q_define, C03_errwrap_q_arg, "
            "C03_q_zero_values); the wrapped call's probe event occurs exactly once (C03_errwrap_once).  Recorded "
            "deviation (not claimed by the property): `?` is hoisted in front of its statement, so an effectful "
            "operand to its left is evaluated after the wrapped call (C03_q_hoisted_order_witness).  Outside the "
            "theorems: the rest of the compiler; correspondence per run as for C02 (structural + behavioural, one "
            "built program), documented-expansion oracle, plus separately compiled probes for `?` with 0/1/2 values "
            "in statement/assignment position.  The model starts BELOW the parser (its input is the tree in which a "
            "command-style `f? a` has already become ErrWrap{Call}): the surface syntax of the operators — "
            "precedence of `x!`, `x?`, `x?:d` against unary/binary operators (the default is a unary expression), "
            "command-style `f! a, b` / `f? a`, the CallExpr{Fun: ErrWrapExpr} rewrite in compileCallExpr — is covered "
            "by no theorem, only by the harness family `errwrap_surface` (minimal-parenthesis printing by the "
            "documented precedence, command style, regression inputs corpus/C03) judged by the documented-expansion oracle.  "
            "Also HARNESS-ONLY: operands other than `f(args)` — `f!`/`f?`/`f?:d` without parentheses (auto-call), "
            "method values `c.get!`, field/index chains, call results `mk()()!` (family `errwrap_operand`; the model "
            "treats the operand as the zero-argument function it delegates to).",
    "note": "trusted: Lean kernel + propext/Classical.choice/Quot.sound; M4's Go semantics; qiniu/x/errors.NewFrame "
            "modelled as 'wraps; Unwrap gives inner; Code/Func recorded' (file/line not modelled); gogen's inline "
            "closure read as the block it emits (the closing goto/label is a jump to the next statement).",
    "technique": "Lean 4 proof (unfolding the lowered closure/inlined block against the documented meaning; weakening "
                 "lemma for the compiler temporaries) + differential tie against the real compiler, documented-"
                 "expansion oracle, compile/build probes",
}

RULE = ("generated scenarios: callees with 0/1/2 values + error that log each call, success and failure arguments; "
        "`?` inside functions with 6 result shapes (named/unnamed) in statement, define, assign, argument, "
        "argument-between-others, two-in-one-statement, nested, in-loop positions (+ tie-only: effectful left "
        "operand); `!` in 7 positions with and without failure; `?:` with effectful/nested defaults; surface syntax: 60% of "
        "the scenarios are printed with minimal parentheses by the documented precedence (`x()?:d OP y`, `OP x()!`, "
        "`-f()?`, negative/probe/nested defaults, errwrap inside index, slice literal and call arguments), `f! a` / "
        "`f? a` in command style; operands without argument list (identifier, method value, field/index chain, "
        "call result); 2 fixed regression scenarios (corpus/C03); 6 compile "
        "probes; non-trivial = distinct scenario whose trace has >= 3 events")


def run(ctx):
    ctx.assumptions += [
        "M4's Go semantics (Model/MiniGo.lean header) is validated against real Go only on generated programs",
        "errors.NewFrame is observed through Unwrap/Code/Func only",
    ]
    common.standard(ctx, "GopModel.Props.C03", "c03", 60, 1200, RULE, driver="drv_minigo")


def replay(ctx, obj):
    """Re-run one recorded scenario (regenerated from <seed>:<index>) through the real compiler and the model."""
    from .. import replay as rp
    ctx.driver_exe = "drv_minigo"
    return rp.generic(ctx, obj)
