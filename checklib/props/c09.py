from .. import common

MANIFEST = {
    "text": "PARTIAL (kernel + search). Lean 4 theorems over a transcription of Go's `//line file:line[:col]` semantics (go/scanner.updateLineInfo, trailingDigits, "
            "go/token's alternative positions) and of cl's emission layout (each statement / function preceded by its directive): C09_directive_roundtrip "
            "(the text commentStmtEx/commentFunc print is read back as (file, line) for EVERY file name and 1<=line<=2^30), C09_directive_roundtrip_nocol + "
            "C09_nocol_misread_witness (column-less form of the shadow entry; fails exactly for file names ending in ':<number>'), C09_stmt_first_line_partial "
            "(the physical line after a statement's directive has the statement's source position, whatever surrounds it), C09_stmt_lines_partial (following "
            "lines count on while no text line is read as a directive) and C09_func_entry_partial (directive at the doc comment + n doc lines puts `func` at its "
            "source line). The property itself (runtime position of the first call of every statement and of function entry in the BUILT program) is not proved: "
            "it is checked on generated multi-line programs (52 statement forms / 88 probe kinds incl. if/else-if/for/range/switch/type switch/select bodies, closures, lambdas, "
            "multi-line calls and literals, raw strings, local var/const/type declarations with //- and /*-style doc comments, methods, class files, shadow main) "
            "statically on the generated Go (go/parser positions of every probe call and func keyword) and at run time (runtime.Caller / FuncForPC entry line).",
    "note": "The model covers the directive reader and the layout only; that gogen/go-printer place the first call of a statement on the line right after its "
            "directive, and that cmd/compile reads directives like go/scanner, is established by the search (static + runtime oracle), not by proof. The `/*line*/` "
            "form is not modelled (never emitted). Expected line of a probe = the line on which its statement (or case clause) starts, as the property states. "
            "Function-entry lines are checked for declared functions/methods/class-file methods and the shadow main, not for closures inside expressions.",
    "technique": "Lean 4 proof (decimal round trip, last-colon splitting, fold over physical lines) + differential tie (model posFor vs go/scanner+go/token on every "
                 "generated file and on mutated/malformed directive streams) + static and runtime property oracle on built programs",
}

RULE = ("per case one generated XGo package (main file with 1-3 functions, 0-2 methods, optional .gox class file with 1-2 methods, top-level statements; each body 2-6 random "
        "statements of 52 forms (88 probe kinds: the first call of every statement plus calls in every expression position written on its first line, incl. for-in/comprehension filters, init statements, tags, case lists, select operands, defer/go arguments, lambda bodies, literal elements, multi-value returns) nested to depth 2, with comments / blank lines / block comments between statements), compiled with file-line ON under a random configuration (source directory vs RelativeBase: 12 relations incl. parent, sibling with common string prefix, unrelated, empty, relative dirs; optional statements-only class file, empty and comment-only files), 2/3 with parser.ParseComments "
        "(as the xgo tool) and 1/3 without (x/build); every probe is the first call of its statement; + per program 3 posfor cases (the Go file as is and 2 copies "
        "with 45% of the directives rewritten into 28 other, mostly malformed, shapes) + 5 hand-written directive corner cases; the first 6 (thorough 60) programs are built and run; "
        "non-trivial = distinct generated Go file with >= 1 directive")


def run(ctx):
    ctx.assumptions += [
        "go/scanner + go/token are taken as the reference reading of //line directives for tie (i); cmd/compile's reading is exercised only through the built programs",
        "programs are built with -gcflags=-l (no inlining in the generated main package) so that runtime.FuncForPC names the function a probe is written in",
    ]
    common.standard(ctx, "GopModel.Props.C09", "c09", 30, 400, RULE, driver="drv_compb")
