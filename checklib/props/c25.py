from .. import common

MANIFEST = {
    "text": "PARTIAL (kernel proved, the statement itself by correspondence/search). Lean 4 theorems over Model/GopStyle.lean, a transcription of "
            "x/format's formatCtx scope tracking, formatSelectorExpr/fmtToBuiltin, fncallStartingLowerCase and funcLitToLambdaExpr (after fix commits "
            "2c54056, 94c70f5, 52c6248, bcc471d, 1cb36f4, 642f3bf, a73422d): C25_scope_agrees / C25_file_scope_agrees (the formatter's scope stack computes "
            "exactly Go's lexical visibility on the program abstraction: blocks, :=, var, type, parameters, if/for/range/switch/clause scopes, labels), "
            "C25_rewrite_sound_partial (every X.Sel rewritten to a builtin has X resolving to the file's fmt import, Sel a print function and the "
            "builtin's name not hidden), C25_builtin_table_sound (that builtin is defined by cl/builtin.go as the same fmt function; regenerated "
            "tables), C25_import_removed_sound (the fmt import is deleted only if no reference is left), four witnesses that the snapshot's policy "
            "(only var/const) was unsound, C25_lowercase_call_partial + C25_lowercase_keyword_guard + three witnesses of the lower-casing defects that "
            "remain (findings), C25_lambda_shape (lambda keeps parameter names, arity and result expressions; named results and variadic literals are "
            "not converted). The property itself (the converted program compiles and prints the same) is NOT proved; it is searched: generated Go "
            "packages are built and run, converted by the real GopstyleSource, compiled by the real XGo compiler, built and run, output compared.",
    "note": "trusted: Lean kernel; hand transcription tied by (T) translator (printFuncs, fmtToBuiltin shape, cl/builtin.go fmt builtins, keyword "
            "table, guards) and (D): model rewrite decisions + import removal vs the real converted text on generated scope trees, lambda shapes and "
            "lower-casing vs the real output; xgoLookup (how the compiler resolves lower-cased members) is an assumption validated only by the "
            "findings; generated programs dodge three compiler defects that do not depend on the conversion (reported to the coordinator); seven "
            "recorded findings (see known_findings.txt) are exercised on every run.",
    "technique": "Lean 4 proof (kernel: scope tracking = Go visibility, rewrite soundness, tables, lambda shape) + translator + differential on "
                 "rewrite decisions + behavioural oracle Go program vs converted-and-compiled XGo program",
}

RULE = ("Go main packages of several files: scope-tree units (random trees of blocks, :=/var/type declarations of import and builtin names, "
        "func literals as call/argument, if/for/range/switch with init, labels, uses X.Sel in statement and expression positions; receivers, "
        "parameters and named results as binders) and 17 template kinds (fmt printing in all forms, fmt functions as values, kept imports, lambdas "
        "expr/block/unnamed/variadic/named-result/nested/defer/go, method calls, package calls, command-style first arguments, hand-written "
        "shadowing forms, builtin names as locals, control flow, header calls, globals, fmt calls in every expression position, call statements over "
        "selector chains of every root kind x depth 1-3 x method/field x 0/1/n arguments) with random statement subsets; feature programs for "
        "func main (unwrapped, not last, init order, exit code, panic, same-file and cross-file capture, leading var); static scope trees with "
        "real package names; lower-casing of 70 names; non-trivial = distinct case line")


# Known findings whose probe input is run on EVERY run.  If one of them stops failing the same way
# the tree changed there: information only (a NOTE, never a violation) - the generated cases, not
# the fixed probe, are what guards the behaviour.
PROBES = ['main-unwrap-leading-var', 'builtin-name-capture-crossfile', 'fmt-value-in-composite']


def post(ctx, outdir, dis):
    hit = {k for k, _ in ctx.known_hit}
    for k in PROBES:
        if k in ctx.known and k not in hit:
            msg = ("NOTE: property=C25 known finding key=%s: its fixed probe input no longer fails the same way "
                   "on this tree (information only)") % k
            print(msg)
            ctx.notes.append(msg)


def run(ctx):
    ctx.assumptions += [
        "programs are abstracted to Stmt trees for the proved kernel; expressions are skip/seq/use/funcLit trees",
        "the XGo compiler's member lookup for lower-cased names is modelled by xgoLookup (assumption)",
        "generated programs avoid three compiler defects independent of the conversion (lazy function loading in the caller's scope, import renaming, paren-less composite literal in if headers)",
    ]
    common.standard(ctx, "GopModel.Props.C25", "c25", 60, 360, RULE,
                    extract=("gopstyletab",), driver="drv_compc", post=post)
