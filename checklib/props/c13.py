from .. import common

MANIFEST = {
    "text": "Lean 4 theorems over transcriptions of the parser's error handling: C13_errors_sorted (the list returned on the normal and on "
            "the bailout path is sorted and a permutation of what was recorded), C13_error_limit / C13_error_limit_parser_only (without AllErrors "
            "parser.error records at most 11 entries) with the refutation C13_error_limit_total_fails of the unrestricted bound (scanner errors "
            "bypass it), C13_same_line_dedup, C13_advance_progress / C13_advance_stall_bound (every call of parser.advance not at EOF decreases "
            "(remaining tokens, stall budget); 12 consecutive calls consume a token), and over facts extracted from interface.go/parser.go: "
            "C13_bailout_never_escapes_partial, C13_nonbailout_panic_escapes, C13_errors_sorted_on_every_exit, C13_bailout_only_from_error. "
            "PARTIAL: termination of the whole parser, absence of non-bailout panics and 'nil error => no Bad nodes' are NOT proved; they are "
            "searched for by a byte-level fuzzing oracle over every entry point and mode.",
    "note": "trusted: Lean kernel; translator target parserrecover (shape check of parser.error / parser.advance / the deferred recovers, limits, "
            "sync sets, panic sites); the models are tied to the real parser.error and parser.advance by a differential run through the verif-tagged "
            "exports VerifErrorSeq / VerifAdvanceScript; the fuzzing oracle (mutation of corpus files at real token boundaries, all prefixes of small "
            "files, deep nesting in child processes, watchdog) bounds what is known about the unproved part.",
    "technique": "Lean 4 proof (induction over event lists / token lists, decide over extracted facts) + translator + differential tie + fuzzing oracle",
}

RULE = ("perr: random scripts of parser/scanner/sub-parser error events (clustered lines, <= 70 events, AllErrors on/off) through the real "
        "parser.error; adv: random scripts of next/advance(stmtStart|declStart|exprEnd) with bursts of repeated calls over the real scanner's tokens "
        "of mutated corpus files; fuzz: token-level mutants (delete/duplicate/swap/replace/insert XGo tokens, truncate, splice, byte flips, NUL, "
        "invalid UTF-8, repeated regions) of grammar-directed XGo expression/statement fragments (lambdas, mixed-element literals, comprehensions, "
        "errwrap, range exprs, env, domain text, command calls, tuples, labels/branches everywhere, interpolated strings from a $-syntax grammar; unchanged, "
        "wrapped as files, and mutated), the full product of 20 contexts x 14 operand shapes x 6 range forms x 12 suffixes (XGo conjunctions), and of the .go/.xgo/.gop/.gox/.spx/.gsh/.gmx files of the tree x 21 entry/mode combinations, every prefix of "
        "small files, fixed seeds, deep nesting; non-trivial = distinct script/case line with >= 2 events or > 3 tokens")


def run(ctx):
    ctx.assumptions += [
        "whole-parser termination and absence of panics outside the error handling are covered by search only (per-input budget of 20 s of process CPU time (deep-nesting children: 20-60 s of child CPU time); a wall-clock cap hit without exhausting the CPU budget is counted as inconclusive, never a violation)",
        "positions of errors are compared as (file name, line, column) in the order of scanner.ErrorList.Sort, as go/scanner does (line directives included)",
        "stack exhaustion on multi-megabyte nesting is probed in child processes in the thorough tier only",
    ]
    common.standard(ctx, "GopModel.Props.C13", "c13", 2000, 40000, RULE,
                    extract=("parserrecover",), driver="drv_parser")
