from .. import common

MANIFEST = {
    "text": "Lean 4 theorems about a line-by-line model of parser.ParseFSDir / ParseFSEntry / ParseFSEntries / defaultClassKind / path.Ext, "
            "for every file name (any bytes), every class-kind function, every mode/filter configuration and every listing: "
            "C34_included_iff (an entry reaches a parser iff it is a non-directory, has no underscore prefix, passes the filter, has a recognised "
            "extension .xgo/.gop/.go/.gox or is known to the class-kind function, and is not a gop_autogen*.go file), C34_switch / C34_classified "
            "(go/parser exactly for .go without ParseGoAsGoPlus; flags isClass/isProj/isNormalGox = extension + class-kind rule; class parse mode iff class file; "
            "slot keyed by the file's own name under the package name of its content), C34_isClass_iff / C34_isNormalGox_iff / C34_isProj_iff / "
            "C34_default_classkind, C34_grouping + C34_file_in_one_package (the package map is exactly the fold of the stored entries; each file in one slot), "
            "C34_error_iff, C34_entry_kind / C34_entry_agrees_with_dir / C34_entries_ok_iff (single-entry classification), C34_ext_* (path.Ext). FULL. "
            "The model is tied to /repo by a differential run of the real ParseFSDir/ParseFSEntries on generated in-memory directories "
            "(parser/fsx/memfs and an own FileSystem with sub-directories) against the compiled model, plus an independent restatement of the property "
            "evaluated on the implementation's package map.",
    "note": "trusted: Lean kernel (+propext/Classical.choice/Quot.sound); hand-written model of the directory loop tied by the differential run and a source fingerprint (a reviewed expectation file), defaultClassKind by a regenerated table; "
            "what the two parsers do with file *contents* is not modelled: five tiny content kinds enter as the table parseErr/pkgNameOf, validated by the same run; "
            "the class-kind function and the filter are assumed pure (finite tables in the run); fs.Join(dir,name) is taken as identity on the file-name part.",
    "technique": "Lean 4 proof (case analysis of the extension switch, induction over the listing fold) + translator tie (defaultClassKind switch regenerated as a table, C34_defaultClassKind_is_source; fingerprints of ParseFSDir/ParseFSEntry/ParseFSEntries/filter/reqPkg) + differential correspondence model vs real ParseFSDir/ParseFSEntries",
}

RULE = ("exhaustive single-entry directories over (17 stems x 19 extensions + near-miss names: prefix/suffix/infix extensions, truncations and case variants of every literal the code compares with - main.spx, gop_autogen, _, _test.gox, .xgo/.gop/.go/.gox/.spx/.gsh/.gmx ... - alone and behind stems) x {nil, 4 class-kind answers} x ParseGoAsGoPlus "
        "(thorough: x 5 content kinds x filter/dir/class-mode variants), for ParseFSDir and ParseFSEntries; plus random listings of 0-8 entries "
        "(names from stem+ext pools or random bytes, sub-directories, duplicates, 5 content kinds incl. class-only/non-class-only/broken/no-package-clause, "
        "class-kind = nil | arbitrary table | extension-based, filter tables, extra mode bits, missing directory); "
        "non-trivial = distinct case with at least one entry")


def replay(ctx, obj):
    from .. import replay as rp
    ctx.driver_exe = "drv_purea"
    ctx.lake("drv_purea")
    return rp.generic(ctx, obj)


def run(ctx):
    ctx.assumptions += [
        "contents of files reach the model only through the table parseErr/pkgNameOf over five generated content kinds",
        "class-kind functions and filters are pure functions of the file name / FileInfo",
        "names in one directory listing are distinct (C34_grouping, C34_file_in_one_package); listings with a repeated name are compared differentially only",
    ]
    common.standard(ctx, "GopModel.Props.C34", "c34", 3000, 60000, RULE, extract=("dirclassify",), driver="drv_purea")
