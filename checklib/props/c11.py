import re
from .. import common

MANIFEST = {
    "text": "PARTIAL (kernel proved, behaviour by correspondence/search). Lean 4 theorems over Model/ClassFile.lean, a transcription of "
            "ast.File.ClassFieldsDecl, of the field loop of cl.preloadGopFile (parseTypeEmbedName, chkRedecl) and of preloadFuncDecl's receiver "
            "rule: C11_class_fields_partial (for pairwise distinct names the generated struct has exactly the fields of the explicit struct "
            "written from the class var block: order kept, multi-name specs expanded, embedded/pointer-embedded fields named after the type, tags "
            "kept, nothing reported redeclared), C11_class_methods_partial (the file's functions are the methods, in order; receiver-less ones get "
            "the pointer receiver `this *T`), C11_first_var_block (only the FIRST var declaration, and only after import/const/type declarations, "
            "is the class var block), C11_later_var_blocks_are_globals, C11_no_var_block, witnesses C11_var_after_func_is_not_fields and "
            "C11_redeclared_field_reported. The behavioural half of the statement (a program using the class behaves like the explicit-struct "
            "program) is NOT proved; it is searched by compiling both forms of generated programs with the real compiler, building and running "
            "them and comparing the output per class.",
    "note": "trusted: Lean kernel; hand transcription tied by (D): go/types view of the real generated Go (fields name/type/embedded/tag, methods "
            "receiver name/type/pointer, package variables) vs model genType on every generated class; types compared as printed text; method "
            "bodies, static methods, overloads in class files, shadow entry and spx-style base classes are not modelled; initial values in the "
            "class var block are rejected by the parser (not generated); known deviation: class members capture universe names (len -> this.Len).",
    "technique": "Lean 4 proof (kernel: shape of the generated type) + differential go/types view + behavioural oracle class form vs explicit form",
}

RULE = ("generated class files C<i>.gox: 0..5 (thorough ..10) field specs over int,string,float64,bool,[]int,[]string,map[string]int, multi-name "
        "specs, embedded Base, pointer-embedded *Inner, pointer-embedded package type *strings.Replacer, *Base field, struct tags; optional "
        "import/const/type declarations before the var block, optional later var block (globals), no var block, var block after a function, "
        "repeated field name, members named like predeclared identifiers (min,len,println,string,nil,...) used bare, locals/loop variables/closure and lambda parameters/parameters/named results that shadow fields and methods at every nesting depth; 1..4 methods with int/string parameters and results whose bodies read/update fields through bare names and "
        "through this (random per occurrence), call earlier methods, append/map-set/len, if; main.xgo builds each class with new / keyed "
        "composite literals, calls every method twice and prints all fields; non-trivial = distinct class description")

_red = re.compile(r"redecl=([0-9a-f,]+)")


def canon(line):
    m = _red.search(line)
    if m:
        return "redecl=" + m.group(1)
    return line


# Known findings whose probe input is run on EVERY run.  If one of them stops failing the same way
# the tree changed there: information only (a NOTE, never a violation) - the generated cases, not
# the fixed probe, are what guards the behaviour.
PROBES = ['member-captures-builtin']


def post(ctx, outdir, dis):
    hit = {k for k, _ in ctx.known_hit}
    for k in PROBES:
        if k in ctx.known and k not in hit:
            msg = ("NOTE: property=C11 known finding key=%s: its fixed probe input no longer fails the same way "
                   "on this tree (information only)") % k
            print(msg)
            ctx.notes.append(msg)


def run(ctx):
    ctx.assumptions += [
        "types of fields are compared as text (types.TypeString vs the text written in the class file)",
        "the explicit form is produced by the generator from the same abstract description (this.x for every member reference)",
    ]
    common.standard(ctx, "GopModel.Props.C11", "c11", 80, 600, RULE, driver="drv_compc", canon=canon, post=post)
