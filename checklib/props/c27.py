from .. import common

MANIFEST = {
    "text": "Lean 4 theorems over a model of tpl.New = tpl/parser (parseFile ...) + tpl/cl/compile.go (NewEx, compileExpr, tokenExpr, "
            "checkToken, onConflictDefault incl. the Pos() calls) + tpl/token (Token.Len, Token.String, ForEach over the `tokens` table, "
            "guards regenerated from the source as written) + the tpl/matcher code NewEx runs (First of every matcher, CheckConflicts, "
            "Var.First with the recovered RecursiveError), in which every Go panic site on that path is an explicit outcome: "
            "C27_fromfile_total / C27_newex_total / C27_relocate_total (tpl.FromFile with any readable or unreadable source and tpl.NewEx = "
            "FromFile + Relocate never panic, over every kind of error FromFile returns: *scanner.Error, scanner.ErrorList, *matcher.Error, "
            "errors.List, and position-less ones such as cl.ErrNoDocFound / iox.ErrInvalidSource / I/O errors; Relocate's case list and its "
            "default clause are regenerated from tpl/tpl.go; false for the `default: panic(\"todo: ...\")` the tree had before commit e019000), "
            "C27_new_total / C27_new_outcomes (for every token list and every behaviour of strconv.Unquote/UnquoteChar the result is a "
            "parse error, a compiler, ErrNoDocFound or an error list: never a panic), C27_compile_total (NewEx never panics on any tree the "
            "parser returns without error), C27_token_len_total, C27_token_string_total, C27_check_token_total (table accessors total for "
            "every token value; false for the guard `tok <= len(tokens)` the tree had before commit 1afd4c3). FULL statement. Tie: "
            "translator (token constants, table, guards of Len/String, shape of ForEach, `idents` map) + differential run of the real "
            "tpl.New and cl.NewEx (outcome class, error classes with the offending name/literal, conflicts with both first sets) against "
            "the compiled model on all single-byte literals in every escape/quote form, all two-character operator strings, all token "
            "spellings and near misses, escapes, malformed and generated multi-rule grammars (recursion, duplicates, undefined names), "
            "repo grammars; plus cl.NewEx on trees with parse errors (the model predicts the real panics there).",
    "note": "trusted: Lean kernel + propext/Classical.choice/Quot.sound; strconv.Unquote/UnquoteChar, token.FileSet.Position, fmt and "
            "qiniu/x/errors are assumed not to panic (their results are parameters / not modelled); hypothesis of C27_new_total: a CHAR "
            "token has >= 2 bytes (true of the scanner whenever it reports no error: scanRune; checked on every harness case); RetProc "
            "a grammar text on which the real scanner itself panics yields no tokens for the model and is evaluated by the no-panic oracle only "
            "(case `tplsrc <hex>`, no model line); parameters of tpl.New/tpl.NewEx (user callbacks; retProcs panics by design on an odd count or a non-string rule name: documented "
            "programmer errors, excluded explicitly) are outside the property; error positions/messages and relocatePos arithmetic (plain "
            "int additions on a non-nil *Position) are not modelled; hand-written "
            "compile/First model tied by the differential run only.",
    "technique": "Lean 4 proof (structural induction over the AST / matcher, fuel adequacy by erasing visited rules) + translator "
                 "(tpl/token tables and guards) + differential correspondence model vs real tpl.New / cl.NewEx",
}

RULE = ("fixed grammars; every byte 0..255 as \\xHH, \\OOO, raw byte and \\u00HH inside \"..\", '..' and `..`; escape table; every pair of "
        "ASCII punctuation characters as a string literal; every token spelling, spelling+'=', doubled last char, truncated, blank-prefixed; "
        "~65 valid and malformed numeric lexemes (0, 089, 0b2, 0o9, 0xg, 1__2, 1e+, .5, 0x1p, 1i, 3r, 10km, long digit runs ...) at offset 0, after "
        "other text, glued to identifiers/strings/operators and separated, also in random grammars and the damage alphabet; repo grammar corpus; random multi-rule grammars (1-5 rules over 6 names, left recursion, recursion under a choice, duplicates, "
        "undefined and builtin identifiers, => {..} blocks), character-level damaged grammars, random escape/punctuation literals; "
        "for every tplnew case a tplnewex case (real tpl.NewEx with varying line/col incl. 0, negative and 2^40, ShowConflict on and off, "
        "and real tpl.FromFile; dynamic error types compared), plus the same text as []byte, io.Reader, *bytes.Buffer and as unreadable "
        "sources (nil *bytes.Buffer, int, failing reader, nil); tplcl cases (cl.NewEx despite parse errors) from damaged grammars and expressions with a removed operand; distinct by token list, "
        "non-trivial = the compiler was reached (no parse error)")


def _post(ctx, outdir, dis):
    """A fatal error of the implementation (e.g. stack overflow in First) kills the harness: the input
    it was running is in current.txt and is a concrete failure of C27 (worse than a panic)."""
    import os
    if getattr(ctx, "harness_crash", None) is None:
        return
    cur = os.path.join(ctx.work, "run", "current.txt")
    if not os.path.exists(cur):
        return
    lines = open(cur, errors="replace").read().split("\n")
    if lines and lines[0].startswith("tplnew"):
        ctx.report_concrete("new-fatal", {"case": lines[0], "source": lines[1] if len(lines) > 1 else "",
                                          "harness": "c27", "detail": ctx.harness_crash[-1500:],
                                          "how": "tpl.New killed the process (fatal error, not recoverable)"})


def replay(ctx, obj):
    import subprocess, os
    from .. import replay as rp
    if obj.get("key") == "new-fatal":
        exe, out = ctx.build_harness("c27")
        if exe is None:
            print(out); return 1
        p = subprocess.run([exe, "-replay", obj["case"], "-out", os.path.join(ctx.work, "replay")], env=common.GOENV,
                           stdout=subprocess.PIPE, stderr=subprocess.STDOUT, text=True, errors="replace")
        print(p.stdout[-3000:])
        print("harness exit status:", p.returncode)
        if p.returncode != 0:
            return 1
        # did not die this time (e.g. the 10 s guard fired first): evaluate it like any other case
    return rp.generic(ctx, obj)


def run(ctx):
    ctx.assumptions += [
        "a CHAR token without scanner error has both quotes (len >= 2); marker CHAR-LIT-SHORT-WITHOUT-SCAN-ERROR on every case otherwise",
        "strconv.Unquote / strconv.UnquoteChar do not panic; their real results are passed to the model per literal",
    ]
    common.standard(ctx, "GopModel.Props.C27", "c27", 3000, 300000, RULE,
                    extract=("tpltoken",), driver="drv_tplfront", post=_post)
