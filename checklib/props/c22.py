from . import _m3

MANIFEST = {
    "text": "TODO",
    "note": "TODO",
    "technique": "Lean 4 proof (structural induction with precedence invariants) + translator tie (Token.Precedence, mayCombine) + differential correspondence model vs real printer/scanner/parser + property oracle on synthesized trees",
}

RULE = "TODO"


def run(ctx):
    _m3.flow(ctx, "GopModel.Props.C22", "c22", 12000, 200000, RULE)
