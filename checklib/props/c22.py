from . import _m3

MANIFEST = {
    "text": "Lean 4 theorems over the model M3 of the XGo expression printer (expr1/binaryExpr/cutoff/walkBinary/mayCombine) and of parser.ParseExpr: "
            "C22_print_parse_synth (for every tree of the fragment wf without paren nodes: scanning the printed items gives exactly the printed tokens and parsing them returns the tree "
            "up to the parentheses the printer inserted), C22_blank_sound (no two adjacent printed tokens combine: - -x, a / *p, a & &b, x - -y, 1 .x), C22_parse_printed (the parser returns norm e, "
            "the tree with exactly the printer's parentheses), C22_fuel_adequate, C22_prec_table_covered (every operator of the regenerated Token.Precedence table is inside the theorem's domain). "
            "FULL on the fragment wf = ident, literals, number-unit, $env, all 19 binary operators, unary + - ! ^ & <-, *x, paren, selector, index, call with ..., x! x? x?:d, x.(T), lambda expressions (all four parameter/result forms); "
            "PARTIAL for C22 as a whole: slice and composite/slice literal are only checked by the differential run and the oracle (three non-round-tripping shapes are proved "
            "as model witnesses C22_witness_* and recorded as findings); command-style calls and statements are not modelled; a synthesized STATEMENT-tree family (every ast.Stmt kind incl. explicit/implicit empty statements, labels around every kind in every list position, case/comm clauses, init statements, decl statements, XGo for-in) is checked by the oracle only (real printer.Fprint -> real ParseFile -> structural compare): no Lean theorem covers statements.",
    "note": "trusted: Lean kernel (propext, Classical.choice, Quot.sound); the hand-written model M3 (tied by the differential run: rendered text byte-for-byte against printer.Fprint, "
            "token stream against the real scanner, parse result against parser.ParseExpr, combines-table against the real scanner on all operator pairs) and the translator target prec "
            "(Token.Precedence, *Prec constants, mayCombine are regenerated from /repo on every run); identifiers/literal texts are opaque byte strings assumed to scan as one token of their kind.",
    "technique": "Lean 4 proof (structural induction with precedence invariants) + translator tie (Token.Precedence, mayCombine) + differential correspondence model vs real printer/scanner/parser + property oracle on synthesized trees",
}

RULE = ("exhaustive: every binary operator x 30 operand shapes on both sides (unary ops, *x, x!, x?, x?:d, selector, call, index, lambda) in normal and compact mode, "
        "all ordered pairs of binary operators in both association orders, every unary/postfix form over the same operands; all ordered pairs of operator tokens + 13 word/literal classes "
        "for the glue table; a corpus of 150 expression strings and token-level mutants of printed trees for the parser tie; random synthesized trees (depth<=4) over all M3 node kinds and N/4+200 synthesized func bodies over all statement kinds from the "
        "one seed; a case is non-trivial when its tree has more than one node")


def run(ctx):
    _m3.flow(ctx, "GopModel.Props.C22", "c22", 12000, 200000, RULE)
