from .. import common
from . import _tplm

MANIFEST = {
    "text": "Lean 4 theorems C28_matchF_terminates / C28_match_terminates / C28_parse_terminates / C28_parseExpr_terminates / "
            "C28_fuel_irrelevant, C28_check_never_fuel (the model of the compile-time check always answers ok / recursive variable): for every rule table that passes checkAll (transcription of the checks at the end of cl.NewEx: "
            "CheckConflicts of every choice, then First of every rule, both raising RecursiveError on left recursion) and has the shape "
            "compileExpr produces (no empty sequence, every referenced variable is a rule), every token list and every position, matchF "
            "(transcription of every Match method of tpl/matcher/match.go) returns within the explicit fuel matchBound = "
            "N*(F+S+1)+F+S; proved via zero-width soundness of First's mayEmpty (matchF_zero_width) and a lexicographic measure "
            "(remaining tokens, First-fuel of the matcher). FULL for the tree with the two fix commits (zero-progress break in *R/+R; "
            "left-recursion check of every rule). Tie: differential run on adversarial grammars (nullable repetition bodies, direct/indirect/"
            "hidden left recursion) of real tpl/cl compile result (ok / recursive variable X), real stops, and real Match/Parse/ParseExpr "
            "executed in a child process with wall-clock timeout and bounded stack, against the model run with matchBound fuel.",
    "note": "trusted: Lean kernel; hand-written model + differential tie; termination of the scanner is C15/C32's subject; "
            "return procedures are assumed to terminate; return procedures that FAIL at run time (panic with string / tpl.Panic / error value, which Var.Match turns "
            "into Dyn or ordinary errors) are not in the model: such cases are excluded from the differential and covered by the harness-only termination "
            "oracle (same CPU-budget child process).",
    "technique": "Lean 4 proof (well-founded measure made explicit as fuel) + differential correspondence + timeout oracle in a child process",
}

RULE = ("80 fixed cases with nullable repetition bodies whose return procedure fails on the empty match (4 failure kinds) + the same random grammars re-run with failing return procedures on 70% of their rules for 30% of the grammars (termination oracle only); 20 fixed adversarial grammars (doc = *?\"a\", a = a \"x\", left recursion hidden behind nullable prefixes / not reachable from a choice, "
        "*SPACE, *\"\", nested repetitions, nullable R1 % R2) + random grammars with 60% deliberately nullable repetition bodies and 35% "
        "sequences starting with a rule reference, 1-4 rules; 2 inputs each (derivations + edits); each match in a child process "
        "(3 s CPU budget, 48 MB stack); thorough adds an exhaustive enumeration of all 1745 single-rule grammars x, op x, x OP y, op(x OP y) over "
        "atoms {\"a\", \"\", doc, ?\"a\", SPACE} against all 39 inputs of <= 3 words over {a, b}; "
        "non-trivial = distinct (grammar, input) with >= 1 token")


def run(ctx):
    ctx.assumptions += [
        "return procedures terminate",
        "the rule table has the shape cl.compileExpr produces (Env.wf; evaluated by the driver on every compiled grammar: wf=1)",
    ]
    common.standard(ctx, "GopModel.Props.C28", "c28", 2000, 40000, RULE, driver=_tplm.DRIVER, canon=_tplm.canon)


replay = _tplm.replay
