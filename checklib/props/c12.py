from .. import common

MANIFEST = {
    "text": "PARTIAL (kernel + search). Lean 4 theorems over a model of Go block scoping on a linearised program (Model/Scope.lean: decl/use/open/close events, a stack of "
            "frames over the package block): C12_defs_at_own_pos, C12_uses_elsewhere (a use never resolves to its own position), C12_resolve_innermost and "
            "C12_resolve_none (lookup returns the innermost, latest binding; none iff unbound), C12_scope_exit_restores (a well-nested block leaves the scope stack "
            "unchanged, never 'unbalanced'), and C12_impl_group_position_witness (what cl+gogen record for the 2nd name of `a, b := …` violates the first invariant). "
            "The statement of properties.jsonl is about the real typesutil.Info and is NOT proved: it is evaluated as a decidable predicate on Info dumps of the real "
            "checker for corpus files of the tree that type-check, generated XGo programs (statements of every kind, closures, class files) and generated "
            "Go-compatible programs, the latter also compared identifier by identifier with go/types (object kind, name, type string, and the declaration it resolves to).",
    "note": "The scope model is tied to go/types (not to cl) by a differential run over the generated programs' function bodies (linearisation in the harness is trusted); "
            "typesutil is tied to go/types by the identifier comparison. Labels, struct fields and methods are outside the lexical model. Deviations of the unchanged "
            "tree from the documented invariants that need a gogen API change (one position for all names of a multi-name declaration, none for range / for-phrase "
            "variables; labels not recorded; `append` recorded as a gogen template function; the class-file receiver's synthesized type identifier in Types) are "
            "listed in known_findings.txt and reported as KNOWN-FINDING. Every expression go/types assigns a type to must have an entry in Types (Info doc: 'invalid expressions are "
            "omitted'); agreement of the recorded type strings for non-identifier expressions is only counted (untyped constants are recorded before conversion).",
    "technique": "Lean 4 proof (induction over the event stream / well-nested blocks) + differential tie (scope model vs go/types; typesutil vs go/types) + invariant "
                 "oracle on real Info dumps",
}

RULE = ("corpus: every directory of the tree under test (any depth) with *.xgo/*.gop/*.gox files, checked as a package or file by file, as far as the checker accepts it (time cap 30 s quick, 300 s thorough, seed-dependent start); "
        "generated: per index one Go-compatible program of 1-2 files (0-4 package-level types/consts/vars/funcs named like XGo builtins or predeclared Go identifiers, declared after first use or in the other file; package-level consts/vars/types/interface declared before or after use, a method, 2-3 functions with named / "
        "variadic results, structs with embedded fields of every form, tags, anonymous structs, embedded interfaces, main; bodies of 26 statement kinds nested to depth 3 over a 14-name pool so that names are re-declared and shadowed in if/for/switch/"
        "type-switch/range/select/closure scopes) checked by typesutil (as .xgo) and by go/types, and every 4th index one XGo program (33 statement kinds, closures, "
        "class file); non-trivial = distinct Go-compatible program that go/types accepts (its scope-event stream is the model case)")


def run(ctx):
    ctx.assumptions += [
        "an identifier's declaration is identified by the identifier whose Defs entry the object is (not by Object.Pos, which the known findings show to be unreliable)",
        "identifiers the compiler synthesizes (no position) are not subject to the Uses invariant",
    ]
    common.standard(ctx, "GopModel.Props.C12", "c12", 48, 1500, RULE, driver="drv_compb")
