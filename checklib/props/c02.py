from .. import common

MANIFEST = {
    "text": "PARTIAL (per construct FULL). Lean 4 theorems over the shared program-semantics model M4 "
            "(Model/MiniGo.lean, MiniXGo.lean, Lower.lean): for every element/key/value expression, container "
            "expression, filter (plain or `if x := i; c`) and every number and nesting of for-phrases, the lowered "
            "form that transcribes cl/expr.go compileComprehensionExpr (closure, `_gop_ret`/`_gop_ok`, loops opened "
            "from the last phrase to the first) evaluates under the Go semantics to exactly the documented meaning "
            "(values, panics, early exit AND the trace of probe events, i.e. order and number of evaluations): "
            "C02_compr_list, C02_compr_map, C02_compr_select, C02_compr_exists (with C02_exists_early_exit: nothing "
            "after the first hit is evaluated), C02_forin_stmt, C02_append_send, C02_list_lit, C02_map_lit, "
            "C02_cmd_call, and C02_expr_sugar: the same for arbitrarily nested sugar expressions (induction over the "
            "expression syntax).  What stays outside the theorems: the whole compiler is not modelled (type "
            "inference, gogen's code builder, every other statement form); that `lower` is what the real compiler "
            "emits is established per run by correspondence only: (structural) the Go text emitted by the real "
            "compiler for each generated scenario is re-printed canonically and must equal print(lower p) from the "
            "Lean driver; (behavioural) all scenarios are compiled by the real compiler into ONE program, built and "
            "run, and each scenario's probe trace must equal evalGo(lower p) = specEval p computed by the driver; "
            "the property oracle compares the trace with the generator's own documented explicit Go expansion "
            "compiled by plain Go in the same binary.  `lower` is a pure function of the tree (C02_lower_pure): "
            "a compiler that mutates the AST so that a node compiled again (overload retry in compileCallExpr) "
            "gets different code is outside every theorem and is covered only by the harness family "
            "`overload_arg` (sugar as arguments of overloaded calls whose first candidates reject another argument).  "
            "HARNESS-ONLY (no M4 node, no theorem; behavioural tie + oracle, no structural line): range expressions "
            "`a:b:c` as for-in/comprehension containers (family `forin_range`: the model iterates over the documented "
            "sequence rng(a,b,c), operands once, left to right) and NAMED container types as targets of `<-`, literals, "
            "for-in and comprehensions (family `named_types`: the model sees the underlying type); fixed regression "
            "inputs in corpus/C02.",
    "note": "trusted: Lean kernel + propext/Classical.choice/Quot.sound; the hand-written Go semantics of M4 (ints "
            "unbounded, slices as values, map iteration in key order, no aliasing) tied to real Go only by the "
            "differential run; the type annotations on sugar nodes stand for gogen's type inference; generators keep "
            "map containers with >= 2 entries to order-insensitive bodies; range expressions (a:b:c) are C04's.",
    "technique": "Lean 4 proof (structural induction over the sugar syntax, simulation of the lowered loops against "
                 "the documented fold) + differential tie (structural and behavioural) against the real compiler, "
                 "documented-expansion oracle",
}

RULE = ("generated MiniXGo scenario functions (one XGo package per batch of 150, compiled by the real compiler, "
        "built and run once): list/map literals with effectful elements, `a <- v...` (also `...`), for-in "
        "(key/no key, filter with side effects, nested, over lists and maps), list/map/select(1,2 values)/exists "
        "comprehensions with 1-3 for-phrases (outer variables used by inner containers and filters, `if x := i; c`, "
        "probed containers, nested comprehensions as container or element), command-style calls, sugar as "
        "arguments of 2-3-candidate overloaded functions where earlier candidates reject the last argument "
        "(every argument compiled 2-3 times); for-in and comprehensions over range expressions with effectful "
        "start/end/step; named slice/map types (declared after use) as append targets, literals and containers; "
        "2 fixed regression scenarios (corpus/C02); containers "
        "empty/singleton/duplicates/longer; non-trivial = distinct scenario whose trace has >= 3 events")


def run(ctx):
    ctx.assumptions += [
        "M4's Go semantics (Model/MiniGo.lean header) is validated against real Go only on generated programs",
        "type annotations of sugar nodes equal the types gogen infers (checked by the structural tie)",
    ]
    common.standard(ctx, "GopModel.Props.C02", "c02", 100, 1500, RULE, driver="drv_minigo")


def replay(ctx, obj):
    """Re-run one recorded scenario (regenerated from <seed>:<index>) through the real compiler and the model."""
    from .. import replay as rp
    ctx.driver_exe = "drv_minigo"
    return rp.generic(ctx, obj)
