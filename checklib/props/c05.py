from .. import common

MANIFEST = {
    "text": "Lean 4 theorems over a statement-by-statement model of parser.stringLitEx / hasExtra / stringLit (the goto loop splitting the text of a string literal "
            "into string parts and ${...} expression parts) and of cl.compileStringLitEx (a part ending in $$ loses one $, non-string expressions get .string/.error, "
            "one part -> the part itself, otherwise stringutil.Concat): C05_split_spec (for every byte string the implementation's reading - parts re-rendered, or the "
            "text itself when the literal gets no Extra - equals the one-pass grammar (char | $$ | ${e})*, including both errors and their offsets and the "
            "lone-$ tolerance rule), C05_split_pos (every expression part's offsets are exactly the bytes between ${ and the first }), C05_split_total "
            "(ends within len+1 passes), C05_dollar_escape, C05_concat_lower and C05_eval_once_left_to_right (the lowered call evaluates to the concatenation of the "
            "pieces' string forms with the embedded expressions evaluated once each, left to right, on an expression-list model with an event trace). "
            "FULL for splitting/offsets/termination/escape/evaluation order; the string forms (strconv for int/int64/uint64, Error(), String()) and Go's unquoting of "
            "the text pieces are parameters of the theorems and are checked on one really compiled and executed program per run.",
    "note": "trusted: Lean kernel; hand-written model tied by the differential run against the real parser (Extra.Parts, offsets, errors) and against the output of a "
            "compiled program; gogen's member lookup (.string/.error) and stringutil.Concat are not modelled beyond 'string form' / 'join'; floats excluded; "
            "bool, named string types and small integer types have no .string member (such literals do not compile: outside the property, recorded in design notes).",
    "technique": "Lean 4 proof (induction on loop fuel against a structurally recursive one-pass specification) + differential run of the real parser vs the compiled model "
                 "+ one generated compiled program per run (interpolation vs explicit concatenation, value and evaluation trace)",
}

RULE = ("A: literal texts parsed by the real parser - exhaustive over the alphabet {a,$,{,}} up to length L (quick 7, thorough 9), every pair of 28 special pieces "
        "($$, ${e}, lone $, unterminated ${, nested braces, bad expressions, multi-byte runes) alone and embedded, in \"...\" and raw literals, plus N random "
        "concatenations of plain pieces (escapes, quotes, multi-byte) and special pieces; B: 600 (thorough 3000) valid literals in one compiled program, each with 0-6 "
        "holes over int/int64/uint64/string/error/Stringer probe functions with an event trace, variables, arithmetic and nested calls, text pieces with escapes, "
        "$$, braces, raw strings, trailing $ and ${; a case = one literal; non-trivial = contains a $")


def run(ctx):
    ctx.assumptions += [
        "the text between the quotes is what the scanner delivers as one STRING token (literals the scanner splits differently are skipped and counted)",
        "string forms: strconv.Itoa/FormatInt/FormatUint, Error(), String() as computed by the Go standard library on the harness side; floats excluded",
        "unquoting distributes over the split points (a `$` is never inside an escape sequence of a valid literal)",
    ]
    common.standard(ctx, "GopModel.Props.C05", "c05", 20000, 300000, RULE, driver="drv_range")


def replay(ctx, obj):
    from .. import replay as rp
    ctx.driver_exe = "drv_range"
    return rp.generic(ctx, obj)
