from .. import common

MANIFEST = {
    "text": "Lean 4 theorems over a line-by-line model of tpl/parser/parser.go (parseFile, parseRule, lambdaExpr, parseExpr, "
            "parseTermList, parseTerm, parseTerm2, parseFactor, expect) that runs on the token list of the real TPL scanner: "
            "C31_print_parse_expr / C31_print_parse (for EVERY well-formed grammar expression, parsing its minimal-parenthesis printing "
            "for the precedence unary(* + ?) > ++ > % > sequence > |, with % and ++ left-associative, returns exactly that expression "
            "and no error, in every context that does not continue the expression), C31_print_injective (the notation is unambiguous), "
            "C31_noerr_wellformed / C31_illformed_errors (a result containing an empty Sequence, a one-element Sequence/Choice, a nil "
            "operand or an undocumented operator always comes with a reported error: a missing factor is never silent), "
            "C31_fuel_adequate (the parser model always returns). FULL statement. The model is tied to /repo by a differential run: the "
            "real scanner's tokens go to the real ParseEx and to the compiled model, trees and parser errors (kind, offset) compared; the "
            "Lean printer is tied to the real scanner by comparing its token lists with the scanned text of an independent Go printer; "
            "token numbering is regenerated from tpl/token/token.go on every run.",
    "note": "trusted: Lean kernel + propext/Classical.choice/Quot.sound; hand-written parser model tied by the differential run only "
            "(generator quality bounds it); positions are not modelled (error offsets are recovered from the number of tokens left); "
            "ParseRetProc callbacks (=> { ... } bodies) are not modelled (tpl.New passes none); the TPL scanner is outside C31 (its output "
            "is the model's input).",
    "technique": "Lean 4 proof (structural induction on the expression, 'for all sufficiently large fuel' composition, fuel adequacy and "
                 "monotonicity by induction on fuel) + translator (token table) + differential correspondence model vs real tpl/parser",
}

RULE = ("fixed malformed/edge grammars; every grammar text in the repo (tpl/parser/_testdata, tpl`...` literals in demo/doc/cl/parser "
        "test data); exhaustive normal-form expressions up to N nodes (quick 4, thorough 6) over {ident, string}; random normal-form "
        "expressions (<= 25 nodes; all operators, identifiers incl. non-ASCII, char/string/raw literals) printed with minimal "
        "parentheses and random blanks/comments/newlines, each also as a `tplprint` case; the same with one operand removed (hole) and "
        "with 1-3 token-level mutations (drop, insert stray operator/bracket, duplicate, swap); a case is distinct by its token list and "
        "non-trivial with >= 5 tokens (tplprint: >= 3 nodes)")


def run(ctx):
    ctx.assumptions += [
        "the real TPL scanner is deterministic and keeps returning EOF after the first EOF (checked on every case: EOF-NOT-STICKY marker)",
        "parser errors are told apart from scanner errors by their 'expected ...' wording (count cross-checked on every case)",
    ]
    common.standard(ctx, "GopModel.Props.C31", "c31", 3000, 250000, RULE,
                    extract=("tpltoken",), driver="drv_tplfront")
