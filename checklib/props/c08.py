from .. import common

MANIFEST = {
    "text": "PARTIAL (kernel + search). Lean 4 theorems over an abstract model of cl's symbol loader (Model/DetSched.lean: symbols in source order, "
            "on-demand loading of dependencies, load-once, output slots reserved at preload vs declarations appended at load time, errors appended when met): "
            "C08_emit_order_indep_partial (for any two orders of a map-driven loading phase the loaded set, the source-ordered part of the output and the error "
            "MULTISET are equal), C08_fuel_adequate, C08_sorted_iteration_deterministic (iterating sorted keys, as the repaired code does, makes the whole result "
            "incl. error order independent of map order), the converse witnesses C08_error_order_depends_on_pi / C08_append_order_depends_on_pi, and "
            "C08_mapranges_classified over the table of every range-over-map in cl and x/build regenerated from /repo by go/types. The statement of "
            "properties.jsonl itself (byte-identical output of the real compiler) is NOT proved: it is searched for counterexamples by compiling generated "
            "packages (XGo + Go + class files, cross-file references both ways, overloads, inits, 2-4 independent errors, two-package directories, cl/_testspx) "
            "20x in one process and in 5 fresh processes with shuffled file presentation and requiring identical bytes / error text.",
    "note": "The theorem is about the loader abstraction only; gogen, the statement/expression compilers and go/format are not modelled. The model is tied to "
            "the code by (T) the map-range table (a new or edited map iteration breaks the tie) and (D) predicting the order of top-level declarations / of "
            "errors of generated 'sched' packages with the Lean driver. Map iteration inside gogen (outside /repo) is covered by the search only. "
            "Parse errors (parser.ParseFSDir returns 'the first error encountered' in listing order by its documented contract) are not generated.",
    "technique": "Lean 4 proof (DFS/closure invariant over an abstract loader) + translator tie (go/types table of map ranges) + differential tie (declaration/error "
                 "order of generated packages) + repeated-compilation search in shared and fresh processes",
}

RULE = ("per case one generated package: 50% 'sched' (1-3 XGo + 0-2 Go files, 4-12 consts/vars/funcs/Go-file types with random cross references and "
        "0-3 injected errors; model-predicted; file names with colliding stems, case-only differences, extension-sensitive order), 40% 'rich' (adds struct types referring across XGo/Go files, methods, overloads in both styles, init funcs, "
        "normal .gox classes, script-style files (statements only, first at byte 0), empty and comment-only files, a random source-dir/RelativeBase configuration, spx-like project/work classes of 2 kinds, 3-5 independent errors in a quarter of them: undefined names, a type mismatch and every kind of redeclaration — func/type/const/var/method/import name/cross-kind — within one file and across XGo, Go and class files), 10% directories with 2-3 non-main packages, "
        "+ 3 regression shapes + cl/_testspx; each compiled 20x (thorough 30x) in-process and once in each of 5 (8) fresh processes, file listing shuffled every time; "
        "non-trivial = sched package with >= 2 files (distinct by content)")


def run(ctx):
    ctx.assumptions += [
        "file presentation order is varied through the memfs listing order and an explicit file list (parser.ParseFSEntries); the OS directory order (sorted by os.ReadDir) is not varied",
        "map iteration order is varied by Go's per-range randomisation and per-process hash seeds, not enumerated",
    ]
    common.standard(ctx, "GopModel.Props.C08", "c08", 160, 2000, RULE,
                    extract=("mapranges",), driver="drv_compb")
