from .. import common, asttables

MANIFEST = {
    "text": "Lean 4: the bodies of ALL Pos()/End() methods of the AST node types are REGENERATED on every run from ast/ast.go and ast/ast_gop.go as terms of a "
            "small language (Generated/Spans.lean: posBody, endBody; restricted Go: field refs, child Pos/End, first/last element, + const, + len, nil / NoPos / "
            "len tests, if/return; File.End tied by fingerprint) and evaluated by SpanModel.evalBody with the Go panics (nil dereference, index out of range) "
            "explicit. Specification: a hand-written layout per node kind (own tokens and children in source order; extract/c17_layout.txt). Theorems: "
            "generic soundness of the canonical first-element / last-element bodies (canonPos_sound, canonEnd_sound: for every layout, all field values and "
            "children) + kernel-decided obligations on the regenerated bodies (C17_pos_bodies_canonical, C17_end_bodies_canonical: the Pos/End method of each of "
            "the 65 specified kinds - all 16 XGo-specific kinds except File, 49 Go kinds incl. CallExpr (paren / command / tuple form) and ChanType - IS the canonical body of its layout up to removal of redundant tests (prune_sound); C17_layout_coverage) give "
            "C17_pos_exact, C17_end_exact (Pos = start of the first element present, End = stop of the last), C17_children_within, C17_children_ordered, "
            "C17_span_nonneg. PARTIAL: that the parser stores the offsets the layout speaks of (hypothesis `ordered`, layout tokens are real tokens) and the "
            "re-parse clause are checked on the implementation only (every node of every error-free parse of the corpus, of layout-mutated and of generated "
            "XGo files: token-boundary, bracket-balance, nesting/order, layout, position-field (every token.Pos field points at its reviewed token inside the span) "
            "and re-parse (expression / type / command call / statement) oracles); 5 kinds (FieldList, FuncType, ValueSpec, "
            "GenDecl, File) have no layout and are covered by correspondence and the source oracle only.",
    "note": "trusted: Lean kernel; translator extract/spans.go (method body -> Body term; fingerprints of File.End, Ident.Implicit, litPrefix) and the hand-written "
            "semantics of File.End (Model/SpanOpaque.lean), both tied by the differential run of the real Pos()/End() of every node against the generated bodies "
            "(parsed and synthesised trees, panics included); the layout file; the real scanner used to re-scan sources; reviewed exemptions: synthetic nodes "
            "(shadow entry function and its brace-less block, implicit identifiers, nodes without tokens), Doc/Comment groups lie outside spans, FuncDecl.Type "
            "overlaps Recv/Name (go/ast convention), File.Pos of a file without package clause is offset 0.",
    "technique": "Lean 4 proof (generic soundness by induction over layouts + decide on regenerated method bodies) + translator tie + differential correspondence vs real Pos()/End() + source oracles",
}

RULE = ("every .xgo/.gox/.spx/.gmx/.gsh file of the repo and a seeded sample of .go files (all in thorough) that parse without error, half as many (quick) / six times as many (thorough) layout-mutated "
        "XGo files (blanks / tabs / comments inserted between tokens), the embedded regression corpus first (as is and in 3 deterministic dense layouts), one dense layout per XGo corpus file, n random XGo scripts from a construct-biased generator (1/4 in another parser mode), n token-level mutants of valid sources, and for each node kind 4 (40) "
        "reflection-synthesised trees, half of them with random nils (differential only); non-trivial = distinct tree with >= 5 nodes; every node of every "
        "parsed tree is checked by the oracles")


def run(ctx):
    ctx.assumptions += [
        "layout order = source order and layout tokens = real tokens are validated on every parsed node by the harness, not proved",
        "token offsets come from the real XGo scanner (ScanComments)",
    ]
    ctx.build_harness = lambda name, tags="verif": asttables.build_harness_overlay(ctx, name)
    common.standard(ctx, "GopModel.Props.C17", "c17", 300, 6000, RULE, extract=("walk", "spans"), driver="drv_ast")


def replay(ctx, obj):
    return asttables.replay(ctx, obj, 2)   # span <recipe>
