import base64, hashlib, os, subprocess
from .. import common

MANIFEST = {
    "text": "Lean 4 theorems about a line-by-line model of tool/imp.go dirHash + canCl (+ modfile.ClassExt, fmt %x) giving the exact SHA-256 preimage of the package hash: "
            "C36_preimage_inj (two directory states have the same preimage iff their lists of (name,size,mtime) records of non-directory, non-underscore, compilable entries "
            "are equal - for arbitrary file-name bytes, every IsClass function, both values of self), C36_history (same statement at any two times of any history), "
            "C36_set_differs_detected + C36_same_set_same_preimage (set reading, with ReadDir's sorted order), C36_change_detected, C36_appear_disappear_detected, "
            "C36_irrelevant_entries_ignored, C36_relevant_iff, C36_canCl_iff; C36_old_encoding_collides / C36_fixed_encoding_separates document the defect repaired in /repo "
            "(raw %s name: 'a.go\\t1\\t2\\nfile\\tb.go' collided with {a.go,b.go}). FULL at preimage level (hash collisions of SHA-256 are outside, DESIGN 2.6). "
            "Tie: random histories of create/edit/touch/rename/delete/mkdir/symlink/remove-dir on real temp directories in three module configurations; the real "
            "Importer.PkgHash is compared with base64(SHA-256(model preimage)) at every state, and the property (hash equal iff relevant set equal) is evaluated "
            "on the real hashes for all pairs of states of a history, incl. adversarial names that spell record separators.",
    "note": "trusted: Lean kernel (+propext/Classical.choice/Quot.sound); SHA-256/base64 (Python hashlib) treated as injective on explored preimages; "
            "mod.IsClass modelled as membership in the registered extension list (checked at harness start); 'regular file' read as 'non-directory entry' "
            "(symlinks/other non-directories are hashed by the code); os.ReadDir/Lstat are the environment (file system time-stamp granularity included).",
    "technique": "Lean 4 proof (unique decoding of the record encoding, injectivity of %x) + differential correspondence real PkgHash vs SHA-256 of model preimage over file-system histories",
}

RULE = ("histories of 14 (thorough 40) random operations on a real directory per module configuration (no classes / default classes / custom gox.mod project), "
        "both self=false/true at every state; names from a pool of compilable, non-compilable, underscore, class-extension and tab/newline/non-UTF-8 names + random; "
        "sizes 0..70k, mtimes incl. 0, negative, +-1ns, 2^62; fixed collision scenario; non-trivial = state with at least one relevant file")


def canon(x):
    out = []
    for t in x.split(" "):
        if t.startswith("pre:"):
            h = t[4:]
            try:
                b = b"" if h == "-" else bytes.fromhex(h)
                t = "h:" + base64.b64encode(hashlib.sha256(b).digest()).decode().rstrip("=")
            except ValueError:
                pass
        out.append(t)
    return " ".join(out)


def replay(ctx, obj):
    import json
    print(json.dumps(obj, indent=1))
    case = obj.get("case")
    if not case:
        print("replay: nothing executable recorded (see no_longer_checks)"); return 1
    ctx.driver_exe = "drv_purea"
    ctx.lake("drv_purea")
    exe, out = ctx.build_harness("c36")
    if exe is None:
        print(out); return 1
    outdir = os.path.join(ctx.work, "replay")
    subprocess.run([exe, "-replay", case, "-out", outdir], env=common.GOENV)
    dis = ctx.differential(outdir, canon)
    orc = ctx.oracle_failures(outdir)
    print("impl :", open(os.path.join(outdir, "impl.txt")).read().strip())
    print("model:", canon(open(os.path.join(outdir, "model.txt")).read().strip()))
    for o in orc: print("ORACLE-FAIL", o)
    return 1 if (dis or orc) else 0


def run(ctx):
    ctx.assumptions += [
        "stated on the SHA-256 preimage (DESIGN 2.6); the hash function itself is not modelled",
        "'regular file' = non-directory directory entry; Info() = lstat",
        "os.ReadDir returns entries sorted by file name (hypothesis of C36_same_set_same_preimage)",
    ]
    ctx.trusted.append("Python hashlib.sha256/base64 used to turn the model's preimage into the value compared with the real PkgHash")
    common.standard(ctx, "GopModel.Props.C36", "c36", 3000, 40000, RULE, canon=canon, driver="drv_purea")
