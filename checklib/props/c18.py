from .. import common, asttables

MANIFEST = {
    "text": "Lean 4: generic theorem C18_walk_visits over rose trees (for ANY child-step table that lists the specification's child fields in "
            "order, the model of Walk/Inspect makes exactly the visitor calls of the preorder-with-nil specification: every node of the child "
            "relation once, parent first, siblings in source order, Visit(nil) after each node's children, for every pruning visitor), "
            "instantiated for the table REGENERATED on every run from the type switch of ast.Walk by kernel-decided obligations on the regenerated "
            "tables: C18_walk_table_complete (every node kind has a case: no panic), C18_walk_table_fields (every Node-typed field of every node "
            "struct is walked exactly once), C18_walk_table_order (declaration = source order, reviewed flag guards), C18_walk_table_ops, "
            "C18_walk_table_nilable (fields documented 'or nil' are nil-tested), giving C18_walk_visits_real / C18_walk_visits_documented / "
            "C18_no_panic / C18_root_first / C18_nil_after_each_node for every tree respecting the documented nil-ability. FULL statement. "
            "Tie: translator (walk.go switch + struct declarations -> Generated/Walk.lean) and a differential run of the real ast.Walk and "
            "ast.Inspect against the compiled model on dumped trees (all corpus files, layout-mutated files, Package values, reflection-"
            "synthesised trees with every registered kind as root, malformed trees with nils), plus a reflection-based oracle on the real "
            "visit sequence that does not use the model.",
    "note": "trusted: Lean kernel; translator extract/walk.go (statement forms of Walk's switch -> steps; struct field classification); reviewed exception "
            "lists (File.Imports/Comments/ShadowEntry, Package.GoFiles excluded; FuncDecl.Shadow and File.NoPkgDecl guards; DomainTextLit.Extra carriers); "
            "the tree dumper (reflection) and generators; visitors are modelled as pure prune predicates on node identity; Package.Files map order "
            "is canonicalised (sorted) on the implementation side; foreign trees (tpl grammar in DomainTextLit.Extra, go/ast files) are not entered.",
    "technique": "Lean 4 proof (structural induction over nested rose trees + decide on regenerated tables) + translator tie + differential correspondence vs real ast.Walk/Inspect",
}

RULE = ("every .xgo/.gox/.spx/.gmx/.gsh file of the repo (error-free parses) unpruned and 1/3 of them with a prune modulus, a seeded sample of .go files "
        "(all in thorough), layout-mutated XGo files, an embedded regression corpus incl. near-valid files, generated scripts and token-level mutants of valid sources in several parser modes (every tree returned with err == nil is walked; foreign node types are reported), Package values over random files, and for every node kind registered by the translator "
        "n/(kinds+1) reflection-synthesised trees with that kind as root (3/4 well-formed per the documented nil-ability, 1/4 malformed with random "
        "nils; depth 1-6; prune modulus 0 or 2..10); non-trivial = distinct tree with >= 3 nodes")


def run(ctx):
    ctx.assumptions += [
        "a tree is well-formed when nil occurs only in single-node fields whose declaration comment says so (translator: nilable) - parser output satisfies this on the corpus",
        "visitors keep going when called with nil and decide pruning by node identity only",
    ]
    ctx.build_harness = lambda name, tags="verif": asttables.build_harness_overlay(ctx, name)
    common.standard(ctx, "GopModel.Props.C18", "c18", 2000, 20000, RULE, extract=("walk",), driver="drv_ast")


def replay(ctx, obj):
    return asttables.replay(ctx, obj, 3)   # walk <m> <recipe>
