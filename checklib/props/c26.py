import os, subprocess
from .. import common

MANIFEST = {
    "text": "Lean 4 theorems over the file-system model GopModel.FS (M7) and the program REGENERATED on every run from "
            "cmd/internal/gopfmt/fmt.go:writeFileWithBackup by the translator target fmtwrite: C26_crash_safe (killed after any number of "
            "file-system operations, or inside one with a partial write, the path holds the complete original or the complete formatted "
            "content), C26_mode_kept (after a complete run the path holds the formatted content with the original permission bits), "
            "C26_crash_safe_any_failure (same crash clause on every error path: any subset of the calls may fail, cleanup runs). They hold "
            "for ALL contents, modes, stale temp files, umasks, crash points and partial-write lengths, via the generic soundness theorem "
            "crash_safe_of_safeSeq / mode_kept_of_safeSeqMode for the decidable condition SafeSeq and kernel-decided SafeSeq facts about the "
            "generated program. FULL. C26_old_* prove that the sequence before the repair (remove(path) before rename, no chmod) violated "
            "both clauses. Tie: (T) translator; (D) the system calls of the real `xgo fmt` (strace -f) are mapped to the same operation list "
            "and compared with the generated program, the abstract checker is run on the observed list, and the real file-system state after "
            "a real SIGKILL before/after every file-system-mutating system call is compared with the model's runUntilCrash. The property "
            "oracle (content in {original, formatted} after each kill; formatted content and original mode after complete runs, modes "
            "0644/0600/0755/0640/0444/0664; rerun in a directory with a stale temp file; paths that are symlinks (same dir, other dir, chain) or "
            "hard-linked files, read through the path) is evaluated on the real binary. os.Stat and os.Lstat are distinct model operations "
            "(the state has a symlink node; the theorems quantify over whether the path is a symlink).",
    "note": "trusted: Lean kernel; the FS model (atomic rename, no effect of failed calls, one open descriptor) validated against the real kernel "
            "only at the enumerated crash points; the translator extract/fmtwrite.go; the harness (strace log mapping, ptrace killer). Crash = the "
            "process is killed (SIGKILL); machine crashes / power loss (no fsync in the code) are outside the statement. Partial writes are "
            "covered by the theorem only (a kill inside write(2) cannot be placed from outside).",
    "technique": "Lean 4 proof (soundness of an abstract interpretation SafeSeq over FS-operation traces + kernel-decided SafeSeq of the regenerated "
                 "program) + translator tie + strace/ptrace differential and crash enumeration on the real xgo binary",
}

RULE = ("files that xgo fmt must rewrite: generated XGo sources (17 B .. >1 MB in thorough), a .go file, a file name with a blank, de-formatted "
        "corpus files of the tree; per file: a traced complete run per mode, then one run per crash point = (file-system-mutating system call of "
        "the run, killed before | after) + before exit (all points of all files in thorough; all points of two files + 'before' points of two "
        "more + the points around the rename of the rest + every 'before' point of the 0444 and the 0755 file + the points around the rename "
        "of one symlink / absolute symlink / symlink chain / hard-linked path each, in quick). Non-trivial = a run in which the kill was placed at the planned call, or a "
        "traced complete run")


def build_xgo(ctx):
    exe = os.path.join(ctx.work, "xgo-under-test")
    p = subprocess.Popen(["go", "build", "-o", exe, "./cmd/xgo"], cwd=common.REPO, env=common.GOENV,
                         stdout=subprocess.PIPE, stderr=subprocess.STDOUT, text=True)
    return exe, p


def flow(ctx, replay_case=None):
    ctx.assumptions += [
        "a crash is the death of the xgo process at an arbitrary point (SIGKILL); durability across a machine crash is not claimed (the code never fsyncs)",
        "POSIX semantics of the kernel under the model: rename(2) replaces atomically, a failed call has no effect, a killed write leaves a prefix",
        "the temp file is only reachable through the name os.CreateTemp chose (no concurrent writer touches the directory during the run)",
    ]
    exe, gobuild = build_xgo(ctx)
    ok, msg = ctx.extract("fmtwrite")
    gen = os.path.join(common.LEAN, "GopModel", "Generated", "FmtWrite.lean")
    if not ok:
        ctx.broken.append("translator tie: " + msg)
        # no stale program may stand in for the current source
        if os.path.exists(gen):
            os.remove(gen)
    ctx.log("translator done")
    ctx.driver_exe = "drv_fs"
    proved = ctx.prove("GopModel.Props.C26", ["GopModel.Props.C26", "drv_fs"])
    if proved and ctx.tier == "thorough":
        ctx.leanchecker("GopModel.Props.C26")
    ctx.log("lean build + axiom audit done (proved=%s)" % proved)
    out, _ = gobuild.communicate()
    ctx.log("xgo built")
    outdir = None
    if gobuild.returncode != 0:
        ctx.broken.append("cmd/xgo of the tree under test does not build: " + out[-800:])
    else:
        n = 14 if ctx.tier == "thorough" else 8
        extra = ["-xgo", exe, "-work", os.path.join(ctx.work, "fs")]
        if replay_case:
            extra += ["-replay", replay_case]
        outdir = ctx.run_harness("c26", n, extra=extra, timeout=2400)
    ctx.log("harness done")
    dis = None
    fails = []
    if outdir:
        ctx.load_stats(outdir)
        fails = ctx.oracle_failures(outdir)
        for key, case, detail in fails:
            ctx.report_concrete(key, {"case": case, "detail": detail, "harness": "c26",
                                      "how": "property predicate evaluated on the real xgo binary (file system inspected after the run / after SIGKILL)"})
        lake_ok = not any(b.startswith("lean:") or b.startswith("lake build failed") for b in ctx.broken)
        if ok and lake_ok and os.path.exists(os.path.join(common.LEAN, ".lake", "build", "bin", "drv_fs")):
            dis = ctx.differential(outdir)
            if dis:
                for i, c, a, b in dis[:3]:
                    ctx.broken.append("correspondence: case %r impl=%r model=%r" % (c[:300], a[:300], b[:300]))
                ctx.coverage["disagreements"] = len(dis)
    return outdir, dis, fails


def run(ctx):
    before = len(ctx.violations)
    outdir, dis, fails = flow(ctx)
    concrete_new = [v for v in ctx.violations[before:] if v[2]]
    if ctx.broken and not concrete_new:
        first = dis[0] if dis else None
        ctx.report_unproved("; ".join(ctx.broken[:4]),
                            {"case": first[1], "impl": first[2], "model": first[3], "harness": "c26"} if first else {"harness": "c26"})
    ctx.finish(level="proof", rule=RULE)


def replay(ctx, obj):
    import json
    print(json.dumps(obj, indent=1))
    case = obj.get("case")
    if not case:
        print("replay: nothing executable recorded (see no_longer_checks)")
        return 1
    ctx.tier = obj.get("tier", ctx.tier)
    outdir, dis, fails = flow(ctx, replay_case=case)
    for f in fails:
        print("ORACLE-FAIL", f)
    for d in (dis or [])[:5]:
        print("DISAGREEMENT", d)
    return 1 if (fails or dis or ctx.broken) else 0
