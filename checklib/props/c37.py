from .. import common

MANIFEST = {
    "text": "Lean 4: generic theorem C37_conv_roundtrip (for ANY pair of converter tables P,Q: TablesInverse P Q -> for every supported "
            "Go file tree d, togo(fromgo d) is defined (no panic) and has the same header as d; structural induction over the mutual "
            "Tree/Forest datatype) + C37_tables_inverse (the decidable obligation TablesInverse evaluated by the kernel on the two tables "
            "regenerated from ast/fromgo/gopast.go and ast/togo/goast.go on every run) => C37_roundtrip_current, C37_no_panic. FULL on the "
            "fixed tree (togo fix 3d16e66). The obligation is shown non-vacuous by kernel-checked rejections of tables that drop "
            "TypeParams/Tag/Recv or lack the IndexListExpr case. The table interpreter (the model of both converters, panics included) and "
            "the header/Supported specification are tied to the real code by a differential run: real fromgo.ASTFile/togo.ASTFile vs the "
            "compiled model on every declaration of the corpus (tree under test, GOROOT sample, generated generic-heavy declarations, "
            "fault-injected trees, togo alone on XGo-parser trees), incl. model-vs-go/printer agreement on 'same header' and "
            "model-vs-harness agreement on 'supported'.",
    "note": "trusted: Lean kernel (+propext, Classical.choice, Quot.sound); translator extract/conv.go (restricted statement forms, refuses "
            "anything else); the specification tables hdrTable/Cls.kinds (which fields of which go/ast kinds form the printed header: "
            "hand-written, validated against go/printer by the HEQ/HNE column of the differential run); serialiser of go/ast and xgo/ast "
            "trees (reflection, field-generic). Not modelled: ast.Object links, comment groups and bodies (opaque), Incomplete flags "
            "(false in parser output), typed-nil pointers inside interfaces, ASTFile mode flags other than 0. nil vs empty Names slices "
            "are identified (go/printer prints `(T)` for a single unnamed result after the round trip; existing goldens rely on it).",
    "technique": "Lean 4 proof (generic structural induction + kernel-decided table obligation) + translator (T) of both converter files "
                 "+ differential correspondence (D) of the table interpreter vs the real converters + go/printer header oracle",
}

RULE = ("one case per declaration (File with one Decl) of: 40 hand-written seeds covering every construct named in the property; every "
        "*.go file under the tree under test (quick: first 2500 decls) and a GOROOT/src sample with generics-heavy packages (slices, maps, "
        "sync/atomic, cmp, iter, ...; thorough adds go/types, reflect, net/http, runtime, internal/types/testdata ...); N random generated "
        "files (1-3 decls each: type params, instantiations, func types, tags, embedded fields, unions with ~, variadics, chan dirs, iota "
        "groups, multi-name specs, func literals), 20% of them fault-injected (BadExpr, nil FuncType/Field/Spec/Decl, wrong Tok, spec/Tok "
        "mismatch, BadDecl); togo alone on XGo-parser trees of seeds and *.xgo/*.gop/*.gox files; non-trivial = distinct well-formed tree "
        "with >= 6 nodes")


def run(ctx):
    ctx.assumptions += [
        "the printed header of a declaration depends only on the fields listed in hdrTable (checked against go/printer on every case)",
        "go/parser output for error-free files satisfies `supported` (checked on every corpus declaration: S1 column)",
    ]
    common.standard(ctx, "GopModel.Props.C37", "c37", 600, 12000, RULE,
                    extract=("conv",), driver="drv_conv",
                    pre=lambda c: c.lake("drv_conv"))


def replay(ctx, obj):
    """Re-run one recorded case through the real converters and the model (drv_conv)."""
    from .. import replay as rp
    ctx.driver_exe = "drv_conv"
    return rp.generic(ctx, obj)
