import os, subprocess
from .. import common

MANIFEST = {
    "text": "PARTIAL. Lean 4 theorems C21_comments_emitted_partial (for EVERY comment list and EVERY sequence of print positions / "
            "impliedSemi values / look-ahead calls followed by the final flush, the emitted comment sequence IS the input comment list: "
            "each exactly once, order kept), C21_prefix_invariant_partial (at every moment the emitted comments are a prefix of the input), "
            "C21_no_emit_twice_partial, C21_commentSizeBefore_pure, plus the necessity witnesses C21_offset_at_infinity_not_emitted / "
            "C21_beyond_infinity_no_progress / C21_flush_before_start_nil, over an executable model of the printer's comment queue "
            "(nextComment, commentBefore, commentSizeBefore, intersperseComments loop, flush, printNode start, fprint final flush). "
            "Tie (T): extract/commentsites.go turns printer/*.go into a fact record (callers of writeComment/intersperseComments/nextComment, every "
            "write of cindex/comment/commentOffset/commentInfo and its form, setComment guard, statement shapes, final flush, infinity) and the kernel "
            "decides C21_sites_tie. Tie (D): the model is run against the REAL flush/intersperseComments/nextComment/commentSizeBefore (verif-tagged "
            "export printer.VerifQueue) on exhaustive small and random queues/operation sequences. NOT proved, covered by search only: that writing a comment "
            "keeps its text intact and separate from neighbouring tokens, that the parser collects every comment, import sorting. Search: real format.Source on "
            "every corpus file / embedded test program / generated program, as is and with a uniquely numbered comment inserted at token boundaries "
            "(19 styles: //, /* */, multi-line, #, own-line, doc groups, adjacent pairs, and randomly shaped multi-line block comments covering "
            "stripCommonPrefix: lines of stars, bullets, space/tab/mixed indentation, blank lines, closing */ alone or after text, less/more indented, CRLF), "
            "plus an exhaustive enumeration of block-comment shapes x 5 hosts, comparing the comment sequence of the RAW input with that of the output, both read by the harness' own lexer (independent of the scanner under test; validated on every case against the real scanner and on .go files against go/scanner), plus UTF-8 validity of the output. Comment texts include non-ASCII text with every last-byte class, white-space runes, control characters, interior CR, CRLF, long lines.",
    "note": "trusted: Lean kernel; the translator's reading of printer/*.go (fact extraction by go/ast); the verif-tagged export printer/verif_queue.go "
            "(mimics printNode's `p.nextComment()` and fprint's final flush, both shapes checked by the translator); the harness' comment normalisation "
            "(trailing white-space CHARACTERS (whole runes) per line, leading white space of continuation lines of /*-comments, CR), its own comment lexer (lexer.go) and its import-sort exemption "
            "(comments inside `import ( … )` compared as a multiset); generators/corpus bound what the search sees. The theorems assume every comment is in "
            "p.comments (file.Comments non-nil => useNodeComments=false => setComment inert), offsets < 2^30.",
    "technique": "Lean 4 proof (invariant over a fuel-indexed loop model, induction on fuel / remaining queue) + translator fact record decided by the kernel "
                 "+ differential run against the real queue methods + comment-insertion search on the real formatter",
}

MAX_KEYS = 6

RULE = ("queue differential: all op lists up to length 2 (thorough 3) over 6 positions x impliedSemi for 7 queue shapes + random queues (0-6 groups, "
        "0-3 comments each, four comment styles, sorted and unsorted offsets, empty groups, positions incl. infinity, print/sizeBefore/before ops); "
        "search: every parsing file of the tree (.xgo .gox .go .spx .gmx .gsh ...), every raw-string test program embedded in *_test.go, generated XGo programs; "
        "720 (thorough 18k) enumerated multi-line block-comment shapes x 5 hosts; 2060 sources enumerating comment lines that end in a rune with each last byte 0x80..0xBF (2/3/4-byte), CR / control / white-space-rune / long-line cases; as is + all-boundaries block-comment variant + single insertions (30 % of the quick samples use random rich block comments) (quick: sampled; thorough: every boundary x 18 styles, sources <= 1200 bytes first and completely, "
        "the rest in random order until the 11 min budget ends); a case counts as non-trivial if the formatted source contains >= 1 comment / the queue has >= 1 comment and >= 1 op")


def _search(ctx, outdir, dis):
    n = 600000 if ctx.tier == "thorough" else 40000
    sd = ctx.run_harness("c21", n, extra=["-mode", "search"], sub="search", timeout=3000)
    if not sd:
        return
    ctx.load_stats(sd)
    fails = ctx.oracle_failures(sd)
    fails.sort(key=lambda f: f[0].startswith("corr:"))  # property failures first
    seen, extra = set(), {}
    ncorr = 0
    for key, case, detail in fails:
        if key.startswith("corr:"):
            # the harness' own raw-source comment lexer and the real scanner (or go/scanner)
            # read different comments: broken correspondence of the oracle's reference, not
            # by itself a violation of C21
            ncorr += 1
            if ncorr <= 3:
                ctx.broken.append("correspondence %s: %s [%s]" % (key, detail[:300], case[:200]))
            continue
        # one broken piece of the printer shows up under many (node kind, position) keys:
        # report the first MAX_KEYS distinct unknown keys as violations, count the rest
        if key not in ctx.known and key not in seen and len(seen) >= MAX_KEYS:
            extra[key] = extra.get(key, 0) + 1
            continue
        seen.add(key)
        ctx.report_concrete(key, {"case": case, "detail": detail, "harness": "c21",
                                  "how": "C21 predicate (comments of the RAW input == comments of the formatted output, both read by the harness' own lexer, normalised; output valid UTF-8) on the real format.Source"})
    if ncorr:
        ctx.coverage["lexer_scanner_disagreements"] = ncorr
    if extra:
        ctx.notes.append("further failing keys not written as replays (%d keys, %d cases): %s" % (
            len(extra), sum(extra.values()), ", ".join(sorted(extra)[:40])))


def run(ctx):
    ctx.assumptions += [
        "every comment of the source is in file.Comments (parser) and p.comments is not reassigned while printing (setComment inert: C21_sites_tie)",
        "comment offsets < 2^30, print positions <= 2^30 (the printer's `infinity`); beyond that the real code loses comments / loops (witness theorems)",
        "text layout of a written comment is not modelled; covered by the insertion search only",
    ]
    common.standard(ctx, "GopModel.Props.C21", "c21",
                    3000, 60000, RULE, extract=("commentsites",), driver="drv_comments", post=_search)


def replay(ctx, obj):
    import json
    print(json.dumps(obj, indent=1)[:3000])
    case = obj.get("case")
    if not case:
        print("replay: no executable case recorded (see no_longer_checks)")
        return 1
    exe, out = ctx.build_harness("c21")
    if exe is None:
        print(out)
        return 1
    outdir = os.path.join(ctx.work, "replay")
    subprocess.run([exe, "-replay", case, "-out", outdir], env=common.GOENV)
    orc = ctx.oracle_failures(outdir)
    for o in orc:
        print("ORACLE-FAIL", o[0], o[2])
    if case.startswith("queue"):
        ctx.driver_exe = "drv_comments"
        dis = ctx.differential(outdir)
        for d in dis or []:
            print("DISAGREE impl=%r model=%r" % (d[2], d[3]))
        return 1 if (dis or orc) else 0
    return 1 if orc else 0
