from .. import common

MANIFEST = {
    "text": "PARTIAL. Statement: for every byte string in the decidable domain SharedLexemesOnly (Model/ScanDomain.lean: no ILLEGAL token, no keyword, no "
            "c\"/py\", no '**', no CR inside /*…*/ or # comments, no '#/' '#*') the models of the TPL scanner and of the XGo scanner return the same token "
            "boundaries, kinds (by spelling), literals and inserted semicolons. Proved in Lean over the regenerated tables: C32_switch_agrees_by_spelling + "
            "C32_switch_differences (the operator switches decide identically by spelling except TPL's '**' and '@'), C32_literal_kinds_same_name, "
            "C32_exclusions_are_differences (each exclusion of the domain is a real difference: witnesses), C32_unit_offset_witness, C32_domain_examples. "
            "The general agreement theorem is NOT proved; it is checked per run by the differential harness: both models are validated against the real "
            "TPL and XGo scanners, the model's domain decision and agreement verdict are compared with those computed on the real scanners, and any "
            "in-domain input on which the real scanners differ is a violation.",
    "note": "errors are not part of C32 (the TPL scanner reports no line-directive errors); kinds are compared by Token.String(); the hand "
            "transcription of both scanners is validated only differentially.",
    "technique": "Lean 4 proof over regenerated tables (kernel evaluation) + witnesses + differential correspondence of two models with two real scanners + domain oracle",
}

RULE = ("per source, comments on and off (5%: NoInsertSemis): sequences of lexemes both scanners know (identifiers, numbers with unit/rat/imag suffixes, "
        "strings/runes, //, /* */ and # comments, all operators incl. ** @ ~) joined by white space or nothing, mutations, the C15 source stream; thorough "
        "adds all strings <=4 over 12 symbols; non-trivial = distinct in-domain source with >= 2 bytes")


def run(ctx):
    ctx.assumptions += ["positions as byte offsets; kinds compared by Token.String()"]
    common.standard(ctx, "GopModel.Props.C32", "c32", 5000, 120000, RULE,
                    extract=("tokens", "scanswitch"), driver="drv_scan")
