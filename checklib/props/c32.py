from .. import common

MANIFEST = {
    "text": "FULL on a decidable domain. Lean 4 theorem C32_tpl_eq_xgo (and C32_agree): for EVERY byte string, every classification of non-ASCII "
            "letters/digits and every scanning mode, if the source is in SharedLexemesOnly (Model/ScanDomain.lean, evaluated on the xgo model's own run: no "
            "ILLEGAL token, no keyword, no c\"/py\", no '*' directly followed by '*', no CR inside a /*…*/ or # comment, no '#/' '#*', no comment continuing with "
            "'line ' after two bytes) then the models of the TPL scanner and of the XGo scanner return the same lexemes: same offsets and ends (token boundaries), same literals, "
            "same kinds by String(), same inserted semicolons, both/neither EOF, and also the same error-handler calls; both runs finish. Proof: from the same "
            "state one pass through Scan of the two dialects ends in the same state with related tokens (step32), the loops run in lockstep (lockstep32), on top "
            "of C15's invariants; the operator switches are compared by spelling over the regenerated tables (C32_switch_agrees_by_spelling, switch32). "
            "Witnesses that every exclusion is a real difference: C32_exclusions_are_differences, C32_line_directive_differs; C32_unit_offset_witness, "
            "C32_domain_examples. Both models are tied to the real TPL and XGo scanners by the differential run, which also compares the model's domain "
            "decision and agreement verdict with those computed on the real scanners; an in-domain input on which the real scanners differ is a violation.",
    "note": "kinds are compared by Token.String(); the hand transcription of both scanners is validated only differentially.",
    "technique": "Lean 4 proof (two dialects of one executable model from a common state, lockstep induction) + regenerated tables + differential correspondence of two models with two real scanners + domain oracle",
}

RULE = ("per source, comments on and off (5%: NoInsertSemis): sequences of lexemes both scanners know (identifiers, numbers with unit/rat/imag suffixes, "
        "strings/runes, //, /* */ and # comments, all operators incl. ** @ ~) joined by white space or nothing, mutations, the C15 source stream; thorough "
        "adds all strings <=4 over 12 symbols; non-trivial = distinct in-domain source with >= 2 bytes")


def run(ctx):
    ctx.assumptions += ["positions as byte offsets; kinds compared by Token.String()"]
    common.standard(ctx, "GopModel.Props.C32", "c32", 5000, 120000, RULE,
                    extract=("tokens", "scanswitch"), driver="drv_scan")
