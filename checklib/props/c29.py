from .. import common
from . import _tplm

MANIFEST = {
    "text": "Lean 4 theorems over matchF, a fuel-structured transcription of every Match method of tpl/matcher/match.go "
            "(token, literal, string, SPACE, True, Choices with the stops/commit rule and nMax/errMax bookkeeping, sequence, *, +, ?, ++, "
            "Var incl. return procedures and the 'expect `rule`' rewrite, SetLastError log, Compiler.Match/Parse/ParseExpr): "
            "C29_choice_ordered, C29_choice_commit, C29_choice_result (ordered choice + commit), C29_rep0_greedy / C29_rep1_greedy with Reps.det and "
            "Reps.maximal (greedy repetition, unique outcome = no backtracking), C29_rep0_never_fails, C29_rep1_fail, C29_opt_nil, "
            "C29_seq_shape (iff: n-element list, consumed = sum), C29_seq_fail, C29_list_shape ([r,[[s,r]…]] for R1 % R2), "
            "C29_adjoin_touch / C29_adjoin_gap (End()==Pos of touching tokens, pair result), C29_consumed_count, C29_token, "
            "C29_keyword_is_ident_lit, C29_var, C29_conflict_detection_sound (stops only set without shared first token, up to the "
            "keyword-vs-IDENT asymmetry of hasConflictMatchToken), C29_first_sound (a match that consumes input starts with a token of First), "
            "C29_commit_sound, C29_never_panics / C29_match_never_panics (no index expression out of range for compiled shapes and scanner tokens), "
            "C29_fuel_stable. FULL: they hold for every grammar, token list, position. "
            "The model is tied to /repo by a differential run: grammar text compiled by the real tpl/parser+tpl/cl, the resulting matcher tree "
            "serialised by reflection (incl. the real stops), the real scanner's tokens, real Compiler.Match/Parse/ParseExpr "
            "(n, result tree, error, ctx.Left, ctx.LastErr) against the compiled model, plus a README shape oracle on the real results.",
    "note": "trusted: Lean kernel; hand-written model tied only by the differential run (generator quality bounds it); reflection serialiser of "
            "matcher values and the generator-tree/compiled-tree comparison; ListRetProc, panicking return procedures (Dyn errors) and the text "
            "after 'but got' of messages are not modelled; scanner itself is C32's subject (token kinds/literals/positions are taken from the real scanner); token EXTENTS are not trusted: the harness "
            "computes end = pos + byte length of the token's source slice itself, sends those to the model and reports any difference to the real "
            "Token.End() (key token-end-differs); Token.End's body is additionally fingerprinted by translator target tplend.",
    "technique": "Lean 4 proof (induction on fuel / loops) + differential correspondence of the compiled matcher tree vs real Compiler.Match",
}

RULE = ("8% of the random grammars are re-run with failing return procedures (termination oracle only, not in the model); conflict family (125 grammars (a \"q\") | ((b | c) \"r\") over IDENT/INT/STRING/keywords x 8 inputs: commit depends on the whole first set); fixed corpus (README examples, calculator, adjacency, commit cases, tpl/parser/_testdata grammars) + random grammars "
        "(1-3 rules, depth<=3 over token classes, operators, keywords, QSTRING/RAWSTRING, SPACE, \"\", sequence, choice, * + ? % ++, references, "
        "20% rules with a return procedure) x 3 inputs each: random derivations of the grammar with 45% near-miss edits "
        "(drop/duplicate/replace/insert token, glue) and token soup; lexemes include non-ASCII identifiers, strings, chars (données, 日本語, \"é\", 'é') "
        "and comments between tokens (also multi-byte, also at ++ junctions); every match in a child process with timeout; "
        "thorough adds an exhaustive enumeration: all 633 single-rule grammars x, op x, x OP y, op(x OP y) over atoms {\"a\", IDENT, INT}, "
        "op in {*,+,?}, OP in {sequence, |, %, ++} against all 112 inputs of <= 3 words over {a, é, 1} (blank-separated and glued); "
        "non-trivial = distinct (grammar, input) with >= 1 token")


def run(ctx):
    ctx.assumptions += [
        "return procedures are total functions of kind RetProc (no ListRetProc, no panics/Dyn errors)",
        "token list = what the real tpl/scanner yields for the input (Pos/End passed to the model)",
    ]
    common.standard(ctx, "GopModel.Props.C29", "c29", 2400, 45000, RULE, extract=("tplend",), driver=_tplm.DRIVER, canon=_tplm.canon,
                    post=lambda c, outdir, dis: _tplm.promote_core_mismatch(c, dis, "semantics", "c29"))


replay = _tplm.replay
