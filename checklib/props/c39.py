from .. import common

MANIFEST = {
    "text": "Lean 4 theorems over a transition-system model of x/jsonrpc2's inFlightState (18 updateInFlight closures + the common "
            "epilogue; any number of goroutines, calls and requests, every interleaving of the atomic closures): C39_no_panic (no "
            "'retire called twice', no incoming underflow, no 'non-idle when done', no double close), C39_retire_once, C39_own_id, "
            "C39_outgoing_iff (in outgoingCalls iff registered and not retired), C39_incoming_no_underflow, C39_byID_le_incoming, "
            "C39_answer_at_most_once (under the documented Respond contract), C39_done_once, C39_done_stable, C39_closer_once, "
            "C39_close_waits_for_handlers, C39_done_all_retired hold in every reachable state. FULL for safety. Liveness (Await/Close "
            "eventually return) PARTIAL: proved as enabledness only (C39_await_enabled_partial, C39_close_enabled_partial: a finishing "
            "run exists from every reachable state, assuming handlers return, ErrAsyncResponse is never returned for a notification "
            "and the reader unblocks after closer.Close).",
    "note": "trusted: Lean kernel; the translator extract/inflight.go (Go closure -> Lean term; the generated terms are proved equal to the "
            "hand-written transitions by C39_tie_*); the hand-written actions (control flow around the closures: which closure follows which) "
            "tied only by source fingerprints (extract/inflight_expect.txt) and by conformance of hook-recorded real traces; the hook "
            "x/jsonrpc2/conn_verif.go (snapshot under stateMu); guards of the model are liberal (superset of real interleavings); "
            "sync.Mutex, channels and goroutine semantics of Go assumed; handler panics are outside the model (they kill the process).",
    "technique": "Lean 4 proof (inductive invariants over a transition system) + translator tie (closures regenerated, equality re-proved) "
                 "+ hook-recorded trace conformance (every recorded updateInFlight step = model transition + epilogue) + randomized concurrent oracle search",
}

RULE = ("randomized concurrent scenarios over real Connection pairs / a Connection and a scripted raw peer (net.Pipe, fakenet, buffered pipe; "
        "calls, notifies, cancels, async responds, duplicate/reused ids, unknown responses, write/read faults, peer disconnect, Close from "
        "either side, Bind-time Close; GOMAXPROCS 1..8, injected yields), each in a child process with timeouts; one case per distinct recorded "
        "updateInFlight step (site, abstract pre-state, post-state, retired calls) and per distinct consecutive-state pair; non-trivial = step "
        "that changes the state or retires a call")


def post(ctx, outdir, dis):
    # a recorded REAL state that violates a proved invariant is a concrete failure of the property
    for i, c, a, b in (dis or []):
        if b.startswith("INV "):
            ctx.report_concrete("state-" + b[4:].strip(), {
                "case": c, "impl": a, "model": b, "harness": "c39",
                "how": "a state recorded by the hook in a real concurrent run violates an invariant of the state model; "
                       "the case line is the recorded updateInFlight step (site line, pre, post, retired)"})
    st = ctx.coverage.get("distribution", {})
    missing = [k for k in ("scenarios", "steps_distinct") if not st.get(k)]
    if outdir and missing:
        ctx.broken.append("harness produced no scenarios/steps (%s)" % ",".join(missing))


def run(ctx):
    ctx.assumptions += [
        "Go memory model: everything inFlightState-related happens under stateMu (checked syntactically by the translator: no field use outside updateInFlight closures)",
        "handlers obey the documented contract (Respond exactly once per ErrAsyncResponse, never for other requests); violations are explicit model actions only for the 'leak' cases",
        "AsyncCall ids are unique per connection (atomic c.seq); request refs are fresh allocations",
    ]
    n_quick, n_thorough = 1000, 30000
    common.standard(ctx, "GopModel.Props.C39", "c39", n_quick, n_thorough, RULE,
                    extract=("inflight",), driver="drv_inflight", post=post)


def replay(ctx, obj):
    """Re-run one recorded failure: a scenario (`scen seed idx`, repeated until it reproduces: schedules are
    nondeterministic) or a recorded step line (re-checked by the Lean driver)."""
    from .. import replay as rp
    ctx.driver_exe = "drv_inflight"
    ctx.extract("inflight")
    ctx.lake("drv_inflight")
    return rp.generic(ctx, obj)
