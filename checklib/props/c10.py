from .. import common

MANIFEST = {
    "text": "PARTIAL (kernel proved, rest by correspondence/search). Lean 4 theorems over Model/Overload.lean, a transcription of the "
            "OverloadFuncDecl branch of cl/compile.go (overloadFuncName, overloadName, Gopo_ constant), of gogen's InitThisGopPkgEx decoding "
            "(checkOverloads, checkTypeMethod, lookupFunc, overloadFuncs) and of gogen's rule 'first listed candidate whose parameters accept "
            "the arguments': C10_gopo_roundtrip_partial (what cl emits decodes to exactly the listed candidates in listed order; literal slots "
            "are name__<digit i>, methods carry a leading '.'; idx<36 is forced, C10_idx_bound), C10_gopo_name_roundtrip (constant name maps "
            "back to receiver and name), C10_nolit_roundtrip_partial (all-literal declarations, evaluated for every n<=36), C10_digit_toIndex, "
            "C10_dispatch_unique / C10_dispatch_none (for pairwise distinguishable candidates every permutation of the listing order dispatches "
            "to the unique accepting candidate), C10_overlap_iff (the decidable predicate is exactly 'some argument type is accepted by both'), "
            "C10_order_matters_without_hypothesis, C10_lambda_dispatch_unique (lambda/literal/constant arguments: order-independent when exactly one candidate accepts). The full statement (every call of every generated program invokes the right candidate) is NOT "
            "proved: the compiler as a whole is not modelled. It is searched: generated overload sets x ALL listing orders x 6 styles are compiled "
            "by the real compiler and run, with the property oracle evaluated on the program output.",
    "note": "trusted: Lean kernel; hand transcription of cl/gogen code tied by (T) translator for indexTable/binaryGopNames/overloadFuncName and "
            "(D) differential runs: model encode vs constants/functions in the real generated Go, model decode vs gogen.InitThisGopPkgEx called "
            "directly, model dispatch vs the candidate that actually ran; acceptance = types.AssignableTo on a 22-type universe (4 predeclared, 6 "
            "type literals, 12 named); untyped-constant arguments, variadic/generic candidates, interface parameters are outside the predicate "
            "'pairwise distinguishable' and are not generated; gogen is outside /repo (module cache v1.18.1).",
    "technique": "Lean 4 proof (kernel: mangling round trip + order-independence of first-match dispatch) + translator for the tables + "
                 "differential/oracle run of real compiled programs over all candidate permutations",
}

RULE = ("overload sets of 2..5 candidates (arity 0..3 over 22 types: int,string,float64,bool,[]int,[]string,func types,map,*int and 12 named "
        "types), 78% pairwise distinguishable (decidable predicate shared with the Lean theorem, cross-checked against go/types), styles "
        "lit/named/mixed/method/binary-operator/class-file; independent random shapes of the overloaded name and of the receiver name (no/inner/leading '_', mixed case), overload declarations before or after the type and candidates, in the same file or in files sorting before/after (plus 36 coverage sets enumerating these); every set is declared once per permutation of its listing order "
        "(n! declarations) and called with the exact parameter types of each candidate plus assignable variants; + rejected declarations "
        "(invalid method/func/recv, 36 vs 37 entries), calls no candidate accepts, and random gogen scopes/constants (const and no-const path, "
        "missing names, holes, bad digits, 35..38 slots); + sets with func-typed parameters (arity 0..2, results none/int/(int,error), optional leading "
        "int/string/[]int parameter, optional generic Go-file candidate) called with expression/block lambdas, func literals, typed variables and "
        "untyped constants where exactly one candidate accepts; non-trivial = distinct case line")


def run(ctx):
    ctx.assumptions += [
        "gogen v1.18.1 (module cache) decodes Gopo_ constants as modelled; tied by calling gogen.InitThisGopPkgEx directly",
        "acceptance of typed arguments is types.AssignableTo (gogen AssignableConv without implicit casts); untyped constants excluded",
        "operator receiver struct types are represented in the model as a named type over bool (no struct type in the model universe)",
    ]
    common.standard(ctx, "GopModel.Props.C10", "c10", 1500, 20000, RULE,
                    extract=("overloadtab",), driver="drv_compc")
