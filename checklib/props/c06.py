from .. import common, compa_flow

MANIFEST = {
    "text": "PARTIAL. Lean 4 theorems C06_errs_monotone, C06_success_iff_no_report, C06_success_no_report_partial (+ kernel-decided "
            "obligations C06_sinks_are_appends, C06_uses_are_toError, C06_shape_facts over facts regenerated from cl/*.go on every run) cover "
            "ONLY the error-accumulation kernel of cl.NewPackage: every write to pkgCtx.errs is a self-append, NewPackage returns nil exactly "
            "when nothing was reported before `err = ctx.complete()` and no panic reached its deferred recover. The full kernel statement "
            "(no error returned => nothing was ever reported) is false for the code as written - reports made after complete() are lost - "
            "and that is proved too (C06_late_report_lost, model witness). NO theorem says that the written Go is valid or well-typed: gogen "
            "(outside /repo) decides that. That part - the actual property - is covered only by search, on two streams. Stream V: "
            "valid-by-construction XGo programs using every sugar (random, seeded): whenever the real cl.NewPackage reports success the written "
            "Go must parse (go/parser), type-check (go/types, export data, offline) and compile with gc (sample in quick, all in thorough); any "
            "rejection is a violation keyed by judge and Go error class. Stream M: a FIXED, seed-independent regression list of 7 000 packages - a systematic "
            "family of 427 programs violating one Go compile-time rule each, then near-miss mutants and corpus packages (quick: its first 1 500) with a committed baseline of the inputs the unchanged compiler accepts although "
            "Go rejects the output (732 inputs, 37 Go error classes: XGo leaves many static checks to the Go compiler); a stream-M input is a "
            "violation iff it is accepted, its output is rejected, and (input id, class) is not in the baseline.",
    "note": "trusted: Lean kernel; translator extract/errsinks.go (unknown shapes break the tie); go/parser, go/types and gc as the judges of "
            "validity; generators/mutators of harness/compa. Stream M is a fixed regression list (corpus/C06/stream_m.jsonl.gz) with a per-input "
            "baseline (corpus/C06/known_bad_accepts.txt), both produced once by the maintenance command `c06 -mkstream`, never at check time: "
            "the set of Go checks gogen lacks is long-tailed, so random near-miss inputs cannot be judged by error class without alarming on "
            "the unchanged tree for some seed; with the fixed list the unchanged tree cannot alarm on stream M, while a change to /repo that "
            "makes the compiler accept further bad programs of the list, or write differently-bad Go for them, is reported with that input. "
            "The cost: near-miss inputs outside the list are not explored by new seeds (only stream V is random). Linking is not required "
            "(compile-only `go list -export`). known_findings.txt has one line per class (key gogen-lacks-check:<class>) plus two "
            "valid-program findings of stream V (found first by builder compC).",
    "technique": "Lean 4 proof over translator-extracted error-sink facts (kernel-decided obligations) + search: real cl.NewPackage on "
                 "valid-by-construction programs (random) and on a fixed near-miss regression list with per-input baseline, output judged by "
                 "go/parser + go/types + gc",
}

RULE = ("stream V: every sugar piece alone (37, incl. literal spellings, type expressions, multi-file packages with test files, errwrap arities 0..4) + N random combinations of 1-4 pieces (quick 600, thorough 3000), all valid by construction; "
        "stream M: fixed list of 7000 packages (427 one-rule-violated programs, then every 4th a corpus package of /repo as is, the others near-miss mutants by 16 mutation kinds "
        "of generated programs and corpus), quick = first 1500, thorough = all; non-trivial = parsed and handed to cl.NewPackage; distinct = "
        "distinct file set")


def run(ctx):
    ctx.assumptions += [
        "type-correctness of gogen's output is NOT proved by any theorem; it is searched",
        "go/types + gc (Go 1.23) define 'valid Go'",
    ]
    compa_flow.run_search(ctx, "GopModel.Props.C06", "c06", 600, 3000, RULE)
