from .. import common, compa_flow

MANIFEST = {
    "text": "PARTIAL. Lean 4 theorems C06_errs_monotone, C06_success_iff_no_report, C06_success_no_report_partial (+ kernel-decided "
            "obligations C06_sinks_are_appends, C06_uses_are_toError, C06_shape_facts over facts regenerated from cl/*.go on every run) cover "
            "ONLY the error-accumulation kernel of cl.NewPackage: every write to pkgCtx.errs is a self-append, NewPackage returns nil exactly "
            "when nothing was reported before `err = ctx.complete()` and no panic reached its deferred recover. The full kernel statement "
            "(no error returned => nothing was ever reported) is false for the code as written - reports made after complete() are lost - "
            "and that is proved too (C06_late_report_lost, model witness). NO theorem says that the written Go is valid or well-typed: gogen "
            "(outside /repo) decides that. That part - the actual property - is covered only by search: generated valid XGo programs using "
            "every sugar, near-miss mutants, /repo's corpus and its mutants are compiled by the real cl.NewPackage; whenever it reports success "
            "the written Go must parse (go/parser), type-check (go/types, export data, offline) and compile with the Go toolchain (sample in "
            "quick, all in thorough). The unchanged tree violates the property in several recorded classes (known_findings.txt): XGo does not "
            "report unused variables, missing returns, unused expression values, excess conversion arguments, etc.",
    "note": "trusted: Lean kernel; translator extract/errsinks.go (that the extracted shapes mean what the Go code means; unknown shapes "
            "break the tie); go/parser, go/types and gc as the judges of validity; generators/mutators of harness/compa. Linking is not "
            "required (compile-only `go list -export`), so llgo/C demo programs are judged by compilation. Violations are keyed by Go's error "
            "class; a new class is reported as a VIOLATION, another instance of a recorded class as KNOWN-FINDING.",
    "technique": "Lean 4 proof over translator-extracted error-sink facts (kernel-decided obligations) + search: real cl.NewPackage on "
                 "generated/mutated/corpus packages, output judged by go/parser + go/types + gc",
}

RULE = ("packages = every sugar piece alone (31), generated combinations of 1-4 pieces, near-miss mutants (16 mutation kinds: identifier/type/"
        "literal swaps, arity, dropped/duplicated lines, := vs =, assignment counts, unused vars/imports, duplicate decls, duplicated case clauses), a rotating quarter "
        "(quick) or all (thorough) of /repo's XGo corpus incl. the cl test snippets, and mutated corpus; non-trivial = parsed and handed to "
        "cl.NewPackage (success or error); distinct = distinct file set")


def run(ctx):
    ctx.assumptions += [
        "type-correctness of gogen's output is NOT proved by any theorem; it is searched",
        "go/types + gc (Go 1.23) define 'valid Go'",
    ]
    compa_flow.run_search(ctx, "GopModel.Props.C06", "c06", 1500, 6000, RULE)
