from .. import common

MANIFEST = {
    "text": "Lean 4 theorems about the scanner model M1 (Model/Scan*.lean: a line-by-line transcription of scanner/scanner.go — next/peek/UTF-8, "
            "skipWhitespace, identifiers, scanNumber/digits/invalidSep, escapes, rune/string/raw string, the three comment styles with stripCR and the "
            "line-directive errors, findLineEnd, the operator switch (regenerated tries), insertSemi/nParen/unitVal), for EVERY byte string, both comment "
            "modes and every classification of non-ASCII letters/digits: C15_scan_fuel_ok + C15_scan_no_panic + C15_scan_done (Scan reaches EOF: "
            "fuel 2·len+3 for the token loop and len+1 for every inner loop suffice; no index/slice out of range), C15_ends_with_eof, "
            "C15_spans_ordered + C15_offsets_strictly_increase + C15_spans_disjoint (offsets inside the source, a token ends before the next begins), "
            "C15_token_count (at most one source-text token per byte), C15_token_text (identifier/keyword/number/unit/rune literal = source span exactly; "
            "string/comment = source span up to CRs, exactly if the span has none; c\"…\"/py\"…\" after the prefix; operator spelling = source span), "
            "C15_cover (comments on: every byte behind the BOM is in a token or is blank/tab/CR/LF). FULL strength, stated for dialects xgo and tpl. "
            "The model is tied to /repo on every run by the translator (token tables, operator switch) and by a differential run of the real scanner "
            "against the compiled model (tokens, literals, error offsets and messages, in order), plus the property oracle on the real output.",
    "note": "trusted: Lean kernel; the hand transcription of scanner.go is validated only by the differential run (generator quality bounds it); "
            "unicode.IsLetter/IsDigit are parameters (classification sent with each case); token positions are compared as byte offsets; the line table "
            "(AddLine/AddLineColumnInfo) is not modelled; Scan calls after the first EOF are not modelled.",
    "technique": "Lean 4 proof (invariant + measure over a fuel-structured model) + translator tie (token tables, operator switch) + differential correspondence with the real scanner",
}

RULE = ("regression inputs + /verif/corpus/C15 + per random source: lexeme sequences over all lexeme classes (keywords, ASCII/non-ASCII identifiers, "
        "numeric spellings with _/prefixes/exponents/i/r/unit suffixes, strings/runes/raw strings with escapes and CRs, c\"\"/py\"\", //, /* */, # comments, "
        "//line directives, all operators, illegal bytes/BOM/NUL/bad UTF-8) with random or no separators, byte mutations, windows of the 500+ source "
        "files of /repo (also mutated), random bytes; each source with comments on and off (10%: also dontInsertSemis); thorough adds all strings "
        "<=3 over 24 symbols and <=5 over 8 symbols; non-trivial = distinct case with >= 2 bytes")


def run(ctx):
    ctx.assumptions += [
        "positions are byte offsets (pos - file.Base()); unicode.IsLetter/IsDigit of the runes of each input are supplied by the harness",
        "the scanner is driven by Init + Scan until the first EOF",
    ]
    common.standard(ctx, "GopModel.Props.C15", "c15", 12000, 250000, RULE,
                    extract=("tokens", "scanswitch"), driver="drv_scan")
