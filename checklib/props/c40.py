from .. import common

MANIFEST = {
    "text": "Lean 4 theorems over a small-step transition system (Model/TS.lean: mutex, sync.Cond with notify list and spurious wake-ups, "
            "map-as-set) instantiated with the thread programs of Changes.Fetch and Changes.FileChanged REGENERATED from x/watcher/changes.go on "
            "every run, for ANY number of producer and consumer threads started at any time and every interleaving: invariants proved by "
            "induction over steps (C40_fetched_was_reported, C40_returned_is_fetched, C40_at_most_once_per_report, "
            "C40_reported_pending_or_fetched, C40_no_lost_wakeup, C40_frame (only NewChanges/Fetch/FileChanged touch the set or the cond: table regenerated from every function of the file), C40_set_nodup, C40_mutex, C40_no_panic) and liveness as enabledness "
            "(C40_waiting_fetch_progress, C40_progress: deadlock freedom). FULL statement on the model; the model is tied to the code by the "
            "translator, a lock-discipline check, a differential run (path.Dir, sequential op sequences incl. Fetch blocking on the empty set, "
            "linearised concurrent histories accepted by the same model) and a property oracle on concurrent stress histories of the real code.",
    "note": "trusted: Lean kernel (+propext/Classical.choice/Quot.sound); the DSL semantics of sync.Mutex/sync.Cond in TS.next (DESIGN Appendix B); "
            "the translator extract/sync.go (statement forms of today only, anything else = broken tie); Go's memory model is not modelled "
            "(the translator checks that every access to the map happens under the mutex); fairness is not assumed, so 'wakes up' is proved as "
            "enabledness of a progress step, and observed on the implementation with time-outs.",
    "technique": "Lean 4 proof (inductive invariants of a transition system over regenerated thread programs) + translator tie + differential/stress conformance",
}

RULE = ("path.Dir: 29 corner cases + N generated paths; wseq: N random op sequences (1-14 ops) over 5 roots and small name pools (so that the same "
        "directory is reported repeatedly), incl. Fetch(fullPath), EntryDeleted, Fetch on the empty set followed by a report; stress: 4 child "
        "processes (GOMAXPROCS 1/2/4/8) x N/8 histories with 1-5 producers, 0-5 looping consumers, random Gosched/sleep jitter, drained and "
        "checked by the oracle (per-directory linearisability), histories <= 12 ops also linearised by the model; non-trivial = distinct case line")


def run(ctx):
    ctx.assumptions += [
        "sync.Mutex / sync.Cond behave as in DESIGN Appendix B (Wait = enqueue+unlock atomically, Broadcast wakes all enqueued waiters)",
        "path.Dir modelled (Clean + Split) and validated by the differential run",
        "a hang of the real code is detected by time-outs (3-10 s) in child processes",
    ]
    common.standard(ctx, "GopModel.Props.C40", "c40", 1200, 60000, RULE,
                    extract=("sync_watcher",), driver="drv_conc")
