from .. import common

MANIFEST = {
    "text": "Lean 4 theorems over a small-step transition system (Model/TS.lean: unbuffered channels, select with park/atomic claim, close, mutex) "
            "instantiated with the thread programs of connFeeder.do/run/close REGENERATED from x/fakenet/conn.go on every run, for one feeder "
            "goroutine and ANY number of concurrent Read/Write (`do`) and Close calls under every interleaving: C41_no_panic (done closed once, "
            "no send on a closed channel), C41_data_in_order, C41_result_not_crossed, C41_do_returns_received, C41_no_transfer_after_close, "
            "C41_nobody_parked_after_close, C41_do_after_close_eof (+ C41_eof_is_returned), C41_pending_do_unblocked (enabledness), "
            "C41_frame (only newFeeder/do/run/close touch the channels and the flag), C41_wiring (Read->reader feeder->in.Read, Write->writer feeder->out.Write, Close closes both, one run goroutine each). FULL on the model; "
            "tie: translator + differential scripts (incl. Close while a call is blocked in the underlying stream) + linearised concurrent "
            "histories through the same model + property oracle on stress histories of the real connection.",
    "note": "trusted: Lean kernel; the semantics given to select/close in TS.next — in particular that a goroutine parked in a select is claimed "
            "atomically by close (the runtime's selectDone CAS), validated only by stress; the translator extract/sync.go; the data path of Read "
            "through the caller's buffer is outside the model and covered by the oracle only.",
    "technique": "Lean 4 proof (inductive invariants of a transition system over regenerated thread programs) + translator tie + differential/stress conformance",
}

RULE = ("fseq: N random scripts of 1-10 Read/Write/Close calls on a real fake connection whose underlying streams are scripted (short counts, errors, "
        "calls blocked in the stream when Close arrives); stress: 4 child processes (GOMAXPROCS 1/2/4/8) x N/6 histories with 0-5 writers, 0-3 "
        "readers, 1-4 concurrent closers, streams that sleep or block until closed, 2 calls started after Close; oracle on every history, "
        "histories <= 12 calls also linearised and replayed through the model; non-trivial = distinct case line")


def run(ctx):
    ctx.assumptions += [
        "unbuffered channels / select / close behave as in DESIGN Appendix B (atomic claim of a parked select by close)",
        "promptness is observed with time-outs (calls must return within 2 s of Close) in child processes",
    ]
    common.standard(ctx, "GopModel.Props.C41", "c41", 1200, 60000, RULE,
                    extract=("sync_fakenet",), driver="drv_conc")
