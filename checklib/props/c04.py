from .. import common

MANIFEST = {
    "text": "Lean 4 theorems over a model of the two lowerings of a range expression start:end:step: forLoop (the `for k := start; k < end; k += step` "
            "statement cl/stmt.go:toForStmt builds for for-in and for-range; comparison/increment operators, defaults and temporaries are regenerated "
            "from toForStmt's source on every run) and enumRun (newRange -> qiniu/x IntRange.Gop_Enum/Next with Go's truncated division). Proved for all "
            "integers: C04_forSeq_eq_enumSeq (step > 0: both lowerings give the same outcome for every fuel), C04_enumSeq_closed_form and C04_enumSeq_mem_iff "
            "(both signs: exactly the values start + step*i lying before end in the direction of the step), C04_values_in_bounds, C04_termination (fuel adequacy), "
            "C04_omitted_defaults (omitted start = 0, omitted step = 1 in every context), C04_same_in_all_contexts_partial, C04_bounds_evaluated_once. "
            "PARTIAL: the full statement (step != 0) is false on the current tree - C04_full_statement_false / C04_neg_step_counterexample (10:0:-1: loop yields "
            "nothing, iterator yields 10..1) and C04_neg_step_diverges; recorded as known finding neg-step-forstmt and replayed on the compiled program every run. "
            "Second recorded finding mutated-bound-ident: identifier end/step operands are re-read on every iteration when the body assigns them (all other operand forms are captured once).",
    "note": "trusted: Lean kernel; the translator target rangeloop (reads the ForStmt literal returned by toForStmt and compileRangeExpr's defaults); the iterator "
            "is transcribed by hand from the module cache (qiniu/x/xgo/range.go) and, like gogen's lowering of for-range over an enumerator, validated only by "
            "the differential run; unbounded integers (no int64 overflow, justified for |values| < 2^62 by C04_values_in_bounds); bodies that assign to the loop "
            "variable or to a bound variable are outside the property.",
    "technique": "Lean 4 proof (induction on fuel, truncated-division lemmas) + translator (loop shape from toForStmt source) + differential run of one generated, "
                 "really compiled and executed XGo program per run vs the compiled model + cross-context oracle on the program's output",
}

RULE = ("one generated XGo program per run: 21 fixed + N random probes (start,end in [-12,12], step in [-6,6] or |step|>span, 4% step 0; each bound written as "
        "literal / negated literal / variable / constant / pure call / stateful call / arithmetic / omitted) and an exhaustive grid |start|,|end| <= G, 0<|step| <= K "
        "(quick G=8,K=6; thorough G=12,K=12) with variable bounds, expression bounds and omitted parts; every probe runs in for-in (in / <-), for-range (:=), "
        "for-range (=), for range (count only), for-in with condition, and a list comprehension; operand forms also include negated identifier (-k with k<0), "
        "-(-2), -pv(-2), (v), selector q.n, index a[1] (sign of the value independent of the syntactic sign), grid styles gs:ge:-gn and gq.s:gq.e:gq.k; "
        "40 (thorough 300) mutation probes whose body (and the comprehension's element function) changes the variable/field/element behind the end/step operand, "
        "per operand form (ident, paren, arith, selector, index, call, negated ident); a case = (context, bound kinds, start, end, step); "
        "non-trivial = non-empty sequence or negative step")


def post(ctx, outdir, dis):
    # the Lean counterexample (10, 0, -1) must be reproduced by the real compiler + runtime
    if not outdir:
        return
    hit = [c for k, c, d in ctx.oracle_failures(outdir) if k == "neg-step-forstmt" and c.split()[-3:] == ["10", "0", "-1"]]
    ctx.coverage["counterexample_10_0_-1_reproduced_on_implementation"] = bool(hit)
    if not hit and not ctx.broken:
        ctx.broken.append("C04_neg_step_counterexample is no longer reproduced by the implementation (model/translator out of date?)")


def run(ctx):
    ctx.assumptions += [
        "no int overflow: |start|,|end|,|step| < 2^62 (model integers are unbounded)",
        "the loop body does not assign the loop variable; a body assigning a plain-identifier end/step is the recorded finding mutated-bound-ident (the theorems' forLoop reads constant bounds; Bound.simple)",
        "step != 0 (step 0: the iterator panics with a division by zero, the emitted loop never ends; modelled and compared, outside the property)",
    ]
    common.standard(ctx, "GopModel.Props.C04", "c04", 200, 1500, RULE,
                    extract=("rangeloop",), driver="drv_range", post=post)


def replay(ctx, obj):
    from .. import replay as rp
    ctx.driver_exe = "drv_range"
    return rp.generic(ctx, obj)
