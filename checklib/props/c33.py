from .. import common

MANIFEST = {
    "text": "Lean 4 theorems closed by kernel evaluation over the complete token tables REGENERATED from token/token.go, tpl/token/token.go "
            "and the operator switch of both Scan functions on every run: C33_xgo_scan_roundtrip / C33_tpl_scan_roundtrip (for every operator, "
            "delimiter and keyword token, the scanner model M1 run on its spelling returns exactly that token over the whole spelling, then "
            "an optional inserted ';' and EOF, no error, both comment modes), C33_xgo_string_is_spelling / C33_tpl_string_len (String returns the "
            "table spelling for every entry; tpl Len = length of the spelling for operators, 0 otherwise), C33_xgo_prec_implies_operator "
            "(non-zero Precedence implies IsOperator, for every token value), C33_xgo_keywords_distinct, C33_tpl_foreach_range_in_table, "
            "C33_switch_specials. FULL (finite, exhaustive). The scanner model is tied to the code by the differential run (all token values "
            "through the real String/Len/IsOperator/IsKeyword/IsLiteral/Precedence and every spelling through the real Scan) and by C15's run.",
    "note": "trusted: Lean kernel; translator extract/tokens.go + extract/scanswitch.go (constant evaluation, table, guards, Precedence cases, "
            "switch-to-trie; refuses unknown shapes); the hand-written remainder of the scanner model is validated only by differential runs.",
    "technique": "Lean 4 proof by kernel evaluation (decide +kernel) over regenerated finite tables + translator tie + exhaustive differential run",
}

RULE = ("exhaustive: every token value 0..319 of token.Token and 0..511 of tpl/token.Token (String/IsOperator/IsKeyword/IsLiteral/Precedence/Len) "
        "and, for each operator/delimiter/keyword token, its spelling scanned with comments on and off; non-trivial = a value with a table entry or a scan of a spelling")


def run(ctx):
    ctx.assumptions += ["spellings are ASCII, so the unicode letter/digit classification (a parameter of the model) is irrelevant here"]
    common.standard(ctx, "GopModel.Props.C33", "c33", 0, 0, RULE,
                    extract=("tokens", "scanswitch"), driver="drv_scan")
