"""Flow shared by C06 and C07 (builder compA): translator facts -> re-prove the kernel ->
search the real compiler with the harness (no model/implementation differential: the kernel
cannot predict compile results; the tie is the translator, the rest is search)."""
import os
from . import common


def run_search(ctx, prop_module, harness, n_quick, n_thorough, rule, extract=("errsinks",), driver="drv_comp",
               timeout=3000, note_keys=()):
    before = len(ctx.violations)
    ok, msg = ctx.extract(*extract)
    if not ok:
        ctx.broken.append("translator tie: " + msg)
    ctx.driver_exe = driver
    proved = ctx.prove(prop_module, [prop_module])
    if proved and ctx.tier == "thorough":
        ctx.leanchecker(prop_module)
    n = n_thorough if ctx.tier == "thorough" else n_quick
    outdir = ctx.run_harness(harness, n, timeout=timeout)
    if outdir:
        ctx.load_stats(outdir)
        for key, case, detail in ctx.oracle_failures(outdir):
            ctx.report_concrete(key, {"case": case, "detail": detail, "harness": harness,
                                      "how": "property predicate evaluated on the real implementation"})
    concrete_new = [v for v in ctx.violations[before:] if v[2]]
    if ctx.broken and not concrete_new:
        ctx.report_unproved("; ".join(ctx.broken[:4]), {"harness": harness})
    ctx.finish(level="proof", rule=rule)
