"""Shared machinery of the per-property checks (see DESIGN.md §2.2).

A check = regenerate (translator) -> re-prove (lake + axiom audit) -> correspond
(differential run of the real Go code vs the compiled Lean driver) -> oracle (the
property predicate evaluated on the implementation) -> decide -> evidence.
"""
import atexit, hashlib, json, os, re, shutil, subprocess, sys, time

ROOT = os.path.dirname(os.path.dirname(os.path.abspath(__file__)))
# VERIF_LEAN / VERIF_OUT / VERIF_REPO let a mutation run use a private copy of the lake
# project, a private evidence/replay directory and a scratch worktree (tools/mutcheck.sh);
# registered commands never set them.
LEAN = os.environ.get("VERIF_LEAN") or os.path.join(ROOT, "lean")
OUT = os.environ.get("VERIF_OUT") or ROOT
HARNESS = os.path.join(ROOT, "harness")
EXTRACT = os.path.join(ROOT, "extract")
REPO = os.environ.get("VERIF_REPO", "/repo")
ALLOWED_AXIOMS = {"propext", "Classical.choice", "Quot.sound"}
FORBIDDEN = re.compile(r"\bsorry\b|\badmit\b|^\s*axiom\s|native_decide|bv_decide|implemented_by|\bunsafe\s|maxHeartbeats\s+0\b|\bpartial\s+def\b|@\[extern|@\[csimp", re.M)

GOENV = dict(os.environ, GOFLAGS="-mod=mod", GOPROXY="off", GOSUMDB="off", GOTOOLCHAIN="local", CGO_ENABLED="0")

BASE_TRUST = [
    "Lean 4.33.0 kernel; axioms limited to propext, Classical.choice, Quot.sound (checked by #print axioms on every property theorem)",
    "Lean compiler/runtime executing the same definitions in gopdriver",
    "the differential harness (generators, canonicalisation, differ) and the Go toolchain/standard library",
]


def sh(cmd, cwd=None, env=None, timeout=3600, stdin=None):
    p = subprocess.run(cmd, cwd=cwd, env=env, stdin=stdin, stdout=subprocess.PIPE,
                       stderr=subprocess.STDOUT, timeout=timeout, text=True, errors="replace")
    return p.returncode, p.stdout


def strip_comments(src):
    # remove /- ... -/ (nested) and -- ... comments from Lean source
    out, i, depth, n = [], 0, 0, len(src)
    while i < n:
        if src.startswith("/-", i):
            depth += 1; i += 2; continue
        if depth and src.startswith("-/", i):
            depth -= 1; i += 2; continue
        if depth:
            if src[i] == "\n": out.append("\n")
            i += 1; continue
        if src.startswith("--", i):
            j = src.find("\n", i)
            i = n if j < 0 else j
            continue
        out.append(src[i]); i += 1
    return "".join(out)


def theorems_of(path):
    """Fully-qualified names of the `theorem`s declared in a Lean file."""
    src = strip_comments(open(path).read())
    ns, names = [], []
    for line in src.split("\n"):
        m = re.match(r"\s*namespace\s+(\S+)", line)
        if m: ns.append(m.group(1)); continue
        m = re.match(r"\s*end\s+(\S+)\s*$", line)
        if m and ns and ns[-1] == m.group(1): ns.pop(); continue
        m = re.match(r"\s*(?:@\[[^\]]*\]\s*)*(?:private\s+|protected\s+)?theorem\s+([^\s:({\[]+)", line)
        if m:
            nm = m.group(1)
            names.append(nm if nm.startswith("_root_.") else ".".join(ns + [nm]))
    return names


class Ctx:
    def __init__(self, pid, tier, seed):
        self.pid, self.tier, self.seed = pid, tier, seed
        self.t0 = time.time()
        self.work = os.path.join(OUT, ".work", "%s-%s-%d" % (pid, tier, os.getpid()))
        os.makedirs(self.work, exist_ok=True)
        atexit.register(lambda: shutil.rmtree(self.work, ignore_errors=True))
        self.obligations = 0
        self.discharged = 0
        self.theorems = []
        self.trusted = list(BASE_TRUST)
        self.assumptions = []
        self.coverage = {}
        self.violations = []      # (key, replay_path, concrete)
        self.known_hit = []       # (key, text)
        self.broken = []          # names of theorems / ties that no longer check
        self.notes = []
        self.checker_cmds = []
        self.known = load_known(pid)
        self.driver_exe = "gopdriver"

    # ---- steps -----------------------------------------------------------
    def log(self, *a):
        print("[%s %5.1fs]" % (self.pid, time.time() - self.t0), *a, flush=True)

    def extract(self, *targets):
        """Run the translator for the given targets; returns (ok, message)."""
        exe = os.path.join(self.work, "extract")
        rc, out = sh(["go", "build", "-o", exe, "."], cwd=EXTRACT, env=GOENV)
        if rc != 0:
            return False, "translator does not build: " + out[-2000:]
        gen = os.path.join(LEAN, "GopModel", "Generated")
        os.makedirs(gen, exist_ok=True)
        for t in targets:
            rc, out = sh([exe, "-repo", REPO, "-out", gen, t], timeout=300)
            if rc != 0:
                return False, "translator target %s: %s" % (t, out[-3000:])
        self.trusted.append("the translator extract/ (targets: %s): that each emitted Lean term means what the Go fragment means" % ", ".join(targets))
        return True, ""

    def lake(self, *targets, timeout=3000):
        cmd = ["flock", os.path.join(LEAN, ".lock"), "lake", "build"] + list(targets)
        self.checker_cmds.append("cd lean && lake build " + " ".join(targets))
        rc, out = sh(cmd, cwd=LEAN, timeout=timeout)
        return rc == 0, out

    def import_cone(self, roots):
        """Files of the lake project transitively imported from the given modules/files."""
        seen, todo = {}, list(roots)
        while todo:
            m = todo.pop()
            p = m if m.endswith(".lean") else os.path.join(LEAN, m.replace(".", "/") + ".lean")
            if p in seen or not os.path.exists(p): continue
            src = open(p).read()
            seen[p] = src
            for im in re.findall(r"^\s*(?:public\s+)?import\s+(?:all\s+)?(GopModel\.\S+)", src, re.M):
                todo.append(im)
        return seen

    def forbidden_scan(self, roots=None):
        bad = []
        if roots is None:
            files = {}
            for dp, dn, fn in os.walk(LEAN):
                if ".lake" in dp: continue
                for f in fn:
                    if f.endswith(".lean"):
                        files[os.path.join(dp, f)] = open(os.path.join(dp, f)).read()
        else:
            files = self.import_cone(roots)
        if True:
            for p, raw in files.items():
                f = os.path.basename(p)
                if True:
                    src = strip_comments(raw)
                for m in FORBIDDEN.finditer(src):
                    if f == "Loop.lean" and "partial" in m.group(0): continue  # the driver's IO loop only
                    bad.append("%s: %s" % (os.path.relpath(p, LEAN), m.group(0).strip()))
        return bad

    def audit(self, prop_module, extra_theorems=()):
        """#print axioms on every theorem of Props file; sets obligations/discharged."""
        path = os.path.join(LEAN, prop_module.replace(".", "/") + ".lean")
        names = theorems_of(path) + list(extra_theorems)
        # obligations = property theorems (named Cxx_*); helper lemmas are audited too
        props = [n for n in names if n.split(".")[-1].startswith(self.pid + "_")] or names
        self.obligations += len(props)
        # scan the import cone of the property module and of the driver executable only
        drv_root = None
        try:
            lf = open(os.path.join(LEAN, "lakefile.toml")).read()
            m = re.search(r'name\s*=\s*"%s"\s*\n\s*root\s*=\s*"([^"]+)"' % re.escape(self.driver_exe), lf)
            if m: drv_root = os.path.join(LEAN, m.group(1) + ".lean")
        except OSError:
            pass
        bad = self.forbidden_scan([prop_module] + ([drv_root] if drv_root else []))
        if bad:
            self.broken.append("forbidden construct(s): " + "; ".join(bad[:5]))
            return False
        af = os.path.join(self.work, "Audit_%s.lean" % self.pid)
        with open(af, "w") as f:
            f.write("import %s\n" % prop_module)
            for n in names:
                f.write("#print axioms %s\n" % n)
        rc, out = sh(["lake", "env", "lean", af], cwd=LEAN, timeout=1200)
        self.checker_cmds.append("lake env lean <#print axioms over %d theorems of %s>" % (len(names), prop_module))
        ok_names = []
        flat = re.sub(r"\s+", " ", out)
        for n in names:
            short = n
            m = re.search(r"'%s' depends on axioms: \[([^\]]*)\]" % re.escape(short), flat)
            if m:
                axs = {a.strip() for a in m.group(1).split(",") if a.strip()}
                if axs <= ALLOWED_AXIOMS:
                    ok_names.append(n)
                else:
                    self.broken.append("theorem %s depends on non-accepted axioms %s" % (n, sorted(axs - ALLOWED_AXIOMS)))
            elif re.search(r"'%s' does not depend on any axioms" % re.escape(short), flat):
                ok_names.append(n)
            else:
                self.broken.append("theorem %s: no axiom report (not proved / not found)" % n)
        self.discharged += len([n for n in props if n in ok_names])
        self.theorems += props
        self.coverage["helper_lemmas_audited"] = self.coverage.get("helper_lemmas_audited", 0) + len(names) - len(props)
        return len(ok_names) == len(names)

    def prove(self, prop_module, targets=None):
        """lake build + audit. On failure records the first broken theorem names."""
        ok, out = self.lake(*(targets or [prop_module, "gopdriver"]))
        if not ok:
            errs = re.findall(r"error: (\S+?\.lean):(\d+):(\d+): (.*)", out)
            path = os.path.join(LEAN, prop_module.replace(".", "/") + ".lean")
            names = theorems_of(path) if os.path.exists(path) else []
            self.obligations += max(len(names), 1)
            for f, l, c, msg in errs[:6]:
                self.broken.append("lean: %s:%s: %s" % (f, l, msg[:160]))
            if not errs:
                self.broken.append("lake build failed: " + out[-600:])
            self.lake_log = out
            return False
        return self.audit(prop_module)

    def leanchecker(self, module):
        rc, out = sh(["flock", os.path.join(LEAN, ".lock"), "lake", "env", "leanchecker", module], cwd=LEAN, timeout=3000)
        self.checker_cmds.append("lake env leanchecker " + module)
        if rc != 0:
            self.broken.append("leanchecker rejected %s: %s" % (module, out[-400:]))
        return rc == 0

    def modfile(self):
        """go.mod/go.sum for the harness with `replace github.com/goplus/xgo => REPO`."""
        mf = os.path.join(self.work, "harness.go.mod")
        if not os.path.exists(mf):
            src = open(os.path.join(HARNESS, "go.mod")).read().replace("=> /repo", "=> " + REPO)
            open(mf, "w").write(src)
            shutil.copy(os.path.join(REPO, "go.sum"), os.path.join(self.work, "harness.go.sum"))
        return mf

    def build_harness(self, name, tags="verif"):
        exe = os.path.join(self.work, name)
        rc, out = sh(["go", "build", "-modfile", self.modfile(), "-tags", tags, "-o", exe, "./cmd/" + name], cwd=HARNESS, env=GOENV, timeout=1200)
        if rc != 0:
            return None, out
        return exe, out

    def run_harness(self, name, n, extra=(), timeout=3000, sub="run"):
        exe, out = self.build_harness(name)
        outdir = os.path.join(self.work, sub)
        if exe is None:
            # the harness is written against the current API of /repo: if it no longer
            # builds the tie is broken (not a crash of the check)
            self.broken.append("harness cmd/%s does not build against /repo: %s" % (name, out[-800:]))
            return None
        cmd = [exe, "-seed", str(self.seed), "-n", str(n), "-tier", self.tier, "-out", outdir] + list(extra)
        rc, out = sh(cmd, env=GOENV, timeout=timeout)
        if rc != 0:
            self.broken.append("harness cmd/%s exited %d: %s" % (name, rc, out[-1500:]))
            self.harness_crash = out
            return outdir if os.path.exists(os.path.join(outdir, "cases.txt")) else None
        return outdir

    def driver(self, cases_path, out_path, timeout=3000):
        exe = os.path.join(LEAN, ".lake", "build", "bin", self.driver_exe)
        with open(cases_path, "rb") as fi, open(out_path, "wb") as fo:
            p = subprocess.run([exe], stdin=fi, stdout=fo, stderr=subprocess.PIPE, timeout=timeout)
        if p.returncode != 0:
            self.broken.append("gopdriver exited %d: %s" % (p.returncode, p.stderr.decode(errors="replace")[-400:]))
            return False
        return True

    def differential(self, outdir, canon=None):
        """Run the driver over cases.txt and compare with impl.txt.
        Returns list of (index, case, impl, model)."""
        cases = os.path.join(outdir, "cases.txt")
        impl = os.path.join(outdir, "impl.txt")
        model = os.path.join(outdir, "model.txt")
        if not self.driver(cases, model):
            return None
        cl = open(cases, errors="replace").read().split("\n")
        il = open(impl, errors="replace").read().split("\n")
        ml = open(model, errors="replace").read().split("\n")
        if cl and cl[-1] == "": cl.pop()
        if il and il[-1] == "": il.pop()
        if ml and ml[-1] == "": ml.pop()
        dis = []
        if not (len(cl) == len(il) == len(ml)):
            self.broken.append("line count mismatch cases=%d impl=%d model=%d" % (len(cl), len(il), len(ml)))
        for i, (c, a, b) in enumerate(zip(cl, il, ml)):
            if canon: a, b = canon(a), canon(b)
            if a != b:
                dis.append((i, c, a, b))
        self.coverage["disagreements_checked"] = self.coverage.get("disagreements_checked", 0) + min(len(cl), len(il), len(ml))
        return dis

    def load_stats(self, outdir):
        p = os.path.join(outdir, "stats.json")
        if os.path.exists(p):
            st = json.load(open(p))
            self.coverage["evaluations"] = self.coverage.get("evaluations", 0) + st.get("evaluations", 0)
            self.coverage["distinct_nontrivial"] = self.coverage.get("distinct_nontrivial", 0) + st.get("distinct_nontrivial", 0)
            self.coverage.setdefault("samples", []).extend((st.get("samples") or [])[:8])
            d = self.coverage.setdefault("distribution", {})
            for k, v in (st.get("distribution") or {}).items():
                d[k] = d.get(k, 0) + v if isinstance(v, int) else v
            return st
        return {}

    def oracle_failures(self, outdir):
        p = os.path.join(outdir, "oracle.txt")
        res = []
        if os.path.exists(p):
            for line in open(p, errors="replace"):
                parts = line.rstrip("\n").split("\t")
                if len(parts) >= 2:
                    res.append((parts[0], parts[1], parts[2] if len(parts) > 2 else ""))
        return res

    # ---- decisions -------------------------------------------------------
    def write_replay(self, key, obj):
        h = hashlib.sha1((key + json.dumps(obj, sort_keys=True)).encode()).hexdigest()[:10]
        os.makedirs(os.path.join(OUT, "replays"), exist_ok=True)
        path = os.path.join(OUT, "replays", "%s-%s.json" % (self.pid, h))
        obj = dict(obj, property=self.pid, key=key, seed=self.seed, tier=self.tier)
        with open(path, "w") as f:
            json.dump(obj, f, indent=1)
        return path

    def report_concrete(self, key, obj):
        """A concrete input/history on which the property fails on the implementation."""
        if key in self.known:
            if key not in [k for k, _ in self.known_hit]:
                self.known_hit.append((key, self.known[key]))
            return
        if any(k == key for k, _, _ in self.violations):
            return
        self.violations.append((key, self.write_replay(key, dict(obj, kind="failing-input")), True))

    def report_unproved(self, what, obj=None):
        """A theorem / correspondence no longer checks and no failing input was found."""
        key = "unproved:" + hashlib.sha1(what.encode()).hexdigest()[:8]
        if any(k == key for k, _, _ in self.violations):
            return
        o = dict(obj or {}, kind="no-failing-input-found", no_longer_checks=what)
        self.violations.append((key, self.write_replay(key, o), False))

    def finish(self, level="proof", rule="", extra_cov=None):
        cov = dict(self.coverage)
        cov.update({
            "obligations": self.obligations,
            "discharged": self.discharged,
            "checker_cmd": "; ".join(dict.fromkeys(self.checker_cmds)) or "none",
            "trusted_base": self.trusted,
            "theorems": self.theorems,
        })
        if rule: cov["rule"] = rule
        cov.setdefault("evaluations", 0); cov.setdefault("distinct_nontrivial", 0)
        cov.setdefault("samples", [])
        cov["samples"] = cov["samples"][:12]
        if extra_cov: cov.update(extra_cov)
        if self.notes: cov["notes"] = self.notes
        if self.broken: cov["no_longer_checks"] = self.broken
        cov["known_findings_hit"] = [k for k, _ in self.known_hit]
        ev = {
            "property_id": self.pid, "tier": self.tier, "seed": self.seed, "level": level,
            "coverage": cov, "assumptions": self.assumptions,
            "wall_s": round(time.time() - self.t0, 2), "violations": len(self.violations),
        }
        os.makedirs(os.path.join(OUT, "evidence"), exist_ok=True)
        with open(os.path.join(OUT, "evidence", self.pid + ".json"), "w") as f:
            json.dump(ev, f, indent=1)
        for key, text in self.known_hit:
            print("KNOWN-FINDING: property=%s %s" % (self.pid, text))
        for key, path, concrete in self.violations:
            print("VIOLATION property=%s replay=%s%s" % (self.pid, path, "" if concrete else " no-failing-input-found"))
        print("%s %s: obligations=%d discharged=%d evaluations=%d violations=%d wall=%.1fs" % (
            self.pid, self.tier, self.obligations, self.discharged, cov.get("evaluations", 0), len(self.violations), time.time() - self.t0))
        sys.stdout.flush()
        sys.exit(1 if self.violations else 0)


def load_known(pid):
    """known_findings.txt: `finding: property=Cxx key=<key> <text>`; `fixed:` lines suppress nothing."""
    res = {}
    p = os.path.join(ROOT, "known_findings.txt")
    if not os.path.exists(p): return res
    for line in open(p):
        line = line.strip()
        if not line.startswith("finding:"): continue
        m = re.search(r"property=(\S+)\s+key=(\S+)\s*(.*)", line)
        if m and m.group(1) == pid:
            res[m.group(2)] = "key=%s %s" % (m.group(2), m.group(3))
    return res


def standard(ctx, prop_module, harness, n_quick, n_thorough, rule, extract=(), canon=None,
             oracle_is_violation=True, level="proof", pre=None, post=None, leancheck=True,
             driver="gopdriver"):
    """The common flow for a differential + oracle + proof check."""
    concrete_before = len(ctx.violations)
    if extract:
        ok, msg = ctx.extract(*extract)
        if not ok:
            ctx.broken.append("translator tie: " + msg)
    if pre: pre(ctx)
    ctx.driver_exe = driver
    proved = ctx.prove(prop_module, [prop_module, driver])
    if proved and ctx.tier == "thorough" and leancheck:
        ctx.leanchecker(prop_module)
    n = n_thorough if ctx.tier == "thorough" else n_quick
    outdir = ctx.run_harness(harness, n) if harness else None
    dis = None
    if outdir:
        ctx.load_stats(outdir)
        for key, case, detail in ctx.oracle_failures(outdir):
            ctx.report_concrete(key, {"case": case, "detail": detail, "harness": harness, "driver": driver,
                                      "how": "property predicate evaluated on the real implementation"})
        driver_ok = os.path.exists(os.path.join(LEAN, ".lake", "build", "bin", driver))
        if driver_ok:
            dis = ctx.differential(outdir, canon)
            if dis:
                for i, c, a, b in dis[:3]:
                    ctx.broken.append("correspondence: case %r impl=%r model=%r" % (c[:300], a[:300], b[:300]))
                ctx.coverage["disagreements"] = len(dis)
    if post: post(ctx, outdir, dis)
    # anything broken without a concrete, non-known failing input => property no longer shown
    concrete_new = [v for v in ctx.violations[concrete_before:] if v[2]]
    if ctx.broken and not concrete_new:
        first = dis[0] if dis else None
        ctx.report_unproved("; ".join(ctx.broken[:4]),
                            {"case": first[1], "impl": first[2], "model": first[3], "harness": harness, "driver": driver} if first else {"harness": harness, "driver": driver})
    ctx.finish(level=level, rule=rule)
