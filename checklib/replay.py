"""Generic replay: re-run one recorded case through the real code and the model."""
import os, subprocess
from . import common


def generic(ctx, obj):
    print(json_dump(obj))
    h, case = obj.get("harness"), obj.get("case")
    if obj.get("driver"): ctx.driver_exe = obj["driver"]
    if not h or not case:
        print("replay: nothing executable recorded (see no_longer_checks)"); return 1
    exe, out = ctx.build_harness(h)
    if exe is None:
        print(out); return 1
    outdir = os.path.join(ctx.work, "replay")
    case_tabbed = case if "\t" in case else case.replace(" ", "\t", 1)
    subprocess.run([exe, "-replay", case_tabbed, "-out", outdir], env=common.GOENV)
    dis = ctx.differential(outdir)
    orc = ctx.oracle_failures(outdir)
    print("impl :", open(os.path.join(outdir, "impl.txt")).read().strip())
    print("model:", open(os.path.join(outdir, "model.txt")).read().strip())
    for o in orc: print("ORACLE-FAIL", o)
    return 1 if (dis or orc) else 0


def json_dump(o):
    import json
    return json.dumps(o, indent=1)
