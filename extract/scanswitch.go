// Target "scanswitch": the operator `switch ch { ... }` inside `Scan` of scanner/scanner.go,
// tpl/scanner/scanner.go and GOROOT/src/go/scanner/scanner.go
// -> lean/GopModel/Generated/ScanSwitch.lean.
//
// Every case whose body is built only from
//
//	tok = token.X            (tpl: t.Tok = token.X)
//	tok = s.switch2/3/4(...)
//	insertSemi = true
//	if tok == token.X { insertSemi = true }
//	s.nParen++ / s.nParen--
//	if s.ch == 'c' { s.next(); <such statements> } [else if ... | else { <such statements> }]
//
// is translated into a decision trie (GopModel.Scan.Trie).  Every other case is *special*: its
// character is listed in `<dialect>Specials` (the hand-written model handles exactly that list,
// which Props/C33 checks).  For '/', whose body is `if s.ch == '/' || s.ch == '*' { comment }
// else { <simple> }`, the else branch is translated and '/' is listed as special as well.
// The definitions of switch2/3/4 themselves are checked against their expected text.
//
// For every special case the translator also emits its *effect skeleton* into
// Generated/ScanSpecials.lean (`<dialect>SpecialFx`): in source order, every assignment to the
// token / literal / insertSemi / a scanner field, every `s.nParen++/--`, every call of a scanner
// method (`s.tokSEMICOLON()`, `s.next()`, `s.scanString()`, ...), every `if` condition, `return`
// and `goto`; likewise for the helper `tokSEMICOLON` (`<dialect>SemicolonFx`).  Lemmas/ScanSpecials.lean pins these skeletons to the ones the hand-written model
// of the special cases was written from, so dropping or adding a state-affecting call in a
// special case changes the generated table and breaks the tie (DESIGN 2.8, fingerprint tie).
package main

import (
	"bytes"
	"fmt"
	"go/ast"
	"go/parser"
	"go/token"
	"os"
	"path/filepath"
	"strconv"
	"strings"
)

func init() { register("scanswitch", ssTarget) }

type ssTrie struct {
	leaf   bool
	tok    int64
	semi   bool
	dparen int
	c      int64
	yes    *ssTrie
	no     *ssTrie
}

func (t *ssTrie) lean() string {
	if t.leaf {
		dp := strconv.Itoa(t.dparen)
		if t.dparen < 0 {
			dp = "(" + dp + ")"
		}
		return fmt.Sprintf("(.leaf %d %v %s)", t.tok, t.semi, dp)
	}
	return fmt.Sprintf("(.test %d %s %s)", t.c, t.yes.lean(), t.no.lean())
}

func (t *ssTrie) eachLeaf(f func(*ssTrie)) {
	if t.leaf {
		f(t)
		return
	}
	t.yes.eachLeaf(f)
	t.no.eachLeaf(f)
}

type ssCtx struct {
	fset   *token.FileSet
	tokpkg *tokPkg
	tokVar string // "tok" or "t.Tok"
}

type ssNotSimple struct{ why string }

func (e *ssNotSimple) Error() string { return e.why }

func (c *ssCtx) tokConst(e ast.Expr) (int64, error) {
	sel, ok := e.(*ast.SelectorExpr)
	if !ok {
		return 0, &ssNotSimple{"not a token constant: " + tokShow(c.fset, e)}
	}
	if id, ok := sel.X.(*ast.Ident); !ok || id.Name != "token" {
		return 0, &ssNotSimple{"not a token constant: " + tokShow(c.fset, e)}
	}
	v, err := c.tokpkg.value(sel.Sel.Name)
	if err != nil {
		return 0, broken("token constant %s: %v", sel.Sel.Name, err)
	}
	return v, nil
}

func (c *ssCtx) charLit(e ast.Expr) (int64, error) {
	bl, ok := e.(*ast.BasicLit)
	if !ok || bl.Kind != token.CHAR {
		return 0, &ssNotSimple{"not a character literal: " + tokShow(c.fset, e)}
	}
	r, _, _, err := strconv.UnquoteChar(bl.Value[1:len(bl.Value)-1], '\'')
	if err != nil {
		return 0, err
	}
	return int64(r), nil
}

func ssLeaf(t int64) *ssTrie { return &ssTrie{leaf: true, tok: t} }

// rhs of `tok = ...`
func (c *ssCtx) tokExpr(e ast.Expr) (*ssTrie, error) {
	if call, ok := e.(*ast.CallExpr); ok {
		name := tokShow(c.fset, call.Fun)
		a := call.Args
		switch {
		case name == "s.switch2" && len(a) == 2:
			t0, err := c.tokConst(a[0])
			if err != nil {
				return nil, err
			}
			t1, err := c.tokConst(a[1])
			if err != nil {
				return nil, err
			}
			return &ssTrie{c: '=', yes: ssLeaf(t1), no: ssLeaf(t0)}, nil
		case name == "s.switch3" && len(a) == 4:
			t0, err := c.tokConst(a[0])
			if err != nil {
				return nil, err
			}
			t1, err := c.tokConst(a[1])
			if err != nil {
				return nil, err
			}
			c2, err := c.charLit(a[2])
			if err != nil {
				return nil, err
			}
			t2, err := c.tokConst(a[3])
			if err != nil {
				return nil, err
			}
			return &ssTrie{c: '=', yes: ssLeaf(t1), no: &ssTrie{c: c2, yes: ssLeaf(t2), no: ssLeaf(t0)}}, nil
		case name == "s.switch4" && len(a) == 5:
			t0, err := c.tokConst(a[0])
			if err != nil {
				return nil, err
			}
			t1, err := c.tokConst(a[1])
			if err != nil {
				return nil, err
			}
			c2, err := c.charLit(a[2])
			if err != nil {
				return nil, err
			}
			t2, err := c.tokConst(a[3])
			if err != nil {
				return nil, err
			}
			t3, err := c.tokConst(a[4])
			if err != nil {
				return nil, err
			}
			return &ssTrie{c: '=', yes: ssLeaf(t1), no: &ssTrie{c: c2, yes: &ssTrie{c: '=', yes: ssLeaf(t3), no: ssLeaf(t2)}, no: ssLeaf(t0)}}, nil
		}
		return nil, &ssNotSimple{"call " + name}
	}
	t, err := c.tokConst(e)
	if err != nil {
		return nil, err
	}
	return ssLeaf(t), nil
}

// `s.ch == 'c'`
func (c *ssCtx) chTest(e ast.Expr) (int64, bool) {
	be, ok := e.(*ast.BinaryExpr)
	if !ok || be.Op != token.EQL || tokShow(c.fset, be.X) != "s.ch" {
		return 0, false
	}
	v, err := c.charLit(be.Y)
	return v, err == nil
}

func (c *ssCtx) block(stmts []ast.Stmt) (*ssTrie, error) {
	var cur *ssTrie
	semi := false
	dparen := 0
	for _, st := range stmts {
		switch x := st.(type) {
		case *ast.IncDecStmt:
			if tokShow(c.fset, x.X) != "s.nParen" {
				return nil, &ssNotSimple{tokShow(c.fset, st)}
			}
			if x.Tok == token.INC {
				dparen++
			} else {
				dparen--
			}
		case *ast.AssignStmt:
			if len(x.Lhs) != 1 || len(x.Rhs) != 1 || x.Tok != token.ASSIGN {
				return nil, &ssNotSimple{tokShow(c.fset, st)}
			}
			lhs := tokShow(c.fset, x.Lhs[0])
			switch {
			case lhs == "insertSemi" && tokShow(c.fset, x.Rhs[0]) == "true":
				if cur == nil {
					semi = true
				} else {
					cur.eachLeaf(func(l *ssTrie) { l.semi = true })
				}
			case lhs == c.tokVar:
				if cur != nil {
					return nil, &ssNotSimple{"token assigned twice"}
				}
				t, err := c.tokExpr(x.Rhs[0])
				if err != nil {
					return nil, err
				}
				cur = t
			default:
				return nil, &ssNotSimple{tokShow(c.fset, st)}
			}
		case *ast.IfStmt:
			if x.Init != nil {
				return nil, &ssNotSimple{"if with init"}
			}
			// if tok == token.X { insertSemi = true }
			if be, ok := x.Cond.(*ast.BinaryExpr); ok && be.Op == token.EQL && tokShow(c.fset, be.X) == c.tokVar {
				if cur == nil || x.Else != nil || len(x.Body.List) != 1 || tokNorm(tokShow(c.fset, x.Body.List[0])) != "insertSemi = true" {
					return nil, &ssNotSimple{tokShow(c.fset, st)}
				}
				v, err := c.tokConst(be.Y)
				if err != nil {
					return nil, err
				}
				hit := false
				cur.eachLeaf(func(l *ssTrie) {
					if l.tok == v {
						l.semi = true
						hit = true
					}
				})
				if !hit {
					return nil, broken("`if %s == ...` names a token that the preceding assignment cannot produce", c.tokVar)
				}
				continue
			}
			if cur != nil {
				return nil, &ssNotSimple{"statement after token assignment: " + tokNorm(tokShow(c.fset, st))}
			}
			t, err := c.ifChain(x)
			if err != nil {
				return nil, err
			}
			cur = t
		default:
			return nil, &ssNotSimple{tokNorm(tokShow(c.fset, st))}
		}
	}
	if cur == nil {
		return nil, &ssNotSimple{"no token assigned"}
	}
	cur.eachLeaf(func(l *ssTrie) {
		if semi {
			l.semi = true
		}
		l.dparen += dparen
	})
	return cur, nil
}

// if s.ch == 'c' { s.next(); ... } else if ... else { ... }
func (c *ssCtx) ifChain(x *ast.IfStmt) (*ssTrie, error) {
	ch, ok := c.chTest(x.Cond)
	if !ok {
		return nil, &ssNotSimple{"condition " + tokShow(c.fset, x.Cond)}
	}
	if len(x.Body.List) < 2 || tokNorm(tokShow(c.fset, x.Body.List[0])) != "s.next()" {
		return nil, &ssNotSimple{"then-branch does not start with s.next()"}
	}
	yes, err := c.block(x.Body.List[1:])
	if err != nil {
		return nil, err
	}
	var no *ssTrie
	switch e := x.Else.(type) {
	case *ast.BlockStmt:
		no, err = c.block(e.List)
	case *ast.IfStmt:
		if e.Init != nil {
			return nil, &ssNotSimple{"if with init"}
		}
		no, err = c.ifChain(e)
	default:
		return nil, &ssNotSimple{"if without else"}
	}
	if err != nil {
		return nil, err
	}
	return &ssTrie{c: ch, yes: yes, no: no}, nil
}

// ssEffects: the effect skeleton of a special case body (see the file comment).
func (c *ssCtx) ssEffects(stmts []ast.Stmt) []string {
	var fx []string
	state := func(e ast.Expr) bool {
		t := tokShow(c.fset, e)
		return t == c.tokVar || t == "lit" || t == "t.Lit" || t == "insertSemi" || strings.HasPrefix(t, "s.")
	}
	show := func(n interface{}) string { return tokNorm(tokShow(c.fset, n)) }
	var visit func(n ast.Node) bool
	walk := func(n ast.Node) {
		if n != nil {
			ast.Inspect(n, visit)
		}
	}
	visit = func(n ast.Node) bool {
		switch x := n.(type) {
		case *ast.AssignStmt:
			for _, l := range x.Lhs {
				if state(l) {
					fx = append(fx, show(x))
					return false
				}
			}
		case *ast.IncDecStmt:
			if state(x.X) {
				fx = append(fx, show(x))
				return false
			}
		case *ast.IfStmt:
			if x.Init != nil {
				walk(x.Init)
			}
			fx = append(fx, "if "+show(x.Cond))
			walk(x.Body)
			if x.Else != nil {
				fx = append(fx, "else")
				walk(x.Else)
			}
			fx = append(fx, "end")
			return false
		case *ast.CallExpr:
			if f := show(x.Fun); strings.HasPrefix(f, "s.") {
				fx = append(fx, "call "+f)
			}
		case *ast.ReturnStmt:
			fx = append(fx, show(x))
			return false
		case *ast.BranchStmt:
			fx = append(fx, show(x))
			return false
		}
		return true
	}
	for _, st := range stmts {
		walk(st)
	}
	return fx
}

var ssSwitchDefs = map[string]string{
	"switch2": "{ if s.ch == '=' { s.next() return tok1 } return tok0 }",
	"switch3": "{ if s.ch == '=' { s.next() return tok1 } if s.ch == ch2 { s.next() return tok2 } return tok0 }",
	"switch4": "{ if s.ch == '=' { s.next() return tok1 } if s.ch == ch2 { s.next() if s.ch == '=' { s.next() return tok3 } return tok2 } return tok0 }",
}

func ssDialect(b, fxb *bytes.Buffer, name, file string, tp *tokPkg, tokVar string) error {
	fset := token.NewFileSet()
	f, err := parser.ParseFile(fset, file, nil, 0)
	if err != nil {
		return broken("cannot parse %s: %v", file, err)
	}
	c := &ssCtx{fset: fset, tokpkg: tp, tokVar: tokVar}
	var scan *ast.FuncDecl
	var semicolonFx []string
	seen := map[string]bool{}
	for _, d := range f.Decls {
		fd, ok := d.(*ast.FuncDecl)
		if !ok || fd.Recv == nil {
			continue
		}
		if fd.Name.Name == "Scan" {
			scan = fd
		}
		if fd.Name.Name == "tokSEMICOLON" {
			semicolonFx = c.ssEffects(fd.Body.List)
		}
		if want, ok := ssSwitchDefs[fd.Name.Name]; ok {
			if got := tokNorm(tokShow(fset, fd.Body)); got != want {
				return broken("%s: body of %s changed: %q", file, fd.Name.Name, got)
			}
			seen[fd.Name.Name] = true
		}
	}
	if scan == nil || len(seen) != 3 {
		return broken("%s: Scan/switch2/switch3/switch4 not all found", file)
	}
	// the operator switch: the `switch ch {` whose cases are character literals, nested in
	// the `default:` clause of `switch ch := s.ch; {`
	var sw *ast.SwitchStmt
	ast.Inspect(scan.Body, func(n ast.Node) bool {
		if s, ok := n.(*ast.SwitchStmt); ok && s.Tag != nil && tokShow(fset, s.Tag) == "ch" && s.Init == nil {
			if sw != nil {
				sw = nil
				return false
			}
			sw = s
			return false
		}
		return true
	})
	if sw == nil {
		return broken("%s: no unique `switch ch {` in Scan", file)
	}
	type entry struct {
		ch   int64
		trie *ssTrie
	}
	var ops []entry
	var specials []int64
	specialFx := map[int64][]string{}
	hasDefault := false
	seenCh := map[int64]bool{}
	for _, cl := range sw.Body.List {
		cc := cl.(*ast.CaseClause)
		if cc.List == nil {
			hasDefault = true
			continue
		}
		for _, e := range cc.List {
			var ch int64
			switch tokShow(fset, e) {
			case "-1", "eof":
				ch = 0x110000
			default:
				v, err := c.charLit(e)
				if err != nil {
					return broken("%s: case label %s", file, tokShow(fset, e))
				}
				ch = v
			}
			if seenCh[ch] {
				return broken("%s: duplicate case %d", file, ch)
			}
			seenCh[ch] = true
			body := cc.Body
			fxBody := cc.Body
			special := false
			if ch == '/' && len(body) == 1 {
				// if s.ch == '/' || s.ch == '*' { comment } else { simple }
				if is, ok := body[0].(*ast.IfStmt); ok && is.Init == nil && tokNorm(tokShow(fset, is.Cond)) == "s.ch == '/' || s.ch == '*'" {
					if eb, ok := is.Else.(*ast.BlockStmt); ok {
						body = eb.List
						fxBody = is.Body.List // the else branch is translated into the trie
						special = true
					}
				}
				if !special {
					return broken("%s: case '/' no longer has the form `if s.ch == '/' || s.ch == '*' {…} else {…}`", file)
				}
			}
			t, err := c.block(body)
			if err != nil {
				if _, ok := err.(*ssNotSimple); ok && !special {
					specials = append(specials, ch)
					specialFx[ch] = c.ssEffects(fxBody)
					continue
				}
				return broken("%s: case %q: %v", file, rune(ch), err)
			}
			ops = append(ops, entry{ch, t})
			if special {
				specials = append(specials, ch)
				specialFx[ch] = c.ssEffects(fxBody)
			}
		}
	}
	if !hasDefault {
		return broken("%s: operator switch has no default clause", file)
	}
	fmt.Fprintf(b, "\n/-- %s Scan: first byte ↦ decision trie, in source order -/\ndef %sOps : List (Nat × Trie) := [\n", name, name)
	for i, e := range ops {
		if i > 0 {
			b.WriteString(",\n")
		}
		fmt.Fprintf(b, "  (%d, %s)", e.ch, e.trie.lean())
	}
	fmt.Fprintf(b, "]\n\n/-- %s: the cases that are not pure operator cases (1114112 = EOF), in source order -/\ndef %sSpecials : List Nat := [", name, name)
	for i, s := range specials {
		if i > 0 {
			b.WriteString(", ")
		}
		fmt.Fprintf(b, "%d", s)
	}
	b.WriteString("]\n")
	fmt.Fprintf(fxb, "\n/-- %s Scan: effect skeleton of every special case (1114112 = EOF), in source order -/\ndef %sSpecialFx : List (Nat × List String) := [\n", name, name)
	for i, s := range specials {
		if i > 0 {
			fxb.WriteString(",\n")
		}
		fmt.Fprintf(fxb, "  (%d, [", s)
		for j, e := range specialFx[s] {
			if j > 0 {
				fxb.WriteString(", ")
			}
			fxb.WriteString(strconv.QuoteToASCII(e))
		}
		fxb.WriteString("])")
	}
	fxb.WriteString("]\n")
	fmt.Fprintf(fxb, "\n/-- %s: effect skeleton of the helper `tokSEMICOLON` (empty: the scanner has no such method) -/\ndef %sSemicolonFx : List String := [", name, name)
	for j, e := range semicolonFx {
		if j > 0 {
			fxb.WriteString(", ")
		}
		fxb.WriteString(strconv.QuoteToASCII(e))
	}
	fxb.WriteString("]\n")
	return nil
}

func ssTarget(repo, out string) error {
	goroot := tokGoEnv("GOROOT")
	var b, fxb bytes.Buffer
	fxb.WriteString("/- GENERATED by /verif/extract (target `scanswitch`): the effect skeletons of the special cases of\n   the operator switch of Scan (see extract/scanswitch.go).  Do not edit. Definitions only. -/\nnamespace GopModel.Generated.ScanSpecials\n")
	b.WriteString("/- GENERATED by /verif/extract (target `scanswitch`) from the operator switch of Scan in\n   scanner/scanner.go, tpl/scanner/scanner.go (tree under test) and go/scanner (toolchain).\n   Do not edit. Definitions only. -/\nimport GopModel.Model.ScanTries\nnamespace GopModel.Generated.ScanSwitch\nopen GopModel.Scan\n")
	load := func(dir string) (*tokPkg, error) {
		p, err := tokLoadPkg(dir, func(path string) (*tokPkg, error) {
			switch path {
			case "go/token":
				return tokLoadPkg(filepath.Join(goroot, "src/go/token"), nil)
			case "github.com/goplus/gogen/token":
				// located exactly as in target `tokens`
				return ssGogenToken(repo, goroot)
			}
			return nil, fmt.Errorf("unexpected import %s", path)
		})
		return p, err
	}
	x, err := load(filepath.Join(repo, "token"))
	if err != nil {
		return err
	}
	if err := ssDialect(&b, &fxb, "xgo", filepath.Join(repo, "scanner/scanner.go"), x, "tok"); err != nil {
		return err
	}
	t, err := load(filepath.Join(repo, "tpl/token"))
	if err != nil {
		return err
	}
	if err := ssDialect(&b, &fxb, "tpl", filepath.Join(repo, "tpl/scanner/scanner.go"), t, "t.Tok"); err != nil {
		return err
	}
	g, err := load(filepath.Join(goroot, "src/go/token"))
	if err != nil {
		return err
	}
	if err := ssDialect(&b, &fxb, "go", filepath.Join(goroot, "src/go/scanner/scanner.go"), g, "tok"); err != nil {
		return err
	}
	b.WriteString("\nend GopModel.Generated.ScanSwitch\n")
	fxb.WriteString("\nend GopModel.Generated.ScanSpecials\n")
	if err := writeIfChanged(filepath.Join(out, "ScanSpecials.lean"), fxb.Bytes()); err != nil {
		return err
	}
	return writeIfChanged(filepath.Join(out, "ScanSwitch.lean"), b.Bytes())
}

func ssGogenToken(repo, goroot string) (*tokPkg, error) {
	modcache := tokGoEnv("GOMODCACHE")
	gomod, err := readFileString(filepath.Join(repo, "go.mod"))
	if err != nil {
		return nil, err
	}
	for _, line := range strings.Split(gomod, "\n") {
		fs := strings.Fields(line)
		for i, f := range fs {
			if f == "github.com/goplus/gogen" && i+1 < len(fs) {
				return tokLoadPkg(filepath.Join(modcache, "github.com/goplus/gogen@"+fs[i+1], "token"), func(path string) (*tokPkg, error) {
					if path == "go/token" {
						return tokLoadPkg(filepath.Join(goroot, "src/go/token"), nil)
					}
					return nil, fmt.Errorf("unexpected import %s", path)
				})
			}
		}
	}
	return nil, fmt.Errorf("gogen not required by go.mod")
}

func readFileString(p string) (string, error) {
	b, err := os.ReadFile(p)
	return string(b), err
}
