// Translator targets sync_watcher and sync_fakenet: thread programs of
// x/watcher/changes.go (Fetch, FileChanged) and x/fakenet/conn.go (connFeeder.do/run/close)
// in the sync DSL of lean/GopModel/Model/TS.lean.
//
// Only the statement forms that occur in those functions today are translated; anything else
// is a broken tie.  After translation a dataflow pass checks the lock discipline: every access
// to the shared map / flag happens while the mutex is held (Go's memory model is not modelled).
package main

import (
	"bytes"
	"fmt"
	"go/ast"
	"go/parser"
	"go/printer"
	"go/token"
	"path/filepath"
	"strings"
)

func init() {
	register("sync_watcher", syncWatcher)
	register("sync_fakenet", syncFakenet)
}

// ---- small compiler to the DSL ---------------------------------------------------------

type syLabel struct {
	pc    int
	alias *syLabel
}

func (l *syLabel) resolve() int {
	for l.alias != nil {
		l = l.alias
	}
	return l.pc
}

type syIns struct {
	format string // Lean text with %d for each syLabel
	labels []*syLabel
	src    string // source comment
	// for the lock-discipline pass
	kind string // "lock" "unlock" "waitEnq" "waitRelock" "shared" "ret" "other"
}

type syComp struct {
	fset    *token.FileSet
	code    []*syIns
	pending []*syLabel
	regs    map[string]string // Go variable -> register
	regInit map[string]string // register -> Lean `Option Val`
	order   []string
	recv    string
	err     error
	// shape knowledge
	mutex, cond, set, flag string            // field names
	chans                  map[string]int    // channel field -> id
	pairOf                 map[string]string // "n,err" pair variable bookkeeping
	named                  string            // named result variable ("" if none)
	srcField               string
	resFields              []string // fields of the result struct, in order
	resType                string
	rootField              string
}

func (c *syComp) fail(n ast.Node, format string, a ...interface{}) {
	if c.err == nil {
		where := ""
		if n != nil {
			where = fmt.Sprintf(" at %s: `%s`", c.fset.Position(n.Pos()), strings.Join(strings.Fields(c.str(n)), " "))
		}
		c.err = broken(format+where, a...)
	}
}

func (c *syComp) str(n ast.Node) string {
	var b bytes.Buffer
	printer.Fprint(&b, c.fset, n)
	return b.String()
}

func (c *syComp) newLabel() *syLabel { return &syLabel{pc: -1} }

// place binds l to the pc of the next emitted instruction.
func (c *syComp) place(l *syLabel) { c.pending = append(c.pending, l) }

func (c *syComp) emit(kind, src, format string, labels ...*syLabel) {
	for _, l := range c.pending {
		l.pc = len(c.code)
	}
	c.pending = nil
	c.code = append(c.code, &syIns{format: format, labels: labels, src: src, kind: kind})
}

var syRegNames = []string{"a", "b", "c"}

func (c *syComp) declare(name, init string) string {
	if r, ok := c.regs[name]; ok {
		return r
	}
	if len(c.order) >= len(syRegNames) {
		c.fail(nil, "more than %d variables in syOne function (%s)", len(syRegNames), name)
		return "a"
	}
	r := syRegNames[len(c.order)]
	c.order = append(c.order, name)
	c.regs[name] = r
	c.regInit[r] = init
	return r
}

func (c *syComp) reg(n ast.Node, name string) string {
	r, ok := c.regs[name]
	if !ok {
		c.fail(n, "unknown variable %s", name)
		return "a"
	}
	return r
}

func syZeroOf(typ string) (string, bool) {
	switch typ {
	case "string", "[]byte":
		return "some (.str [])", true
	case "int":
		return "some (.nat 0)", true
	}
	return "", false
}

func (c *syComp) sel(field string) string { return c.recv + "." + field }

// stmts compiles a statement list; control continues at cont afterwards.
func (c *syComp) stmts(list []ast.Stmt, cont *syLabel) {
	for i, s := range list {
		next := cont
		if i < len(list)-1 {
			next = c.newLabel()
		}
		c.stmt(s, next)
		if i < len(list)-1 {
			c.place(next)
		}
	}
}

func syIsIdent(e ast.Expr, name string) bool {
	id, ok := e.(*ast.Ident)
	return ok && id.Name == name
}

func (c *syComp) stmt(s ast.Stmt, next *syLabel) {
	if c.err != nil {
		return
	}
	src := strings.Join(strings.Fields(c.str(s)), " ")
	if len(src) > 60 {
		src = src[:60] + "…"
	}
	switch s := s.(type) {
	case *ast.ExprStmt:
		call, ok := s.X.(*ast.CallExpr)
		if !ok {
			c.fail(s, "unsupported expression statement")
			return
		}
		fn := c.str(call.Fun)
		switch {
		case fn == c.sel(c.mutex)+".Lock" && len(call.Args) == 0:
			c.emit("lock", src, ".lock %d", next)
		case fn == c.sel(c.mutex)+".Unlock" && len(call.Args) == 0:
			c.emit("unlock", src, ".unlock %d", next)
		case c.cond != "" && fn == c.sel(c.cond)+".Wait" && len(call.Args) == 0:
			mid := c.newLabel()
			c.emit("waitEnq", src, ".waitEnq %d", mid)
			c.place(mid)
			c.emit("waitRelock", src+" (resume)", ".waitRelock %d", next)
		case c.cond != "" && fn == c.sel(c.cond)+".Broadcast" && len(call.Args) == 0:
			c.emit("other", src, ".broadcast %d", next)
		case c.cond != "" && fn == c.sel(c.cond)+".Signal" && len(call.Args) == 0:
			c.emit("other", src, ".signal %d", next)
		case fn == "close" && len(call.Args) == 1:
			ch, ok := c.chanOf(call.Args[0])
			if !ok {
				c.fail(s, "close of something that is not a channel field")
				return
			}
			c.emit("other", src, fmt.Sprintf(".close %d %%d", ch), next)
		default:
			c.fail(s, "unsupported call statement")
		}
	case *ast.AssignStmt:
		c.assign(s, src, next)
	case *ast.DeclStmt:
		// var b []byte
		gd, ok := s.Decl.(*ast.GenDecl)
		if !ok || gd.Tok != token.VAR || len(gd.Specs) != 1 {
			c.fail(s, "unsupported declaration")
			return
		}
		vs := gd.Specs[0].(*ast.ValueSpec)
		if len(vs.Names) != 1 || len(vs.Values) != 0 || vs.Type == nil {
			c.fail(s, "unsupported var declaration")
			return
		}
		z, ok := syZeroOf(c.str(vs.Type))
		if !ok {
			c.fail(s, "unsupported variable type")
			return
		}
		c.declare(vs.Names[0].Name, z)
		// no instruction: the declaration only fixes the register's initial value; it must be
		// the first statement so that "initial value" is what the Go code sees
		if len(c.code) != 0 {
			c.fail(s, "var declaration after the first instruction")
		}
	case *ast.ForStmt:
		if s.Init != nil || s.Post != nil {
			c.fail(s, "unsupported for statement")
			return
		}
		head := c.newLabel()
		c.place(head)
		if s.Cond == nil {
			if len(s.Body.List) == 0 {
				c.fail(s, "empty infinite loop")
				return
			}
			c.stmts(s.Body.List, head)
			return
		}
		if c.set == "" || c.str(s.Cond) != "len("+c.sel(c.set)+") == 0" {
			c.fail(s, "unsupported loop condition")
			return
		}
		body := c.newLabel()
		c.emit("shared", "for "+c.str(s.Cond), ".brEmpty %d %d", body, next)
		if len(s.Body.List) == 0 {
			c.fail(s, "busy loop")
			return
		}
		c.place(body)
		c.stmts(s.Body.List, head)
	case *ast.RangeStmt:
		// for dir = range p.changed { delete(p.changed, dir); break }
		key, ok := s.Key.(*ast.Ident)
		if !ok || s.Value != nil || c.set == "" || c.str(s.X) != c.sel(c.set) || len(s.Body.List) != 2 {
			c.fail(s, "unsupported range statement")
			return
		}
		want0 := "delete(" + c.sel(c.set) + ", " + key.Name + ")"
		br, ok2 := s.Body.List[1].(*ast.BranchStmt)
		if c.str(s.Body.List[0]) != want0 || !ok2 || br.Tok != token.BREAK || br.Label != nil {
			c.fail(s, "unsupported range body (want `%s; break`)", want0)
			return
		}
		if s.Tok == token.DEFINE {
			c.declare(key.Name, "some (.str [])")
		}
		c.emit("shared", src, fmt.Sprintf(".setPick .%s %%d", c.reg(s, key.Name)), next)
	case *ast.IfStmt:
		if s.Init != nil || s.Else != nil {
			c.fail(s, "unsupported if statement")
			return
		}
		body := c.newLabel()
		cond := c.str(s.Cond)
		switch {
		case c.flag != "" && cond == "!"+c.sel(c.flag):
			c.emit("shared", "if "+cond, ".brFlag %d %d", next, body)
		case c.flag != "" && cond == c.sel(c.flag):
			c.emit("shared", "if "+cond, ".brFlag %d %d", body, next)
		default:
			if be, ok := s.Cond.(*ast.BinaryExpr); ok && be.Op == token.EQL && c.str(be.Y) == "0" {
				if id, ok := be.X.(*ast.Ident); ok {
					c.emit("other", "if "+cond, fmt.Sprintf(".brZero .%s %%d %%d", c.reg(s, id.Name)), body, next)
					break
				}
			}
			if id, ok := s.Cond.(*ast.Ident); ok && c.regInit[c.reg(s, id.Name)] == "none" {
				// boolean parameter: true is any non-zero value
				c.emit("other", "if "+cond, fmt.Sprintf(".brZero .%s %%d %%d", c.reg(s, id.Name)), next, body)
				break
			}
			c.fail(s, "unsupported if condition")
			return
		}
		if len(s.Body.List) == 0 {
			body.alias = next
			return
		}
		c.place(body)
		c.stmts(s.Body.List, next)
	case *ast.ReturnStmt:
		c.ret(s, src)
	case *ast.SelectStmt:
		c.selectStmt(s, next)
	default:
		c.fail(s, "unsupported statement")
	}
}

func (c *syComp) chanOf(e ast.Expr) (int, bool) {
	se, ok := e.(*ast.SelectorExpr)
	if !ok || !syIsIdent(se.X, c.recv) {
		return 0, false
	}
	id, ok := c.chans[se.Sel.Name]
	return id, ok
}

func (c *syComp) ret(s *ast.ReturnStmt, src string) {
	switch {
	case len(s.Results) == 0 && c.named != "":
		c.emit("ret", src, fmt.Sprintf(".ret (.reg .%s)", c.reg(s, c.named)))
	case len(s.Results) == 0:
		c.emit("ret", src, ".ret .unit")
	case len(s.Results) == 2 && c.str(s.Results[0]) == "0" && c.str(s.Results[1]) == "io.EOF":
		c.emit("ret", src, ".ret .eof")
	case len(s.Results) == len(c.resFields) && len(c.resFields) > 0:
		// return r.n, r.err  — the components of syOne received result, in field order
		var v string
		for i, r := range s.Results {
			se, ok := r.(*ast.SelectorExpr)
			id, ok2 := se.X.(*ast.Ident)
			if !ok || !ok2 || se.Sel.Name != c.resFields[i] || (v != "" && id.Name != v) {
				c.fail(s, "unsupported return values")
				return
			}
			v = id.Name
		}
		c.emit("ret", src, fmt.Sprintf(".ret (.reg .%s)", c.reg(s, v)))
	default:
		c.fail(s, "unsupported return")
	}
}

func (c *syComp) assign(s *ast.AssignStmt, src string, next *syLabel) {
	// p.changed[dir] = none{}
	if len(s.Lhs) == 1 && len(s.Rhs) == 1 && s.Tok == token.ASSIGN {
		if ix, ok := s.Lhs[0].(*ast.IndexExpr); ok && c.set != "" && c.str(ix.X) == c.sel(c.set) {
			id, ok := ix.Index.(*ast.Ident)
			if _, isLit := s.Rhs[0].(*ast.CompositeLit); !ok || !isLit {
				c.fail(s, "unsupported map assignment")
				return
			}
			c.emit("shared", src, fmt.Sprintf(".setInsert .%s %%d", c.reg(s, id.Name)), next)
			return
		}
		if c.flag != "" && c.str(s.Lhs[0]) == c.sel(c.flag) && c.str(s.Rhs[0]) == "true" {
			c.emit("shared", src, ".setFlag %d", next)
			return
		}
		// dir = p.root + dir
		if id, ok := s.Lhs[0].(*ast.Ident); ok && c.rootField != "" && c.str(s.Rhs[0]) == c.sel(c.rootField)+" + "+id.Name {
			r := c.reg(s, id.Name)
			c.emit("other", src, fmt.Sprintf(".pure .addRoot .%s .%s %%d", r, r), next)
			return
		}
	}
	if len(s.Lhs) == 1 && len(s.Rhs) == 1 && s.Tok == token.DEFINE {
		id, ok := s.Lhs[0].(*ast.Ident)
		call, ok2 := s.Rhs[0].(*ast.CallExpr)
		if ok && ok2 && len(call.Args) == 1 {
			switch c.str(call.Fun) {
			case "path.Dir":
				arg, ok := call.Args[0].(*ast.Ident)
				if !ok {
					break
				}
				srcReg := c.reg(s, arg.Name)
				dst := c.declare(id.Name, "some (.str [])")
				c.emit("other", src, fmt.Sprintf(".pure .pathDir .%s .%s %%d", dst, srcReg), next)
				return
			case "len":
				if c.set != "" && c.str(call.Args[0]) == c.sel(c.set) {
					dst := c.declare(id.Name, "some (.nat 0)")
					c.emit("shared", src, fmt.Sprintf(".setLen .%s %%d", dst), next)
					return
				}
			}
		}
	}
	// n, err := f.source(b)
	if len(s.Lhs) == len(c.resFields) && len(c.resFields) > 0 && len(s.Rhs) == 1 && s.Tok == token.DEFINE {
		call, ok := s.Rhs[0].(*ast.CallExpr)
		if ok && c.srcField != "" && c.str(call.Fun) == c.sel(c.srcField) && len(call.Args) == 1 {
			arg, ok := call.Args[0].(*ast.Ident)
			var names []string
			for _, l := range s.Lhs {
				if id, ok := l.(*ast.Ident); ok {
					names = append(names, id.Name)
				}
			}
			if ok && len(names) == len(s.Lhs) {
				pair := strings.Join(names, ",")
				dst := c.declare(pair, "some (.res 0 0)")
				c.emit("other", src, fmt.Sprintf(".call .%s .%s %%d", c.reg(s, arg.Name), dst), next)
				return
			}
		}
	}
	c.fail(s, "unsupported assignment")
}

func (c *syComp) selectStmt(s *ast.SelectStmt, next *syLabel) {
	type cs struct {
		text  string
		syLabel *syLabel
		body  []ast.Stmt
	}
	var cases []cs
	for _, cl := range s.Body.List {
		cc := cl.(*ast.CommClause)
		l := c.newLabel()
		var text string
		switch comm := cc.Comm.(type) {
		case *ast.SendStmt:
			ch, ok := c.chanOf(comm.Chan)
			if !ok {
				c.fail(cc, "send on something that is not a channel field")
				return
			}
			var r string
			switch v := comm.Value.(type) {
			case *ast.Ident:
				r = c.reg(cc, v.Name)
			case *ast.CompositeLit:
				// feedResult{n: n, err: err}: the pair produced by the source call, field by field
				var names []string
				if c.str(v.Type) != c.resType || len(v.Elts) != len(c.resFields) {
					c.fail(cc, "unsupported composite value sent")
					return
				}
				for i, e := range v.Elts {
					kv, ok := e.(*ast.KeyValueExpr)
					if !ok || c.str(kv.Key) != c.resFields[i] {
						c.fail(cc, "unsupported composite value sent")
						return
					}
					names = append(names, c.str(kv.Value))
				}
				r = c.reg(cc, strings.Join(names, ","))
			default:
				c.fail(cc, "unsupported value sent")
				return
			}
			text = fmt.Sprintf(".send %d .%s %%d", ch, r)
		case *ast.ExprStmt: // <-ch
			ue, ok := comm.X.(*ast.UnaryExpr)
			if !ok || ue.Op != token.ARROW {
				c.fail(cc, "unsupported select case")
				return
			}
			ch, ok := c.chanOf(ue.X)
			if !ok {
				c.fail(cc, "receive from something that is not a channel field")
				return
			}
			text = fmt.Sprintf(".recv %d none %%d", ch)
		case *ast.AssignStmt: // r := <-ch   /  b = <-ch
			if len(comm.Lhs) != 1 || len(comm.Rhs) != 1 {
				c.fail(cc, "unsupported select case")
				return
			}
			ue, ok := comm.Rhs[0].(*ast.UnaryExpr)
			id, ok2 := comm.Lhs[0].(*ast.Ident)
			if !ok || !ok2 || ue.Op != token.ARROW {
				c.fail(cc, "unsupported select case")
				return
			}
			ch, ok := c.chanOf(ue.X)
			if !ok {
				c.fail(cc, "receive from something that is not a channel field")
				return
			}
			var r string
			if comm.Tok == token.DEFINE {
				r = c.declare(id.Name, "some (.res 0 0)")
			} else {
				r = c.reg(cc, id.Name)
			}
			text = fmt.Sprintf(".recv %d (some .%s) %%d", ch, r)
		default:
			c.fail(cc, "unsupported select case (default?)")
			return
		}
		cases = append(cases, cs{text, l, cc.Body})
	}
	var parts []string
	var labels []*syLabel
	for _, k := range cases {
		parts = append(parts, k.text)
		labels = append(labels, k.syLabel)
	}
	c.emit("other", "select", ".select ["+strings.Join(parts, ", ")+"]", labels...)
	for _, k := range cases {
		if len(k.body) == 0 {
			k.syLabel.alias = next
			continue
		}
		c.place(k.syLabel)
		c.stmts(k.body, next)
	}
}

// lockDiscipline: forward dataflow of "mutex held by this thread" over the emitted code.
func (c *syComp) lockDiscipline(fn string) error {
	n := len(c.code)
	state := make([]int, n) // 0 unknown, 1 not held, 2 held
	var visit func(pc, held int) error
	visit = func(pc, held int) error {
		if pc < 0 || pc >= n {
			return broken("%s: jump out of the function (pc %d)", fn, pc)
		}
		if state[pc] != 0 {
			if state[pc] != held {
				return broken("%s: mutex held on syOne path and not on another at `%s`", fn, c.code[pc].src)
			}
			return nil
		}
		state[pc] = held
		in := c.code[pc]
		out := held
		switch in.kind {
		case "lock", "waitRelock":
			if held == 2 {
				return broken("%s: Lock while already holding the mutex at `%s`", fn, in.src)
			}
			out = 2
		case "unlock", "waitEnq":
			if held != 2 {
				return broken("%s: Unlock/Wait without holding the mutex at `%s`", fn, in.src)
			}
			out = 1
		case "shared":
			if held != 2 {
				return broken("%s: unsynchronised access to shared state at `%s`", fn, in.src)
			}
		case "ret":
			if held == 2 {
				return broken("%s: return while holding the mutex at `%s`", fn, in.src)
			}
		}
		for _, l := range in.labels {
			if err := visit(l.resolve(), out); err != nil {
				return err
			}
		}
		return nil
	}
	return visit(0, 1)
}

func (c *syComp) render(name string) string {
	var b strings.Builder
	fmt.Fprintf(&b, "def %sCode : List Instr := [\n", name)
	for i, in := range c.code {
		args := make([]interface{}, len(in.labels))
		for k, l := range in.labels {
			args[k] = l.resolve()
		}
		sep := ","
		if i == len(c.code)-1 {
			sep = ""
		}
		fmt.Fprintf(&b, "  %s%s  -- %d: %s\n", fmt.Sprintf(in.format, args...), sep, i, in.src)
	}
	b.WriteString("]\n\n")
	get := func(r string) string {
		if v, ok := c.regInit[r]; ok {
			return v
		}
		return "some (.nat 0)"
	}
	var vars []string
	for _, v := range c.order {
		vars = append(vars, v+"→"+c.regs[v])
	}
	fmt.Fprintf(&b, "/-- registers: %s -/\n", strings.Join(vars, ", "))
	fmt.Fprintf(&b, "def %sFn : FnDef := { code := %sCode, initA := %s, initB := %s, initC := %s }\n\n", name, name, get("a"), get("b"), get("c"))
	return b.String()
}

// ---- source access ---------------------------------------------------------------------

type sySrcFile struct {
	fset *token.FileSet
	file *ast.File
}

func syParseGo(path string) (*sySrcFile, error) {
	fset := token.NewFileSet()
	f, err := parser.ParseFile(fset, path, nil, 0)
	if err != nil {
		return nil, broken("cannot parse %s: %v", path, err)
	}
	return &sySrcFile{fset, f}, nil
}

func (s *sySrcFile) str(n ast.Node) string {
	var b bytes.Buffer
	printer.Fprint(&b, s.fset, n)
	return b.String()
}

func (s *sySrcFile) structType(name string) *ast.StructType {
	for _, d := range s.file.Decls {
		if gd, ok := d.(*ast.GenDecl); ok && gd.Tok == token.TYPE {
			for _, sp := range gd.Specs {
				ts := sp.(*ast.TypeSpec)
				if st, ok := ts.Type.(*ast.StructType); ok && ts.Name.Name == name {
					return st
				}
			}
		}
	}
	return nil
}

// method returns the declaration of func (recv *typ) name(...); typ=="" means plain function.
func (s *sySrcFile) method(typ, name string) *ast.FuncDecl {
	for _, d := range s.file.Decls {
		fd, ok := d.(*ast.FuncDecl)
		if !ok || fd.Name.Name != name || fd.Body == nil {
			continue
		}
		if typ == "" {
			if fd.Recv == nil {
				return fd
			}
			continue
		}
		if fd.Recv == nil || len(fd.Recv.List) != 1 {
			continue
		}
		t := s.str(fd.Recv.List[0].Type)
		if t == "*"+typ || t == typ {
			return fd
		}
	}
	return nil
}

// fieldsOfType lists the field names of st whose type prints as syOne of typs (in order).
func (s *sySrcFile) fieldsWhere(st *ast.StructType, pred func(typ string) bool) []string {
	var res []string
	for _, f := range st.Fields.List {
		if pred(s.str(f.Type)) {
			for _, n := range f.Names {
				res = append(res, n.Name)
			}
		}
	}
	return res
}

func syOne(what string, xs []string) (string, error) {
	if len(xs) != 1 {
		return "", broken("expected exactly syOne %s, found %v", what, xs)
	}
	return xs[0], nil
}

func (s *sySrcFile) newComp(fd *ast.FuncDecl) *syComp {
	c := &syComp{fset: s.fset, regs: map[string]string{}, regInit: map[string]string{}, chans: map[string]int{}}
	if fd.Recv != nil && len(fd.Recv.List[0].Names) == 1 {
		c.recv = fd.Recv.List[0].Names[0].Name
	}
	// named results first, then parameters
	// a single named result is a variable of the function (bare `return` returns it); several
	// named results are accepted only if every return statement is explicit (then they are unused)
	if fd.Type.Results != nil {
		var names []*ast.Field
		cnt := 0
		for _, f := range fd.Type.Results.List {
			cnt += len(f.Names)
			names = append(names, f)
		}
		if cnt == 1 {
			f := names[0]
			z, ok := syZeroOf(s.str(f.Type))
			if !ok {
				c.fail(f, "unsupported result type")
			}
			c.named = f.Names[0].Name
			c.declare(c.named, z)
		} else if cnt > 1 {
			ast.Inspect(fd.Body, func(n ast.Node) bool {
				switch n := n.(type) {
				case *ast.ReturnStmt:
					if len(n.Results) == 0 {
						c.fail(n, "bare return with several named results")
					}
				case *ast.Ident:
					for _, f := range names {
						for _, nm := range f.Names {
							if n.Name == nm.Name && n.Obj == nm.Obj {
								c.fail(n, "named result %s used as a variable", nm.Name)
							}
						}
					}
				}
				return true
			})
		}
	}
	for _, f := range fd.Type.Params.List {
		for _, n := range f.Names {
			c.declare(n.Name, "none")
		}
	}
	return c
}

func (c *syComp) function(fd *ast.FuncDecl, name string) (string, error) {
	end := c.newLabel()
	c.stmts(fd.Body.List, end)
	if c.err != nil {
		return "", c.err
	}
	// implicit return at the end of the body (only emitted when control can reach it)
	c.place(end)
	reach := false
	for _, in := range c.code {
		for _, l := range in.labels {
			if l.resolve() == -1 {
				reach = true
			}
		}
	}
	if reach || len(c.code) == 0 {
		if c.named != "" {
			c.emit("ret", "(end of function)", fmt.Sprintf(".ret (.reg .%s)", c.regs[c.named]))
		} else if fd.Type.Results != nil && len(fd.Type.Results.List) > 0 {
			return "", broken("%s: control reaches the end of a function with results", name)
		} else {
			c.emit("ret", "(end of function)", ".ret .unit")
		}
	}
	if err := c.lockDiscipline(name); err != nil {
		return "", err
	}
	return c.render(name), nil
}

const syncHeader = `/- GENERATED by /verif/extract (target %s) from %s — do not edit.
Thread programs in the sync DSL of Model/TS.lean, one instruction per synchronisation-relevant
Go statement (source text in the comments). -/
import GopModel.Model.TS
namespace GopModel.Generated.%s
open GopModel.TS

`

// fieldAccess lists, for every function of the file in source order, how it touches the shared
// field `field` of the receiver/any variable (delete / insert / len / range / init / other) and
// which methods it calls on the field `cond` (wait / broadcast / signal / bind).  This is the frame
// condition of the model: the thread programs translated above must be the ONLY code that changes
// the set or uses the condition variable (a kernel-decided theorem compares the table).
func (s *sySrcFile) fieldAccess(set, cond string) (setAcc, condAcc [][2]string) {
	add := func(l *[][2]string, fn, kind string) {
		for _, e := range *l {
			if e[0] == fn && e[1] == kind {
				return
			}
		}
		*l = append(*l, [2]string{fn, kind})
	}
	isField := func(e ast.Expr, name string) bool {
		se, ok := e.(*ast.SelectorExpr)
		return ok && se.Sel.Name == name
	}
	for _, d := range s.file.Decls {
		fd, ok := d.(*ast.FuncDecl)
		if !ok || fd.Body == nil {
			continue
		}
		fn := fd.Name.Name
		classified := map[ast.Node]bool{}
		ast.Inspect(fd.Body, func(n ast.Node) bool {
			switch n := n.(type) {
			case *ast.CallExpr:
				if id, ok := n.Fun.(*ast.Ident); ok && len(n.Args) >= 1 && isField(n.Args[0], set) {
					switch id.Name {
					case "delete":
						add(&setAcc, fn, "delete")
						classified[n.Args[0]] = true
					case "len":
						add(&setAcc, fn, "len")
						classified[n.Args[0]] = true
					}
				}
				if se, ok := n.Fun.(*ast.SelectorExpr); ok && isField(se.X, cond) {
					add(&condAcc, fn, strings.ToLower(se.Sel.Name))
					classified[se.X] = true
				}
			case *ast.AssignStmt:
				for _, l := range n.Lhs {
					if ix, ok := l.(*ast.IndexExpr); ok && isField(ix.X, set) {
						add(&setAcc, fn, "insert")
						classified[ix.X] = true
					}
					if se, ok := l.(*ast.SelectorExpr); ok && isField(se.X, cond) {
						add(&condAcc, fn, "bind")
						classified[se.X] = true
					}
				}
			case *ast.RangeStmt:
				if isField(n.X, set) {
					add(&setAcc, fn, "range")
					classified[n.X] = true
				}
			case *ast.KeyValueExpr:
				if id, ok := n.Key.(*ast.Ident); ok && id.Name == set {
					add(&setAcc, fn, "init")
				}
			case *ast.SelectorExpr:
				if n.Sel.Name == set && !classified[n] {
					add(&setAcc, fn, "other")
				}
				if n.Sel.Name == cond && !classified[n] {
					add(&condAcc, fn, "other")
				}
			}
			return true
		})
	}
	return
}

// chanAccess lists, per function in source order, the operations on the feeder's channel fields
// and on its flag: send/recv/close/init per channel, set/read for the flag.
func (s *sySrcFile) chanAccess(chans []string, flag string) (acc [][2]string) {
	add := func(fn, kind string) {
		for _, e := range acc {
			if e[0] == fn && e[1] == kind {
				return
			}
		}
		acc = append(acc, [2]string{fn, kind})
	}
	fieldOf := func(e ast.Expr) string {
		if se, ok := e.(*ast.SelectorExpr); ok {
			for _, c := range chans {
				if se.Sel.Name == c {
					return c
				}
			}
			if se.Sel.Name == flag {
				return flag
			}
		}
		return ""
	}
	for _, d := range s.file.Decls {
		fd, ok := d.(*ast.FuncDecl)
		if !ok || fd.Body == nil {
			continue
		}
		fn := fd.Name.Name
		classified := map[ast.Node]bool{}
		ast.Inspect(fd.Body, func(n ast.Node) bool {
			switch n := n.(type) {
			case *ast.SendStmt:
				if f := fieldOf(n.Chan); f != "" {
					add(fn, "send:"+f)
					classified[n.Chan] = true
				}
			case *ast.UnaryExpr:
				if f := fieldOf(n.X); f != "" && n.Op == token.ARROW {
					add(fn, "recv:"+f)
					classified[n.X] = true
				}
			case *ast.CallExpr:
				if id, ok := n.Fun.(*ast.Ident); ok && id.Name == "close" && len(n.Args) == 1 {
					if f := fieldOf(n.Args[0]); f != "" {
						add(fn, "close:"+f)
						classified[n.Args[0]] = true
					}
				}
			case *ast.AssignStmt:
				for _, l := range n.Lhs {
					if f := fieldOf(l); f != "" {
						add(fn, "set:"+f)
						classified[l] = true
					}
				}
			case *ast.KeyValueExpr:
				if id, ok := n.Key.(*ast.Ident); ok {
					for _, c := range append(append([]string{}, chans...), flag) {
						if id.Name == c {
							add(fn, "init:"+c)
						}
					}
				}
			case *ast.SelectorExpr:
				if f := fieldOf(n); f != "" && !classified[n] {
					add(fn, "read:"+f)
				}
			}
			return true
		})
	}
	return
}

func leanPairs(name, doc string, l [][2]string) string {
	var b strings.Builder
	fmt.Fprintf(&b, "/-- %s -/\ndef %s : List (String × String) := [", doc, name)
	for i, e := range l {
		if i > 0 {
			b.WriteString(", ")
		}
		fmt.Fprintf(&b, "(%q, %q)", e[0], e[1])
	}
	b.WriteString("]\n\n")
	return b.String()
}

// ---- x/watcher/changes.go --------------------------------------------------------------

func syncWatcher(repo, out string) error {
	path := filepath.Join(repo, "x", "watcher", "changes.go")
	s, err := syParseGo(path)
	if err != nil {
		return err
	}
	st := s.structType("Changes")
	if st == nil {
		return broken("type Changes not found in %s", path)
	}
	mutex, err := syOne("sync.Mutex field of Changes", s.fieldsWhere(st, func(t string) bool { return t == "sync.Mutex" }))
	if err != nil {
		return err
	}
	cond, err := syOne("sync.Cond field of Changes", s.fieldsWhere(st, func(t string) bool { return t == "sync.Cond" }))
	if err != nil {
		return err
	}
	set, err := syOne("map[string]none field of Changes", s.fieldsWhere(st, func(t string) bool { return t == "map[string]none" || t == "map[string]struct{}" }))
	if err != nil {
		return err
	}
	root, err := syOne("string field of Changes", s.fieldsWhere(st, func(t string) bool { return t == "string" }))
	if err != nil {
		return err
	}
	// the condition variable must be bound to that mutex: c.cond.L = &c.mutex in NewChanges
	nc := s.method("", "NewChanges")
	bound := false
	if nc != nil {
		ast.Inspect(nc.Body, func(n ast.Node) bool {
			if as, ok := n.(*ast.AssignStmt); ok && len(as.Lhs) == 1 && len(as.Rhs) == 1 {
				l, r := s.str(as.Lhs[0]), s.str(as.Rhs[0])
				if strings.HasSuffix(l, "."+cond+".L") && strings.HasSuffix(r, "."+mutex) && strings.HasPrefix(r, "&") {
					bound = true
				}
			}
			return true
		})
	}
	if !bound {
		return broken("NewChanges no longer binds %s.L to &%s", cond, mutex)
	}
	var b strings.Builder
	fmt.Fprintf(&b, syncHeader, "sync_watcher", "x/watcher/changes.go", "SyncWatcher")
	for _, fn := range []struct{ goName, leanName string }{{"Fetch", "fetch"}, {"FileChanged", "fileChanged"}} {
		fd := s.method("Changes", fn.goName)
		if fd == nil {
			return broken("method Changes.%s not found", fn.goName)
		}
		c := s.newComp(fd)
		c.mutex, c.cond, c.set, c.rootField = mutex, cond, set, root
		text, err := c.function(fd, fn.leanName)
		if err != nil {
			return err
		}
		b.WriteString(text)
	}
	setAcc, condAcc := s.fieldAccess(set, cond)
	b.WriteString(leanPairs("setAccess", "every function of changes.go that touches the pending set, and how (frame condition)", setAcc))
	b.WriteString(leanPairs("condAccess", "every function of changes.go that uses the condition variable, and how", condAcc))
	b.WriteString("/-- any number of Fetch (0) and FileChanged (1) threads may be started at any time -/\n")
	b.WriteString("def sys : Sys := { fns := [fetchFn, fileChangedFn], spawnable := [0, 1], initThreads := [] }\n\n")
	b.WriteString("end GopModel.Generated.SyncWatcher\n")
	return writeIfChanged(filepath.Join(out, "SyncWatcher.lean"), []byte(b.String()))
}

// ---- x/fakenet/conn.go -----------------------------------------------------------------

func syncFakenet(repo, out string) error {
	path := filepath.Join(repo, "x", "fakenet", "conn.go")
	s, err := syParseGo(path)
	if err != nil {
		return err
	}
	st := s.structType("connFeeder")
	if st == nil {
		return broken("type connFeeder not found in %s", path)
	}
	mutex, err := syOne("sync.Mutex field of connFeeder", s.fieldsWhere(st, func(t string) bool { return t == "sync.Mutex" }))
	if err != nil {
		return err
	}
	flag, err := syOne("bool field of connFeeder", s.fieldsWhere(st, func(t string) bool { return t == "bool" }))
	if err != nil {
		return err
	}
	srcField, err := syOne("func([]byte) (int, error) field of connFeeder", s.fieldsWhere(st, func(t string) bool { return t == "func([]byte) (int, error)" }))
	if err != nil {
		return err
	}
	chanFields := s.fieldsWhere(st, func(t string) bool { return strings.HasPrefix(t, "chan ") })
	if len(chanFields) != 3 {
		return broken("connFeeder: expected 3 channel fields, found %v", chanFields)
	}
	resSt := s.structType("feedResult")
	if resSt == nil {
		return broken("type feedResult not found")
	}
	resFields := s.fieldsWhere(resSt, func(string) bool { return true })
	if len(resFields) != 2 {
		return broken("feedResult: expected 2 fields, found %v", resFields)
	}
	// channels must be unbuffered: newFeeder makes each with make(chan T)
	nf := s.method("", "newFeeder")
	if nf == nil {
		return broken("newFeeder not found")
	}
	made := map[string]string{}
	ast.Inspect(nf.Body, func(n ast.Node) bool {
		if kv, ok := n.(*ast.KeyValueExpr); ok {
			made[s.str(kv.Key)] = s.str(kv.Value)
		}
		return true
	})
	for _, ch := range chanFields {
		v := made[ch]
		if !strings.HasPrefix(v, "make(chan ") || strings.Contains(v, ",") {
			return broken("newFeeder: channel %s is not created unbuffered (`%s`)", ch, v)
		}
	}
	if made[srcField] != "source" || len(nf.Type.Params.List) != 1 {
		return broken("newFeeder: %s is not the constructor's argument", srcField)
	}
	if _, set := made[flag]; set {
		return broken("newFeeder: %s is initialised explicitly", flag)
	}
	var b strings.Builder
	fmt.Fprintf(&b, syncHeader, "sync_fakenet", "x/fakenet/conn.go", "SyncFakenet")
	fmt.Fprintf(&b, "/-- channel ids: %s = 0, %s = 1, %s = 2 (field order of connFeeder) -/\n", chanFields[0], chanFields[1], chanFields[2])
	fmt.Fprintf(&b, "def chanNames : List String := [%q, %q, %q]\n\n", chanFields[0], chanFields[1], chanFields[2])
	for _, fn := range []string{"do", "run", "close"} {
		fd := s.method("connFeeder", fn)
		if fd == nil {
			return broken("method connFeeder.%s not found", fn)
		}
		c := s.newComp(fd)
		c.mutex, c.flag, c.srcField, c.resFields, c.resType = mutex, flag, srcField, resFields, "feedResult"
		for i, ch := range chanFields {
			c.chans[ch] = i
		}
		text, err := c.function(fd, fn)
		if err != nil {
			return err
		}
		b.WriteString(text)
	}
	// wiring of fakeConn: which feeder serves Read/Write, what each feeder calls, what Close
	// does, which goroutines NewConn starts
	wiring, err := fakenetWiring(s)
	if err != nil {
		return err
	}
	b.WriteString(leanPairs("chanAccess", "every function of conn.go that operates on a feeder channel or the closed flag, and how (frame condition)", s.chanAccess(chanFields, flag)))
	b.WriteString("/-- how fakeConn uses its two feeders (from NewConn, Read, Write, Close) -/\n")
	b.WriteString("def wiring : List (String × String) := [\n")
	for i, w := range wiring {
		sep := ","
		if i == len(wiring)-1 {
			sep = ""
		}
		fmt.Fprintf(&b, "  (%q, %q)%s\n", w[0], w[1], sep)
	}
	b.WriteString("]\n\n")
	b.WriteString("/-- one feeder: its `run` goroutine (fn 1) is started once by NewConn; any number of `do` (0)\nand `close` (2) calls may be started at any time -/\n")
	b.WriteString("def sys : Sys := { fns := [doFn, runFn, closeFn], spawnable := [0, 2], initThreads := [runFn.mkThread 1 (.nat 0) (.nat 0)] }\n\n")
	b.WriteString("end GopModel.Generated.SyncFakenet\n")
	return writeIfChanged(filepath.Join(out, "SyncFakenet.lean"), []byte(b.String()))
}

func fakenetWiring(s *sySrcFile) ([][2]string, error) {
	var w [][2]string
	norm := func(n ast.Node) string { return strings.Join(strings.Fields(s.str(n)), " ") }
	for _, m := range []string{"Read", "Write"} {
		fd := s.method("fakeConn", m)
		if fd == nil || len(fd.Body.List) != 1 {
			return nil, broken("fakeConn.%s: expected a single return statement", m)
		}
		rs, ok := fd.Body.List[0].(*ast.ReturnStmt)
		if !ok || len(rs.Results) != 1 {
			return nil, broken("fakeConn.%s: expected a single return statement", m)
		}
		w = append(w, [2]string{m, norm(rs.Results[0])})
	}
	cl := s.method("fakeConn", "Close")
	if cl == nil {
		return nil, broken("fakeConn.Close not found")
	}
	var parts []string
	for _, st := range cl.Body.List {
		parts = append(parts, norm(st))
	}
	w = append(w, [2]string{"Close", strings.Join(parts, "; ")})
	nc := s.method("", "NewConn")
	if nc == nil {
		return nil, broken("NewConn not found")
	}
	var gos []string
	ast.Inspect(nc.Body, func(n ast.Node) bool {
		switch n := n.(type) {
		case *ast.KeyValueExpr:
			k := norm(n.Key)
			if k == "reader" || k == "writer" {
				w = append(w, [2]string{"NewConn." + k, norm(n.Value)})
			}
		case *ast.GoStmt:
			gos = append(gos, norm(n.Call))
		}
		return true
	})
	w = append(w, [2]string{"NewConn.go", strings.Join(gos, "; ")})
	return w, nil
}
