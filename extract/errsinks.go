// Translator target "errsinks" (C06, C07): go/ast facts about error accumulation and
// panic recovery in /repo/cl/*.go and /repo/x/build/build.go, emitted as Lean data into
// Generated/ErrSinks.lean (types live in Model/CompErrs.lean and Model/CompRecover.lean).
//
// Facts:
//   errWrites      every assignment whose left side is a selector `.errs` (file, func, kind:
//                  appendSelf = `X.errs = append(X.errs, …)`, anything else = other)
//   errUses        every other mention of `.errs` (toError = `X.errs.ToError()`; anything else = other)
//   completeIsToError / handleRecoverReports   shapes of pkgCtx.complete / pkgCtx.handleRecover
//   newPackage     shape of cl.NewPackage: assignments to the named result err, top-level defers,
//                  calls after `err = ctx.complete()`, whether every return is bare
//   recoverSites   every recover() call: enclosing func, guard, what is done with the value
//   entries        cl.NewPackage and x/build BuildFile/BuildFSDir/BuildDir with their top-level defers
// Anything that does not have one of the shapes handled here is a broken tie, never a default.
package main

import (
	"bytes"
	"fmt"
	"go/ast"
	"go/parser"
	"go/printer"
	"go/token"
	"os"
	"path/filepath"
	"sort"
	"strings"
)

func init() { register("errsinks", errSinks) }

type esDefer struct {
	guard    string // always | enableRecover | recorder | noPanic
	recovers bool
	acts     []string // Lean terms of CompRecover.Act
	calls    []string // callee texts of a non-recovering defer
}

type esSite struct {
	file, fn string
	d        esDefer
}

func esNodeText(fset *token.FileSet, n ast.Node) string {
	var b bytes.Buffer
	printer.Fprint(&b, fset, n)
	return b.String()
}

func esLeanStr(s string) string {
	s = strings.ReplaceAll(s, "\\", "\\\\")
	s = strings.ReplaceAll(s, "\"", "\\\"")
	s = strings.ReplaceAll(s, "\n", " ")
	s = strings.ReplaceAll(s, "\t", " ")
	return "\"" + s + "\""
}

func esGuardOf(fset *token.FileSet, cond ast.Expr) (string, error) {
	switch esNodeText(fset, cond) {
	case "enableRecover":
		return "enableRecover", nil
	case "noPanic != nil":
		return "noPanic", nil
	case "conf.Recorder != nil":
		return "recorder", nil
	}
	return "", broken("errsinks: defer under an unknown guard `%s`", esNodeText(fset, cond))
}

// esClassifyDefer analyses `defer func() { … }()`.
func esClassifyDefer(fset *token.FileSet, d *ast.DeferStmt, guard string) (esDefer, error) {
	res := esDefer{guard: guard}
	fl, ok := d.Call.Fun.(*ast.FuncLit)
	if !ok {
		// defer f(x): a plain deferred call
		res.calls = []string{esNodeText(fset, d.Call.Fun)}
		return res, nil
	}
	// does the literal call recover()?
	var recVar string
	var body []ast.Stmt
	nrec := 0
	ast.Inspect(fl.Body, func(n ast.Node) bool {
		if c, ok := n.(*ast.CallExpr); ok {
			if id, ok := c.Fun.(*ast.Ident); ok && id.Name == "recover" && len(c.Args) == 0 {
				nrec++
			}
		}
		return true
	})
	if nrec == 0 {
		ast.Inspect(fl.Body, func(n ast.Node) bool {
			if c, ok := n.(*ast.CallExpr); ok {
				res.calls = append(res.calls, esNodeText(fset, c.Fun))
			}
			return true
		})
		return res, nil
	}
	if nrec != 1 {
		return res, broken("errsinks: %d recover() calls in one deferred function", nrec)
	}
	res.recovers = true
	stmts := fl.Body.List
	isRecoverCall := func(e ast.Expr) bool {
		c, ok := e.(*ast.CallExpr)
		if !ok {
			return false
		}
		id, ok := c.Fun.(*ast.Ident)
		return ok && id.Name == "recover"
	}
	neNil := func(e ast.Expr, v string) bool {
		b, ok := e.(*ast.BinaryExpr)
		if !ok || b.Op != token.NEQ {
			return false
		}
		x, ok1 := b.X.(*ast.Ident)
		y, ok2 := b.Y.(*ast.Ident)
		return ok1 && ok2 && x.Name == v && y.Name == "nil"
	}
	switch {
	case len(stmts) == 1:
		// if e := recover(); e != nil { BODY }
		ifs, ok := stmts[0].(*ast.IfStmt)
		if !ok || ifs.Init == nil || ifs.Else != nil {
			return res, broken("errsinks: unhandled recover shape in %s", esNodeText(fset, fl))
		}
		as, ok := ifs.Init.(*ast.AssignStmt)
		if !ok || len(as.Lhs) != 1 || len(as.Rhs) != 1 || !isRecoverCall(as.Rhs[0]) {
			return res, broken("errsinks: unhandled recover shape in %s", esNodeText(fset, fl))
		}
		recVar = as.Lhs[0].(*ast.Ident).Name
		if !neNil(ifs.Cond, recVar) {
			return res, broken("errsinks: recover value not tested against nil")
		}
		body = ifs.Body.List
	case len(stmts) == 2:
		// r := recover(); if r != nil { BODY }
		as, ok := stmts[0].(*ast.AssignStmt)
		ifs, ok2 := stmts[1].(*ast.IfStmt)
		if !ok || !ok2 || len(as.Rhs) != 1 || !isRecoverCall(as.Rhs[0]) || ifs.Init != nil || ifs.Else != nil {
			return res, broken("errsinks: unhandled recover shape in %s", esNodeText(fset, fl))
		}
		recVar = as.Lhs[0].(*ast.Ident).Name
		if !neNil(ifs.Cond, recVar) {
			return res, broken("errsinks: recover value not tested against nil")
		}
		body = ifs.Body.List
	default:
		return res, broken("errsinks: unhandled recover shape in %s", esNodeText(fset, fl))
	}
	for _, st := range body {
		switch s := st.(type) {
		case *ast.ExprStmt:
			c, ok := s.X.(*ast.CallExpr)
			if !ok {
				return res, broken("errsinks: unhandled statement in recover body: %s", esNodeText(fset, st))
			}
			callee := esNodeText(fset, c.Fun)
			switch {
			case callee == "panic":
				if len(c.Args) != 1 || esNodeText(fset, c.Args[0]) != recVar {
					return res, broken("errsinks: re-panic with a different value: %s", esNodeText(fset, st))
				}
				res.acts = append(res.acts, ".rethrow")
			case strings.HasSuffix(callee, ".handleRecover"):
				res.acts = append(res.acts, ".report")
			case strings.HasSuffix(callee, ".ResetStmt") || strings.HasSuffix(callee, ".ResetInit"):
				res.acts = append(res.acts, ".cleanup "+esLeanStr(callee))
			default:
				return res, broken("errsinks: unknown call in recover body: %s", callee)
			}
		case *ast.AssignStmt:
			if len(s.Lhs) != 1 || len(s.Rhs) != 1 || esNodeText(fset, s.Lhs[0]) != "err" || s.Tok != token.ASSIGN {
				return res, broken("errsinks: unhandled assignment in recover body: %s", esNodeText(fset, st))
			}
			rhs := esNodeText(fset, s.Rhs[0])
			switch {
			case strings.HasSuffix(rhs, ".errs.ToError()"):
				res.acts = append(res.acts, ".setErr .errsToError")
			case strings.HasPrefix(rhs, "fmt.Errorf("):
				// which value is formatted? (x/build formats `err`, not the recovered value, in two helpers)
				c := s.Rhs[0].(*ast.CallExpr)
				usesRec := false
				for _, a := range c.Args {
					if esNodeText(fset, a) == recVar {
						usesRec = true
					}
				}
				if usesRec {
					res.acts = append(res.acts, ".setErr .errorfRecovered")
				} else {
					res.acts = append(res.acts, ".setErr .errorfOther")
				}
			case strings.Contains(rhs, ".recoverErr("):
				res.acts = append(res.acts, ".setErr .recoverErr")
			case strings.Contains(rhs, ".newCodeError(") || strings.Contains(rhs, ".newCodeErrorf("):
				res.acts = append(res.acts, ".setErr .newCodeError")
			default:
				return res, broken("errsinks: unknown error source in recover body: %s", rhs)
			}
		default:
			return res, broken("errsinks: unhandled statement in recover body: %s", esNodeText(fset, st))
		}
	}
	return res, nil
}

func esLeanDefer(d esDefer) string {
	return fmt.Sprintf("{ guard := .%s, recovers := %v, acts := [%s], calls := [%s] }", d.guard, d.recovers,
		strings.Join(d.acts, ", "), strings.Join(esMapStr(d.calls, esLeanStr), ", "))
}

func esMapStr(xs []string, f func(string) string) []string {
	out := make([]string, len(xs))
	for i, x := range xs {
		out[i] = f(x)
	}
	return out
}

// esTopDefers returns the defers registered by the top-level statements of fn (directly or
// inside a top-level `if guard { defer … }` / `if guard { … defer … }`), in order.
func esTopDefers(fset *token.FileSet, body *ast.BlockStmt) ([]esDefer, error) {
	var out []esDefer
	for _, st := range body.List {
		switch s := st.(type) {
		case *ast.DeferStmt:
			d, err := esClassifyDefer(fset, s, "always")
			if err != nil {
				return nil, err
			}
			out = append(out, d)
		case *ast.IfStmt:
			for _, in := range s.Body.List {
				if ds, ok := in.(*ast.DeferStmt); ok {
					g, err := esGuardOf(fset, s.Cond)
					if err != nil {
						return nil, err
					}
					d, err := esClassifyDefer(fset, ds, g)
					if err != nil {
						return nil, err
					}
					out = append(out, d)
				}
			}
		}
	}
	return out, nil
}

func errSinks(repo, out string) error {
	fset := token.NewFileSet()
	clDir := filepath.Join(repo, "cl")
	ents, err := os.ReadDir(clDir)
	if err != nil {
		return err
	}
	type srcFile struct {
		rel string
		f   *ast.File
	}
	var files []srcFile
	for _, e := range ents {
		n := e.Name()
		if e.IsDir() || !strings.HasSuffix(n, ".go") || strings.HasSuffix(n, "_test.go") {
			continue
		}
		f, err := parser.ParseFile(fset, filepath.Join(clDir, n), nil, 0)
		if err != nil {
			return err
		}
		files = append(files, srcFile{"cl/" + n, f})
	}
	bf, err := parser.ParseFile(fset, filepath.Join(repo, "x/build/build.go"), nil, 0)
	if err != nil {
		return err
	}
	files = append(files, srcFile{"x/build/build.go", bf})
	sort.Slice(files, func(i, j int) bool { return files[i].rel < files[j].rel })

	var writes, uses []string
	var sites []esSite
	completeIsToError, handleRecoverReports, handleErrFound := false, false, false
	var npShape string
	var entries []string

	for _, sf := range files {
		for _, decl := range sf.f.Decls {
			fd, ok := decl.(*ast.FuncDecl)
			if !ok || fd.Body == nil {
				continue
			}
			fname := fd.Name.Name
			if fd.Recv != nil && len(fd.Recv.List) == 1 {
				fname = strings.TrimPrefix(esNodeText(fset, fd.Recv.List[0].Type), "*") + "." + fname
			}
			// ---- A. writes to / uses of `.errs` (package cl only)
			if strings.HasPrefix(sf.rel, "cl/") {
				handled := map[ast.Node]bool{}
				ast.Inspect(fd.Body, func(n ast.Node) bool {
					switch s := n.(type) {
					case *ast.AssignStmt:
						for i, lhs := range s.Lhs {
							sel, ok := lhs.(*ast.SelectorExpr)
							if !ok || sel.Sel.Name != "errs" {
								continue
							}
							handled[sel] = true
							kind := ".other"
							if s.Tok == token.ASSIGN && len(s.Lhs) == len(s.Rhs) {
								if c, ok := s.Rhs[i].(*ast.CallExpr); ok {
									if id, ok := c.Fun.(*ast.Ident); ok && id.Name == "append" && len(c.Args) >= 2 && !c.Ellipsis.IsValid() &&
										esNodeText(fset, c.Args[0]) == esNodeText(fset, sel) {
										kind = ".appendSelf"
										if s2, ok := c.Args[0].(*ast.SelectorExpr); ok {
											handled[s2] = true
										}
									}
								}
							}
							writes = append(writes, fmt.Sprintf("⟨%s, %s, %s⟩", esLeanStr(sf.rel), esLeanStr(fname), kind))
						}
					case *ast.CallExpr:
						// X.errs.ToError()
						if m, ok := s.Fun.(*ast.SelectorExpr); ok && m.Sel.Name == "ToError" && len(s.Args) == 0 {
							if sel, ok := m.X.(*ast.SelectorExpr); ok && sel.Sel.Name == "errs" {
								handled[sel] = true
								uses = append(uses, fmt.Sprintf("⟨%s, %s, .toError⟩", esLeanStr(sf.rel), esLeanStr(fname)))
							}
						}
					case *ast.SelectorExpr:
						if s.Sel.Name == "errs" && !handled[s] {
							handled[s] = true
							uses = append(uses, fmt.Sprintf("⟨%s, %s, .other⟩", esLeanStr(sf.rel), esLeanStr(fname)))
						}
					}
					return true
				})
			}
			// ---- C. helper shapes
			if sf.rel == "cl/compile.go" {
				switch fname {
				case "pkgCtx.complete":
					if len(fd.Body.List) == 1 {
						if r, ok := fd.Body.List[0].(*ast.ReturnStmt); ok && len(r.Results) == 1 && esNodeText(fset, r.Results[0]) == "p.errs.ToError()" {
							completeIsToError = true
						}
					}
				case "pkgCtx.handleErr":
					handleErrFound = true
				case "pkgCtx.handleRecover":
					// err := p.recoverErr(e, src); p.handleErr(err)
					if len(fd.Body.List) == 2 {
						a, ok1 := fd.Body.List[0].(*ast.AssignStmt)
						e, ok2 := fd.Body.List[1].(*ast.ExprStmt)
						if ok1 && ok2 && strings.HasPrefix(esNodeText(fset, a.Rhs[0]), "p.recoverErr(") && esNodeText(fset, e.X) == "p.handleErr(err)" {
							handleRecoverReports = true
						}
					}
				}
			}
			// ---- D. recover sites (all deferred function literals anywhere in the function)
			var walkGuard func(n ast.Node, guard string) error
			walkGuard = func(n ast.Node, guard string) error {
				var werr error
				ast.Inspect(n, func(m ast.Node) bool {
					if werr != nil {
						return false
					}
					switch s := m.(type) {
					case *ast.IfStmt:
						g := guard
						switch esNodeText(fset, s.Cond) {
						case "enableRecover":
							g = "enableRecover"
						case "noPanic != nil":
							g = "noPanic"
						case "conf.Recorder != nil":
							g = "recorder"
						}
						if g != guard {
							if s.Init != nil {
								werr = walkGuard(s.Init, guard)
							}
							if werr == nil {
								werr = walkGuard(s.Body, g)
							}
							if werr == nil && s.Else != nil {
								werr = walkGuard(s.Else, guard)
							}
							return false
						}
					case *ast.DeferStmt:
						d, err := esClassifyDefer(fset, s, guard)
						if err != nil {
							werr = err
							return false
						}
						if d.recovers {
							sites = append(sites, esSite{sf.rel, fname, d})
						}
						// a defer inside the literal is walked too
					case *ast.CallExpr:
						if id, ok := s.Fun.(*ast.Ident); ok && id.Name == "recover" {
							// must be inside a deferred literal handled above: checked by count below
						}
					}
					return true
				})
				return werr
			}
			if err := walkGuard(fd.Body, "always"); err != nil {
				return err
			}
			// ---- B/E. entry points
			isEntry := (sf.rel == "cl/compile.go" && fname == "NewPackage") ||
				(sf.rel == "x/build/build.go" && (fname == "Context.BuildFile" || fname == "Context.BuildFSDir" || fname == "Context.BuildDir"))
			if isEntry {
				ds, err := esTopDefers(fset, fd.Body)
				if err != nil {
					return err
				}
				namedErr := false
				if fd.Type.Results != nil {
					for _, r := range fd.Type.Results.List {
						for _, nm := range r.Names {
							if nm.Name == "err" && esNodeText(fset, r.Type) == "error" {
								namedErr = true
							}
						}
					}
				}
				entries = append(entries, fmt.Sprintf("{ file := %s, name := %s, namedErr := %v,\n      defers := [%s] }",
					esLeanStr(sf.rel), esLeanStr(fname), namedErr, strings.Join(esMapDefers(ds, esLeanDefer), ",\n        ")))
			}
			if sf.rel == "cl/compile.go" && fname == "NewPackage" {
				// assignments to err outside function literals; calls after `err = ctx.complete()`; returns
				var errAssigns []string
				completeIdx := -1
				for i, st := range fd.Body.List {
					if as, ok := st.(*ast.AssignStmt); ok && len(as.Lhs) == 1 && esNodeText(fset, as.Lhs[0]) == "err" {
						rhs := esNodeText(fset, as.Rhs[0])
						if rhs == "ctx.complete()" && as.Tok == token.ASSIGN {
							errAssigns = append(errAssigns, ".complete")
							completeIdx = i
						} else {
							errAssigns = append(errAssigns, ".otherAssign "+esLeanStr(rhs))
						}
					}
				}
				// nested assignments to err (not in literals, not top level) are unexpected
				nested := 0
				bareReturns, otherReturns := 0, 0
				var inspect func(n ast.Node, top bool)
				inspect = func(n ast.Node, top bool) {
					ast.Inspect(n, func(m ast.Node) bool {
						switch s := m.(type) {
						case *ast.FuncLit:
							return false
						case *ast.AssignStmt:
							for _, l := range s.Lhs {
								if esNodeText(fset, l) == "err" {
									nested++
								}
							}
						case *ast.ReturnStmt:
							if len(s.Results) == 0 {
								bareReturns++
							} else {
								otherReturns++
							}
						}
						return true
					})
				}
				inspect(fd.Body, true)
				nested -= len(errAssigns)
				if completeIdx < 0 {
					return broken("errsinks: NewPackage has no top-level `err = ctx.complete()`")
				}
				var post []string
				for _, st := range fd.Body.List[completeIdx+1:] {
					ast.Inspect(st, func(m ast.Node) bool {
						if _, ok := m.(*ast.FuncLit); ok {
							return false
						}
						if c, ok := m.(*ast.CallExpr); ok {
							post = append(post, esNodeText(fset, c.Fun))
						}
						return true
					})
				}
				npShape = fmt.Sprintf("{ errAssigns := [%s], nestedErrAssigns := %d, postComplete := [%s], bareReturns := %d, otherReturns := %d }",
					strings.Join(errAssigns, ", "), nested, strings.Join(esMapStr(post, esLeanStr), ", "), bareReturns, otherReturns)
			}
		}
	}
	if !handleErrFound || npShape == "" || len(entries) != 4 {
		return broken("errsinks: expected pkgCtx.handleErr, cl.NewPackage and 3 x/build helpers; found handleErr=%v NewPackage=%v entries=%d", handleErrFound, npShape != "", len(entries))
	}
	// every recover() call must be one of the classified deferred sites
	nRecoverCalls := 0
	for _, sf := range files {
		ast.Inspect(sf.f, func(n ast.Node) bool {
			if c, ok := n.(*ast.CallExpr); ok {
				if id, ok := c.Fun.(*ast.Ident); ok && id.Name == "recover" && len(c.Args) == 0 {
					nRecoverCalls++
				}
			}
			return true
		})
	}
	if nRecoverCalls != len(sites) {
		return broken("errsinks: %d recover() calls but %d classified deferred sites", nRecoverCalls, len(sites))
	}

	var b strings.Builder
	b.WriteString("/- GENERATED by extract/errsinks.go from cl/*.go and x/build/build.go — do not edit. -/\n")
	b.WriteString("import GopModel.Model.CompErrs\nimport GopModel.Model.CompRecover\n")
	b.WriteString("namespace GopModel.Generated.ErrSinks\nopen GopModel.CompErrs GopModel.CompRecover\n\n")
	fmt.Fprintf(&b, "def errWrites : List ErrWrite := [\n  %s]\n\n", strings.Join(writes, ",\n  "))
	fmt.Fprintf(&b, "def errUses : List ErrUse := [\n  %s]\n\n", strings.Join(uses, ",\n  "))
	fmt.Fprintf(&b, "def completeIsToError : Bool := %v\n\ndef handleRecoverReports : Bool := %v\n\n", completeIsToError, handleRecoverReports)
	fmt.Fprintf(&b, "def npShape : NPShape :=\n  %s\n\n", npShape)
	b.WriteString("def recoverSites : List RecoverSite := [\n")
	for i, s := range sites {
		sep := ","
		if i == len(sites)-1 {
			sep = ""
		}
		fmt.Fprintf(&b, "  { file := %s, fn := %s, d := %s }%s\n", esLeanStr(s.file), esLeanStr(s.fn), esLeanDefer(s.d), sep)
	}
	b.WriteString("]\n\n")
	fmt.Fprintf(&b, "def entries : List Entry := [\n    %s]\n\n", strings.Join(entries, ",\n    "))
	b.WriteString("end GopModel.Generated.ErrSinks\n")
	return writeIfChanged(filepath.Join(out, "ErrSinks.lean"), []byte(b.String()))
}

func esMapDefers(xs []esDefer, f func(esDefer) string) []string {
	out := make([]string, len(xs))
	for i, x := range xs {
		out[i] = f(x)
	}
	return out
}
