// Command extract is the translator: it reads Go source of /repo (go/ast, go/parser only —
// it never imports /repo packages) and regenerates Lean data/terms under
// lean/GopModel/Generated/.  It emits definitions, never theorems.  A source shape a target
// relies on that has changed makes the target fail with "tie broken: ..." and exit status 3.
//
//   extract -repo /repo -out <Generated dir> <target>... | all
//
// Each target lives in its own file and registers itself in init().
package main

import (
	"flag"
	"fmt"
	"os"
	"path/filepath"
	"sort"
)

type target func(repo, out string) error

var targets = map[string]target{}

func register(name string, t target) { targets[name] = t }

// tieBroken is returned by targets when the source no longer has the shape they translate.
type tieBroken struct{ what string }

func (e *tieBroken) Error() string { return "tie broken: " + e.what }

func broken(format string, a ...interface{}) error { return &tieBroken{fmt.Sprintf(format, a...)} }

// writeIfChanged keeps mtimes stable so lake does not rebuild unchanged generated modules.
func writeIfChanged(path string, data []byte) error {
	if old, err := os.ReadFile(path); err == nil && string(old) == string(data) {
		return nil
	}
	os.MkdirAll(filepath.Dir(path), 0o755)
	return os.WriteFile(path, data, 0o644)
}

func main() {
	repo := flag.String("repo", "/repo", "repository root")
	out := flag.String("out", "", "output directory (lean/GopModel/Generated)")
	flag.Parse()
	names := flag.Args()
	if len(names) == 1 && names[0] == "all" {
		names = nil
		for n := range targets {
			names = append(names, n)
		}
		sort.Strings(names)
	}
	rc := 0
	for _, n := range names {
		t, ok := targets[n]
		if !ok {
			fmt.Fprintf(os.Stderr, "unknown target %s\n", n)
			os.Exit(2)
		}
		if err := t(*repo, *out); err != nil {
			fmt.Fprintf(os.Stderr, "%s: %v\n", n, err)
			rc = 3
		}
	}
	os.Exit(rc)
}
