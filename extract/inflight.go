// Target "inflight" (property C39): regenerates, from x/jsonrpc2/conn.go,
//
//	Generated/InFlight.lean       one Lean function `Args → St → St × Out` per closure passed to
//	                              updateInFlight, plus `epilogue`, `idle`, `shuttingDown`
//	Generated/InFlightSites.lean  the table (source line of the updateInFlight call → closure name)
//
// and compares a canonical print of the surrounding "thread programs" (the functions that call
// updateInFlight, with the closure bodies and log statements removed) with the committed
// expectation inflight_expect.txt, which is paired one-to-one with the hand-written actions of
// lean/GopModel/Model/InFlight.lean.
//
// Only the statement/expression forms that occur in conn.go today are translated; anything else
// is a broken tie (never a silent default).
package main

import (
	"bytes"
	"crypto/sha256"
	_ "embed"
	"fmt"
	"go/ast"
	"go/parser"
	"go/printer"
	"go/token"
	"os"
	"path/filepath"
	"sort"
	"strconv"
	"strings"
)

func init() { register("inflight", inflight) }

//go:embed inflight_expect.txt
var inflightExpect string

// the closures the hand-written model knows (function name # ordinal of the updateInFlight call)
var ifExpectedSites = []string{
	"newConnection#0", "Notify#0", "Notify#1", "Call#0", "Call#1", "Respond#0", "Cancel#0",
	"Wait#0", "Close#0", "readIncoming#0", "readIncoming#1", "acceptRequest#0", "acceptRequest#1",
	"handleAsync#0", "handleAsync#1", "processResult#0", "processResult#1", "write#0",
}

// functions whose non-closure code is the "thread program" modelled by hand
var ifThreadFuncs = []string{
	"newConnection", "Notify", "Call", "retire", "Await", "Respond", "Cancel", "Wait", "Close",
	"readIncoming", "acceptRequest", "handleAsync", "processResult", "write", "internalErrorf",
}

// inFlightState field → St field
var ifFields = map[string]string{
	"connClosing": "connClosing", "reading": "reading", "readErr": "readErr", "writeErr": "writeErr",
	"closer": "closerOpen", "outgoingCalls": "outgoing", "outgoingNotifications": "outNotif",
	"incoming": "incoming", "incomingByID": "byID", "handlerQueue": "queue", "handlerRunning": "handlerRunning",
	"closeErr": "",
}

type ifSite struct {
	name string // Func#k
	line int
	lit  *ast.FuncLit
	fn   *ast.FuncDecl
	encl []ast.Node // path from fn to the call
}

type ifTr struct {
	fset  *token.FileSet
	fn    string            // enclosing Go function
	env   map[string]string // Go identifier → Lean term (captured inputs and locals)
	kind  map[string]string // Go identifier → "call" | "req" | "id" | "resp"
	buf   *bytes.Buffer
	errOK bool // `err` is known to be non-nil where the closure runs
}

func (t *ifTr) pos(n ast.Node) string { return t.fset.Position(n.Pos()).String() }

func (t *ifTr) bad(n ast.Node, what string) error {
	var b bytes.Buffer
	printer.Fprint(&b, t.fset, n)
	s := b.String()
	if len(s) > 120 {
		s = s[:120] + "…"
	}
	return broken("inflight: %s: %s: `%s`", t.pos(n), what, s)
}

func (t *ifTr) w(ind int, format string, a ...interface{}) {
	t.buf.WriteString(strings.Repeat("  ", ind))
	fmt.Fprintf(t.buf, format, a...)
	t.buf.WriteByte('\n')
}

func ifIsSel(e ast.Expr, x, sel string) bool {
	s, ok := e.(*ast.SelectorExpr)
	if !ok || s.Sel.Name != sel {
		return false
	}
	id, ok := s.X.(*ast.Ident)
	return ok && id.Name == x
}

func ifIsIdent(e ast.Expr, name string) bool {
	id, ok := e.(*ast.Ident)
	return ok && id.Name == name
}

// sField: `s.<field>` → St field name
func ifSField(e ast.Expr) (string, bool) {
	s, ok := e.(*ast.SelectorExpr)
	if !ok || !ifIsIdent(s.X, "s") {
		return "", false
	}
	f, ok := ifFields[s.Sel.Name]
	return f, ok
}

// idExpr translates an expression of type ID.
func (t *ifTr) idExpr(e ast.Expr) (string, error) {
	switch x := e.(type) {
	case *ast.Ident:
		if t.kind[x.Name] == "id" {
			return t.env[x.Name], nil
		}
	case *ast.SelectorExpr:
		if id, ok := x.X.(*ast.Ident); ok {
			switch {
			case x.Sel.Name == "id" && t.kind[id.Name] == "call":
				return t.env[id.Name] + ".id", nil
			case x.Sel.Name == "ID" && t.kind[id.Name] == "req":
				return t.env[id.Name] + ".id", nil
			case x.Sel.Name == "ID" && t.kind[id.Name] == "resp":
				return t.env[id.Name], nil // the response is represented by its ID
			}
		}
	}
	return "", t.bad(e, "unsupported ID expression")
}

// mapLookup: `s.<map>[k]` → Lean `Map.get s.<m> k`
func (t *ifTr) mapLookup(e ast.Expr) (string, string, bool, error) {
	ix, ok := e.(*ast.IndexExpr)
	if !ok {
		return "", "", false, nil
	}
	f, ok := ifSField(ix.X)
	if !ok || (f != "outgoing" && f != "byID") {
		return "", "", false, nil
	}
	k, err := t.idExpr(ix.Index)
	if err != nil {
		return "", "", true, err
	}
	return "Map.get s." + f + " " + ifParen(k), f, true, nil
}

func ifParen(s string) string {
	if strings.ContainsAny(s, " ") {
		return "(" + s + ")"
	}
	return s
}

// cond translates a boolean expression.
func (t *ifTr) cond(e ast.Expr) (string, error) {
	switch x := e.(type) {
	case *ast.ParenExpr:
		return t.cond(x.X)
	case *ast.UnaryExpr:
		if x.Op == token.NOT {
			c, err := t.cond(x.X)
			if err != nil {
				return "", err
			}
			return "!" + ifParen(c), nil
		}
	case *ast.BinaryExpr:
		switch x.Op {
		case token.LAND, token.LOR:
			l, err := t.cond(x.X)
			if err != nil {
				return "", err
			}
			r, err := t.cond(x.Y)
			if err != nil {
				return "", err
			}
			op := " && "
			if x.Op == token.LOR {
				op = " || "
			}
			return "(" + l + op + r + ")", nil
		case token.EQL, token.NEQ, token.GTR:
			return t.cmp(x)
		}
	case *ast.SelectorExpr:
		if f, ok := ifSField(x); ok {
			switch f {
			case "connClosing", "reading", "handlerRunning":
				return "s." + f, nil
			}
		}
	case *ast.CallExpr:
		if len(x.Args) == 0 {
			if sel, ok := x.Fun.(*ast.SelectorExpr); ok {
				if ifIsIdent(sel.X, "s") && sel.Sel.Name == "idle" {
					return "idle s", nil
				}
				if id, ok := sel.X.(*ast.Ident); ok && sel.Sel.Name == "IsCall" && t.kind[id.Name] == "req" {
					return t.env[id.Name] + ".isCall", nil
				}
			}
		}
	case *ast.Ident:
		if x.Name == "ok" && t.env["ok"] != "" {
			return t.env["ok"], nil
		}
	}
	return "", t.bad(e, "unsupported condition")
}

func ifIsNil(e ast.Expr) bool { return ifIsIdent(e, "nil") }

func ifIsZero(e ast.Expr) bool {
	l, ok := e.(*ast.BasicLit)
	return ok && l.Kind == token.INT && l.Value == "0"
}

func (t *ifTr) cmp(x *ast.BinaryExpr) (string, error) {
	neg := x.Op == token.NEQ
	pick := func(pos, negd string) string {
		if neg {
			return negd
		}
		return pos
	}
	// len(s.m) == 0 / len(s.q) > 0
	if c, ok := x.X.(*ast.CallExpr); ok && ifIsIdent(c.Fun, "len") && len(c.Args) == 1 && ifIsZero(x.Y) {
		if f, ok := ifSField(c.Args[0]); ok && (f == "outgoing" || f == "byID" || f == "queue") {
			switch x.Op {
			case token.EQL:
				return "s." + f + ".length == 0", nil
			case token.NEQ, token.GTR:
				return "s." + f + ".length != 0", nil
			}
		}
		return "", t.bad(x, "unsupported len comparison")
	}
	if x.Op == token.GTR {
		return "", t.bad(x, "unsupported comparison")
	}
	// s.counter == 0
	if f, ok := ifSField(x.X); ok && (f == "outNotif" || f == "incoming") && ifIsZero(x.Y) {
		return pick("s."+f+" == 0", "s."+f+" != 0"), nil
	}
	// s.readErr != nil, s.writeErr == nil, s.closer != nil
	if f, ok := ifSField(x.X); ok && (f == "readErr" || f == "writeErr" || f == "closerOpen") && ifIsNil(x.Y) {
		return pick("!s."+f, "s."+f), nil
	}
	// err != nil (captured)
	if ifIsIdent(x.X, "err") && ifIsNil(x.Y) {
		return pick("o.err.isNone", "o.err.isSome"), nil
	}
	// s.shuttingDown(ErrX) != nil
	if c, ok := x.X.(*ast.CallExpr); ok && ifIsNil(x.Y) {
		if sel, ok := c.Fun.(*ast.SelectorExpr); ok && ifIsIdent(sel.X, "s") && sel.Sel.Name == "shuttingDown" && len(c.Args) == 1 {
			return pick("(shuttingDown s).isNone", "(shuttingDown s).isSome"), nil
		}
	}
	// s.m[k] != nil   /   s.m[k] == v
	if lk, f, ok, err := t.mapLookup(x.X); ok {
		if err != nil {
			return "", err
		}
		if ifIsNil(x.Y) {
			return pick("("+lk+").isNone", "("+lk+").isSome"), nil
		}
		if id, ok := x.Y.(*ast.Ident); ok {
			want := map[string]string{"outgoing": "call", "byID": "req"}[f]
			if t.kind[id.Name] == want {
				return pick(lk+" == some "+t.env[id.Name], lk+" != some "+t.env[id.Name]), nil
			}
		}
	}
	return "", t.bad(x, "unsupported comparison")
}

// errValue translates the right-hand side of `err = …`.
func (t *ifTr) errValue(e ast.Expr) (string, bool, error) {
	c, ok := e.(*ast.CallExpr)
	if ok {
		if sel, ok := c.Fun.(*ast.SelectorExpr); ok {
			if ifIsIdent(sel.X, "s") && sel.Sel.Name == "shuttingDown" && len(c.Args) == 1 {
				switch {
				case ifIsIdent(c.Args[0], "ErrClientClosing"):
					return "(shuttingDown s).map Err.clientClosing", true, nil
				case ifIsIdent(c.Args[0], "ErrServerClosing"):
					return "(shuttingDown s).map Err.serverClosing", true, nil
				}
			}
			if ifIsIdent(sel.X, "fmt") && sel.Sel.Name == "Errorf" && len(c.Args) >= 2 {
				if lit, ok := c.Args[0].(*ast.BasicLit); ok && strings.HasPrefix(lit.Value, "\"%w") {
					if id, ok := c.Args[1].(*ast.Ident); ok && strings.HasPrefix(id.Name, "Err") {
						return "some (Err.wrap \"" + id.Name + "\")", true, nil
					}
				}
			}
		}
	}
	if f, ok := ifSField(e); ok && f == "" { // s.closeErr: value not modelled
		return "", false, nil
	}
	return "", false, t.bad(e, "unsupported error value")
}

// retireCall: `X.retire(R)` → the Lean pair (call, response ID)
func (t *ifTr) retireCall(c *ast.CallExpr, keyVar string) (string, bool, error) {
	sel, ok := c.Fun.(*ast.SelectorExpr)
	if !ok || sel.Sel.Name != "retire" || len(c.Args) != 1 {
		return "", false, nil
	}
	id, ok := sel.X.(*ast.Ident)
	if !ok || t.kind[id.Name] != "call" {
		return "", true, t.bad(c, "retire on an unknown receiver")
	}
	var rid string
	switch a := c.Args[0].(type) {
	case *ast.Ident: // a *Response variable
		if t.kind[a.Name] != "resp" {
			return "", true, t.bad(c, "retire with an unknown response")
		}
		rid = t.env[a.Name]
	case *ast.UnaryExpr: // &Response{ID: k, Error: err}
		cl, ok := a.X.(*ast.CompositeLit)
		if !ok || a.Op != token.AND || !ifIsIdent(cl.Type, "Response") {
			return "", true, t.bad(c, "retire with an unsupported response")
		}
		for _, el := range cl.Elts {
			kv, ok := el.(*ast.KeyValueExpr)
			if !ok {
				return "", true, t.bad(c, "retire with an unsupported response literal")
			}
			switch {
			case ifIsIdent(kv.Key, "ID"):
				r, err := t.idExpr(kv.Value)
				if err != nil {
					return "", true, err
				}
				rid = r
			case ifIsIdent(kv.Key, "Error"):
				if !ifIsIdent(kv.Value, "err") {
					return "", true, t.bad(c, "retire: Error field is not the captured err")
				}
			default: // a Result field would make it a success response
				return "", true, t.bad(c, "retire with an unsupported response field")
			}
		}
	default:
		return "", true, t.bad(c, "retire with an unsupported response")
	}
	if rid == "" {
		return "", true, t.bad(c, "retire: response without ID")
	}
	return "(" + t.env[id.Name] + ", " + rid + ")", true, nil
}

func ifOnlyLogging(b *ast.BlockStmt) bool {
	for _, st := range b.List {
		es, ok := st.(*ast.ExprStmt)
		if !ok {
			return false
		}
		c, ok := es.X.(*ast.CallExpr)
		if !ok {
			return false
		}
		sel, ok := c.Fun.(*ast.SelectorExpr)
		if !ok || !ifIsIdent(sel.X, "log") {
			return false
		}
	}
	return true
}

func ifIsLogIf(st ast.Stmt) bool {
	is, ok := st.(*ast.IfStmt)
	if !ok || is.Init != nil || is.Else != nil {
		return false
	}
	return (ifIsIdent(is.Cond, "Verbose") || ifIsIdent(is.Cond, "debugCall")) && ifOnlyLogging(is.Body)
}

func ifIsBlank0(st ast.Stmt) bool { // `_ = 0`
	as, ok := st.(*ast.AssignStmt)
	return ok && len(as.Lhs) == 1 && len(as.Rhs) == 1 && ifIsIdent(as.Lhs[0], "_") && ifIsZero(as.Rhs[0])
}

func ifIsDoneSelect(st ast.Stmt) (body []ast.Stmt, ok bool) {
	sel, ok := st.(*ast.SelectStmt)
	if !ok || len(sel.Body.List) != 2 {
		return nil, false
	}
	var haveDefault bool
	for _, cc := range sel.Body.List {
		c := cc.(*ast.CommClause)
		if c.Comm == nil {
			if len(c.Body) != 0 {
				return nil, false
			}
			haveDefault = true
			continue
		}
		es, ok := c.Comm.(*ast.ExprStmt)
		if !ok {
			return nil, false
		}
		u, ok := es.X.(*ast.UnaryExpr)
		if !ok || u.Op != token.ARROW || !ifIsSel(u.X, "c", "done") {
			return nil, false
		}
		body = c.Body
	}
	return body, haveDefault && body != nil
}

// seq emits the Lean term for a statement list; the term ends in `(s, o)`.
func (t *ifTr) seq(list []ast.Stmt, ind int) error {
	for len(list) > 0 && (ifIsLogIf(list[0]) || ifIsBlank0(list[0])) {
		list = list[1:]
	}
	if len(list) == 0 {
		t.w(ind, "(s, o)")
		return nil
	}
	st, rest := list[0], list[1:]
	cat := func(a []ast.Stmt) []ast.Stmt { return append(append([]ast.Stmt{}, a...), rest...) }
	switch x := st.(type) {
	case *ast.ReturnStmt:
		if len(x.Results) != 0 {
			return t.bad(x, "return with values")
		}
		t.w(ind, "(s, o)")
		return nil
	case *ast.BlockStmt:
		return t.seq(cat(x.List), ind)
	case *ast.SelectStmt:
		body, ok := ifIsDoneSelect(x)
		if !ok {
			return t.bad(x, "unsupported select")
		}
		t.w(ind, "if s.done then (")
		if err := t.seq(cat(body), ind+1); err != nil {
			return err
		}
		t.w(ind, ") else (")
		if err := t.seq(rest, ind+1); err != nil {
			return err
		}
		t.w(ind, ")")
		return nil
	case *ast.IfStmt:
		return t.ifStmt(x, rest, ind)
	case *ast.RangeStmt:
		line, err := t.rangeStmt(x)
		if err != nil {
			return err
		}
		t.w(ind, "%s", line)
		return t.seq(rest, ind)
	case *ast.GoStmt:
		sel, ok := x.Call.Fun.(*ast.SelectorExpr)
		if ok && ifIsIdent(sel.X, "c") && sel.Sel.Name == "readIncoming" {
			t.w(ind, "let o := { o with spawnReader := true }")
			return t.seq(rest, ind)
		}
		if ok && ifIsIdent(sel.X, "c") && sel.Sel.Name == "handleAsync" {
			t.w(ind, "let o := { o with spawnHandler := true }")
			return t.seq(rest, ind)
		}
		return t.bad(x, "unsupported go statement")
	case *ast.IncDecStmt:
		f, ok := ifSField(x.X)
		if !ok || (f != "outNotif" && f != "incoming") {
			return t.bad(x, "unsupported ++/--")
		}
		op := "+"
		if x.Tok == token.DEC {
			op = "-"
		}
		t.w(ind, "let s := { s with %s := s.%s %s 1 }", f, f, op)
		return t.seq(rest, ind)
	case *ast.ExprStmt:
		c, ok := x.X.(*ast.CallExpr)
		if !ok {
			return t.bad(x, "unsupported expression statement")
		}
		if ifIsIdent(c.Fun, "panic") && len(c.Args) == 1 {
			lit, ok := c.Args[0].(*ast.BasicLit)
			if !ok || lit.Kind != token.STRING {
				return t.bad(x, "panic with a non-literal")
			}
			msg, _ := strconv.Unquote(lit.Value)
			t.w(ind, "(s, { o with panic := true }) -- %s", strings.ReplaceAll(msg, "\n", " "))
			return nil // a panic ends the closure
		}
		if ifIsIdent(c.Fun, "delete") && len(c.Args) == 2 {
			f, ok := ifSField(c.Args[0])
			if !ok || (f != "outgoing" && f != "byID") {
				return t.bad(x, "delete on an unknown map")
			}
			k, err := t.idExpr(c.Args[1])
			if err != nil {
				return err
			}
			t.w(ind, "let s := { s with %s := Map.del s.%s %s }", f, f, ifParen(k))
			return t.seq(rest, ind)
		}
		if ifIsIdent(c.Fun, "close") && len(c.Args) == 1 && ifIsSel(c.Args[0], "c", "done") {
			t.w(ind, "if s.done then (s, { o with panic := true }) else -- close of closed channel")
			t.w(ind, "let s := { s with done := true }")
			t.w(ind, "let o := { o with closedDone := true }")
			return t.seq(rest, ind)
		}
		if pair, ok, err := t.retireCall(c, ""); ok {
			if err != nil {
				return err
			}
			t.w(ind, "let o := { o with retired := o.retired ++ [%s] }", pair)
			return t.seq(rest, ind)
		}
		return t.bad(x, "unsupported call statement")
	case *ast.AssignStmt:
		if err := t.assign(x, ind); err != nil {
			return err
		}
		return t.seq(rest, ind)
	}
	return t.bad(st, "unsupported statement")
}

func (t *ifTr) rangeStmt(x *ast.RangeStmt) (string, error) {
	f, ok := ifSField(x.X)
	if !ok || (f != "outgoing" && f != "byID") || x.Tok != token.DEFINE || len(x.Body.List) != 1 {
		return "", t.bad(x, "unsupported range statement")
	}
	es, ok := x.Body.List[0].(*ast.ExprStmt)
	if !ok {
		return "", t.bad(x, "unsupported range body")
	}
	c, ok := es.X.(*ast.CallExpr)
	if !ok {
		return "", t.bad(x, "unsupported range body")
	}
	kName, vName := "", ""
	if id, ok := x.Key.(*ast.Ident); ok && id.Name != "_" {
		kName = id.Name
	}
	if id, ok := x.Value.(*ast.Ident); ok && id.Name != "_" {
		vName = id.Name
	}
	if vName == "" {
		return "", t.bad(x, "range without value variable")
	}
	// bind loop variables
	saveE, saveK := map[string]string{}, map[string]string{}
	for _, n := range []string{kName, vName} {
		saveE[n], saveK[n] = t.env[n], t.kind[n]
	}
	defer func() {
		for n := range saveE {
			t.env[n], t.kind[n] = saveE[n], saveK[n]
		}
	}()
	if kName != "" {
		t.env[kName], t.kind[kName] = "e.1", "id"
	}
	if f == "outgoing" {
		t.env[vName], t.kind[vName] = "e.2", "call"
		pair, ok, err := t.retireCall(c, kName)
		if err != nil {
			return "", err
		}
		if !ok {
			return "", t.bad(x, "unsupported range body over outgoingCalls")
		}
		return "let o := { o with retired := o.retired ++ s.outgoing.map (fun e => " + pair + ") }", nil
	}
	// byID: r.cancel()
	sel, ok := c.Fun.(*ast.SelectorExpr)
	if ok && ifIsIdent(sel.X, vName) && sel.Sel.Name == "cancel" && len(c.Args) == 0 {
		return "let o := { o with cancelled := o.cancelled ++ s.byID.map (fun e => e.2) }", nil
	}
	return "", t.bad(x, "unsupported range body over incomingByID")
}

func (t *ifTr) ifStmt(x *ast.IfStmt, rest []ast.Stmt, ind int) error {
	cat := func(a []ast.Stmt) []ast.Stmt { return append(append([]ast.Stmt{}, a...), rest...) }
	var els []ast.Stmt
	switch e := x.Else.(type) {
	case nil:
	case *ast.BlockStmt:
		els = e.List
	default:
		els = []ast.Stmt{e}
	}
	// if s.m == nil { s.m = make(map…) }  — allocation of a nil map: no abstract effect
	if x.Init == nil && x.Else == nil && len(x.Body.List) == 1 {
		if b, ok := x.Cond.(*ast.BinaryExpr); ok && b.Op == token.EQL && ifIsNil(b.Y) {
			if f, ok := ifSField(b.X); ok && (f == "outgoing" || f == "byID") {
				if as, ok := x.Body.List[0].(*ast.AssignStmt); ok && len(as.Lhs) == 1 && len(as.Rhs) == 1 {
					if g, ok := ifSField(as.Lhs[0]); ok && g == f {
						if c, ok := as.Rhs[0].(*ast.CallExpr); ok && ifIsIdent(c.Fun, "make") {
							return t.seq(rest, ind)
						}
					}
				}
			}
		}
	}
	// if c.onDone != nil { c.onDone() }
	if x.Init == nil && x.Else == nil && len(x.Body.List) == 1 {
		if b, ok := x.Cond.(*ast.BinaryExpr); ok && b.Op == token.NEQ && ifIsNil(b.Y) && ifIsSel(b.X, "c", "onDone") {
			if es, ok := x.Body.List[0].(*ast.ExprStmt); ok {
				if c, ok := es.X.(*ast.CallExpr); ok && ifIsSel(c.Fun, "c", "onDone") {
					t.w(ind, "let o := { o with onDone := true }")
					return t.seq(rest, ind)
				}
			}
		}
	}
	// if v, ok := s.m[k]; ok { … } else { … }
	if x.Init != nil {
		as, ok := x.Init.(*ast.AssignStmt)
		if !ok || as.Tok != token.DEFINE || len(as.Lhs) != 2 || len(as.Rhs) != 1 || !ifIsIdent(as.Lhs[1], "ok") || !ifIsIdent(x.Cond, "ok") {
			return t.bad(x, "unsupported if-with-init")
		}
		v, ok := as.Lhs[0].(*ast.Ident)
		if !ok {
			return t.bad(x, "unsupported if-with-init")
		}
		lk, f, ok, err := t.mapLookup(as.Rhs[0])
		if err != nil {
			return err
		}
		if !ok {
			return t.bad(x, "unsupported if-with-init")
		}
		oldE, oldK := t.env[v.Name], t.kind[v.Name]
		t.env[v.Name], t.kind[v.Name] = v.Name+"'", map[string]string{"outgoing": "call", "byID": "req"}[f]
		t.w(ind, "match %s with", lk)
		t.w(ind, "| some %s' => (", v.Name)
		if err := t.seq(cat(x.Body.List), ind+1); err != nil {
			return err
		}
		t.env[v.Name], t.kind[v.Name] = oldE, oldK
		t.w(ind, ")")
		t.w(ind, "| none => (")
		if err := t.seq(cat(els), ind+1); err != nil {
			return err
		}
		t.w(ind, ")")
		return nil
	}
	c, err := t.cond(x.Cond)
	if err != nil {
		return err
	}
	t.w(ind, "if %s then (", c)
	if err := t.seq(cat(x.Body.List), ind+1); err != nil {
		return err
	}
	t.w(ind, ") else (")
	if err := t.seq(cat(els), ind+1); err != nil {
		return err
	}
	t.w(ind, ")")
	return nil
}

func (t *ifTr) assign(x *ast.AssignStmt, ind int) error {
	if x.Tok != token.ASSIGN {
		return t.bad(x, "unsupported assignment operator")
	}
	// req, s.handlerQueue = s.handlerQueue[0], s.handlerQueue[1:]
	if len(x.Lhs) == 2 && len(x.Rhs) == 2 {
		f, ok := ifSField(x.Lhs[1])
		ix, ok1 := x.Rhs[0].(*ast.IndexExpr)
		sl, ok2 := x.Rhs[1].(*ast.SliceExpr)
		if ifIsIdent(x.Lhs[0], "req") && ok && f == "queue" && ok1 && ok2 && ifIsZero(ix.Index) &&
			sl.High == nil && sl.Max == nil && sl.Low != nil {
			g, okg := ifSField(ix.X)
			h, okh := ifSField(sl.X)
			lo, okl := sl.Low.(*ast.BasicLit)
			if okg && okh && g == "queue" && h == "queue" && okl && lo.Value == "1" {
				t.w(ind, "let o := { o with req := s.queue.head? }")
				t.w(ind, "let s := { s with queue := s.queue.drop 1 }")
				return nil
			}
		}
		return t.bad(x, "unsupported tuple assignment")
	}
	if len(x.Lhs) != 1 || len(x.Rhs) != 1 {
		return t.bad(x, "unsupported assignment")
	}
	lhs, rhs := x.Lhs[0], x.Rhs[0]
	// captured output variables
	if id, ok := lhs.(*ast.Ident); ok {
		switch id.Name {
		case "err":
			v, modelled, err := t.errValue(rhs)
			if err != nil {
				return err
			}
			if modelled {
				t.w(ind, "let o := { o with err := %s }", v)
			}
			return nil
		case "attempted":
			if !ifIsIdent(rhs, "true") {
				return t.bad(x, "unsupported value for attempted")
			}
			t.w(ind, "let o := { o with attempted := true }")
			return nil
		case "req":
			lk, f, ok, err := t.mapLookup(rhs)
			if err != nil {
				return err
			}
			if !ok || f != "byID" {
				return t.bad(x, "unsupported value for req")
			}
			t.w(ind, "let o := { o with req := %s }", lk)
			return nil
		}
		return t.bad(x, "assignment to an unknown captured variable")
	}
	// req.ID = ID{}
	if sel, ok := lhs.(*ast.SelectorExpr); ok && sel.Sel.Name == "ID" {
		if id, ok := sel.X.(*ast.Ident); ok && t.kind[id.Name] == "req" {
			if cl, ok := rhs.(*ast.CompositeLit); ok && ifIsIdent(cl.Type, "ID") && len(cl.Elts) == 0 {
				t.w(ind, "let o := { o with clearReqID := true }")
				return nil
			}
		}
	}
	// s.m[k] = v
	if ix, ok := lhs.(*ast.IndexExpr); ok {
		f, ok := ifSField(ix.X)
		if !ok || (f != "outgoing" && f != "byID") {
			return t.bad(x, "store into an unknown map")
		}
		k, err := t.idExpr(ix.Index)
		if err != nil {
			return err
		}
		v, ok := rhs.(*ast.Ident)
		want := map[string]string{"outgoing": "call", "byID": "req"}[f]
		if !ok || t.kind[v.Name] != want {
			return t.bad(x, "store of an unknown value")
		}
		t.w(ind, "let s := { s with %s := Map.put s.%s %s %s }", f, f, ifParen(k), t.env[v.Name])
		return nil
	}
	// s.f = e
	f, ok := ifSField(lhs)
	if !ok {
		return t.bad(x, "assignment to an unknown location")
	}
	switch f {
	case "connClosing", "reading", "handlerRunning":
		if ifIsIdent(rhs, "true") || ifIsIdent(rhs, "false") {
			t.w(ind, "let s := { s with %s := %s }", f, rhs.(*ast.Ident).Name)
			return nil
		}
	case "readErr", "writeErr":
		if ifIsNil(rhs) {
			t.w(ind, "let s := { s with %s := false }", f)
			return nil
		}
		if ifIsIdent(rhs, "err") && t.errOK {
			// err is non-nil wherever this closure runs (checked by the caller)
			t.w(ind, "let s := { s with %s := true }", f)
			return nil
		}
	case "closerOpen":
		if ifIsNil(rhs) {
			t.w(ind, "let s := { s with closerOpen := false }")
			return nil
		}
	case "": // s.closeErr = s.closer.Close()
		if c, ok := rhs.(*ast.CallExpr); ok && len(c.Args) == 0 {
			if sel, ok := c.Fun.(*ast.SelectorExpr); ok && sel.Sel.Name == "Close" {
				if g, ok := ifSField(sel.X); ok && g == "closerOpen" {
					t.w(ind, "if !s.closerOpen then (s, { o with panic := true }) else -- nil closer")
					t.w(ind, "let o := { o with closedCloser := true }")
					return nil
				}
			}
		}
	case "outgoing":
		if ifIsNil(rhs) {
			t.w(ind, "let s := { s with outgoing := [] }")
			return nil
		}
	case "queue":
		if c, ok := rhs.(*ast.CallExpr); ok && ifIsIdent(c.Fun, "append") && len(c.Args) == 2 && c.Ellipsis == token.NoPos {
			if g, ok := ifSField(c.Args[0]); ok && g == "queue" {
				if v, ok := c.Args[1].(*ast.Ident); ok && t.kind[v.Name] == "req" {
					t.w(ind, "let s := { s with queue := s.queue ++ [%s] }", t.env[v.Name])
					return nil
				}
			}
		}
	}
	return t.bad(x, "unsupported field assignment")
}

// ---------------------------------------------------------------------------

func ifFindFunc(f *ast.File, name string) *ast.FuncDecl {
	for _, d := range f.Decls {
		if fd, ok := d.(*ast.FuncDecl); ok && fd.Name.Name == name {
			return fd
		}
	}
	return nil
}

// errNonNil checks that the captured `err` is non-nil where closure `site` runs.
func ifErrNonNil(s *ifSite) bool {
	switch s.name {
	case "write#0":
		// the call is inside `if err != nil && … {`
		for _, n := range s.encl {
			if is, ok := n.(*ast.IfStmt); ok {
				found := false
				ast.Inspect(is.Cond, func(n ast.Node) bool {
					if b, ok := n.(*ast.BinaryExpr); ok && b.Op == token.NEQ && ifIsIdent(b.X, "err") && ifIsNil(b.Y) {
						found = true
					}
					if b, ok := n.(*ast.BinaryExpr); ok && b.Op == token.LOR {
						found = false
						return false
					}
					return true
				})
				if found {
					return true
				}
			}
		}
	case "readIncoming#1":
		// the closure follows a `for { … }` whose only exits are `if err != nil { break }`
		var loop *ast.ForStmt
		for _, st := range s.fn.Body.List {
			if f, ok := st.(*ast.ForStmt); ok && f.Cond == nil && f.Init == nil && f.Post == nil {
				loop = f
			}
		}
		if loop == nil || loop.End() > s.lit.Pos() {
			return false
		}
		okExit := true
		nBreak := 0
		var walk func(list []ast.Stmt, top bool)
		walk = func(list []ast.Stmt, top bool) {
			for _, st := range list {
				ast.Inspect(st, func(n ast.Node) bool {
					switch x := n.(type) {
					case *ast.FuncLit:
						return false
					case *ast.ReturnStmt:
						okExit = false
					case *ast.BranchStmt:
						if x.Tok == token.GOTO || x.Label != nil {
							okExit = false
						}
						if x.Tok == token.BREAK {
							nBreak++
						}
					}
					return true
				})
			}
		}
		walk(loop.Body.List, true)
		good := 0
		for _, st := range loop.Body.List {
			if is, ok := st.(*ast.IfStmt); ok && is.Init == nil && is.Else == nil && len(is.Body.List) == 1 {
				if b, ok := is.Cond.(*ast.BinaryExpr); ok && b.Op == token.NEQ && ifIsIdent(b.X, "err") && ifIsNil(b.Y) {
					if br, ok := is.Body.List[0].(*ast.BranchStmt); ok && br.Tok == token.BREAK && br.Label == nil {
						good++
					}
				}
			}
		}
		return okExit && nBreak == good && good >= 1
	}
	return false
}

func inflight(repo, out string) error {
	dir := filepath.Join(repo, "x", "jsonrpc2")
	fset := token.NewFileSet()
	ents, err := os.ReadDir(dir)
	if err != nil {
		return broken("inflight: %v", err)
	}
	var conn *ast.File
	var sites []*ifSite
	for _, e := range ents {
		n := e.Name()
		if e.IsDir() || !strings.HasSuffix(n, ".go") || strings.HasSuffix(n, "_test.go") || n == "conn_verif.go" || n == "conn_noverif.go" {
			continue
		}
		f, err := parser.ParseFile(fset, filepath.Join(dir, n), nil, 0)
		if err != nil {
			return broken("inflight: %v", err)
		}
		if n == "conn.go" {
			conn = f
		}
		// all calls of updateInFlight, and all uses of inFlightState fields
		for _, d := range f.Decls {
			fd, ok := d.(*ast.FuncDecl)
			if !ok || fd.Body == nil {
				continue
			}
			k := 0
			var path []ast.Node
			var bad error
			ast.Inspect(fd.Body, func(nd ast.Node) bool {
				if nd == nil {
					path = path[:len(path)-1]
					return true
				}
				path = append(path, nd)
				if c, ok := nd.(*ast.CallExpr); ok {
					if sel, ok := c.Fun.(*ast.SelectorExpr); ok && sel.Sel.Name == "updateInFlight" {
						lit, ok := c.Args[0].(*ast.FuncLit)
						if !ok || len(c.Args) != 1 || n != "conn.go" {
							bad = broken("inflight: %s: updateInFlight called with something other than a closure, or outside conn.go", fset.Position(c.Pos()))
							return false
						}
						sites = append(sites, &ifSite{name: fmt.Sprintf("%s#%d", fd.Name.Name, k), line: fset.Position(c.Pos()).Line,
							lit: lit, fn: fd, encl: append([]ast.Node{}, path...)})
						k++
						path = path[:len(path)-1]
						return false // closures are checked by the translator
					}
				}
				if sel, ok := nd.(*ast.SelectorExpr); ok {
					if _, isField := ifFields[sel.Sel.Name]; isField && sel.Sel.Name != "incoming" && sel.Sel.Name != "closer" {
						switch fd.Name.Name {
						case "updateInFlight", "idle", "shuttingDown":
						default:
							bad = broken("inflight: %s: inFlightState field %s used outside updateInFlight closures", fset.Position(sel.Pos()), sel.Sel.Name)
						}
					}
					if sel.Sel.Name == "state" && ifIsIdent(sel.X, "c") && fd.Name.Name != "updateInFlight" {
						bad = broken("inflight: %s: c.state used outside updateInFlight", fset.Position(sel.Pos()))
					}
				}
				return true
			})
			if bad != nil {
				return bad
			}
		}
	}
	if conn == nil {
		return broken("inflight: x/jsonrpc2/conn.go not found")
	}
	var got []string
	for _, s := range sites {
		got = append(got, s.name)
	}
	if strings.Join(got, " ") != strings.Join(ifExpectedSites, " ") {
		return broken("inflight: updateInFlight call sites changed: have [%s], the model knows [%s]", strings.Join(got, " "), strings.Join(ifExpectedSites, " "))
	}

	var b bytes.Buffer
	b.WriteString("-- GENERATED by /verif/extract/inflight.go from x/jsonrpc2/conn.go. Do not edit.\n")
	b.WriteString("import GopModel.Model.InFlightTypes\nset_option linter.unusedVariables false\nnamespace GopModel.InFlight.Gen\nopen GopModel.InFlight\n\n")

	// idle
	idle := ifFindFunc(conn, "idle")
	if idle == nil || len(idle.Body.List) != 1 {
		return broken("inflight: func idle: unexpected shape")
	}
	ret, ok := idle.Body.List[0].(*ast.ReturnStmt)
	if !ok || len(ret.Results) != 1 {
		return broken("inflight: func idle: unexpected shape")
	}
	t0 := &ifTr{fset: fset, fn: "idle", env: map[string]string{}, kind: map[string]string{}, buf: &b}
	c, err := t0.cond(ret.Results[0])
	if err != nil {
		return err
	}
	fmt.Fprintf(&b, "/-- `inFlightState.idle` (conn.go:%d) -/\ndef idle (s : St) : Bool :=\n  %s\n\n", fset.Position(idle.Pos()).Line, c)

	// shuttingDown: if C { return errClosing | fmt.Errorf("%w: %v", errClosing, s.X) } … return nil
	sd := ifFindFunc(conn, "shuttingDown")
	if sd == nil || len(sd.Type.Params.List) != 1 || len(sd.Type.Params.List[0].Names) != 1 || sd.Type.Params.List[0].Names[0].Name != "errClosing" {
		return broken("inflight: func shuttingDown: unexpected signature")
	}
	fmt.Fprintf(&b, "/-- `inFlightState.shuttingDown` (conn.go:%d): which test fired, if any -/\ndef shuttingDown (s : St) : Option Cause :=\n", fset.Position(sd.Pos()).Line)
	for i, st := range sd.Body.List {
		if i == len(sd.Body.List)-1 {
			r, ok := st.(*ast.ReturnStmt)
			if !ok || len(r.Results) != 1 || !ifIsNil(r.Results[0]) {
				return t0.bad(st, "shuttingDown: last statement is not `return nil`")
			}
			b.WriteString("  none\n\n")
			break
		}
		is, ok := st.(*ast.IfStmt)
		if !ok || is.Init != nil || is.Else != nil || len(is.Body.List) != 1 {
			return t0.bad(st, "shuttingDown: unsupported statement")
		}
		c, err := t0.cond(is.Cond)
		if err != nil {
			return err
		}
		r, ok := is.Body.List[0].(*ast.ReturnStmt)
		if !ok || len(r.Results) != 1 {
			return t0.bad(st, "shuttingDown: unsupported statement")
		}
		cause := ""
		if ifIsIdent(r.Results[0], "errClosing") {
			cause = "Cause.closing"
		} else if ce, ok := r.Results[0].(*ast.CallExpr); ok && ifIsSel(ce.Fun, "fmt", "Errorf") && len(ce.Args) == 3 && ifIsIdent(ce.Args[1], "errClosing") {
			if f, ok := ifSField(ce.Args[2]); ok && (f == "readErr" || f == "writeErr") {
				cause = "Cause." + f
			}
		}
		if cause == "" {
			return t0.bad(st, "shuttingDown: unsupported return value")
		}
		fmt.Fprintf(&b, "  if %s then some %s else\n", c, cause)
	}

	// updateInFlight: prologue shape + epilogue
	up := ifFindFunc(conn, "updateInFlight")
	if up == nil {
		return broken("inflight: func updateInFlight not found")
	}
	var pro []string
	split := -1
	for i, st := range up.Body.List {
		var sb bytes.Buffer
		printer.Fprint(&sb, fset, st)
		if sb.String() == "f(s)" {
			split = i
			break
		}
		pro = append(pro, sb.String())
	}
	wantPro := []string{"c.stateMu.Lock()", "defer c.stateMu.Unlock()", "s := &c.state", "defer verifTrace(c, s)()"}
	if split < 0 || strings.Join(pro, ";") != strings.Join(wantPro, ";") {
		return broken("inflight: updateInFlight prologue changed: [%s]", strings.Join(pro, "; "))
	}
	fmt.Fprintf(&b, "/-- the part of `updateInFlight` after `f(s)` (conn.go:%d) -/\ndef epilogue (s : St) (o : Out) : St × Out :=\n", fset.Position(up.Body.List[split].Pos()).Line+1)
	te := &ifTr{fset: fset, fn: "updateInFlight", env: map[string]string{}, kind: map[string]string{}, buf: &b}
	if err := te.seq(up.Body.List[split+1:], 1); err != nil {
		return err
	}
	b.WriteString("\n")

	// closures
	for _, s := range sites {
		if len(s.lit.Type.Params.List) != 1 || len(s.lit.Type.Params.List[0].Names) != 1 || s.lit.Type.Params.List[0].Names[0].Name != "s" {
			return broken("inflight: %s: closure parameter is not `s`", s.name)
		}
		t := &ifTr{fset: fset, fn: s.fn.Name.Name, env: map[string]string{}, kind: map[string]string{}, buf: &b}
		switch s.fn.Name.Name {
		case "Call":
			// ac := &AsyncCall{id: id, …}: `id` is ac.id
			okLit := false
			ast.Inspect(s.fn.Body, func(n ast.Node) bool {
				if as, ok := n.(*ast.AssignStmt); ok && len(as.Lhs) == 1 && ifIsIdent(as.Lhs[0], "ac") && as.Tok == token.DEFINE {
					if u, ok := as.Rhs[0].(*ast.UnaryExpr); ok {
						if cl, ok := u.X.(*ast.CompositeLit); ok && ifIsIdent(cl.Type, "AsyncCall") {
							for _, el := range cl.Elts {
								if kv, ok := el.(*ast.KeyValueExpr); ok && ifIsIdent(kv.Key, "id") && ifIsIdent(kv.Value, "id") {
									okLit = true
								}
							}
						}
					}
				}
				return true
			})
			if !okLit {
				return broken("inflight: Call: `ac := &AsyncCall{id: id, …}` not found")
			}
			t.env["ac"], t.kind["ac"] = "a.call", "call"
			t.env["id"], t.kind["id"] = "a.call.id", "id"
		case "Respond", "Cancel":
			if len(s.fn.Type.Params.List) < 1 || len(s.fn.Type.Params.List[0].Names) != 1 || s.fn.Type.Params.List[0].Names[0].Name != "id" || !ifIsIdent(s.fn.Type.Params.List[0].Type, "ID") {
				return broken("inflight: %s: first parameter is not `id ID`", s.fn.Name.Name)
			}
			t.env["id"], t.kind["id"] = "a.id", "id"
		case "readIncoming":
			if s.name == "readIncoming#0" {
				// inside `case *Response:` of `switch msg := msg.(type)`
				inResp := false
				for _, n := range s.encl {
					if cc, ok := n.(*ast.CaseClause); ok && len(cc.List) == 1 {
						if st, ok := cc.List[0].(*ast.StarExpr); ok && ifIsIdent(st.X, "Response") {
							inResp = true
						}
					}
				}
				if !inResp {
					return broken("inflight: readIncoming#0 is not inside `case *Response`")
				}
				t.env["msg"], t.kind["msg"] = "a.id", "resp"
			}
		case "acceptRequest", "processResult":
			t.env["req"], t.kind["req"] = "a.req", "req"
		}
		t.errOK = ifErrNonNil(s)
		fmt.Fprintf(&b, "/-- conn.go:%d  %s -/\ndef %s (a : Args) (s : St) : St × Out :=\n  let o : Out := {}\n", s.line, s.name, strings.Replace(s.name, "#", "_", 1))
		if err := t.seq(s.lit.Body.List, 1); err != nil {
			return err
		}
		b.WriteString("\n")
	}
	b.WriteString("/-- closure name → generated transition -/\ndef transitions : List (String × (Args → St → St × Out)) := [\n")
	for i, s := range sites {
		sep := ","
		if i == len(sites)-1 {
			sep = ""
		}
		fmt.Fprintf(&b, "  (%q, %s)%s\n", s.name, strings.Replace(s.name, "#", "_", 1), sep)
	}
	b.WriteString("]\n\nend GopModel.InFlight.Gen\n")

	var sb bytes.Buffer
	sb.WriteString("-- GENERATED by /verif/extract/inflight.go from x/jsonrpc2/conn.go. Do not edit.\n")
	sb.WriteString("namespace GopModel.InFlight.Gen\n\n/-- source line of each `c.updateInFlight(func…` call in conn.go → closure name -/\ndef sites : List (Nat × String) := [\n")
	for i, s := range sites {
		sep := ","
		if i == len(sites)-1 {
			sep = ""
		}
		fmt.Fprintf(&sb, "  (%d, %q)%s\n", s.line, s.name, sep)
	}
	sb.WriteString("]\n\nend GopModel.InFlight.Gen\n")

	// thread programs: canonical print with closures and logging removed
	fp, err := ifFingerprints(fset, conn)
	if err != nil {
		return err
	}
	want := map[string]string{}
	for _, l := range strings.Split(inflightExpect, "\n") {
		fs := strings.Fields(l)
		if len(fs) == 2 && !strings.HasPrefix(l, "#") {
			want[fs[0]] = fs[1]
		}
	}
	if os.Getenv("VERIF_INFLIGHT_PRINT") != "" {
		var names []string
		for n := range fp {
			names = append(names, n)
		}
		sort.Strings(names)
		for _, n := range names {
			fmt.Printf("%s %s\n", n, fp[n].sum)
			if os.Getenv("VERIF_INFLIGHT_PRINT") == "full" {
				fmt.Println(fp[n].text)
			}
		}
	}

	if err := writeIfChanged(filepath.Join(out, "InFlightSites.lean"), sb.Bytes()); err != nil {
		return err
	}
	if err := writeIfChanged(filepath.Join(out, "InFlight.lean"), b.Bytes()); err != nil {
		return err
	}
	var diffs []string
	for _, n := range ifThreadFuncs {
		if fp[n].sum != want[n] {
			diffs = append(diffs, n)
		}
	}
	if len(diffs) > 0 {
		return broken("inflight: the code around the updateInFlight calls changed in func(s) %s (canonical print differs from extract/inflight_expect.txt; the hand-written actions of Model/InFlight.lean must be re-validated)", strings.Join(diffs, ", "))
	}
	return nil
}

type ifPrint struct{ sum, text string }

// ifFingerprints prints each thread function with updateInFlight closure bodies emptied and
// `if Verbose/debugCall { log… }` statements removed, and hashes the text.
func ifFingerprints(fset *token.FileSet, conn *ast.File) (map[string]ifPrint, error) {
	res := map[string]ifPrint{}
	for _, name := range ifThreadFuncs {
		fd := ifFindFunc(conn, name)
		if fd == nil {
			return nil, broken("inflight: func %s not found in conn.go", name)
		}
		var strip func(list []ast.Stmt) []ast.Stmt
		stripBlock := func(b *ast.BlockStmt) {
			if b != nil {
				b.List = strip(b.List)
			}
		}
		strip = func(list []ast.Stmt) []ast.Stmt {
			var out []ast.Stmt
			for _, st := range list {
				if ifIsLogIf(st) {
					continue
				}
				ast.Inspect(st, func(n ast.Node) bool {
					switch x := n.(type) {
					case *ast.CallExpr:
						if sel, ok := x.Fun.(*ast.SelectorExpr); ok && sel.Sel.Name == "updateInFlight" && len(x.Args) == 1 {
							if lit, ok := x.Args[0].(*ast.FuncLit); ok {
								lit.Body = &ast.BlockStmt{}
								return false
							}
						}
					case *ast.BlockStmt:
						stripBlock(x)
					case *ast.CaseClause:
						x.Body = strip(x.Body)
					case *ast.CommClause:
						x.Body = strip(x.Body)
					}
					return true
				})
				out = append(out, st)
			}
			return out
		}
		stripBlock(fd.Body)
		fd.Doc = nil
		var sb bytes.Buffer
		cfg := printer.Config{Mode: printer.RawFormat, Tabwidth: 1}
		if err := cfg.Fprint(&sb, fset, fd); err != nil {
			return nil, broken("inflight: printing %s: %v", name, err)
		}
		// normalise white space (positions of removed statements leave blank lines)
		text := strings.Join(strings.Fields(sb.String()), " ")
		res[name] = ifPrint{sum: fmt.Sprintf("%x", sha256.Sum256([]byte(text)))[:16], text: text}
	}
	return res, nil
}
