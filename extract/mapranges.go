// Translator target "mapranges" (property C08).
//
// Reads   <repo>/cl/*.go, <repo>/x/build/*.go (non-test): every `range` statement whose operand has a
//
//	MAP type (decided by go/types; imports are resolved from the export data that
//	`go list -export -deps` reports for the tree under test — offline, a few seconds).
//
// Writes  Generated/MapRanges.lean: one record per site with its committed classification.
//
// A Go map is iterated in an unspecified order, so each site is a possible source of
// nondeterministic compiler output (C08).  Each site must match an entry of `committed` below:
// (file, enclosing top-level function, operand text) → class + reason, and — for the classes whose
// argument is a hand review of the loop body — the FNV hash of the normalised body text, so an edit
// to a reviewed loop, or a NEW map range, breaks the tie until somebody re-reviews it.
// Classes with a structural argument are re-checked structurally instead (see checkShape).
package main

import (
	"bytes"
	"fmt"
	"go/ast"
	"go/importer"
	"go/parser"
	"go/printer"
	"go/token"
	"go/types"
	"hash/fnv"
	"io"
	"os"
	"os/exec"
	"path/filepath"
	"sort"
	"strings"
)

func init() { register("mapranges", genMapRanges) }

type mrEntry struct {
	cls  string // Lean constructor of Cls
	why  string
	hash string // "" = shape-checked class; otherwise the reviewed body's hash
}

// committed classification.  key = "<relative file>:<func>:<operand>".
var committedMapRanges = map[string]mrEntry{
	"cl/compile.go:NewPackage:files": {"collectThenSort",
		"the values are only appended to sfiles, which is sorted by path (sort.Slice) before any use", ""},
	"cl/compile.go:NewPackage:ctx.syms": {"setCopy",
		"copies the key set into the set gopSyms (gopSyms[name] = true); insertion order is irrelevant for a set", ""},
	"cl/compile.go:sortedKeys:m": {"collectThenSort",
		"collects the keys and sorts them (sort.Strings): the helper that makes the GoFiles / syms iterations deterministic", ""},
	"x/build/build.go:loadPackage:pkgs": {"collectThenSort",
		"collects the package names and sorts them before picking the first one", ""},
	"cl/compile.go:lookupClassNode:p.classes": {"uniqueMatch",
		"searches the class whose clsfile equals name; in a package that compiles class type names are unique (a duplicate is reported as a redeclaration), so at most one entry matches", "?"},
	"cl/classfile.go:gmxCheckProjs:ctx.projs": {"commutingEffects",
		"per project: sets flags (multiMain/multiNoMain are order-free; projMain/projNoMain are only used when not multi, i.e. when unique) and registers closures on that project's own class type loader", "?"},
	"cl/recorder.go:Complete:p.referDefs": {"commutingEffects",
		"per identifier: records Def/Implicit/Types entries keyed by that identifier / node — writes to distinct map keys commute", "?"},
	"cl/recorder.go:Complete:p.referUses": {"commutingEffects",
		"per name: records Use entries keyed by the identifiers of that name — writes to distinct map keys commute", "?"},
	"cl/stmt.go:compileTypeSwitchStmt:seen": {"uniqueMatch",
		"seen only holds pairwise non-identical types (a case is inserted only when no identical one was found), so at most one entry reports an error per case", "?"},
}

// reviewed body hashes (filled from the tree that was reviewed; see design_notes/C08.md).
var reviewedHashes = map[string]string{
	"cl/compile.go:lookupClassNode:p.classes": "15a0f38501630b9b",
	"cl/classfile.go:gmxCheckProjs:ctx.projs": "27523a656b83c6c3",
	"cl/recorder.go:Complete:p.referDefs":     "d18a60850202f8a9",
	"cl/recorder.go:Complete:p.referUses":     "71d459dec25e94b9",
	"cl/stmt.go:compileTypeSwitchStmt:seen":   "90b7a20d7df98433",
}

func goListExports(repo string) (map[string]string, error) {
	cmd := exec.Command("go", "list", "-export", "-deps", "-f", "{{.ImportPath}}\t{{.Export}}", "./cl", "./x/build")
	cmd.Dir = repo
	cmd.Env = append(os.Environ(), "GOFLAGS=-mod=mod", "GOPROXY=off", "GOSUMDB=off", "GOTOOLCHAIN=local", "CGO_ENABLED=0")
	var stderr bytes.Buffer
	cmd.Stderr = &stderr
	out, err := cmd.Output()
	if err != nil {
		return nil, fmt.Errorf("go list -export: %v: %s", err, stderr.String())
	}
	res := map[string]string{}
	for _, l := range strings.Split(string(out), "\n") {
		f := strings.SplitN(l, "\t", 2)
		if len(f) == 2 && f[1] != "" {
			res[f[0]] = f[1]
		}
	}
	return res, nil
}

func bodyHash(fset *token.FileSet, n ast.Node) string {
	var b bytes.Buffer
	printer.Fprint(&b, fset, n)
	h := fnv.New64a()
	h.Write([]byte(strings.Join(strings.Fields(b.String()), " ")))
	return fmt.Sprintf("%016x", h.Sum64())
}

// checkShape re-checks the structural argument of the shape-checked classes.
func checkShape(cls string, r *ast.RangeStmt, fn *ast.FuncDecl) string {
	switch cls {
	case "collectThenSort":
		// body: exactly `xs = append(xs, …)`; and the function calls sort.Xxx(xs, …) later
		if len(r.Body.List) != 1 {
			return "body is not a single statement"
		}
		as, ok := r.Body.List[0].(*ast.AssignStmt)
		if !ok || len(as.Lhs) != 1 || len(as.Rhs) != 1 {
			return "body is not an assignment"
		}
		lhs, ok := as.Lhs[0].(*ast.Ident)
		call, ok2 := as.Rhs[0].(*ast.CallExpr)
		if !ok || !ok2 {
			return "body is not xs = append(xs, …)"
		}
		if f, ok := call.Fun.(*ast.Ident); !ok || f.Name != "append" || len(call.Args) < 2 {
			return "body is not xs = append(xs, …)"
		}
		if a0, ok := call.Args[0].(*ast.Ident); !ok || a0.Name != lhs.Name {
			return "append target differs"
		}
		sorted := false
		ast.Inspect(fn.Body, func(n ast.Node) bool {
			c, ok := n.(*ast.CallExpr)
			if !ok || c.Pos() < r.End() {
				return true
			}
			if sel, ok := c.Fun.(*ast.SelectorExpr); ok {
				if x, ok := sel.X.(*ast.Ident); ok && x.Name == "sort" && len(c.Args) > 0 {
					if a, ok := c.Args[0].(*ast.Ident); ok && a.Name == lhs.Name {
						sorted = true
					}
				}
			}
			return true
		})
		if !sorted {
			return "no sort.*(" + lhs.Name + ", …) after the loop"
		}
		return ""
	case "setCopy":
		if len(r.Body.List) != 1 {
			return "body is not a single statement"
		}
		as, ok := r.Body.List[0].(*ast.AssignStmt)
		if !ok || len(as.Lhs) != 1 || len(as.Rhs) != 1 {
			return "body is not an assignment"
		}
		ix, ok := as.Lhs[0].(*ast.IndexExpr)
		if !ok {
			return "body is not set[key] = true"
		}
		k, ok1 := ix.Index.(*ast.Ident)
		rk, ok2 := r.Key.(*ast.Ident)
		v, ok3 := as.Rhs[0].(*ast.Ident)
		if !ok1 || !ok2 || !ok3 || k.Name != rk.Name || v.Name != "true" {
			return "body is not set[key] = true"
		}
		return ""
	}
	return "class " + cls + " has no shape check"
}

func leanStr(s string) string {
	s = strings.ReplaceAll(s, `\`, `\\`)
	s = strings.ReplaceAll(s, `"`, `\"`)
	return `"` + s + `"`
}

func genMapRanges(repo, out string) error {
	exports, err := goListExports(repo)
	if err != nil {
		return broken("%v", err)
	}
	fset := token.NewFileSet()
	imp := importer.ForCompiler(fset, "gc", func(path string) (io.ReadCloser, error) {
		f, ok := exports[path]
		if !ok {
			return nil, fmt.Errorf("no export data for %s", path)
		}
		return os.Open(f)
	})
	type site struct {
		key, file, fn, expr, typ, hash string
		line                           int
		entry                          mrEntry
		problem                        string
	}
	var sites []site
	for _, dir := range []string{"cl", "x/build"} {
		pkgs, err := parser.ParseDir(fset, filepath.Join(repo, dir), func(fi os.FileInfo) bool {
			return !strings.HasSuffix(fi.Name(), "_test.go")
		}, 0)
		if err != nil {
			return broken("parse %s: %v", dir, err)
		}
		for _, p := range pkgs {
			var names []string
			for n := range p.Files {
				names = append(names, n)
			}
			sort.Strings(names)
			var files []*ast.File
			for _, n := range names {
				files = append(files, p.Files[n])
			}
			info := &types.Info{Types: map[ast.Expr]types.TypeAndValue{}}
			conf := types.Config{Importer: imp}
			if _, err := conf.Check("github.com/goplus/xgo/"+dir, fset, files, info); err != nil {
				return broken("type-check %s: %v", dir, err)
			}
			for i, f := range files {
				rel, _ := filepath.Rel(repo, names[i])
				for _, d := range f.Decls {
					fd, ok := d.(*ast.FuncDecl)
					if !ok || fd.Body == nil {
						continue
					}
					ast.Inspect(fd.Body, func(n ast.Node) bool {
						r, ok := n.(*ast.RangeStmt)
						if !ok {
							return true
						}
						tv, ok := info.Types[r.X]
						if !ok {
							return true
						}
						if _, isMap := tv.Type.Underlying().(*types.Map); !isMap {
							// a type parameter whose core type is a map also iterates a map
							tp, isTP := tv.Type.(*types.TypeParam)
							if !isTP {
								return true
							}
							isMap = false
							if iface, ok := tp.Constraint().Underlying().(*types.Interface); ok {
								for k := 0; k < iface.NumEmbeddeds(); k++ {
									et := iface.EmbeddedType(k)
									if u, ok := et.(*types.Union); ok {
										for j := 0; j < u.Len(); j++ {
											if _, ok := u.Term(j).Type().Underlying().(*types.Map); ok {
												isMap = true
											}
										}
									} else if _, ok := et.Underlying().(*types.Map); ok {
										isMap = true
									}
								}
							}
							if !isMap {
								return true
							}
						}
						s := site{file: rel, fn: fd.Name.Name, expr: types.ExprString(r.X), typ: tv.Type.String(),
							line: fset.Position(r.Pos()).Line, hash: bodyHash(fset, r)}
						s.key = s.file + ":" + s.fn + ":" + s.expr
						e, ok := committedMapRanges[s.key]
						if !ok {
							s.entry = mrEntry{cls: "unclassified", why: "NEW map range: not reviewed"}
							s.problem = "unclassified map range"
						} else {
							s.entry = e
							if e.hash == "" {
								if msg := checkShape(e.cls, r, fd); msg != "" {
									s.problem = "shape of a " + e.cls + " loop changed: " + msg
									s.entry.cls = "unclassified"
								}
							} else if want := reviewedHashes[s.key]; want != s.hash {
								s.problem = fmt.Sprintf("reviewed loop body changed (hash %s, reviewed %s)", s.hash, want)
								s.entry.cls = "unclassified"
							}
						}
						sites = append(sites, s)
						return true
					})
				}
			}
		}
	}
	sort.Slice(sites, func(i, j int) bool { return sites[i].key < sites[j].key })
	var b bytes.Buffer
	b.WriteString("/- GENERATED by extract/mapranges.go from /repo/cl and /repo/x/build — do not edit. -/\n")
	b.WriteString("namespace GopModel.Generated.MapRanges\n\n")
	b.WriteString("inductive Cls where\n  | collectThenSort | setCopy | uniqueMatch | commutingEffects | unclassified\n  deriving Repr, DecidableEq\n\n")
	b.WriteString("structure MapRange where\n  file : String\n  fn : String\n  expr : String\n  cls : Cls\n  why : String\n  deriving Repr\n\n")
	b.WriteString("def mapRanges : List MapRange := [\n")
	for i, s := range sites {
		sep := ","
		if i == len(sites)-1 {
			sep = ""
		}
		fmt.Fprintf(&b, "  ⟨%s, %s, %s, .%s, %s⟩%s\n", leanStr(s.file), leanStr(s.fn), leanStr(s.expr), s.entry.cls, leanStr(s.entry.why), sep)
	}
	b.WriteString("]\n\nend GopModel.Generated.MapRanges\n")
	if err := writeIfChanged(filepath.Join(out, "MapRanges.lean"), b.Bytes()); err != nil {
		return err
	}
	var facts bytes.Buffer
	for _, s := range sites {
		fmt.Fprintf(&facts, "%s\tline=%d\ttype=%s\thash=%s\tcls=%s\n", s.key, s.line, s.typ, s.hash, s.entry.cls)
	}
	writeIfChanged(filepath.Join(out, "mapranges_facts.txt"), facts.Bytes())
	var probs []string
	seen := map[string]bool{}
	for _, s := range sites {
		seen[s.key] = true
		if s.problem != "" {
			probs = append(probs, fmt.Sprintf("%s (line %d): %s", s.key, s.line, s.problem))
		}
	}
	if len(probs) > 0 {
		return broken("map iteration sites: %s", strings.Join(probs, "; "))
	}
	return nil
}
