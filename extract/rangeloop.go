// Translator target "rangeloop" (C04): the shape of the `for` statement that
// cl/stmt.go:toForStmt builds for a range expression (comparison operator, increment operator,
// defaults for an omitted start/step, temporaries for non-trivial end/step) and the defaults
// cl/expr.go:compileRangeExpr passes to newRange.  Emits Generated/RangeLoop.lean.
package main

import (
	"fmt"
	"go/ast"
	"go/parser"
	"go/token"
	"path/filepath"
	"strconv"
	"strings"
)

func init() { register("rangeloop", rangeLoop) }

func rlFunc(repo, rel, name string) (*ast.FuncDecl, error) {
	fset := token.NewFileSet()
	f, err := parser.ParseFile(fset, filepath.Join(repo, rel), nil, 0)
	if err != nil {
		return nil, broken("%s does not parse: %v", rel, err)
	}
	for _, d := range f.Decls {
		if fd, ok := d.(*ast.FuncDecl); ok && fd.Recv == nil && fd.Name.Name == name && fd.Body != nil {
			return fd, nil
		}
	}
	return nil, broken("%s: func %s not found", rel, name)
}

// sel returns "a.b" for a selector of two identifiers, "a" for an identifier, "" otherwise.
func rlSel(e ast.Expr) string {
	switch v := e.(type) {
	case *ast.Ident:
		return v.Name
	case *ast.SelectorExpr:
		if x, ok := v.X.(*ast.Ident); ok {
			return x.Name + "." + v.Sel.Name
		}
	}
	return ""
}

// composite literal `&T{...}` or `T{...}` → type name and key→value map
func rlLit(e ast.Expr) (string, map[string]ast.Expr) {
	if u, ok := e.(*ast.UnaryExpr); ok && u.Op == token.AND {
		e = u.X
	}
	cl, ok := e.(*ast.CompositeLit)
	if !ok {
		return "", nil
	}
	m := map[string]ast.Expr{}
	for _, el := range cl.Elts {
		kv, ok := el.(*ast.KeyValueExpr)
		if !ok {
			return "", nil
		}
		m[rlSel(kv.Key)] = kv.Value
	}
	if at, ok := cl.Type.(*ast.ArrayType); ok {
		return "[]" + rlSel(at.Elt), m
	}
	return rlSel(cl.Type), m
}

// `[]ast.Expr{x}` → "x"
func rlSingleton(e ast.Expr) string {
	cl, ok := e.(*ast.CompositeLit)
	if !ok || len(cl.Elts) != 1 {
		return ""
	}
	if at, ok := cl.Type.(*ast.ArrayType); !ok || at.Len != nil || rlSel(at.Elt) != "ast.Expr" {
		return ""
	}
	return rlSel(cl.Elts[0])
}

// `&ast.BasicLit{..., Kind: token.INT, Value: "<n>"}` → n
func rlIntLit(e ast.Expr) (int64, bool) {
	tn, m := rlLit(e)
	if tn != "ast.BasicLit" || rlSel(m["Kind"]) != "token.INT" {
		return 0, false
	}
	bl, ok := m["Value"].(*ast.BasicLit)
	if !ok || bl.Kind != token.STRING {
		return 0, false
	}
	s, err := strconv.Unquote(bl.Value)
	if err != nil {
		return 0, false
	}
	n, err := strconv.ParseInt(s, 10, 64)
	return n, err == nil
}

// single assignment `lhs = rhs` / `lhs := rhs`
func rlAssign(s ast.Stmt) (string, ast.Expr, bool) {
	as, ok := s.(*ast.AssignStmt)
	if !ok || len(as.Lhs) != 1 || len(as.Rhs) != 1 || (as.Tok != token.ASSIGN && as.Tok != token.DEFINE) {
		return "", nil, false
	}
	return rlSel(as.Lhs[0]), as.Rhs[0], true
}

// `x = append(x, y)` → y's selector text
func rlAppend(s ast.Stmt, x string) (string, bool) {
	l, r, ok := rlAssign(s)
	if !ok || l != x {
		return "", false
	}
	c, ok := r.(*ast.CallExpr)
	if !ok || rlSel(c.Fun) != "append" || len(c.Args) != 2 || rlSel(c.Args[0]) != x {
		return "", false
	}
	return rlSel(c.Args[1]), true
}

// type switch `switch <src>.(type) { case *ast.Ident, *ast.BasicLit: v = <src>  default: replaceValue = true;
// v = &ast.Ident{Name: "<temp>"}; initLhs = append(initLhs, v); initRhs = append(initRhs, <src>) }`
func rlTempSwitch(s ast.Stmt, src, v, temp string) error {
	ts, ok := s.(*ast.TypeSwitchStmt)
	if !ok {
		return broken("toForStmt: expected a type switch on %s", src)
	}
	es, ok := ts.Assign.(*ast.ExprStmt)
	if !ok {
		return broken("toForStmt: type switch on %s binds a variable", src)
	}
	ta, ok := es.X.(*ast.TypeAssertExpr)
	if !ok || ta.Type != nil || rlSel(ta.X) != src {
		return broken("toForStmt: type switch is not on %s", src)
	}
	if len(ts.Body.List) != 2 {
		return broken("toForStmt: type switch on %s has %d clauses, want 2", src, len(ts.Body.List))
	}
	seenSimple, seenDefault := false, false
	for _, c := range ts.Body.List {
		cc := c.(*ast.CaseClause)
		if cc.List == nil {
			seenDefault = true
			if len(cc.Body) != 4 {
				return broken("toForStmt: default clause of switch on %s has %d statements, want 4", src, len(cc.Body))
			}
			if l, r, ok := rlAssign(cc.Body[0]); !ok || l != "replaceValue" || rlSel(r) != "true" {
				return broken("toForStmt: default clause of switch on %s: expected replaceValue = true", src)
			}
			l, r, ok := rlAssign(cc.Body[1])
			tn, m := rlLit(r)
			nm, _ := m["Name"].(*ast.BasicLit)
			if !ok || l != v || tn != "ast.Ident" || nm == nil || nm.Value != strconv.Quote(temp) {
				return broken("toForStmt: default clause of switch on %s: expected %s = &ast.Ident{Name: %q}", src, v, temp)
			}
			if a, ok := rlAppend(cc.Body[2], "initLhs"); !ok || a != v {
				return broken("toForStmt: default clause of switch on %s: expected initLhs = append(initLhs, %s)", src, v)
			}
			if a, ok := rlAppend(cc.Body[3], "initRhs"); !ok || a != src {
				return broken("toForStmt: default clause of switch on %s: expected initRhs = append(initRhs, %s)", src, src)
			}
			continue
		}
		var tys []string
		for _, t := range cc.List {
			if st, ok := t.(*ast.StarExpr); ok {
				tys = append(tys, rlSel(st.X))
			} else {
				tys = append(tys, "?")
			}
		}
		if strings.Join(tys, ",") != "ast.Ident,ast.BasicLit" {
			return broken("toForStmt: switch on %s: case types %v, want *ast.Ident, *ast.BasicLit", src, tys)
		}
		if len(cc.Body) != 1 {
			return broken("toForStmt: simple clause of switch on %s has %d statements", src, len(cc.Body))
		}
		if l, r, ok := rlAssign(cc.Body[0]); !ok || l != v || rlSel(r) != src {
			return broken("toForStmt: simple clause of switch on %s: expected %s = %s", src, v, src)
		}
		seenSimple = true
	}
	if !seenSimple || !seenDefault {
		return broken("toForStmt: switch on %s lacks the simple or the default clause", src)
	}
	return nil
}

var rlCmp = map[string]string{"token.LSS": ".lt", "token.LEQ": ".le", "token.GTR": ".gt", "token.GEQ": ".ge", "token.NEQ": ".ne"}
var rlInc = map[string]string{"token.ADD_ASSIGN": ".add", "token.SUB_ASSIGN": ".sub"}

// `if <x> == nil { A } [else { B }]`
func rlIfNil(s ast.Stmt, x string) (*ast.IfStmt, bool) {
	is, ok := s.(*ast.IfStmt)
	if !ok || is.Init != nil {
		return nil, false
	}
	be, ok := is.Cond.(*ast.BinaryExpr)
	if !ok || be.Op != token.EQL || rlSel(be.X) != x || rlSel(be.Y) != "nil" {
		return nil, false
	}
	return is, true
}

func rangeLoop(repo, out string) error {
	fd, err := rlFunc(repo, "cl/stmt.go", "toForStmt")
	if err != nil {
		return err
	}
	// parameters: (forPos, value, body, re, tok, fp)
	var params []string
	for _, f := range fd.Type.Params.List {
		for _, n := range f.Names {
			params = append(params, n.Name)
		}
	}
	if strings.Join(params, ",") != "forPos,value,body,re,tok,fp" {
		return broken("toForStmt: parameters %v changed", params)
	}
	var (
		defStart, defStep        int64
		haveStart, haveStep      bool
		endTemp, stepTemp        bool
		cmp, inc                 string
		initLhsDef, initRhsDef   bool
		nCond, nPost, nFirst     int
		nInitLhs, nInitRhs, nRet int
	)
	// count every assignment to the variables the loop is built from (anywhere in the body)
	ast.Inspect(fd.Body, func(n ast.Node) bool {
		if as, ok := n.(*ast.AssignStmt); ok {
			for _, l := range as.Lhs {
				switch rlSel(l) {
				case "cond":
					nCond++
				case "post":
					nPost++
				case "first":
					nFirst++
				case "initLhs":
					nInitLhs++
				case "initRhs":
					nInitRhs++
				}
			}
		}
		if _, ok := n.(*ast.ReturnStmt); ok {
			nRet++
		}
		return true
	})
	if nCond != 2 || nPost != 3 || nFirst != 2 || nInitLhs != 3 || nInitRhs != 3 || nRet != 1 {
		return broken("toForStmt: assignments to cond/post/first/initLhs/initRhs or returns changed (%d %d %d %d %d; %d returns)",
			nCond, nPost, nFirst, nInitLhs, nInitRhs, nRet)
	}
	for _, s := range fd.Body.List {
		if l, r, ok := rlAssign(s); ok {
			switch l {
			case "first":
				if rlSel(r) != "re.First" {
					return broken("toForStmt: first is not initialised from re.First")
				}
			case "initLhs":
				if rlSingleton(r) != "value" {
					return broken("toForStmt: initLhs is not []ast.Expr{value}")
				}
				initLhsDef = true
			case "initRhs":
				if rlSingleton(r) != "first" {
					return broken("toForStmt: initRhs is not []ast.Expr{first}")
				}
				initRhsDef = true
			}
			continue
		}
		if is, ok := rlIfNil(s, "first"); ok {
			if len(is.Body.List) != 1 || is.Else != nil {
				return broken("toForStmt: unexpected `if first == nil` form")
			}
			l, r, ok := rlAssign(is.Body.List[0])
			n, ok2 := rlIntLit(r)
			if !ok || !ok2 || l != "first" {
				return broken("toForStmt: `if first == nil` does not assign an INT literal to first")
			}
			defStart, haveStart = n, true
			continue
		}
		if ts, ok := s.(*ast.TypeSwitchStmt); ok {
			if err := rlTempSwitch(ts, "re.Last", "cond", "_gop_end"); err != nil {
				return err
			}
			endTemp = true
			continue
		}
		if is, ok := rlIfNil(s, "re.Expr3"); ok {
			if len(is.Body.List) != 1 {
				return broken("toForStmt: unexpected `if re.Expr3 == nil` body")
			}
			l, r, ok := rlAssign(is.Body.List[0])
			n, ok2 := rlIntLit(r)
			if !ok || !ok2 || l != "post" {
				return broken("toForStmt: `if re.Expr3 == nil` does not assign an INT literal to post")
			}
			defStep, haveStep = n, true
			eb, ok := is.Else.(*ast.BlockStmt)
			if !ok || len(eb.List) != 1 {
				return broken("toForStmt: else branch of `if re.Expr3 == nil` changed")
			}
			if err := rlTempSwitch(eb.List[0], "re.Expr3", "post", "_gop_step"); err != nil {
				return err
			}
			stepTemp = true
			continue
		}
		if rs, ok := s.(*ast.ReturnStmt); ok {
			if len(rs.Results) != 1 {
				return broken("toForStmt: return has %d results", len(rs.Results))
			}
			tn, m := rlLit(rs.Results[0])
			if tn != "ast.ForStmt" {
				return broken("toForStmt: does not return &ast.ForStmt{...}")
			}
			for k := range m {
				switch k {
				case "For", "Init", "Cond", "Post", "Body":
				default:
					return broken("toForStmt: unexpected ForStmt field %s", k)
				}
			}
			tn, im := rlLit(m["Init"])
			if tn != "ast.AssignStmt" || rlSel(im["Lhs"]) != "initLhs" || rlSel(im["Rhs"]) != "initRhs" || rlSel(im["Tok"]) != "tok" {
				return broken("toForStmt: Init is not AssignStmt{Lhs: initLhs, Tok: tok, Rhs: initRhs}")
			}
			tn, cm := rlLit(m["Cond"])
			if tn != "ast.BinaryExpr" || rlSel(cm["X"]) != "value" || rlSel(cm["Y"]) != "cond" {
				return broken("toForStmt: Cond is not BinaryExpr{X: value, Y: cond}")
			}
			cmp = rlCmp[rlSel(cm["Op"])]
			if cmp == "" {
				return broken("toForStmt: Cond.Op %s is not a comparison the model knows", rlSel(cm["Op"]))
			}
			tn, pm := rlLit(m["Post"])
			if tn != "ast.AssignStmt" || rlSingleton(pm["Lhs"]) != "value" || rlSingleton(pm["Rhs"]) != "post" {
				return broken("toForStmt: Post is not AssignStmt{Lhs: {value}, Rhs: {post}}")
			}
			inc = rlInc[rlSel(pm["Tok"])]
			if inc == "" {
				return broken("toForStmt: Post.Tok %s is not += or -=", rlSel(pm["Tok"]))
			}
			if rlSel(m["Body"]) != "body" {
				return broken("toForStmt: Body is not body")
			}
		}
	}
	if !haveStart || !haveStep || !initLhsDef || !initRhsDef || cmp == "" || inc == "" {
		return broken("toForStmt: could not find all parts (start default %v, step default %v, init %v/%v, cond %q, post %q)",
			haveStart, haveStep, initLhsDef, initRhsDef, cmp, inc)
	}

	// compileRangeExpr: newRange(first | 0, last, step | 1)
	ce, err := rlFunc(repo, "cl/expr.go", "compileRangeExpr")
	if err != nil {
		return err
	}
	var seq []string
	var d0, d1 int64
	valLit := func(s ast.Stmt) (int64, bool) { // ctx.cb.Val(<int>, v)
		es, ok := s.(*ast.ExprStmt)
		if !ok {
			return 0, false
		}
		c, ok := es.X.(*ast.CallExpr)
		if !ok || len(c.Args) < 1 {
			return 0, false
		}
		se, ok := c.Fun.(*ast.SelectorExpr)
		if !ok || se.Sel.Name != "Val" {
			return 0, false
		}
		bl, ok := c.Args[0].(*ast.BasicLit)
		if !ok || bl.Kind != token.INT {
			return 0, false
		}
		n, err := strconv.ParseInt(bl.Value, 0, 64)
		return n, err == nil
	}
	compileOf := func(s ast.Stmt) string { // compileExpr(ctx, v.X) → "v.X"
		es, ok := s.(*ast.ExprStmt)
		if !ok {
			return ""
		}
		c, ok := es.X.(*ast.CallExpr)
		if !ok || rlSel(c.Fun) != "compileExpr" || len(c.Args) != 2 {
			return ""
		}
		return rlSel(c.Args[1])
	}
	for _, s := range ce.Body.List {
		if is, ok := rlIfNil(s, "v.First"); ok {
			eb, _ := is.Else.(*ast.BlockStmt)
			n, ok := valLit(is.Body.List[0])
			if !ok || len(is.Body.List) != 1 || eb == nil || len(eb.List) != 1 || compileOf(eb.List[0]) != "v.First" {
				return broken("compileRangeExpr: unexpected `if v.First == nil` form")
			}
			d0 = n
			seq = append(seq, "first")
			continue
		}
		if is, ok := rlIfNil(s, "v.Expr3"); ok {
			eb, _ := is.Else.(*ast.BlockStmt)
			n, ok := valLit(is.Body.List[0])
			if !ok || len(is.Body.List) != 1 || eb == nil || len(eb.List) != 1 || compileOf(eb.List[0]) != "v.Expr3" {
				return broken("compileRangeExpr: unexpected `if v.Expr3 == nil` form")
			}
			d1 = n
			seq = append(seq, "step")
			continue
		}
		if compileOf(s) == "v.Last" {
			seq = append(seq, "last")
			continue
		}
		if es, ok := s.(*ast.ExprStmt); ok {
			if c, ok := es.X.(*ast.CallExpr); ok {
				if se, ok := c.Fun.(*ast.SelectorExpr); ok {
					switch se.Sel.Name {
					case "Val": // cb.Val(pkg.Builtin().Ref("newRange"))
						ok := false
						if len(c.Args) == 1 {
							if rc, isCall := c.Args[0].(*ast.CallExpr); isCall && len(rc.Args) == 1 {
								if bl, isLit := rc.Args[0].(*ast.BasicLit); isLit && bl.Value == `"newRange"` {
									ok = true
								}
							}
						}
						if !ok {
							return broken("compileRangeExpr: unexpected Val(...) statement")
						}
						seq = append(seq, "fn")
						continue
					case "Call":
						if len(c.Args) != 1 {
							return broken("compileRangeExpr: unexpected Call(...)")
						}
						if bl, ok := c.Args[0].(*ast.BasicLit); !ok || bl.Value != "3" {
							return broken("compileRangeExpr: Call does not take 3 arguments")
						}
						seq = append(seq, "call3")
						continue
					}
				}
			}
		}
		if as, ok := s.(*ast.AssignStmt); ok && as.Tok == token.DEFINE {
			continue // pkg, cb := ctx.pkg, ctx.cb
		}
		return broken("compileRangeExpr: unexpected statement")
	}
	if strings.Join(seq, " ") != "fn first last step call3" {
		return broken("compileRangeExpr: statement order %v, want fn first last step call3", seq)
	}

	b := func(v bool) string {
		if v {
			return "true"
		}
		return "false"
	}
	var sb strings.Builder
	sb.WriteString("/- GENERATED by extract/rangeloop.go from cl/stmt.go (toForStmt) and cl/expr.go (compileRangeExpr). Do not edit. -/\n")
	sb.WriteString("import GopModel.Model.Range\n")
	sb.WriteString("namespace GopModel.Generated.RangeLoop\nopen GopModel.Range\n\n")
	sb.WriteString("/-- the `for` statement toForStmt returns: Cond.Op, Post.Tok, literals for omitted parts, temporaries -/\n")
	fmt.Fprintf(&sb, "def shape : LoopShape :=\n  { cond := %s, inc := %s, defStart := %d, defStep := %d, endTemp := %s, stepTemp := %s }\n\n",
		cmp, inc, defStart, defStep, b(endTemp), b(stepTemp))
	sb.WriteString("/-- compileRangeExpr: newRange(first | enumDefStart, last, step | enumDefStep) -/\n")
	fmt.Fprintf(&sb, "def enumDefStart : Int := %d\ndef enumDefStep : Int := %d\n\n", d0, d1)
	sb.WriteString("end GopModel.Generated.RangeLoop\n")
	return writeIfChanged(filepath.Join(out, "RangeLoop.lean"), []byte(sb.String()))
}
