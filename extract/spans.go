// Translator target "spans" (property C17).
//
// Reads   <repo>/ast/*.go : the bodies of the Pos() and End() methods of every node kind
//                           (and of go/ast.Comment / CommentGroup from GOROOT for the aliases);
//         c17_layout.txt  : the hand-written layout specification (embedded; not from /repo).
// Writes  Generated/Spans.lean       : posBody, endBody (terms of SpanModel.Body), layout
//         Generated/spans_layout.txt : normalised copy of the layout for the harness
//
// Restricted Go understood in method bodies: `return E`, `if C { return E }` chains (with an
// `n := len(x.F)` init), `v := x.F` aliases; E over field refs, child Pos()/End(), first/last
// element Pos()/End(), `+ const`, `+ len(x.F)`, token.Pos(int(..)+len(..)) conversions;
// C over nil tests, NoPos/IsValid tests, len tests, bool fields, x.Implicit(), ! || &&.
// Anything else is refused (tie broken), except bodies listed in spansOpaque, which are tied by
// fingerprint to a hand-written Lean semantics.
package main

import (
	"bytes"
	_ "embed"
	"fmt"
	"go/ast"
	"go/token"
	"path/filepath"
	"strconv"
	"strings"
)

//go:embed c17_layout.txt
var c17Layout string

//go:embed c17_posfields.txt
var c17PosFields string

func init() { register("spans", genSpans) }

// Bodies outside the fragment: canonical text (whitespace-normalised) paired with the name of
// the hand-written semantics in lean/GopModel/Props/C17.lean (`opaqueSem`).
var spansOpaque = map[string]string{
	"File.End": "{ if f.ShadowEntry != nil { return f.ShadowEntry.End() } for n := len(f.Decls) - 1; n >= 0; n-- { d := f.Decls[n] if fn, ok := d.(*FuncDecl); ok && fn.Shadow { continue } return d.End() } if f.Package != token.NoPos { return f.Name.End() } return f.Name.Pos() }",
}

// helper methods a condition may call on the receiver: fingerprint -> flag pseudo-field
var spansHelpers = map[string][2]string{
	"Ident.Implicit": {"{ o := x.Obj return o != nil && o.Kind >= implicitBase }", "Implicit"},
}

// package-level helpers whose result length may be added: len(helper(x.G)) -> addLen G.
// The value of a token.Token field G is, for the model, the length of the text the token
// contributes in front of the node's literal text: its spelling for operators and keywords,
// the prefix for c"..." / py"..." literal kinds, nothing for the other literal classes.
var spansLenHelpers = map[string]string{
	"litPrefix": "{ switch kind { case token.CSTRING: return \"c\" case token.PYSTRING: return \"py\" } return \"\" }",
}

type spanTr struct {
	p      *astPkg
	kind   string
	recv   string
	fields map[string]wField // own fields by name
	embed  []string          // names of embedded pointer fields (promoted field lookup)
	env    map[string]string // local variable -> "len:F" | "alias:F"
	fset   *token.FileSet
}

func (t *spanTr) fieldKind(name string) (string, bool) {
	f, ok := t.fields[name]
	return f.kind, ok
}

// selector on the receiver: x.F
func (t *spanTr) recvField(e ast.Expr) (string, bool) {
	sel, ok := e.(*ast.SelectorExpr)
	if !ok {
		return "", false
	}
	if id, ok := sel.X.(*ast.Ident); ok && id.Name == t.recv {
		return sel.Sel.Name, true
	}
	return "", false
}

// list-valued field reference: x.F or an alias variable
func (t *spanTr) listRef(e ast.Expr) (string, bool) {
	if f, ok := t.recvField(e); ok {
		if k, _ := t.fieldKind(f); k == "list" || k == "lists" {
			return f, true
		}
		return "", false
	}
	if id, ok := e.(*ast.Ident); ok {
		if v, ok := t.env[id.Name]; ok && strings.HasPrefix(v, "alias:") {
			return v[6:], true
		}
	}
	return "", false
}

func (t *spanTr) lenOf(e ast.Expr) (string, bool) { // len(x.F) or n (env)
	if id, ok := e.(*ast.Ident); ok {
		if v, ok := t.env[id.Name]; ok && strings.HasPrefix(v, "len:") {
			return v[4:], true
		}
		return "", false
	}
	c, ok := e.(*ast.CallExpr)
	if !ok || !wIsIdent(c.Fun, "len") || len(c.Args) != 1 {
		return "", false
	}
	return t.listRef(c.Args[0])
}

// simple Pos body of another kind: `return recv.G` -> G
func (t *spanTr) simplePosField(kind string) (string, bool) {
	s := t.p.structs[kind]
	if s == nil || s.methods["Pos"] == nil {
		return "", false
	}
	fd := s.methods["Pos"]
	if len(fd.Body.List) != 1 || len(fd.Recv.List[0].Names) != 1 {
		return "", false
	}
	rs, ok := fd.Body.List[0].(*ast.ReturnStmt)
	if !ok || len(rs.Results) != 1 {
		return "", false
	}
	sel, ok := rs.Results[0].(*ast.SelectorExpr)
	if !ok || !wIsIdent(sel.X, fd.Recv.List[0].Names[0].Name) {
		return "", false
	}
	return sel.Sel.Name, true
}

// static kind of a pointer-typed single-node field
func (t *spanTr) ptrKindOf(field string) (string, bool) {
	s := t.p.structs[t.kind]
	for _, f := range s.fields {
		names := f.Names
		st, isPtr := f.Type.(*ast.StarExpr)
		if !isPtr {
			continue
		}
		id, ok := st.X.(*ast.Ident)
		if !ok || !t.p.isKind(id.Name) {
			continue
		}
		if len(names) == 0 && id.Name == field {
			return id.Name, true
		}
		for _, n := range names {
			if n.Name == field {
				return id.Name, true
			}
		}
	}
	return "", false
}

func lf(name string) string { return "." + wLeanName(name) }

func (t *spanTr) pexpr(e ast.Expr) (string, error) {
	bad := func() (string, error) {
		return "", broken("%s: expression not understood: %s", t.kind, wExprStr(t.fset, e))
	}
	switch e := e.(type) {
	case *ast.ParenExpr:
		return t.pexpr(e.X)
	case *ast.SelectorExpr:
		// token.NoPos
		if wIsIdent(e.X, "token") && e.Sel.Name == "NoPos" {
			return ".noPos", nil
		}
		// x.F  (own position field, or promoted through an embedded pointer)
		if f, ok := t.recvField(e); ok {
			if k, ok := t.fieldKind(f); ok {
				if k == "other" {
					return "(.fld " + lf(f) + ")", nil
				}
				return bad()
			}
			for _, em := range t.embed {
				ek, _ := t.ptrKindOf(em)
				if g, ok := t.simplePosField(ek); ok && g == f {
					return "(.childPos " + lf(em) + ")", nil // x.G promoted from *E whose Pos() is `return x.G`
				}
			}
			return bad()
		}
		// x.F.G where F is a pointer to a kind whose Pos() is `return x.G`
		if f, ok := t.recvField(e.X); ok {
			if fk, ok := t.ptrKindOf(f); ok {
				if g, ok := t.simplePosField(fk); ok && g == e.Sel.Name {
					return "(.childPos " + lf(f) + ")", nil
				}
			}
		}
		return bad()
	case *ast.CallExpr:
		// token.Pos(E): conversion
		if sel, ok := e.Fun.(*ast.SelectorExpr); ok && wIsIdent(sel.X, "token") && sel.Sel.Name == "Pos" && len(e.Args) == 1 {
			return t.pexpr(e.Args[0])
		}
		// int(E)
		if wIsIdent(e.Fun, "int") && len(e.Args) == 1 {
			return t.pexpr(e.Args[0])
		}
		// <recv>.Pos() / .End()
		sel, ok := e.Fun.(*ast.SelectorExpr)
		if !ok || len(e.Args) != 0 || (sel.Sel.Name != "Pos" && sel.Sel.Name != "End") {
			return bad()
		}
		m := sel.Sel.Name
		// x.F.M()
		if f, ok := t.recvField(sel.X); ok {
			if k, _ := t.fieldKind(f); k == "one" {
				return "(.child" + m + " " + lf(f) + ")", nil
			}
			return bad()
		}
		// x.F[i].M()
		if ix, ok := sel.X.(*ast.IndexExpr); ok {
			f, ok := t.listRef(ix.X)
			if !ok {
				return bad()
			}
			if k, _ := t.fieldKind(f); k != "list" {
				return bad()
			}
			if lit, ok := ix.Index.(*ast.BasicLit); ok && lit.Value == "0" {
				return "(.first" + m + " " + lf(f) + ")", nil
			}
			if be, ok := ix.Index.(*ast.BinaryExpr); ok && be.Op == token.SUB {
				if lit, ok := be.Y.(*ast.BasicLit); ok && lit.Value == "1" {
					if f2, ok := t.lenOf(be.X); ok && f2 == f && m == "End" {
						return "(.lastEnd " + lf(f) + ")", nil
					}
				}
			}
		}
		return bad()
	case *ast.BinaryExpr:
		if e.Op != token.ADD {
			return bad()
		}
		l, err := t.pexpr(e.X)
		if err != nil {
			return "", err
		}
		// + const
		if lit, ok := e.Y.(*ast.BasicLit); ok && lit.Kind == token.INT {
			if _, err := strconv.Atoi(lit.Value); err == nil {
				return "(.add " + l + " " + lit.Value + ")", nil
			}
		}
		// + len(x.G) | + token.Pos(len(x.G)) | + len(x.G.String())
		y := e.Y
		if c, ok := y.(*ast.CallExpr); ok {
			if sel, ok := c.Fun.(*ast.SelectorExpr); ok && wIsIdent(sel.X, "token") && sel.Sel.Name == "Pos" && len(c.Args) == 1 {
				y = c.Args[0]
			}
		}
		if c, ok := y.(*ast.CallExpr); ok && wIsIdent(c.Fun, "len") && len(c.Args) == 1 {
			arg := c.Args[0]
			if sc, ok := arg.(*ast.CallExpr); ok { // x.G.String()  |  helper(x.G)
				if ss, ok := sc.Fun.(*ast.SelectorExpr); ok && ss.Sel.Name == "String" && len(sc.Args) == 0 {
					arg = ss.X
				} else if id, ok := sc.Fun.(*ast.Ident); ok && len(sc.Args) == 1 {
					want, known := spansLenHelpers[id.Name]
					fd := t.p.funcs[id.Name]
					if !known || fd == nil || wExprStr(t.fset, fd.Body) != want {
						return "", broken("%s: helper %s unknown or changed", t.kind, id.Name)
					}
					arg = sc.Args[0]
				}
			}
			if g, ok := t.recvField(arg); ok {
				if k, _ := t.fieldKind(g); k == "other" {
					return "(.addLen " + l + " " + lf(g) + ")", nil
				}
			}
		}
		return bad()
	}
	return bad()
}

func (t *spanTr) cond(e ast.Expr) (string, error) {
	bad := func() (string, error) {
		return "", broken("%s: condition not understood: %s", t.kind, wExprStr(t.fset, e))
	}
	switch e := e.(type) {
	case *ast.ParenExpr:
		return t.cond(e.X)
	case *ast.UnaryExpr:
		if e.Op == token.NOT {
			c, err := t.cond(e.X)
			if err != nil {
				return "", err
			}
			return "(.not " + c + ")", nil
		}
	case *ast.BinaryExpr:
		switch e.Op {
		case token.LOR, token.LAND:
			a, err := t.cond(e.X)
			if err != nil {
				return "", err
			}
			b, err := t.cond(e.Y)
			if err != nil {
				return "", err
			}
			if e.Op == token.LOR {
				return "(.or " + a + " " + b + ")", nil
			}
			return "(.and " + a + " " + b + ")", nil
		case token.NEQ, token.EQL:
			wrap := func(s string) string {
				if e.Op == token.EQL {
					return "(.not " + s + ")"
				}
				return s
			}
			if f, ok := t.recvField(e.X); ok {
				k, _ := t.fieldKind(f)
				if wIsIdent(e.Y, "nil") && k == "one" {
					return wrap("(.notNil " + lf(f) + ")"), nil
				}
				isNoPos := false
				if sel, ok := e.Y.(*ast.SelectorExpr); ok && wIsIdent(sel.X, "token") && sel.Sel.Name == "NoPos" {
					isNoPos = true
				}
				if lit, ok := e.Y.(*ast.BasicLit); ok && lit.Value == "0" {
					isNoPos = true
				}
				if isNoPos && k == "other" {
					return wrap("(.posSet " + lf(f) + ")"), nil
				}
			}
			// len(x.F) == 0
			if f, ok := t.lenOf(e.X); ok {
				if lit, ok := e.Y.(*ast.BasicLit); ok && lit.Value == "0" {
					if e.Op == token.EQL {
						return "(.not (.nonEmpty " + lf(f) + "))", nil
					}
					return "(.nonEmpty " + lf(f) + ")", nil
				}
			}
		case token.GTR:
			if f, ok := t.lenOf(e.X); ok {
				if lit, ok := e.Y.(*ast.BasicLit); ok && lit.Value == "0" {
					return "(.nonEmpty " + lf(f) + ")", nil
				}
			}
		}
	case *ast.SelectorExpr:
		if f, ok := t.recvField(e); ok {
			if k, _ := t.fieldKind(f); k == "flag" {
				return "(.flag " + lf(f) + ")", nil
			}
		}
	case *ast.CallExpr:
		if sel, ok := e.Fun.(*ast.SelectorExpr); ok && len(e.Args) == 0 {
			// x.F.IsValid()
			if sel.Sel.Name == "IsValid" {
				if f, ok := t.recvField(sel.X); ok {
					if k, _ := t.fieldKind(f); k == "other" {
						return "(.posSet " + lf(f) + ")", nil
					}
				}
			}
			// x.Helper()
			if wIsIdent(sel.X, t.recv) {
				if h, ok := spansHelpers[t.kind+"."+sel.Sel.Name]; ok {
					s := t.p.structs[t.kind]
					fd := s.methods[sel.Sel.Name]
					if fd == nil || wExprStr(t.fset, fd.Body) != h[0] {
						return "", broken("%s.%s: helper body changed", t.kind, sel.Sel.Name)
					}
					return "(.flag " + lf(h[1]) + ")", nil
				}
			}
		}
	}
	return bad()
}

func (t *spanTr) body(stmts []ast.Stmt) (string, error) {
	if len(stmts) == 0 {
		return "", broken("%s: method falls off its end", t.kind)
	}
	switch s := stmts[0].(type) {
	case *ast.ReturnStmt:
		if len(s.Results) != 1 {
			break
		}
		e, err := t.pexpr(s.Results[0])
		if err != nil {
			return "", err
		}
		return "(.ret " + e + ")", nil
	case *ast.AssignStmt:
		// v := x.F   (alias of a list field)
		if s.Tok == token.DEFINE && len(s.Lhs) == 1 && len(s.Rhs) == 1 {
			if v, ok := s.Lhs[0].(*ast.Ident); ok {
				if f, ok := t.recvField(s.Rhs[0]); ok {
					if k, _ := t.fieldKind(f); k == "list" {
						t.env[v.Name] = "alias:" + f
						return t.body(stmts[1:])
					}
				}
			}
		}
	case *ast.IfStmt:
		if s.Init != nil {
			as, ok := s.Init.(*ast.AssignStmt)
			if !ok || as.Tok != token.DEFINE || len(as.Lhs) != 1 || len(as.Rhs) != 1 {
				break
			}
			v, ok := as.Lhs[0].(*ast.Ident)
			if !ok {
				break
			}
			f, ok := t.lenOf(as.Rhs[0])
			if !ok {
				break
			}
			t.env[v.Name] = "len:" + f
		}
		c, err := t.cond(s.Cond)
		if err != nil {
			return "", err
		}
		th, err := t.body(s.Body.List)
		if err != nil {
			return "", err
		}
		var el string
		if s.Else != nil {
			eb, ok := s.Else.(*ast.BlockStmt)
			if !ok {
				break
			}
			el, err = t.body(eb.List)
		} else {
			el, err = t.body(stmts[1:])
		}
		if err != nil {
			return "", err
		}
		// normal form: no negated test at the top of an if
		if strings.HasPrefix(c, "(.not ") {
			return "(.ite " + c[6:len(c)-1] + " " + el + " " + th + ")", nil
		}
		return "(.ite " + c + " " + th + " " + el + ")", nil
	}
	return "", broken("%s: statement not understood: %s", t.kind, wExprStr(t.fset, stmts[0]))
}

func (p *astPkg) spanBody(kind, method string) (string, error) {
	s := p.structs[kind]
	fd := s.methods[method]
	if fd == nil || fd.Body == nil {
		return "", broken("%s.%s: method not found", kind, method)
	}
	if want, ok := spansOpaque[kind+"."+method]; ok {
		if got := wExprStr(p.fset, fd.Body); got != want {
			return "", broken("%s.%s: fingerprinted body changed: %s", kind, method, got)
		}
		return fmt.Sprintf("(.opaque %q)", kind+"."+method), nil
	}
	t := &spanTr{p: p, kind: kind, fields: map[string]wField{}, env: map[string]string{}, fset: p.fset}
	if len(fd.Recv.List[0].Names) == 1 {
		t.recv = fd.Recv.List[0].Names[0].Name
	}
	fs, err := p.nodeFields(kind)
	if err != nil {
		return "", err
	}
	for _, f := range fs {
		t.fields[f.name] = f
	}
	for _, f := range s.fields {
		if len(f.Names) == 0 {
			if st, ok := f.Type.(*ast.StarExpr); ok {
				if id, ok := st.X.(*ast.Ident); ok {
					t.embed = append(t.embed, id.Name)
				}
			}
		}
	}
	return t.body(fd.Body.List)
}

// ---- layout spec -----------------------------------------------------------------------------

type layoutItem struct {
	op   string
	args []string
}

func parseLayout(kinds map[string]bool, fieldOK func(kind, f string) bool) (map[string][]layoutItem, []string, error) {
	res := map[string][]layoutItem{}
	var order []string
	arity := map[string][2]int{ // op -> (#fields, #numbers) ; tokStr: 2 or 3 fields
		"tok": {1, 1}, "tokOpt": {1, 1}, "tokStr": {2, 0}, "tokUnless": {2, 1}, "tokIfUnset": {2, 1}, "tokStrUnless": {3, 0},
		"start": {1, 0}, "stop": {1, 0}, "stopOpt": {1, 0}, "child": {1, 0}, "childOpt": {1, 0}, "list": {1, 0}, "list1": {1, 0},
	}
	for ln, line := range strings.Split(c17Layout, "\n") {
		if i := strings.Index(line, "#"); i >= 0 {
			line = line[:i]
		}
		line = strings.TrimSpace(line)
		if line == "" {
			continue
		}
		i := strings.Index(line, ":")
		if i < 0 {
			return nil, nil, fmt.Errorf("c17_layout.txt:%d: missing ':'", ln+1)
		}
		kind := strings.TrimSpace(line[:i])
		if !kinds[kind] {
			return nil, nil, broken("c17_layout.txt:%d: %s is not a node kind of the tree under test", ln+1, kind)
		}
		if _, dup := res[kind]; dup {
			return nil, nil, fmt.Errorf("c17_layout.txt:%d: duplicate kind %s", ln+1, kind)
		}
		var items []layoutItem
		rest := strings.TrimSpace(line[i+1:])
		if rest != "" {
			for _, part := range strings.Split(rest, "|") {
				ws := strings.Fields(part)
				if len(ws) == 0 {
					return nil, nil, fmt.Errorf("c17_layout.txt:%d: empty item", ln+1)
				}
				ar, ok := arity[ws[0]]
				if !ok {
					return nil, nil, fmt.Errorf("c17_layout.txt:%d: unknown item %s", ln+1, ws[0])
				}
				n := len(ws) - 1
				okN := n == ar[0]+ar[1] || (ws[0] == "tokStr" && n == 3)
				if !okN {
					return nil, nil, fmt.Errorf("c17_layout.txt:%d: %s takes %d arguments", ln+1, ws[0], ar[0]+ar[1])
				}
				for j, a := range ws[1:] {
					isNum := ws[0] != "tokStr" && j >= ar[0]
					if ws[0] == "tokUnless" || ws[0] == "tokIfUnset" { // tokUnless F n B
						isNum = j == 1
					}
					if isNum {
						if _, err := strconv.Atoi(a); err != nil {
							return nil, nil, fmt.Errorf("c17_layout.txt:%d: %s: number expected, got %s", ln+1, ws[0], a)
						}
					} else if !fieldOK(kind, a) {
						return nil, nil, broken("c17_layout.txt:%d: %s has no field %s in the tree under test", ln+1, kind, a)
					}
				}
				// tokUnless F n B : argument order is field, number, field
				items = append(items, layoutItem{ws[0], ws[1:]})
			}
		}
		res[kind] = items
		order = append(order, kind)
	}
	return res, order, nil
}

func leanItem(it layoutItem) string {
	a := it.args
	switch it.op {
	case "tok", "tokOpt":
		return fmt.Sprintf(".%s %s %s", it.op, lf(a[0]), a[1])
	case "tokStr":
		gs := make([]string, len(a)-1)
		for i, g := range a[1:] {
			gs[i] = lf(g)
		}
		return fmt.Sprintf(".tokStr %s [%s]", lf(a[0]), strings.Join(gs, ", "))
	case "tokUnless", "tokIfUnset":
		return fmt.Sprintf(".%s %s %s %s", it.op, lf(a[0]), a[1], lf(a[2]))
	case "tokStrUnless":
		return fmt.Sprintf(".tokStrUnless %s %s %s", lf(a[0]), lf(a[1]), lf(a[2]))
	}
	return fmt.Sprintf(".%s %s", it.op, lf(a[0]))
}

// posFieldsOf lists the token.Pos-typed fields of a kind in declaration order.
func (p *astPkg) posFieldsOf(kind string) []string {
	var res []string
	for _, f := range p.structs[kind].fields {
		sel, ok := f.Type.(*ast.SelectorExpr)
		if !ok || !wIsIdent(sel.X, "token") || sel.Sel.Name != "Pos" {
			continue
		}
		for _, n := range f.Names {
			res = append(res, n.Name)
		}
	}
	return res
}

// resolvePosFields: every token.Pos field of every kind -> its reviewed spec.
func resolvePosFields(p *astPkg, kinds []string) ([]string, error) {
	spec := map[string]string{}
	for ln, line := range strings.Split(c17PosFields, "\n") {
		if strings.HasPrefix(strings.TrimSpace(line), "#") || strings.TrimSpace(line) == "" {
			continue
		}
		i := strings.Index(line, ":")
		if i < 0 {
			return nil, fmt.Errorf("c17_posfields.txt:%d: missing ':'", ln+1)
		}
		key, val := strings.TrimSpace(line[:i]), strings.TrimSpace(line[i+1:])
		if _, dup := spec[key]; dup || val == "" {
			return nil, fmt.Errorf("c17_posfields.txt:%d: duplicate or empty entry %s", ln+1, key)
		}
		spec[key] = val
	}
	var res []string
	used := map[string]bool{}
	for _, k := range kinds {
		for _, f := range p.posFieldsOf(k) {
			v, ok := spec[k+"."+f]
			if ok {
				used[k+"."+f] = true
			} else if v, ok = spec["*."+f]; ok {
				used["*."+f] = true
			} else {
				return nil, broken("position field %s.%s is not covered by c17_posfields.txt", k, f)
			}
			res = append(res, k+"."+f+"\t"+v)
		}
	}
	for key := range spec {
		if !used[key] {
			return nil, broken("c17_posfields.txt: entry %s matches no token.Pos field of the tree under test", key)
		}
	}
	return res, nil
}

func genSpans(repo, out string) error {
	p, err := loadAstPkg(repo)
	if err != nil {
		return err
	}
	kinds := p.kinds()
	kindSet := map[string]bool{}
	fieldsOf := map[string]map[string]bool{}
	for _, k := range kinds {
		kindSet[k] = true
		fs, err := p.nodeFields(k)
		if err != nil {
			return err
		}
		fieldsOf[k] = map[string]bool{}
		for _, f := range fs {
			fieldsOf[k][f.name] = true
		}
	}
	fieldsOf["Ident"]["Implicit"] = true // pseudo-flag: result of x.Implicit(), supplied by the dumper
	layout, order, err := parseLayout(kindSet, func(kind, f string) bool { return fieldsOf[kind][f] })
	if err != nil {
		return err
	}
	var b bytes.Buffer
	w := func(format string, a ...interface{}) { fmt.Fprintf(&b, format, a...) }
	w("/- GENERATED by /verif/extract (target spans) from the Pos()/End() methods in ast/ast.go, ast/ast_gop.go\n   (posBody, endBody) and from the hand-written extract/c17_layout.txt (layout) — do not edit. -/\n")
	w("import GopModel.Model.SpanModel\nimport GopModel.Generated.Walk\nnamespace GopModel.Generated.Spans\nopen GopModel.SpanModel GopModel.Generated.Walk\n\n")
	for _, m := range []string{"Pos", "End"} {
		name := "posBody"
		if m == "End" {
			name = "endBody"
		}
		w("/-- Body of `%s()` of every node kind. -/\ndef %s : Kind → Body Fld\n", m, name)
		for _, k := range kinds {
			body, err := p.spanBody(k, m)
			if err != nil {
				return err
			}
			w("  | .%s => %s\n", wLeanName(k), strings.TrimSuffix(strings.TrimPrefix(body, "("), ")"))
		}
		w("\n")
	}
	w("/-- Layout specification per kind (`none`: not specified). -/\ndef layout : Kind → Option (List (Item Fld))\n")
	for _, k := range kinds {
		items, ok := layout[k]
		if !ok {
			w("  | .%s => none\n", wLeanName(k))
			continue
		}
		parts := make([]string, len(items))
		for i, it := range items {
			parts[i] = leanItem(it)
		}
		w("  | .%s => some [%s]\n", wLeanName(k), strings.Join(parts, ", "))
	}
	w("\n/-- Kinds with a layout specification. -/\ndef specified : List Kind := [")
	for i, k := range order {
		if i > 0 {
			w(", ")
		}
		w(".%s", wLeanName(k))
	}
	w("]\n\nend GopModel.Generated.Spans\n")
	if err := writeIfChanged(filepath.Join(out, "Spans.lean"), b.Bytes()); err != nil {
		return err
	}
	pf, err := resolvePosFields(p, kinds)
	if err != nil {
		return err
	}
	if err := writeIfChanged(filepath.Join(out, "spans_posfields.txt"), []byte(strings.Join(pf, "\n")+"\n")); err != nil {
		return err
	}
	var lt bytes.Buffer
	for _, k := range order {
		fmt.Fprintf(&lt, "%s", k)
		for _, it := range layout[k] {
			fmt.Fprintf(&lt, "\t%s %s", it.op, strings.Join(it.args, " "))
		}
		fmt.Fprintln(&lt)
	}
	return writeIfChanged(filepath.Join(out, "spans_layout.txt"), lt.Bytes())
}
