// Translator target "prec" (properties C22, C19, C20; model M3 Model/ExprSyntax.lean).
//
// Regenerates lean/GopModel/Generated/Prec.lean from
//
//   - /repo/token/token.go: the constants LowestPrec / UnaryPrec / HighestPrec and the body of
//     `func (op Token) Precedence() int` (a `switch op` whose cases `return <int literal>`,
//     followed by `return LowestPrec`), emitted as `def precedence : Op → Nat`;
//   - /repo/printer/printer.go: `func mayCombine(prev token.Token, next byte) (b bool)` (a
//     `switch prev` whose cases are `b = next == 'c' [|| next == 'd']`), emitted as
//     `mayCombineOp : Op → Char → Bool`, `mayCombineLit : LitKind → Char → Bool`, `mayCombineIdent`.
//
// Both the printer and the parser of /repo call Token.Precedence, so the round-trip theorems are
// proved over the regenerated table: a changed precedence is picked up by the next run and the
// theorems are re-checked against it.  Any other statement shape is a broken tie (exit 3).
package main

import (
	"fmt"
	"go/ast"
	"go/parser"
	"go/token"
	"path/filepath"
	"strconv"
	"strings"
)

func init() { register("prec", extractPrec) }

func extractPrec(repo, out string) error {
	fset := token.NewFileSet()
	tf, err := parser.ParseFile(fset, filepath.Join(repo, "token", "token.go"), nil, 0)
	if err != nil {
		return broken("token/token.go does not parse: %v", err)
	}
	consts := map[string]int{}
	var precFn *ast.FuncDecl
	for _, d := range tf.Decls {
		switch d := d.(type) {
		case *ast.GenDecl:
			if d.Tok != token.CONST {
				continue
			}
			for _, sp := range d.Specs {
				vs := sp.(*ast.ValueSpec)
				for i, n := range vs.Names {
					if n.Name == "LowestPrec" || n.Name == "UnaryPrec" || n.Name == "HighestPrec" {
						if i >= len(vs.Values) {
							return broken("const %s has no literal value", n.Name)
						}
						lit, ok := vs.Values[i].(*ast.BasicLit)
						if !ok || lit.Kind != token.INT {
							return broken("const %s is not an int literal", n.Name)
						}
						v, _ := strconv.Atoi(lit.Value)
						consts[n.Name] = v
					}
				}
			}
		case *ast.FuncDecl:
			if d.Name.Name == "Precedence" && d.Recv != nil {
				precFn = d
			}
		}
	}
	for _, n := range []string{"LowestPrec", "UnaryPrec", "HighestPrec"} {
		if _, ok := consts[n]; !ok {
			return broken("const %s not found in token/token.go", n)
		}
	}
	if precFn == nil || len(precFn.Recv.List) != 1 || len(precFn.Recv.List[0].Names) != 1 {
		return broken("method Token.Precedence not found")
	}
	recv := precFn.Recv.List[0].Names[0].Name
	if len(precFn.Body.List) != 2 {
		return broken("Precedence: body is not `switch; return`")
	}
	sw, ok := precFn.Body.List[0].(*ast.SwitchStmt)
	if !ok || sw.Init != nil {
		return broken("Precedence: first statement is not a plain switch")
	}
	if id, ok := sw.Tag.(*ast.Ident); !ok || id.Name != recv {
		return broken("Precedence: switch tag is not the receiver")
	}
	ret, ok := precFn.Body.List[1].(*ast.ReturnStmt)
	if !ok || len(ret.Results) != 1 {
		return broken("Precedence: second statement is not a return")
	}
	if id, ok := ret.Results[0].(*ast.Ident); !ok || id.Name != "LowestPrec" {
		return broken("Precedence: default result is not LowestPrec")
	}
	type row struct {
		names []string
		val   int
	}
	var rows []row
	seen := map[string]bool{}
	for _, c := range sw.Body.List {
		cc := c.(*ast.CaseClause)
		if cc.List == nil {
			return broken("Precedence: default clause not supported")
		}
		if len(cc.Body) != 1 {
			return broken("Precedence: case body is not a single return")
		}
		r, ok := cc.Body[0].(*ast.ReturnStmt)
		if !ok || len(r.Results) != 1 {
			return broken("Precedence: case body is not `return n`")
		}
		lit, ok := r.Results[0].(*ast.BasicLit)
		if !ok || lit.Kind != token.INT {
			return broken("Precedence: case result is not an int literal")
		}
		v, _ := strconv.Atoi(lit.Value)
		var names []string
		for _, e := range cc.List {
			id, ok := e.(*ast.Ident)
			if !ok {
				return broken("Precedence: case label is not a token constant")
			}
			if seen[id.Name] {
				return broken("Precedence: duplicate case label %s", id.Name)
			}
			seen[id.Name] = true
			names = append(names, id.Name)
		}
		rows = append(rows, row{names, v})
	}

	// mayCombine
	pf, err := parser.ParseFile(fset, filepath.Join(repo, "printer", "printer.go"), nil, 0)
	if err != nil {
		return broken("printer/printer.go does not parse: %v", err)
	}
	var mc *ast.FuncDecl
	for _, d := range pf.Decls {
		if fd, ok := d.(*ast.FuncDecl); ok && fd.Recv == nil && fd.Name.Name == "mayCombine" {
			mc = fd
		}
	}
	if mc == nil {
		return broken("func mayCombine not found in printer/printer.go")
	}
	if len(mc.Type.Params.List) != 2 || len(mc.Type.Params.List[0].Names) != 1 || len(mc.Type.Params.List[1].Names) != 1 ||
		mc.Type.Results == nil || len(mc.Type.Results.List) != 1 || len(mc.Type.Results.List[0].Names) != 1 {
		return broken("mayCombine: signature is not (prev token.Token, next byte) (b bool)")
	}
	prevN, nextN, resN := mc.Type.Params.List[0].Names[0].Name, mc.Type.Params.List[1].Names[0].Name, mc.Type.Results.List[0].Names[0].Name
	if len(mc.Body.List) != 2 {
		return broken("mayCombine: body is not `switch; return`")
	}
	msw, ok := mc.Body.List[0].(*ast.SwitchStmt)
	if !ok || msw.Init != nil {
		return broken("mayCombine: first statement is not a plain switch")
	}
	if id, ok := msw.Tag.(*ast.Ident); !ok || id.Name != prevN {
		return broken("mayCombine: switch tag is not prev")
	}
	if r, ok := mc.Body.List[1].(*ast.ReturnStmt); !ok || len(r.Results) != 0 {
		return broken("mayCombine: second statement is not a bare return")
	}
	type mrow struct {
		name  string
		chars []string
	}
	var mrows []mrow
	var collect func(e ast.Expr) ([]string, error)
	collect = func(e ast.Expr) ([]string, error) {
		switch e := e.(type) {
		case *ast.BinaryExpr:
			if e.Op == token.LOR {
				a, err := collect(e.X)
				if err != nil {
					return nil, err
				}
				b, err := collect(e.Y)
				if err != nil {
					return nil, err
				}
				return append(a, b...), nil
			}
			if e.Op == token.EQL {
				id, ok := e.X.(*ast.Ident)
				lit, ok2 := e.Y.(*ast.BasicLit)
				if ok && ok2 && id.Name == nextN && lit.Kind == token.CHAR {
					c, err := strconv.Unquote(lit.Value)
					if err != nil || len(c) != 1 {
						return nil, broken("mayCombine: char literal %s", lit.Value)
					}
					return []string{c}, nil
				}
			}
		}
		return nil, broken("mayCombine: condition is not a disjunction of `next == 'c'`")
	}
	for _, c := range msw.Body.List {
		cc := c.(*ast.CaseClause)
		if cc.List == nil || len(cc.Body) != 1 {
			return broken("mayCombine: unsupported case clause")
		}
		as, ok := cc.Body[0].(*ast.AssignStmt)
		if !ok || as.Tok != token.ASSIGN || len(as.Lhs) != 1 || len(as.Rhs) != 1 {
			return broken("mayCombine: case body is not `b = …`")
		}
		if id, ok := as.Lhs[0].(*ast.Ident); !ok || id.Name != resN {
			return broken("mayCombine: case body does not assign the result")
		}
		chars, err := collect(as.Rhs[0])
		if err != nil {
			return err
		}
		for _, e := range cc.List {
			sel, ok := e.(*ast.SelectorExpr)
			if !ok {
				return broken("mayCombine: case label is not token.X")
			}
			if x, ok := sel.X.(*ast.Ident); !ok || x.Name != "token" {
				return broken("mayCombine: case label is not token.X")
			}
			mrows = append(mrows, mrow{sel.Sel.Name, chars})
		}
	}

	var b strings.Builder
	b.WriteString("/- GENERATED by extract/prec.go from /repo/token/token.go (Precedence, *Prec) and\n")
	b.WriteString("   /repo/printer/printer.go (mayCombine). Do not edit. -/\n")
	b.WriteString("import GopModel.Model.ExprTok\n")
	b.WriteString("namespace GopModel.ExprSyntax.Gen\nopen GopModel.ExprSyntax\n\n")
	fmt.Fprintf(&b, "def lowestPrec : Nat := %d\n", consts["LowestPrec"])
	fmt.Fprintf(&b, "def unaryPrec : Nat := %d\n", consts["UnaryPrec"])
	fmt.Fprintf(&b, "def highestPrec : Nat := %d\n\n", consts["HighestPrec"])
	b.WriteString("/-- `Token.Precedence`. -/\ndef precedence : Op → Nat\n")
	for _, r := range rows {
		var alts []string
		for _, n := range r.names {
			alts = append(alts, "."+n)
		}
		fmt.Fprintf(&b, "  | %s => %d\n", strings.Join(alts, " | "), r.val)
	}
	fmt.Fprintf(&b, "  | _ => %d\n\n", consts["LowestPrec"])
	litKinds := map[string]bool{"INT": true, "FLOAT": true, "IMAG": true, "CHAR": true, "STRING": true, "CSTRING": true, "PYSTRING": true, "RAT": true}
	cond := func(chars []string) string {
		var cs []string
		for _, c := range chars {
			cs = append(cs, "c == '"+c+"'")
		}
		return strings.Join(cs, " || ")
	}
	var opRows, litRows []string
	identRow := "false"
	for _, r := range mrows {
		switch {
		case litKinds[r.name]:
			litRows = append(litRows, fmt.Sprintf("  | .%s, c => %s\n", r.name, cond(r.chars)))
		case r.name == "IDENT":
			identRow = cond(r.chars)
		case r.name == "UNIT" || r.name == "ILLEGAL" || r.name == "EOF" || r.name == "COMMENT":
			return broken("mayCombine: case %s is not modelled", r.name)
		default:
			opRows = append(opRows, fmt.Sprintf("  | .%s, c => %s\n", r.name, cond(r.chars)))
		}
	}
	b.WriteString("/-- `mayCombine(prev, next)` for `prev` an operator token; `c` is the first byte of `next`. -/\n")
	b.WriteString("def mayCombineOp : Op → Char → Bool\n")
	for _, r := range opRows {
		b.WriteString(r)
	}
	b.WriteString("  | _, _ => false\n\n")
	b.WriteString("/-- `mayCombine(prev, next)` for `prev` a literal kind (`p.lastTok = x.Kind` after a BasicLit). -/\n")
	b.WriteString("def mayCombineLit : LitKind → Char → Bool\n")
	for _, r := range litRows {
		b.WriteString(r)
	}
	b.WriteString("  | _, _ => false\n\n")
	b.WriteString("/-- `mayCombine(token.IDENT, next)`. -/\n")
	if identRow == "false" {
		b.WriteString("def mayCombineIdent (_ : Char) : Bool := false\n")
	} else {
		fmt.Fprintf(&b, "def mayCombineIdent (c : Char) : Bool := %s\n", identRow)
	}
	b.WriteString("\nend GopModel.ExprSyntax.Gen\n")
	return writeIfChanged(filepath.Join(out, "Prec.lean"), []byte(b.String()))
}
