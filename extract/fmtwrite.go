// Translator target "fmtwrite" (property C26).
//
// Reads   <repo>/cmd/internal/gopfmt/fmt.go : func writeFileWithBackup(path string, target []byte) (err error)
// Writes  Generated/FmtWrite.lean           : `prog : List Stmt` in the control-flow/file-system DSL of
//                                             GopModel/Model/FS.lean (calls with their arguments, which
//                                             of them set `err`, `if err != nil {…}` / `if err == nil {…}`
//                                             blocks, returns).
//
// Understood statement forms (anything else is a broken tie, never a default):
//   x, y := filepath.Split(path)          pure binding (directory / base name of path)
//   t := f.Name()                         pure binding (name of the temp file)
//   t := path + "…"                       pure binding (a fixed temp-file name derived from path)
//   [v,] err (:=|=) <fs call>             call, sets err        (also `_, err = f.Write(target)`)
//   <fs call>                             call, result ignored
//   if err != nil { simple… }             ifErr   (no init, no else; body: calls and returns only)
//   if err == nil { simple… }             ifOk
//   return | return err | return nil | return <fs call>
// fs calls: os.Stat/os.Lstat(path), os.CreateTemp(dir(path), base(path)…), os.OpenFile, os.Create,
//   os.WriteFile(name, target, perm) (= open O_WRONLY|O_CREATE|O_TRUNC; write; close), f.Write(target),
//   f.Chmod(m), os.Chmod(name, m), f.Sync(), f.Close(), os.Remove(name), os.Rename(a, b).
// Names: the `path` parameter -> Ref.path; f.Name() of the created file / one fixed expression built
//   from path -> Ref.tmp.  Modes: integer literals, fi.Mode() / fi.Mode().Perm() of fi := os.Stat(path).
//
// The target also checks the callers: writeFileWithBackup is called exactly once, as
// `return writeFileWithBackup(path, target)` in func gopfmt, and no other file-system-mutating
// os.* call occurs in the file outside writeFileWithBackup and the `if mvgo {…}` block.
package main

import (
	"bytes"
	"fmt"
	"go/ast"
	"go/parser"
	"go/printer"
	"go/token"
	"path/filepath"
	"strconv"
	"strings"
)

func init() { register("fmtwrite", genFmtWrite) }

type fwEnv struct {
	fset    *token.FileSet
	path    string // name of the path parameter
	data    string // name of the []byte parameter
	errName string
	dirVar  string            // bound by filepath.Split(path)
	baseVar string            //
	fdVar   string            // live *os.File variable ("" = none)
	fdRef   string            // Ref the descriptor was opened on
	fdTemp  bool              // descriptor comes from os.CreateTemp
	tmpVars map[string]bool   // identifiers bound to the temp file's name
	tmpExpr string            // printed form of the fixed temp-name expression, if any
	fiVars  map[string]bool   // FileInfo of path
	haveTmp bool
}

func (e *fwEnv) src(n ast.Node) string {
	var b bytes.Buffer
	printer.Fprint(&b, e.fset, n)
	return b.String()
}

func (e *fwEnv) bad(n ast.Node, format string, a ...interface{}) error {
	return broken("writeFileWithBackup line %d: %s: `%s`", e.fset.Position(n.Pos()).Line, fmt.Sprintf(format, a...), e.src(n))
}

func fwSel(x ast.Expr) (recv, name string, ok bool) {
	s, ok := x.(*ast.SelectorExpr)
	if !ok {
		return
	}
	id, ok := s.X.(*ast.Ident)
	if !ok {
		return "", "", false
	}
	return id.Name, s.Sel.Name, true
}

func (e *fwEnv) mentionsPath(x ast.Expr) bool {
	found := false
	ast.Inspect(x, func(n ast.Node) bool {
		if id, ok := n.(*ast.Ident); ok && id.Name == e.path {
			found = true
		}
		return true
	})
	return found
}

// nameRef: which file a name expression denotes.
func (e *fwEnv) nameRef(x ast.Expr) (string, error) {
	switch v := x.(type) {
	case *ast.Ident:
		if v.Name == e.path {
			return ".path", nil
		}
		if e.tmpVars[v.Name] {
			return ".tmp", nil
		}
	case *ast.CallExpr:
		if r, n, ok := fwSel(v.Fun); ok && n == "Name" && len(v.Args) == 0 && r == e.fdVar && e.fdRef == ".tmp" {
			return ".tmp", nil
		}
	case *ast.BinaryExpr:
		// a fixed name derived from path, e.g. path + ".tmp"
		if v.Op == token.ADD && e.mentionsPath(v) {
			s := e.src(v)
			if e.tmpExpr == "" || e.tmpExpr == s {
				e.tmpExpr = s
				return ".tmp", nil
			}
		}
	}
	return "", e.bad(x, "file name that is neither the path parameter nor the temp file")
}

func (e *fwEnv) intLit(x ast.Expr) (int64, bool) {
	switch v := x.(type) {
	case *ast.BasicLit:
		if v.Kind == token.INT {
			n, err := strconv.ParseInt(v.Value, 0, 64)
			return n, err == nil
		}
	case *ast.ParenExpr:
		return e.intLit(v.X)
	case *ast.CallExpr: // os.FileMode(0644), fs.FileMode(0644)
		if _, n, ok := fwSel(v.Fun); ok && n == "FileMode" && len(v.Args) == 1 {
			return e.intLit(v.Args[0])
		}
	}
	return 0, false
}

// modeE: a mode argument as a Lean ModeE term.
func (e *fwEnv) modeE(x ast.Expr) (string, error) {
	if n, ok := e.intLit(x); ok {
		return fmt.Sprintf("(.const %d)", n), nil
	}
	// fi.Mode() or fi.Mode().Perm()
	if c, ok := x.(*ast.CallExpr); ok && len(c.Args) == 0 {
		if s, ok := c.Fun.(*ast.SelectorExpr); ok {
			if s.Sel.Name == "Perm" {
				if c2, ok := s.X.(*ast.CallExpr); ok && len(c2.Args) == 0 {
					if r, n, ok := fwSel(c2.Fun); ok && n == "Mode" && e.fiVars[r] {
						return ".origPerm", nil
					}
				}
			}
			if id, ok := s.X.(*ast.Ident); ok && s.Sel.Name == "Mode" && e.fiVars[id.Name] {
				return ".origPerm", nil
			}
		}
	}
	return "", e.bad(x, "mode expression not understood")
}

func (e *fwEnv) isDirOfPath(x ast.Expr) bool {
	if id, ok := x.(*ast.Ident); ok {
		return e.dirVar != "" && id.Name == e.dirVar
	}
	if c, ok := x.(*ast.CallExpr); ok && len(c.Args) == 1 {
		if r, n, ok := fwSel(c.Fun); ok && r == "filepath" && n == "Dir" {
			if id, ok := c.Args[0].(*ast.Ident); ok && id.Name == e.path {
				return true
			}
		}
	}
	return false
}

func (e *fwEnv) isPattern(x ast.Expr) bool {
	switch v := x.(type) {
	case *ast.Ident:
		return e.baseVar != "" && v.Name == e.baseVar
	case *ast.BasicLit:
		return v.Kind == token.STRING && !strings.ContainsAny(v.Value, "/\\")
	case *ast.BinaryExpr:
		return v.Op == token.ADD && e.isPattern(v.X) && e.isPattern(v.Y)
	case *ast.CallExpr:
		if r, n, ok := fwSel(v.Fun); ok && r == "filepath" && n == "Base" && len(v.Args) == 1 {
			if id, ok := v.Args[0].(*ast.Ident); ok && id.Name == e.path {
				return true
			}
		}
	}
	return false
}

var fwFlagBits = map[string]string{"O_RDONLY": "", "O_WRONLY": "w", "O_RDWR": "w", "O_CREATE": "c", "O_EXCL": "e", "O_TRUNC": "t"}

func (e *fwEnv) openFlags(x ast.Expr) (string, error) {
	switch v := x.(type) {
	case *ast.ParenExpr:
		return e.openFlags(v.X)
	case *ast.BinaryExpr:
		if v.Op == token.OR {
			a, err := e.openFlags(v.X)
			if err != nil {
				return "", err
			}
			b, err := e.openFlags(v.Y)
			return a + b, err
		}
	case *ast.SelectorExpr:
		if r, n, ok := fwSel(v); ok && (r == "os" || r == "syscall") {
			if s, ok := fwFlagBits[n]; ok {
				return s, nil
			}
		}
	}
	return "", e.bad(x, "open flag not understood")
}

func leanBool(b bool) string {
	if b {
		return "true"
	}
	return "false"
}

// call: a file-system call -> Lean Op terms (os.WriteFile expands to three), plus variables
// bound by its results.
func (e *fwEnv) call(c *ast.CallExpr, lhs []ast.Expr) ([]string, error) {
	recv, name, ok := fwSel(c.Fun)
	if !ok {
		return nil, e.bad(c, "call not understood")
	}
	bindFirst := func() string {
		if len(lhs) >= 1 {
			if id, ok := lhs[0].(*ast.Ident); ok && id.Name != "_" {
				return id.Name
			}
		}
		return ""
	}
	if recv == "os" {
		switch name {
		case "Stat", "Lstat":
			if len(c.Args) != 1 {
				break
			}
			r, err := e.nameRef(c.Args[0])
			if err != nil {
				return nil, err
			}
			if r != ".path" {
				return nil, e.bad(c, "stat of a file other than path")
			}
			if v := bindFirst(); v != "" {
				e.fiVars[v] = true
			}
			if name == "Lstat" {
				return []string{".lstat"}, nil // describes the link itself when path is a symbolic link
			}
			return []string{".stat"}, nil
		case "CreateTemp":
			if len(c.Args) != 2 || !e.isDirOfPath(c.Args[0]) || !e.isPattern(c.Args[1]) {
				return nil, e.bad(c, "CreateTemp must create in the directory of path with a pattern made of its base name/literals")
			}
			if e.fdVar != "" || e.haveTmp {
				return nil, e.bad(c, "second descriptor / second temp file")
			}
			e.fdVar, e.fdRef, e.fdTemp, e.haveTmp = bindFirst(), ".tmp", true, true
			if e.fdVar == "" {
				return nil, e.bad(c, "result of CreateTemp not bound")
			}
			return []string{".createTemp 0o600"}, nil // os.CreateTemp: O_RDWR|O_CREATE|O_EXCL, 0600
		case "OpenFile", "Create":
			var r, fl string
			var err error
			perm := int64(0o666)
			if name == "Create" {
				if len(c.Args) != 1 {
					break
				}
				fl = "wct"
			} else {
				if len(c.Args) != 3 {
					break
				}
				if fl, err = e.openFlags(c.Args[1]); err != nil {
					return nil, err
				}
				var ok bool
				if perm, ok = e.intLit(c.Args[2]); !ok {
					return nil, e.bad(c.Args[2], "permission argument not a literal")
				}
			}
			if r, err = e.nameRef(c.Args[0]); err != nil {
				return nil, err
			}
			if !strings.Contains(fl, "w") {
				return nil, e.bad(c, "read-only open is outside the DSL")
			}
			if e.fdVar != "" {
				return nil, e.bad(c, "second descriptor while one is open")
			}
			e.fdVar, e.fdRef, e.fdTemp = bindFirst(), r, false
			if e.fdVar == "" {
				return nil, e.bad(c, "result of open not bound")
			}
			if r == ".tmp" {
				e.haveTmp = true
			}
			return []string{fmt.Sprintf(".openW %s %s %s %s 0o%o", r, leanBool(strings.Contains(fl, "c")),
				leanBool(strings.Contains(fl, "e")), leanBool(strings.Contains(fl, "t")), perm)}, nil
		case "WriteFile":
			if len(c.Args) != 3 {
				break
			}
			r, err := e.nameRef(c.Args[0])
			if err != nil {
				return nil, err
			}
			if id, ok := c.Args[1].(*ast.Ident); !ok || id.Name != e.data {
				return nil, e.bad(c.Args[1], "written data is not the target parameter")
			}
			perm, ok := e.intLit(c.Args[2])
			if !ok {
				return nil, e.bad(c.Args[2], "permission argument not a literal")
			}
			if e.fdVar != "" {
				return nil, e.bad(c, "os.WriteFile while a descriptor is open")
			}
			if r == ".tmp" {
				e.haveTmp = true
			}
			return []string{fmt.Sprintf(".openW %s true false true 0o%o", r, perm), ".write", ".close"}, nil
		case "Chmod":
			if len(c.Args) != 2 {
				break
			}
			r, err := e.nameRef(c.Args[0])
			if err != nil {
				return nil, err
			}
			m, err := e.modeE(c.Args[1])
			if err != nil {
				return nil, err
			}
			return []string{fmt.Sprintf(".chmodName %s %s", r, m)}, nil
		case "Remove":
			if len(c.Args) != 1 {
				break
			}
			r, err := e.nameRef(c.Args[0])
			if err != nil {
				return nil, err
			}
			return []string{".remove " + r}, nil
		case "Rename":
			if len(c.Args) != 2 {
				break
			}
			a, err := e.nameRef(c.Args[0])
			if err != nil {
				return nil, err
			}
			b, err := e.nameRef(c.Args[1])
			if err != nil {
				return nil, err
			}
			return []string{fmt.Sprintf(".rename %s %s", a, b)}, nil
		}
		return nil, e.bad(c, "os call outside the DSL")
	}
	if e.fdVar != "" && recv == e.fdVar {
		switch name {
		case "Write":
			if len(c.Args) == 1 {
				if id, ok := c.Args[0].(*ast.Ident); ok && id.Name == e.data {
					return []string{".write"}, nil
				}
			}
			return nil, e.bad(c, "written data is not the target parameter")
		case "Chmod":
			if len(c.Args) == 1 {
				m, err := e.modeE(c.Args[0])
				if err != nil {
					return nil, err
				}
				return []string{".chmodFd " + m}, nil
			}
		case "Sync":
			if len(c.Args) == 0 {
				return []string{".sync"}, nil
			}
		case "Close":
			if len(c.Args) == 0 {
				// the variable stays bound (f.Name() is still meaningful); a later open is refused
				return []string{".close"}, nil
			}
		}
		return nil, e.bad(c, "method of the file descriptor outside the DSL")
	}
	return nil, e.bad(c, "call not understood")
}

func (e *fwEnv) isErr(x ast.Expr) bool {
	id, ok := x.(*ast.Ident)
	return ok && id.Name == e.errName
}

// simple: one statement of the forms allowed inside an if-block (and at top level).
// Returns Lean `Simple` terms.
func (e *fwEnv) simple(s ast.Stmt) ([]string, error) {
	mk := func(ops []string, sets bool) []string {
		var out []string
		for i, o := range ops {
			// os.WriteFile = open; write; close: open and write report through err, close's result too
			se := sets && (i < len(ops)-1 || len(ops) == 1)
			out = append(out, fmt.Sprintf(".call (%s) %s", o, leanBool(se)))
		}
		return out
	}
	switch v := s.(type) {
	case *ast.ExprStmt:
		c, ok := v.X.(*ast.CallExpr)
		if !ok {
			return nil, e.bad(s, "expression statement")
		}
		ops, err := e.call(c, nil)
		if err != nil {
			return nil, err
		}
		return mk(ops, false), nil
	case *ast.AssignStmt:
		if len(v.Rhs) != 1 || (v.Tok != token.ASSIGN && v.Tok != token.DEFINE) {
			return nil, e.bad(s, "assignment form")
		}
		// t := path + ".tmp": a fixed temp-file name derived from path (pure binding)
		if be, ok := v.Rhs[0].(*ast.BinaryExpr); ok && len(v.Lhs) == 1 && be.Op == token.ADD && e.mentionsPath(be) {
			if a, ok := v.Lhs[0].(*ast.Ident); ok && (e.tmpExpr == "" || e.tmpExpr == e.src(be)) {
				e.tmpExpr = e.src(be)
				e.tmpVars[a.Name] = true
				return nil, nil
			}
		}
		c, ok := v.Rhs[0].(*ast.CallExpr)
		if !ok {
			return nil, e.bad(s, "assignment of a non-call")
		}
		// pure bindings
		if r, n, ok := fwSel(c.Fun); ok {
			if r == "filepath" && n == "Split" && len(c.Args) == 1 && len(v.Lhs) == 2 {
				if id, ok := c.Args[0].(*ast.Ident); ok && id.Name == e.path {
					if a, ok := v.Lhs[0].(*ast.Ident); ok {
						e.dirVar = a.Name
					}
					if b, ok := v.Lhs[1].(*ast.Ident); ok {
						e.baseVar = b.Name
					}
					return nil, nil
				}
			}
			if n == "Name" && len(c.Args) == 0 && r == e.fdVar && e.fdRef == ".tmp" && len(v.Lhs) == 1 {
				if a, ok := v.Lhs[0].(*ast.Ident); ok {
					e.tmpVars[a.Name] = true
					return nil, nil
				}
			}
		}
		// every left-hand side is `_`, err, or a fresh variable bound by the call
		sets := false
		for i, l := range v.Lhs {
			if e.isErr(l) {
				if i != len(v.Lhs)-1 {
					return nil, e.bad(s, "err is not the last result")
				}
				sets = true
				continue
			}
			if _, ok := l.(*ast.Ident); !ok {
				return nil, e.bad(s, "left-hand side")
			}
		}
		if v.Tok == token.DEFINE && sets {
			// `x, err := f()` at function level re-uses the named result err (same scope) — the
			// caller verifies the statement is not nested in a block that would shadow it.
		}
		ops, err := e.call(c, v.Lhs)
		if err != nil {
			return nil, err
		}
		return mk(ops, sets), nil
	case *ast.ReturnStmt:
		switch len(v.Results) {
		case 0:
			return []string{".ret"}, nil
		case 1:
			if e.isErr(v.Results[0]) {
				return []string{".ret"}, nil
			}
			if id, ok := v.Results[0].(*ast.Ident); ok && id.Name == "nil" {
				return []string{".ret"}, nil
			}
			if c, ok := v.Results[0].(*ast.CallExpr); ok {
				ops, err := e.call(c, nil)
				if err != nil {
					return nil, err
				}
				return append(mk(ops, true), ".ret"), nil
			}
		}
		return nil, e.bad(s, "return form")
	}
	return nil, e.bad(s, "statement form outside the DSL")
}

func genFmtWrite(repo, out string) error {
	file := filepath.Join(repo, "cmd", "internal", "gopfmt", "fmt.go")
	fset := token.NewFileSet()
	f, err := parser.ParseFile(fset, file, nil, 0)
	if err != nil {
		return broken("cannot parse %s: %v", file, err)
	}
	var fn, caller *ast.FuncDecl
	for _, d := range f.Decls {
		if fd, ok := d.(*ast.FuncDecl); ok && fd.Recv == nil {
			switch fd.Name.Name {
			case "writeFileWithBackup":
				fn = fd
			case "gopfmt":
				caller = fd
			}
		}
	}
	if fn == nil || fn.Body == nil || caller == nil || caller.Body == nil {
		return broken("func writeFileWithBackup / func gopfmt not found in %s", file)
	}
	e := &fwEnv{fset: fset, tmpVars: map[string]bool{}, fiVars: map[string]bool{}}
	ps := fn.Type.Params.List
	if len(ps) != 2 || len(ps[0].Names) != 1 || len(ps[1].Names) != 1 {
		return broken("writeFileWithBackup: parameter list changed")
	}
	if id, ok := ps[0].Type.(*ast.Ident); !ok || id.Name != "string" {
		return broken("writeFileWithBackup: first parameter is not a string")
	}
	if at, ok := ps[1].Type.(*ast.ArrayType); !ok || at.Len != nil {
		return broken("writeFileWithBackup: second parameter is not a slice")
	}
	e.path, e.data = ps[0].Names[0].Name, ps[1].Names[0].Name
	rs := fn.Type.Results
	if rs == nil || len(rs.List) != 1 || len(rs.List[0].Names) != 1 {
		return broken("writeFileWithBackup: expected one named result (err error)")
	}
	e.errName = rs.List[0].Names[0].Name

	// ---- callers ---------------------------------------------------------------------------
	calls := 0
	var foreign error
	mutating := map[string]bool{"WriteFile": true, "Remove": true, "RemoveAll": true, "Rename": true, "Create": true,
		"CreateTemp": true, "OpenFile": true, "Chmod": true, "Truncate": true, "Mkdir": true, "MkdirAll": true,
		"MkdirTemp": true, "Symlink": true, "Link": true, "Chown": true, "Lchown": true, "Chtimes": true}
	var mvgoBlock *ast.BlockStmt
	ast.Inspect(caller, func(n ast.Node) bool {
		if is, ok := n.(*ast.IfStmt); ok && is.Init == nil {
			if id, ok := is.Cond.(*ast.Ident); ok && id.Name == "mvgo" {
				mvgoBlock = is.Body
			}
		}
		return true
	})
	ast.Inspect(f, func(n ast.Node) bool {
		c, ok := n.(*ast.CallExpr)
		if !ok {
			return true
		}
		if id, ok := c.Fun.(*ast.Ident); ok && id.Name == "writeFileWithBackup" {
			calls++
		}
		if r, nm, ok := fwSel(c.Fun); ok && r == "os" && mutating[nm] {
			in := func(b ast.Node) bool { return b != nil && c.Pos() >= b.Pos() && c.End() <= b.End() }
			if !in(fn) && !in(mvgoBlock) && foreign == nil {
				foreign = broken("fmt.go line %d: file-system-mutating call os.%s outside writeFileWithBackup and the mvgo block",
					fset.Position(c.Pos()).Line, nm)
			}
		}
		return true
	})
	if foreign != nil {
		return foreign
	}
	okCaller := false
	ast.Inspect(caller, func(n ast.Node) bool {
		if r, ok := n.(*ast.ReturnStmt); ok && len(r.Results) == 1 {
			if c, ok := r.Results[0].(*ast.CallExpr); ok {
				if id, ok := c.Fun.(*ast.Ident); ok && id.Name == "writeFileWithBackup" && len(c.Args) == 2 {
					a0, ok0 := c.Args[0].(*ast.Ident)
					a1, ok1 := c.Args[1].(*ast.Ident)
					if ok0 && ok1 && a0.Name == "path" && a1.Name == "target" {
						okCaller = true
					}
				}
			}
		}
		return true
	})
	if calls != 1 || !okCaller {
		return broken("gopfmt no longer ends with the single call `return writeFileWithBackup(path, target)` (calls=%d)", calls)
	}

	// ---- body ------------------------------------------------------------------------------
	var stmts []string
	var comments []string
	for _, s := range fn.Body.List {
		line := fset.Position(s.Pos()).Line
		if is, ok := s.(*ast.IfStmt); ok {
			if is.Init != nil || is.Else != nil {
				return e.bad(s, "if with init/else")
			}
			be, ok := is.Cond.(*ast.BinaryExpr)
			if !ok || !e.isErr(be.X) || (be.Op != token.NEQ && be.Op != token.EQL) {
				return e.bad(is.Cond, "condition is not `err != nil` / `err == nil`")
			}
			if id, ok := be.Y.(*ast.Ident); !ok || id.Name != "nil" {
				return e.bad(is.Cond, "condition is not `err != nil` / `err == nil`")
			}
			var body []string
			for _, b := range is.Body.List {
				if as, ok := b.(*ast.AssignStmt); ok && as.Tok == token.DEFINE {
					return e.bad(b, "`:=` inside a block (would shadow)")
				}
				ss, err := e.simple(b)
				if err != nil {
					return err
				}
				body = append(body, ss...)
			}
			kind := ".ifErr"
			if be.Op == token.EQL {
				kind = ".ifOk"
			}
			stmts = append(stmts, fmt.Sprintf("%s [%s]", kind, strings.Join(body, ", ")))
			comments = append(comments, fmt.Sprintf("line %d: if %s {…}", line, e.src(is.Cond)))
			continue
		}
		ss, err := e.simple(s)
		if err != nil {
			return err
		}
		for _, x := range ss {
			stmts = append(stmts, fmt.Sprintf(".simple (%s)", x))
			comments = append(comments, fmt.Sprintf("line %d: %s", line, strings.ReplaceAll(e.src(s), "\n", " ")))
		}
	}

	var b bytes.Buffer
	fmt.Fprintf(&b, "/- GENERATED by /verif/extract (target fmtwrite) from cmd/internal/gopfmt/fmt.go: writeFileWithBackup — do not edit. -/\n")
	fmt.Fprintf(&b, "import GopModel.Model.FS\nnamespace GopModel.Generated.FmtWrite\nopen GopModel.FS\n\n")
	fmt.Fprintf(&b, "/-- Body of `writeFileWithBackup(%s, %s)` in the control-flow / file-system DSL. -/\n", e.path, e.data)
	fmt.Fprintf(&b, "def prog : List Stmt := [\n")
	for i, s := range stmts {
		sep := ","
		if i == len(stmts)-1 {
			sep = ""
		}
		fmt.Fprintf(&b, "  %s%s  -- %s\n", s, sep, comments[i])
	}
	fmt.Fprintf(&b, "]\n\n")
	fmt.Fprintf(&b, "/-- Name expression of the temporary file when it is not chosen by os.CreateTemp (\"\" otherwise). -/\n")
	fmt.Fprintf(&b, "def fixedTmpName : String := %s\n\n", strconv.Quote(e.tmpExpr))
	fmt.Fprintf(&b, "end GopModel.Generated.FmtWrite\n")
	return writeIfChanged(filepath.Join(out, "FmtWrite.lean"), b.Bytes())
}
