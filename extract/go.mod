module verifextract

go 1.18
