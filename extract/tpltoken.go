// Translator target "tpltoken" (properties C27, C31).
//
// Reads   <repo>/tpl/token/token.go : the two const blocks (iota arithmetic), the `tokens` table, the
//
//	                            guards of Token.Len and Token.String, the shape of ForEach;
//	<repo>/tpl/cl/compile.go  : the `idents` map (grammar identifier -> token class).
//
// Writes  Generated/TplToken.lean   : one `abbrev` per token constant, `tokens : List (List UInt8)` (dense,
//
//	index = token value), `lenGuard`/`stringGuard : Nat → Bool`
//	(the conditions exactly as written, `Token(len(tokens))` ->
//	`tokens.length`), `identClasses`.
//
// Only the forms that occur today are understood; anything else is a broken tie.
package main

import (
	"bytes"
	"fmt"
	"go/ast"
	"go/parser"
	"go/printer"
	"go/token"
	"path/filepath"
	"strconv"
	"strings"
)

func init() { register("tpltoken", genTplToken) }

type tplTokConst struct {
	name string
	val  int
}

// tplTokEval evaluates the constant expressions that occur in token.go.
func tplTokEval(e ast.Expr, iota int, env map[string]int) (int, error) {
	switch e := e.(type) {
	case *ast.Ident:
		if e.Name == "iota" {
			return iota, nil
		}
		if v, ok := env[e.Name]; ok {
			return v, nil
		}
		return 0, broken("token.go: unknown identifier %s in constant expression", e.Name)
	case *ast.BasicLit:
		switch e.Kind {
		case token.INT:
			v, err := strconv.ParseInt(e.Value, 0, 64)
			if err != nil {
				return 0, broken("token.go: integer literal %s", e.Value)
			}
			return int(v), nil
		case token.CHAR:
			r, _, tail, err := strconv.UnquoteChar(e.Value[1:len(e.Value)-1], '\'')
			if err != nil || tail != "" {
				return 0, broken("token.go: char literal %s", e.Value)
			}
			return int(r), nil
		}
	case *ast.ParenExpr:
		return tplTokEval(e.X, iota, env)
	case *ast.UnaryExpr:
		if e.Op == token.SUB {
			x, err := tplTokEval(e.X, iota, env)
			return -x, err
		}
	case *ast.BinaryExpr:
		x, err := tplTokEval(e.X, iota, env)
		if err != nil {
			return 0, err
		}
		y, err := tplTokEval(e.Y, iota, env)
		if err != nil {
			return 0, err
		}
		switch e.Op {
		case token.ADD:
			return x + y, nil
		case token.SUB:
			return x - y, nil
		}
	}
	return 0, broken("token.go: constant expression form %T not understood", e)
}

// tplTokCond translates a guard over `tok` into a Lean Bool term.
func tplTokCond(e ast.Expr, recv string, env map[string]int) (string, error) {
	switch e := e.(type) {
	case *ast.ParenExpr:
		return tplTokCond(e.X, recv, env)
	case *ast.BinaryExpr:
		switch e.Op {
		case token.LAND, token.LOR:
			x, err := tplTokCond(e.X, recv, env)
			if err != nil {
				return "", err
			}
			y, err := tplTokCond(e.Y, recv, env)
			if err != nil {
				return "", err
			}
			op := "&&"
			if e.Op == token.LOR {
				op = "||"
			}
			return "(" + x + " " + op + " " + y + ")", nil
		case token.LSS, token.LEQ, token.GTR, token.GEQ, token.EQL, token.NEQ:
			x, err := tplTokTerm(e.X, recv, env)
			if err != nil {
				return "", err
			}
			y, err := tplTokTerm(e.Y, recv, env)
			if err != nil {
				return "", err
			}
			op := map[token.Token]string{token.LSS: "<", token.LEQ: "≤", token.GTR: ">", token.GEQ: "≥", token.EQL: "=", token.NEQ: "≠"}[e.Op]
			return "decide (" + x + " " + op + " " + y + ")", nil
		}
	}
	return "", broken("token.go: guard form %T not understood", e)
}

func tplTokTerm(e ast.Expr, recv string, env map[string]int) (string, error) {
	switch e := e.(type) {
	case *ast.Ident:
		if e.Name == recv {
			return "tok", nil
		}
		if v, ok := env[e.Name]; ok {
			return strconv.Itoa(v), nil
		}
	case *ast.BasicLit:
		v, err := tplTokEval(e, 0, env)
		if err != nil {
			return "", err
		}
		return strconv.Itoa(v), nil
	case *ast.CallExpr: // Token(len(tokens))
		if f, ok := e.Fun.(*ast.Ident); ok && f.Name == "Token" && len(e.Args) == 1 {
			if c, ok := e.Args[0].(*ast.CallExpr); ok && len(c.Args) == 1 {
				if l, ok := c.Fun.(*ast.Ident); ok && l.Name == "len" {
					if a, ok := c.Args[0].(*ast.Ident); ok && a.Name == "tokens" {
						return "tokens.length", nil
					}
				}
			}
		}
	}
	return "", broken("token.go: guard operand %T not understood", e)
}

func tplTokSrc(fset *token.FileSet, n ast.Node) string {
	var b bytes.Buffer
	printer.Fprint(&b, fset, n)
	return strings.Join(strings.Fields(b.String()), " ")
}

func genTplToken(repo, out string) error {
	fset := token.NewFileSet()
	path := filepath.Join(repo, "tpl", "token", "token.go")
	f, err := parser.ParseFile(fset, path, nil, 0)
	if err != nil {
		return broken("cannot parse %s: %v", path, err)
	}
	env := map[string]int{}
	var consts []tplTokConst
	var tokensLit *ast.CompositeLit
	guards := map[string]string{}
	forEachOK := false
	for _, d := range f.Decls {
		switch d := d.(type) {
		case *ast.GenDecl:
			if d.Tok == token.CONST {
				var last []ast.Expr
				for i, s := range d.Specs {
					vs := s.(*ast.ValueSpec)
					if len(vs.Names) != 1 {
						return broken("token.go: const spec with %d names", len(vs.Names))
					}
					if len(vs.Values) > 0 {
						last = vs.Values
					}
					if len(last) != 1 {
						return broken("token.go: const %s has no value expression", vs.Names[0].Name)
					}
					v, err := tplTokEval(last[0], i, env)
					if err != nil {
						return err
					}
					env[vs.Names[0].Name] = v
					consts = append(consts, tplTokConst{vs.Names[0].Name, v})
				}
			}
			if d.Tok == token.VAR {
				for _, s := range d.Specs {
					vs := s.(*ast.ValueSpec)
					if len(vs.Names) == 1 && vs.Names[0].Name == "tokens" && len(vs.Values) == 1 {
						cl, ok := vs.Values[0].(*ast.CompositeLit)
						if !ok {
							return broken("token.go: tokens is not a composite literal")
						}
						at, ok := cl.Type.(*ast.ArrayType)
						if !ok {
							return broken("token.go: tokens is not an array")
						}
						if _, ok := at.Len.(*ast.Ellipsis); !ok {
							return broken("token.go: tokens is not a [...]string array")
						}
						tokensLit = cl
					}
				}
			}
		case *ast.FuncDecl:
			if d.Recv != nil && len(d.Recv.List) == 1 && len(d.Recv.List[0].Names) == 1 {
				recv := d.Recv.List[0].Names[0].Name
				switch d.Name.Name {
				case "Len":
					// if <cond> { return len(tokens[tok]) } ; return 0
					b := d.Body.List
					if len(b) != 2 {
						return broken("Token.Len: body has %d statements", len(b))
					}
					is, ok := b[0].(*ast.IfStmt)
					if !ok || is.Init != nil || is.Else != nil || len(is.Body.List) != 1 ||
						tplTokSrc(fset, is.Body.List[0]) != "return len(tokens["+recv+"])" ||
						tplTokSrc(fset, b[1]) != "return 0" {
						return broken("Token.Len: shape changed: %s", tplTokSrc(fset, d.Body))
					}
					g, err := tplTokCond(is.Cond, recv, env)
					if err != nil {
						return err
					}
					guards["Len"] = g
				case "String":
					// if <cond> { s = tokens[tok] } ; if s == "" { s = "token(" + ... } ; return
					b := d.Body.List
					if len(b) != 3 {
						return broken("Token.String: body has %d statements", len(b))
					}
					is, ok := b[0].(*ast.IfStmt)
					if !ok || is.Init != nil || is.Else != nil || len(is.Body.List) != 1 ||
						tplTokSrc(fset, is.Body.List[0]) != "s = tokens["+recv+"]" ||
						tplTokSrc(fset, b[1]) != `if s == "" { s = "token(" + strconv.Itoa(int(`+recv+`)) + ")" }` ||
						tplTokSrc(fset, b[2]) != "return" {
						return broken("Token.String: shape changed: %s", tplTokSrc(fset, d.Body))
					}
					g, err := tplTokCond(is.Cond, recv, env)
					if err != nil {
						return err
					}
					guards["String"] = g
				}
			}
			if d.Recv == nil && d.Name.Name == "ForEach" {
				want := `{ if from == 0 { from = operator_beg + 1 } for from < operator_end { if s := tokens[from]; s != "" { if f(Token(from), s) == Break { break } } from++ } }`
				if got := tplTokSrc(fset, d.Body); got != want {
					return broken("token.ForEach: shape changed: %s", got)
				}
				forEachOK = true
			}
		}
	}
	if tokensLit == nil || guards["Len"] == "" || guards["String"] == "" || !forEachOK {
		return broken("token.go: tokens table, Token.Len, Token.String or ForEach not found")
	}
	table := map[int]string{}
	size := 0
	for _, el := range tokensLit.Elts {
		kv, ok := el.(*ast.KeyValueExpr)
		if !ok {
			return broken("token.go: tokens element without key")
		}
		k, err := tplTokEval(kv.Key, 0, env)
		if err != nil {
			return err
		}
		bl, ok := kv.Value.(*ast.BasicLit)
		if !ok || bl.Kind != token.STRING {
			return broken("token.go: tokens value is not a string literal")
		}
		s, err := strconv.Unquote(bl.Value)
		if err != nil {
			return broken("token.go: tokens value %s", bl.Value)
		}
		for _, c := range []byte(s) {
			if c < 0x20 || c >= 0x7f || c == '"' || c == '\\' {
				return broken("token.go: token spelling %q outside printable ASCII", s)
			}
		}
		if _, dup := table[k]; dup {
			return broken("token.go: duplicate index %d in tokens", k)
		}
		table[k] = s
		if k+1 > size {
			size = k + 1
		}
	}
	if size > 4096 {
		return broken("token.go: tokens table unexpectedly large (%d)", size)
	}

	// idents map of tpl/cl/compile.go
	cpath := filepath.Join(repo, "tpl", "cl", "compile.go")
	cf, err := parser.ParseFile(fset, cpath, nil, 0)
	if err != nil {
		return broken("cannot parse %s: %v", cpath, err)
	}
	type identClass struct {
		name string
		val  int
	}
	var idents []identClass
	found := false
	ast.Inspect(cf, func(n ast.Node) bool {
		vs, ok := n.(*ast.ValueSpec)
		if !ok || len(vs.Names) != 1 || vs.Names[0].Name != "idents" || len(vs.Values) != 1 {
			return true
		}
		cl, ok := vs.Values[0].(*ast.CompositeLit)
		if !ok {
			return true
		}
		found = true
		for _, el := range cl.Elts {
			kv, ok := el.(*ast.KeyValueExpr)
			if !ok {
				err = broken("compile.go: idents element without key")
				return false
			}
			k, ok1 := kv.Key.(*ast.BasicLit)
			v, ok2 := kv.Value.(*ast.SelectorExpr)
			if !ok1 || !ok2 || k.Kind != token.STRING {
				err = broken("compile.go: idents entry form changed")
				return false
			}
			name, _ := strconv.Unquote(k.Value)
			val, ok := env[v.Sel.Name]
			if !ok {
				err = broken("compile.go: idents refers to unknown token %s", v.Sel.Name)
				return false
			}
			idents = append(idents, identClass{name, val})
		}
		return false
	})
	if err != nil {
		return err
	}
	if !found {
		return broken("compile.go: idents map not found")
	}

	// Relocate of tpl/tpl.go: which dynamic error types the type switch handles, and whether an
	// unhandled type panics
	tpath := filepath.Join(repo, "tpl", "tpl.go")
	tf, err := parser.ParseFile(fset, tpath, nil, 0)
	if err != nil {
		return broken("cannot parse %s: %v", tpath, err)
	}
	var relocHandled []string
	relocDefaultPanics := false
	relocFound := false
	for _, d := range tf.Decls {
		fd, ok := d.(*ast.FuncDecl)
		if !ok || fd.Recv != nil || fd.Name.Name != "Relocate" {
			continue
		}
		if len(fd.Body.List) != 2 || tplTokSrc(fset, fd.Body.List[1]) != "return err" {
			return broken("tpl.Relocate: body is not `switch e := err.(type) {...}; return err`: %s", tplTokSrc(fset, fd.Body))
		}
		ts, ok := fd.Body.List[0].(*ast.TypeSwitchStmt)
		if !ok || tplTokSrc(fset, ts.Assign) != "e := err.(type)" {
			return broken("tpl.Relocate: first statement is not `switch e := err.(type)`")
		}
		relocFound = true
		for _, c := range ts.Body.List {
			cc := c.(*ast.CaseClause)
			if cc.List == nil { // default
				ast.Inspect(cc, func(n ast.Node) bool {
					if ce, ok := n.(*ast.CallExpr); ok {
						if id, ok := ce.Fun.(*ast.Ident); ok && id.Name == "panic" {
							relocDefaultPanics = true
						}
					}
					return true
				})
				continue
			}
			for _, t := range cc.List {
				relocHandled = append(relocHandled, tplTokSrc(fset, t))
			}
			// a handled case must not panic itself
			bad := false
			ast.Inspect(cc, func(n ast.Node) bool {
				if ce, ok := n.(*ast.CallExpr); ok {
					if id, ok := ce.Fun.(*ast.Ident); ok && id.Name == "panic" {
						bad = true
					}
				}
				return true
			})
			if bad {
				return broken("tpl.Relocate: a non-default case calls panic")
			}
		}
	}
	if !relocFound {
		return broken("tpl.go: func Relocate not found")
	}

	var b strings.Builder
	b.WriteString("/- GENERATED by /verif/extract (target tpltoken) from tpl/token/token.go and tpl/cl/compile.go.\n   Do not edit. -/\n")
	b.WriteString("namespace GopModel.Generated.TplToken\n\n")
	for _, c := range consts {
		if c.val < 0 { // `Break = -1` is a callback result, not a token
			continue
		}
		fmt.Fprintf(&b, "abbrev %s : Nat := %d\n", c.name, c.val)
	}
	b.WriteString("\n/-- `tokens` (dense; index = token value; each spelling as bytes, [] where the Go array has no entry). -/\ndef tokens : List (List UInt8) := [\n")
	for i := 0; i < size; i++ {
		sep := ","
		if i == size-1 {
			sep = ""
		}
		bs := make([]string, len(table[i]))
		for j, c := range []byte(table[i]) {
			bs[j] = strconv.Itoa(int(c))
		}
		fmt.Fprintf(&b, "  [%s]%s -- %d %s\n", strings.Join(bs, ", "), sep, i, table[i])
	}
	b.WriteString("]\n\n")
	fmt.Fprintf(&b, "/-- Guard of `Token.Len` as written. -/\ndef lenGuard (tok : Nat) : Bool := %s\n\n", guards["Len"])
	fmt.Fprintf(&b, "/-- Guard of `Token.String` as written. -/\ndef stringGuard (tok : Nat) : Bool := %s\n\n", guards["String"])
	b.WriteString("/-- `idents` of tpl/cl/compile.go: grammar identifier (as bytes) -> token class. -/\ndef identClasses : List (List UInt8 × Nat) := [\n")
	for i, id := range idents {
		sep := ","
		if i == len(idents)-1 {
			sep = ""
		}
		bs := make([]string, len(id.name))
		for j, c := range []byte(id.name) {
			bs[j] = strconv.Itoa(int(c))
		}
		fmt.Fprintf(&b, "  ([%s], %d)%s -- %s\n", strings.Join(bs, ", "), id.val, sep, id.name)
	}
	b.WriteString("]\n\n/-- dynamic error types handled by the type switch of `tpl.Relocate` -/\ndef relocateHandled : List String := [")
	for i, h := range relocHandled {
		if i > 0 {
			b.WriteString(", ")
		}
		b.WriteString(strconv.Quote(h))
	}
	fmt.Fprintf(&b, "]\n\n/-- does `tpl.Relocate` panic on an error of any other type (a `default:` clause calling panic)? -/\ndef relocateDefaultPanics : Bool := %v\n", relocDefaultPanics)
	b.WriteString("\nend GopModel.Generated.TplToken\n")
	return writeIfChanged(filepath.Join(out, "TplToken.lean"), []byte(b.String()))
}
