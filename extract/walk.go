// Translator target "walk" (property C18).
//
// Reads   <repo>/ast/walk.go      : the type switch of func Walk -> per kind, the ordered list of
//                                   child-visiting statements (with nil tests and flag guards);
//         <repo>/ast/*.go         : every struct type with Pos() and End() methods (+ the go/ast
//                                   aliases Comment, CommentGroup) -> per kind, its fields in
//                                   declaration order, classified by declared type.
// Writes  Generated/Walk.lean     : Kind, Fld (enumerations), nodeFields, carriers, walkCase;
//         Generated/walk_facts.txt: kinds, carriers, nil-able fields (used by the check to regenerate
//                                   the harness' kind registry).
//
// Only the statement forms that occur in Walk today are understood; anything else is a broken tie.
package main

import (
	"bytes"
	"fmt"
	"go/ast"
	"go/parser"
	"go/printer"
	"go/token"
	"os"
	"os/exec"
	"path/filepath"
	"regexp"
	"sort"
	"strings"
)

func init() { register("walk", genWalk) }

type wField struct {
	name    string // Fld constructor name (path with '_')
	kind    string // FKind constructor
	nilable bool   // the field's comment documents that it may be nil ("or nil", "may be nil", …)
}

var wNilWord = regexp.MustCompile(`(^|[^-\w])nil\b`)

// wNilableNames: which of the names declared by f are documented as possibly nil.
func wNilableNames(f *ast.Field) map[string]bool {
	res := map[string]bool{}
	if f.Comment == nil {
		return res
	}
	text := f.Comment.Text()
	if !wNilWord.MatchString(text) {
		return res
	}
	mentioned := 0
	for _, n := range f.Names {
		if regexp.MustCompile(`\b` + n.Name + `\b`).MatchString(text) {
			res[n.Name] = true
			mentioned++
		}
	}
	if mentioned == 0 || len(f.Names) == 1 {
		for _, n := range f.Names {
			res[n.Name] = true
		}
	}
	return res
}

type wStruct struct {
	name    string
	fields  []*ast.Field
	hasPos  bool
	hasEnd  bool
	foreign bool // alias of a go/ast node type
	methods map[string]*ast.FuncDecl // Pos, End (and other pointer-receiver methods) by name
}

type wStep struct {
	op, fld, grd string
}

type astPkg struct {
	fset      *token.FileSet
	structs   map[string]*wStruct
	order     []string          // struct names in declaration order (file order: ast.go, ast_gop.go, others)
	ifaces    map[string]bool   // node interfaces: Node, Expr, Stmt, Decl, Spec
	goastName string            // local import name of "go/ast" ("" if not imported)
	funcs     map[string]*ast.FuncDecl // package-level functions by name
	files     map[string]*ast.File
}

func wExprStr(fset *token.FileSet, n ast.Node) string {
	var b bytes.Buffer
	printer.Fprint(&b, fset, n)
	return strings.Join(strings.Fields(b.String()), " ")
}

// loadAstPkg parses the non-test files of <repo>/ast and collects struct types, node
// interfaces, aliases of go/ast types and Pos/End methods.
func loadAstPkg(repo string) (*astPkg, error) {
	dir := filepath.Join(repo, "ast")
	ents, err := os.ReadDir(dir)
	if err != nil {
		return nil, broken("cannot read %s: %v", dir, err)
	}
	var names []string
	for _, e := range ents {
		n := e.Name()
		if e.IsDir() || !strings.HasSuffix(n, ".go") || strings.HasSuffix(n, "_test.go") {
			continue
		}
		names = append(names, n)
	}
	// declaration order of kinds: ast.go first, ast_gop.go second, then the rest by name
	rank := func(n string) int {
		switch n {
		case "ast.go":
			return 0
		case "ast_gop.go":
			return 1
		}
		return 2
	}
	sort.Slice(names, func(i, j int) bool {
		if rank(names[i]) != rank(names[j]) {
			return rank(names[i]) < rank(names[j])
		}
		return names[i] < names[j]
	})
	p := &astPkg{fset: token.NewFileSet(), structs: map[string]*wStruct{}, ifaces: map[string]bool{}, files: map[string]*ast.File{}}
	aliases := map[string]string{} // local name -> go/ast name
	var fs []*ast.File
	for _, n := range names {
		f, err := parser.ParseFile(p.fset, filepath.Join(dir, n), nil, parser.ParseComments)
		if err != nil {
			return nil, broken("cannot parse ast/%s: %v", n, err)
		}
		p.files[n] = f
		fs = append(fs, f)
		for _, im := range f.Imports {
			if im.Path.Value == `"go/ast"` {
				nm := "ast"
				if im.Name != nil {
					nm = im.Name.Name
				}
				if p.goastName != "" && p.goastName != nm {
					return nil, broken("go/ast imported under two names")
				}
				if n == "ast.go" || n == "ast_gop.go" {
					p.goastName = nm
				}
			}
		}
	}
	for _, f := range fs {
		for _, d := range f.Decls {
			gd, ok := d.(*ast.GenDecl)
			if !ok || gd.Tok != token.TYPE {
				continue
			}
			for _, s := range gd.Specs {
				ts := s.(*ast.TypeSpec)
				switch t := ts.Type.(type) {
				case *ast.StructType:
					if ts.TypeParams != nil {
						continue
					}
					p.structs[ts.Name.Name] = &wStruct{name: ts.Name.Name, fields: t.Fields.List}
					p.order = append(p.order, ts.Name.Name)
				case *ast.InterfaceType:
					// node interface: embeds Node (or is an alias of go/ast.Node)
					for _, m := range t.Methods.List {
						if len(m.Names) == 0 {
							if id, ok := m.Type.(*ast.Ident); ok && id.Name == "Node" {
								p.ifaces[ts.Name.Name] = true
							}
						}
					}
				case *ast.SelectorExpr:
					if x, ok := t.X.(*ast.Ident); ok && ts.Assign.IsValid() && x.Name == p.goastName && p.goastName != "" {
						if t.Sel.Name == "Node" {
							p.ifaces[ts.Name.Name] = true
						} else {
							aliases[ts.Name.Name] = t.Sel.Name
							p.order = append(p.order, ts.Name.Name)
						}
					}
				}
			}
		}
	}
	for _, f := range fs {
		for _, d := range f.Decls {
			fd, ok := d.(*ast.FuncDecl)
			if ok && fd.Recv == nil {
				if p.funcs == nil {
					p.funcs = map[string]*ast.FuncDecl{}
				}
				p.funcs[fd.Name.Name] = fd
			}
			if !ok || fd.Recv == nil || len(fd.Recv.List) != 1 {
				continue
			}
			st, ok := fd.Recv.List[0].Type.(*ast.StarExpr)
			if !ok {
				continue
			}
			id, ok := st.X.(*ast.Ident)
			if !ok {
				continue
			}
			if s := p.structs[id.Name]; s != nil {
				if s.methods == nil {
					s.methods = map[string]*ast.FuncDecl{}
				}
				s.methods[fd.Name.Name] = fd
				switch fd.Name.Name {
				case "Pos":
					s.hasPos = true
				case "End":
					s.hasEnd = true
				}
			}
		}
	}
	// aliases of go/ast struct types: take the fields from GOROOT/src/go/ast/ast.go
	if len(aliases) > 0 {
		out, err := exec.Command("go", "env", "GOROOT").Output()
		if err != nil {
			return nil, broken("go env GOROOT: %v", err)
		}
		gf, err := parser.ParseFile(p.fset, filepath.Join(strings.TrimSpace(string(out)), "src", "go", "ast", "ast.go"), nil, 0)
		if err != nil {
			return nil, broken("cannot parse go/ast: %v", err)
		}
		gs := map[string]*ast.StructType{}
		gm := map[string]int{}
		gmeth := map[string]map[string]*ast.FuncDecl{}
		for _, d := range gf.Decls {
			switch d := d.(type) {
			case *ast.GenDecl:
				for _, s := range d.Specs {
					if ts, ok := s.(*ast.TypeSpec); ok {
						if st, ok := ts.Type.(*ast.StructType); ok {
							gs[ts.Name.Name] = st
						}
					}
				}
			case *ast.FuncDecl:
				if d.Recv != nil && len(d.Recv.List) == 1 && (d.Name.Name == "Pos" || d.Name.Name == "End") {
					if st, ok := d.Recv.List[0].Type.(*ast.StarExpr); ok {
						if id, ok := st.X.(*ast.Ident); ok {
							gm[id.Name]++
							if gmeth[id.Name] == nil {
								gmeth[id.Name] = map[string]*ast.FuncDecl{}
							}
							gmeth[id.Name][d.Name.Name] = d
						}
					}
				}
			}
		}
		for local, g := range aliases {
			st := gs[g]
			if st == nil {
				// alias of a non-struct go/ast type (e.g. an interface): not a node kind
				for i, n := range p.order {
					if n == local {
						p.order = append(p.order[:i], p.order[i+1:]...)
						break
					}
				}
				continue
			}
			// field types of go/ast structs refer to go/ast's own names; the only aliased
			// node structs today (Comment, CommentGroup) refer to each other, which is also
			// aliased locally.  Anything else is refused.
			for _, f := range st.Fields.List {
				ok := true
				ast.Inspect(f.Type, func(n ast.Node) bool {
					if id, isId := n.(*ast.Ident); isId {
						switch id.Name {
						case "string", "bool", "int":
						default:
							if _, isAlias := aliases[id.Name]; !isAlias && id.Name != "token" && id.Name != "Pos" {
								ok = false
							}
						}
					}
					return true
				})
				if !ok {
					return nil, broken("alias %s = go/ast.%s: field type %s not understood", local, g, wExprStr(p.fset, f.Type))
				}
			}
			p.structs[local] = &wStruct{name: local, fields: st.Fields.List, hasPos: gm[g] >= 2, hasEnd: gm[g] >= 2, foreign: true, methods: gmeth[g]}
		}
	}
	return p, nil
}

func (p *astPkg) isKind(name string) bool {
	s := p.structs[name]
	return s != nil && s.hasPos && s.hasEnd
}

// kinds in declaration order
func (p *astPkg) kinds() []string {
	var ks []string
	for _, n := range p.order {
		if p.isKind(n) {
			ks = append(ks, n)
		}
	}
	return ks
}

// carriers: non-node structs with at least one node-holding field (StringLitEx, DomainTextLitEx)
func (p *astPkg) carrierFields(name string) []wField {
	s := p.structs[name]
	if s == nil || p.isKind(name) {
		return nil
	}
	var res []wField
	for _, f := range s.fields {
		k := p.classify(f.Type, false)
		if k == "dyn" { // []any handled in classify; a bare `any` inside a carrier is not followed
			k = "other"
		}
		if k == "one" || k == "list" || k == "lists" || k == "mapv" || k == "parts" {
			for _, n := range f.Names {
				res = append(res, wField{n.Name, k, false})
			}
		}
	}
	return res
}

func wIsAny(t ast.Expr) bool {
	if id, ok := t.(*ast.Ident); ok && id.Name == "any" {
		return true
	}
	if it, ok := t.(*ast.InterfaceType); ok && len(it.Methods.List) == 0 {
		return true
	}
	return false
}

// classify a field type; top = at node level (an `any` there is `dyn`).
func (p *astPkg) classify(t ast.Expr, top bool) string {
	switch t := t.(type) {
	case *ast.Ident:
		if p.ifaces[t.Name] {
			return "one"
		}
		if t.Name == "bool" {
			return "flag"
		}
		if wIsAny(t) && top {
			return "dyn"
		}
		return "other"
	case *ast.InterfaceType:
		if wIsAny(t) && top {
			return "dyn"
		}
		return "other"
	case *ast.StarExpr:
		if id, ok := t.X.(*ast.Ident); ok {
			if p.isKind(id.Name) {
				return "one"
			}
			if len(p.carrierFieldsNoRec(id.Name)) > 0 {
				return "carrier:" + id.Name
			}
			return "other"
		}
		if sel, ok := t.X.(*ast.SelectorExpr); ok {
			if x, ok := sel.X.(*ast.Ident); ok && x.Name == p.goastName && p.goastName != "" {
				return "foreign"
			}
		}
		return "other"
	case *ast.ArrayType:
		if t.Len != nil {
			return "other"
		}
		if wIsAny(t.Elt) {
			return "parts"
		}
		switch p.classify(t.Elt, false) {
		case "one":
			return "list"
		case "list":
			return "lists"
		case "foreign":
			return "foreign"
		case "other", "flag":
			return "other"
		}
		return "unknown:" + wExprStr(p.fset, t)
	case *ast.MapType:
		switch p.classify(t.Value, false) {
		case "one":
			return "mapv"
		case "foreign":
			return "foreign"
		case "other", "flag":
			return "other"
		}
		return "unknown:" + wExprStr(p.fset, t)
	case *ast.SelectorExpr:
		if x, ok := t.X.(*ast.Ident); ok && x.Name == p.goastName && p.goastName != "" {
			return "foreign"
		}
		return "other"
	}
	return "other"
}

// carrierFieldsNoRec avoids infinite recursion classify <-> carrierFields for self-referential structs.
func (p *astPkg) carrierFieldsNoRec(name string) []string {
	s := p.structs[name]
	if s == nil || p.isKind(name) {
		return nil
	}
	var res []string
	for _, f := range s.fields {
		hold := false
		switch t := f.Type.(type) {
		case *ast.ArrayType:
			if t.Len == nil {
				if wIsAny(t.Elt) {
					hold = true
				} else if id, ok := t.Elt.(*ast.Ident); ok && p.ifaces[id.Name] {
					hold = true
				} else if st, ok := t.Elt.(*ast.StarExpr); ok {
					if id, ok := st.X.(*ast.Ident); ok && p.isKind(id.Name) {
						hold = true
					}
				}
			}
		case *ast.Ident:
			hold = p.ifaces[t.Name]
		case *ast.StarExpr:
			if id, ok := t.X.(*ast.Ident); ok && p.isKind(id.Name) {
				hold = true
			}
		}
		if hold {
			for _, n := range f.Names {
				res = append(res, n.Name)
			}
		}
	}
	return res
}

// nodeFields returns the classified fields of a kind in declaration order; carrier-typed
// pointer fields are expanded to paths "<field>_<carrierField>".
func (p *astPkg) nodeFields(kind string) ([]wField, error) {
	s := p.structs[kind]
	var res []wField
	for _, f := range s.fields {
		k := p.classify(f.Type, true)
		if s.foreign {
			// fields of an aliased go/ast struct: names resolve in go/ast, where the only
			// node-typed field is CommentGroup.List []*Comment
			k = p.classify(f.Type, true)
		}
		if strings.HasPrefix(k, "unknown:") {
			return nil, broken("%s: field type %s not understood", kind, k[8:])
		}
		names := f.Names
		if len(names) == 0 { // embedded field: named after its type
			t := f.Type
			if st, ok := t.(*ast.StarExpr); ok {
				t = st.X
			}
			id, ok := t.(*ast.Ident)
			if !ok {
				return nil, broken("%s: embedded field %s not understood", kind, wExprStr(p.fset, f.Type))
			}
			names = []*ast.Ident{id}
		}
		nl := wNilableNames(f)
		for _, n := range names {
			if strings.HasPrefix(k, "carrier:") {
				for _, cf := range p.carrierFields(k[8:]) {
					res = append(res, wField{n.Name + "_" + cf.name, cf.kind, false})
				}
				continue
			}
			res = append(res, wField{n.Name, k, nl[n.Name] && k == "one"})
		}
	}
	return res, nil
}

// ---- the type switch of Walk ---------------------------------------------------------------

type walkSwitch struct {
	cases        map[string][]wStep // kind -> steps
	caseOrder    []string
	defaultPanic bool
}

func wNField(e ast.Expr, recv string) (string, bool) { // n.F -> F
	sel, ok := e.(*ast.SelectorExpr)
	if !ok {
		return "", false
	}
	x, ok := sel.X.(*ast.Ident)
	if !ok || x.Name != recv {
		return "", false
	}
	return sel.Sel.Name, true
}

func wIsCall(s ast.Stmt, fn string, nargs int) (*ast.CallExpr, bool) {
	es, ok := s.(*ast.ExprStmt)
	if !ok {
		return nil, false
	}
	c, ok := es.X.(*ast.CallExpr)
	if !ok || len(c.Args) != nargs {
		return nil, false
	}
	id, ok := c.Fun.(*ast.Ident)
	if !ok || id.Name != fn {
		return nil, false
	}
	if nargs > 0 {
		if v, ok := c.Args[0].(*ast.Ident); !ok || v.Name != "v" {
			return nil, false
		}
	}
	return c, true
}

func wIsIdent(e ast.Expr, name string) bool {
	id, ok := e.(*ast.Ident)
	return ok && id.Name == name
}

// wPartsLoop recognises
//   for _, <p> := range <recv>.Parts { if <e>, ok := <p>.(Expr); ok { Walk(v, <e>) } }
// and returns the ranged-over selector's field name.
func wPartsLoop(s ast.Stmt, recv string) (string, bool) {
	rs, ok := s.(*ast.RangeStmt)
	if !ok || rs.Tok != token.DEFINE || !wIsIdent(rs.Key, "_") || rs.Value == nil || len(rs.Body.List) != 1 {
		return "", false
	}
	pv, ok := rs.Value.(*ast.Ident)
	if !ok {
		return "", false
	}
	f, ok := wNField(rs.X, recv)
	if !ok {
		return "", false
	}
	is, ok := rs.Body.List[0].(*ast.IfStmt)
	if !ok || is.Else != nil || is.Init == nil || !wIsIdent(is.Cond, "ok") || len(is.Body.List) != 1 {
		return "", false
	}
	as, ok := is.Init.(*ast.AssignStmt)
	if !ok || as.Tok != token.DEFINE || len(as.Lhs) != 2 || len(as.Rhs) != 1 || !wIsIdent(as.Lhs[1], "ok") {
		return "", false
	}
	ev, ok := as.Lhs[0].(*ast.Ident)
	if !ok {
		return "", false
	}
	ta, ok := as.Rhs[0].(*ast.TypeAssertExpr)
	if !ok || !wIsIdent(ta.X, pv.Name) || !wIsIdent(ta.Type, "Expr") {
		return "", false
	}
	c, ok := wIsCall(is.Body.List[0], "Walk", 2)
	if !ok || !wIsIdent(c.Args[1], ev.Name) {
		return "", false
	}
	return f, true
}

// wSimpleStep recognises the statement forms over fields of `recv` (n, or the carrier variable
// of a dynamic case); prefix is prepended to the field names.
func wSimpleStep(fset *token.FileSet, s ast.Stmt, recv, prefix string) ([]wStep, error) {
	// Walk(v, n.F)
	if c, ok := wIsCall(s, "Walk", 2); ok {
		if f, ok := wNField(c.Args[1], recv); ok {
			return []wStep{{"one", prefix + f, ""}}, nil
		}
	}
	// walkList(v, n.F)
	if c, ok := wIsCall(s, "walkList", 2); ok {
		if f, ok := wNField(c.Args[1], recv); ok {
			return []wStep{{"list", prefix + f, ""}}, nil
		}
	}
	// for _, x := range n.F { Walk(v, x) }   |   for _, r := range n.F { walkList(v, r) }
	if rs, ok := s.(*ast.RangeStmt); ok && rs.Tok == token.DEFINE && wIsIdent(rs.Key, "_") && rs.Value != nil && len(rs.Body.List) == 1 {
		if f, ok := wNField(rs.X, recv); ok {
			if xv, ok := rs.Value.(*ast.Ident); ok {
				if c, ok := wIsCall(rs.Body.List[0], "Walk", 2); ok && wIsIdent(c.Args[1], xv.Name) {
					return []wStep{{"range", prefix + f, ""}}, nil
				}
				if c, ok := wIsCall(rs.Body.List[0], "walkList", 2); ok && wIsIdent(c.Args[1], xv.Name) {
					return []wStep{{"rows", prefix + f, ""}}, nil
				}
			}
		}
	}
	// parts loop directly over recv.Parts
	if f, ok := wPartsLoop(s, recv); ok {
		return []wStep{{"parts", prefix + f, ""}}, nil
	}
	if is, ok := s.(*ast.IfStmt); ok && is.Else == nil {
		// if n.F != nil { Walk(v, n.F) }
		if be, ok := is.Cond.(*ast.BinaryExpr); ok && is.Init == nil && be.Op == token.NEQ && wIsIdent(be.Y, "nil") {
			if f, ok := wNField(be.X, recv); ok && len(is.Body.List) == 1 {
				if c, ok := wIsCall(is.Body.List[0], "Walk", 2); ok {
					if f2, ok := wNField(c.Args[1], recv); ok && f2 == f {
						return []wStep{{"opt", prefix + f, ""}}, nil
					}
				}
				// if n.F != nil { for _, part := range n.F.Parts { … } }   (pointer to carrier)
				if rs, ok := is.Body.List[0].(*ast.RangeStmt); ok {
					if sel, ok := rs.X.(*ast.SelectorExpr); ok {
						if f2, ok := wNField(sel.X, recv); ok && f2 == f {
							// rewrite n.F.Parts as a selector on a pseudo receiver
							cp := *rs
							cp.X = &ast.SelectorExpr{X: ast.NewIdent("\x00carrier"), Sel: sel.Sel}
							if pf, ok := wPartsLoop(&cp, "\x00carrier"); ok {
								return []wStep{{"parts", prefix + f + "_" + pf, ""}}, nil
							}
						}
					}
				}
			}
		}
		// if e := n.F; e != nil { switch e := e.(type) { case *Carrier: <simple steps over e> … } }
		if as, ok := is.Init.(*ast.AssignStmt); ok && as.Tok == token.DEFINE && len(as.Lhs) == 1 && len(as.Rhs) == 1 && len(is.Body.List) == 1 {
			if ev, ok := as.Lhs[0].(*ast.Ident); ok {
				if f, ok := wNField(as.Rhs[0], recv); ok {
					if be, ok := is.Cond.(*ast.BinaryExpr); ok && be.Op == token.NEQ && wIsIdent(be.X, ev.Name) && wIsIdent(be.Y, "nil") {
						if ts, ok := is.Body.List[0].(*ast.TypeSwitchStmt); ok && ts.Init == nil {
							if tas, ok := ts.Assign.(*ast.AssignStmt); ok && len(tas.Lhs) == 1 && len(tas.Rhs) == 1 {
								cv, ok1 := tas.Lhs[0].(*ast.Ident)
								ta, ok2 := tas.Rhs[0].(*ast.TypeAssertExpr)
								if ok1 && ok2 && ta.Type == nil && wIsIdent(ta.X, ev.Name) {
									var res []wStep
									for _, cc := range ts.Body.List {
										cl := cc.(*ast.CaseClause)
										if len(cl.List) != 1 {
											return nil, broken("dynamic field %s: case with %d types", f, len(cl.List))
										}
										st, ok := cl.List[0].(*ast.StarExpr)
										if !ok {
											return nil, broken("dynamic field %s: case %s not understood", f, wExprStr(fset, cl.List[0]))
										}
										cid, ok := st.X.(*ast.Ident)
										if !ok {
											return nil, broken("dynamic field %s: case %s not understood", f, wExprStr(fset, cl.List[0]))
										}
										for _, bs := range cl.Body {
											steps, err := wSimpleStep(fset, bs, cv.Name, prefix+f+"_"+cid.Name+"_")
											if err != nil {
												return nil, err
											}
											res = append(res, steps...)
										}
									}
									return res, nil
								}
							}
						}
					}
				}
			}
		}
	}
	return nil, broken("statement form not understood in Walk: %s", wExprStr(fset, s))
}

func wCaseSteps(fset *token.FileSet, body []ast.Stmt) ([]wStep, error) {
	var res []wStep
	for _, s := range body {
		// if !n.Flag { <simple steps> }
		if is, ok := s.(*ast.IfStmt); ok && is.Init == nil && is.Else == nil {
			if ue, ok := is.Cond.(*ast.UnaryExpr); ok && ue.Op == token.NOT {
				if g, ok := wNField(ue.X, "n"); ok {
					for _, bs := range is.Body.List {
						steps, err := wSimpleStep(fset, bs, "n", "")
						if err != nil {
							return nil, err
						}
						for _, st := range steps {
							st.grd = g
							res = append(res, st)
						}
					}
					continue
				}
			}
		}
		steps, err := wSimpleStep(fset, s, "n", "")
		if err != nil {
			return nil, err
		}
		res = append(res, steps...)
	}
	return res, nil
}

func readWalkSwitch(repo string) (*walkSwitch, error) {
	fset := token.NewFileSet()
	f, err := parser.ParseFile(fset, filepath.Join(repo, "ast", "walk.go"), nil, 0)
	if err != nil {
		return nil, broken("cannot parse ast/walk.go: %v", err)
	}
	funcs := map[string]*ast.FuncDecl{}
	for _, d := range f.Decls {
		if fd, ok := d.(*ast.FuncDecl); ok {
			key := fd.Name.Name
			if fd.Recv != nil {
				key = wExprStr(fset, fd.Recv.List[0].Type) + "." + key
			}
			funcs[key] = fd
		}
	}
	// the fixed frame around the switch (fingerprints)
	expect := map[string]string{
		"walkList":        "{ for _, node := range list { Walk(v, node) } }",
		"inspector.Visit": "{ if f(node) { return f } return nil }",
		"Inspect":         "{ Walk(inspector(f), node) }",
	}
	for name, want := range expect {
		fd := funcs[name]
		if fd == nil {
			return nil, broken("walk.go: func %s not found", name)
		}
		if got := wExprStr(fset, fd.Body); got != want {
			return nil, broken("walk.go: body of %s changed: %s", name, got)
		}
	}
	w := funcs["Walk"]
	if w == nil || len(w.Body.List) != 3 {
		return nil, broken("walk.go: func Walk not found or its frame changed")
	}
	if got := wExprStr(fset, w.Body.List[0]); got != "if v = v.Visit(node); v == nil { return }" {
		return nil, broken("walk.go: Walk prologue changed: %s", got)
	}
	if got := wExprStr(fset, w.Body.List[2]); got != "v.Visit(nil)" {
		return nil, broken("walk.go: Walk epilogue changed: %s", got)
	}
	ts, ok := w.Body.List[1].(*ast.TypeSwitchStmt)
	if !ok || ts.Init != nil || wExprStr(fset, ts.Assign) != "n := node.(type)" {
		return nil, broken("walk.go: Walk's type switch changed")
	}
	res := &walkSwitch{cases: map[string][]wStep{}}
	for _, cc := range ts.Body.List {
		cl := cc.(*ast.CaseClause)
		if cl.List == nil {
			if len(cl.Body) == 1 {
				if es, ok := cl.Body[0].(*ast.ExprStmt); ok {
					if c, ok := es.X.(*ast.CallExpr); ok && wIsIdent(c.Fun, "panic") {
						res.defaultPanic = true
						continue
					}
				}
			}
			return nil, broken("walk.go: default clause not understood: %s", wExprStr(fset, cl))
		}
		if len(cl.List) > 1 && len(cl.Body) > 0 {
			return nil, broken("walk.go: multi-type case with a body")
		}
		steps, err := wCaseSteps(fset, cl.Body)
		if err != nil {
			return nil, err
		}
		for _, t := range cl.List {
			st, ok := t.(*ast.StarExpr)
			if !ok {
				return nil, broken("walk.go: case type %s not understood", wExprStr(fset, t))
			}
			id, ok := st.X.(*ast.Ident)
			if !ok {
				return nil, broken("walk.go: case type %s not understood", wExprStr(fset, t))
			}
			if _, dup := res.cases[id.Name]; dup {
				return nil, broken("walk.go: duplicate case %s", id.Name)
			}
			res.cases[id.Name] = steps
			res.caseOrder = append(res.caseOrder, id.Name)
		}
	}
	return res, nil
}

func wLeanName(s string) string { return "«" + s + "»" }

func genWalk(repo, out string) error {
	p, err := loadAstPkg(repo)
	if err != nil {
		return err
	}
	ws, err := readWalkSwitch(repo)
	if err != nil {
		return err
	}
	kinds := p.kinds()
	if len(kinds) < 40 {
		return broken("only %d node kinds found", len(kinds))
	}
	kindSet := map[string]bool{}
	for _, k := range kinds {
		kindSet[k] = true
	}
	for _, c := range ws.caseOrder {
		if !kindSet[c] {
			return broken("walk.go: case *%s is not a node kind (no struct with Pos and End)", c)
		}
	}
	fields := map[string][]wField{}
	fldSet := map[string]bool{}
	for _, k := range kinds {
		fs, err := p.nodeFields(k)
		if err != nil {
			return err
		}
		fields[k] = fs
		for _, f := range fs {
			fldSet[f.name] = true
		}
	}
	// carriers and the paths through dynamic fields
	var carriers []string
	for _, n := range p.order {
		// exported non-node structs only (a dynamic field of a tree built by the parser never
		// holds package-private helper structs such as commentmap.go's cgPos)
		if ast.IsExported(n) && len(p.carrierFields(n)) > 0 {
			carriers = append(carriers, n)
		}
	}
	for _, k := range kinds {
		for _, f := range fields[k] {
			if f.kind == "dyn" {
				for _, c := range carriers {
					for _, cf := range p.carrierFields(c) {
						fldSet[f.name+"_"+c+"_"+cf.name] = true
					}
				}
			}
		}
	}
	for _, c := range ws.caseOrder {
		for _, s := range ws.cases[c] {
			fldSet[s.fld] = true
			if s.grd != "" {
				fldSet[s.grd] = true
			}
		}
	}
	var flds []string
	for f := range fldSet {
		flds = append(flds, f)
	}
	sort.Strings(flds)

	var b bytes.Buffer
	w := func(format string, a ...interface{}) { fmt.Fprintf(&b, format, a...) }
	w("/- GENERATED by /verif/extract (target walk) from ast/walk.go, ast/ast.go, ast/ast_gop.go — do not edit. -/\n")
	w("import GopModel.Model.WalkModel\nnamespace GopModel.Generated.Walk\nopen GopModel.WalkModel\n\n")
	w("/-- Node kinds: struct types of package ast with Pos() and End() (declaration order). -/\ninductive Kind where\n")
	for _, k := range kinds {
		w("  | %s\n", wLeanName(k))
	}
	w("  deriving DecidableEq, Repr\n\n")
	w("def allKinds : List Kind := [\n")
	for i, k := range kinds {
		sep := ","
		if i == len(kinds)-1 {
			sep = ""
		}
		w("  .%s%s\n", wLeanName(k), sep)
	}
	w("]\n\ndef kindNames : List (String × Kind) := [\n")
	for i, k := range kinds {
		sep := ","
		if i == len(kinds)-1 {
			sep = ""
		}
		w("  (%q, .%s)%s\n", k, wLeanName(k), sep)
	}
	w("]\n\n/-- Field names (and paths through carrier structs) of all node kinds. -/\ninductive Fld where\n")
	for _, f := range flds {
		w("  | %s\n", wLeanName(f))
	}
	w("  deriving DecidableEq, Repr\n\n")
	w("def fldNames : List (String × Fld) := [\n")
	for i, f := range flds {
		sep := ","
		if i == len(flds)-1 {
			sep = ""
		}
		w("  (%q, .%s)%s\n", f, wLeanName(f), sep)
	}
	w("]\n\n/-- Fields of each kind in declaration order, classified by declared type. -/\ndef nodeFields : Kind → List (Fld × FKind)\n")
	for _, k := range kinds {
		w("  | .%s => [", wLeanName(k))
		for i, f := range fields[k] {
			if i > 0 {
				w(", ")
			}
			w("(.%s, .%s)", wLeanName(f.name), f.kind)
		}
		w("]\n")
	}
	w("\n/-- Single-node fields documented as possibly nil (field comment: \"or nil\", \"may be nil\", …). -/\ndef nilable : Kind → List Fld\n")
	for _, k := range kinds {
		w("  | .%s => [", wLeanName(k))
		first := true
		for _, f := range fields[k] {
			if f.nilable {
				if !first {
					w(", ")
				}
				first = false
				w(".%s", wLeanName(f.name))
			}
		}
		w("]\n")
	}
	w("\n/-- Carrier structs (not nodes themselves) and their node-holding fields. -/\ndef carriers : List (String × List (String × FKind)) := [\n")
	for i, c := range carriers {
		sep := ","
		if i == len(carriers)-1 {
			sep = ""
		}
		w("  (%q, [", c)
		for j, cf := range p.carrierFields(c) {
			if j > 0 {
				w(", ")
			}
			w("(%q, .%s)", cf.name, cf.kind)
		}
		w("])%s\n", sep)
	}
	w("]\n\n/-- The `case` of Walk's type switch for each kind (`none`: falls to `default:`). -/\ndef walkCase : Kind → Option (List (Step Fld))\n")
	for _, k := range kinds {
		steps, ok := ws.cases[k]
		if !ok {
			if ws.defaultPanic {
				w("  | .%s => none\n", wLeanName(k))
			} else { // no panicking default: the kind is visited, none of its fields is
				w("  | .%s => some []\n", wLeanName(k))
			}
			continue
		}
		w("  | .%s => some [", wLeanName(k))
		for i, s := range steps {
			if i > 0 {
				w(", ")
			}
			g := "none"
			if s.grd != "" {
				g = "some ." + wLeanName(s.grd)
			}
			w("⟨.%s, .%s, %s⟩", s.op, wLeanName(s.fld), g)
		}
		w("]\n")
	}
	w("\n/-- The `default:` clause panics. -/\ndef walkDefaultPanics : Bool := %v\n", ws.defaultPanic)
	w("\nend GopModel.Generated.Walk\n")
	if err := writeIfChanged(filepath.Join(out, "Walk.lean"), b.Bytes()); err != nil {
		return err
	}
	// facts for the harness' registry (kinds_gen.go is regenerated from this by the check)
	var facts bytes.Buffer
	for _, k := range kinds {
		fmt.Fprintf(&facts, "kind %s\n", k)
	}
	for _, c := range carriers {
		fmt.Fprintf(&facts, "carrier %s\n", c)
	}
	for _, k := range kinds {
		for _, f := range fields[k] {
			if f.nilable {
				fmt.Fprintf(&facts, "nilable %s.%s\n", k, f.name)
			}
		}
	}
	return writeIfChanged(filepath.Join(out, "walk_facts.txt"), facts.Bytes())
}
