// Target "tokens": token/token.go, tpl/token/token.go (and GOROOT/src/go/token/token.go, the
// reference for C16) -> lean/GopModel/Generated/Tokens.lean.
//
// What is translated (go/ast only, no type checker):
//   - every integer constant of the package (iota blocks, implicit repetition, references to
//     other constants, conversions Token(x), character literals, + and -, constants of an
//     imported token package: github.com/goplus/gogen/token from the module cache at the version
//     required by /repo/go.mod, go/token from GOROOT);
//   - the `tokens = [...]string{KEY: "spelling"}` table (index, spelling) and its length;
//   - the `switch op {case ...: return n}` of Precedence;
//   - the boolean bodies of IsOperator / IsLiteral / IsKeyword (comparisons of the receiver with
//     constants, && and ||) and the guards of String and Len (with the fixed statement shape
//     around them checked, not assumed);
//   - the shape of the keyword map initialisation and of tpl ForEach (loop bounds).
//
// Anything else in these positions is refused ("tie broken").
package main

import (
	"bytes"
	"fmt"
	"go/ast"
	"go/parser"
	"go/printer"
	"go/token"
	"os"
	"os/exec"
	"path/filepath"
	"regexp"
	"sort"
	"strconv"
	"strings"
)

func init() { register("tokens", tokTarget) }

// ---- constant evaluation over one package directory -------------------------------------

type tokPkg struct {
	dir     string
	fset    *token.FileSet
	files   []*ast.File
	consts  map[string]int64
	order   []string          // constant names in declaration order
	pending map[string]tokDef // not yet evaluated
	imports map[string]string // local import name -> import path (union over files)
	resolve func(path string) (*tokPkg, error)
	busy    map[string]bool
}

type tokDef struct {
	expr ast.Expr
	iota int64
}

func tokLoadPkg(dir string, resolve func(string) (*tokPkg, error)) (*tokPkg, error) {
	p := &tokPkg{dir: dir, fset: token.NewFileSet(), consts: map[string]int64{}, pending: map[string]tokDef{},
		imports: map[string]string{}, resolve: resolve, busy: map[string]bool{}}
	ents, err := os.ReadDir(dir)
	if err != nil {
		return nil, broken("cannot read %s: %v", dir, err)
	}
	for _, e := range ents {
		n := e.Name()
		if e.IsDir() || !strings.HasSuffix(n, ".go") || strings.HasSuffix(n, "_test.go") {
			continue
		}
		f, err := parser.ParseFile(p.fset, filepath.Join(dir, n), nil, parser.ParseComments)
		if err != nil {
			return nil, broken("cannot parse %s: %v", n, err)
		}
		p.files = append(p.files, f)
		for _, im := range f.Imports {
			path, _ := strconv.Unquote(im.Path.Value)
			name := filepath.Base(path)
			if im.Name != nil {
				name = im.Name.Name
			}
			p.imports[name] = path
		}
		for _, d := range f.Decls {
			gd, ok := d.(*ast.GenDecl)
			if !ok || gd.Tok != token.CONST {
				continue
			}
			var last []ast.Expr
			for i, sp := range gd.Specs {
				vs := sp.(*ast.ValueSpec)
				vals := vs.Values
				if len(vals) == 0 {
					vals = last
				} else {
					last = vals
				}
				for j, nm := range vs.Names {
					if j >= len(vals) {
						continue
					}
					if nm.Name == "_" {
						continue
					}
					p.pending[nm.Name] = tokDef{vals[j], int64(i)}
					if n == "token.go" { // only the token file's constants are emitted
						p.order = append(p.order, nm.Name)
					}
				}
			}
		}
	}
	return p, nil
}

func (p *tokPkg) value(name string) (int64, error) {
	if v, ok := p.consts[name]; ok {
		return v, nil
	}
	d, ok := p.pending[name]
	if !ok {
		return 0, fmt.Errorf("unknown constant %s in %s", name, p.dir)
	}
	if p.busy[name] {
		return 0, fmt.Errorf("constant cycle at %s", name)
	}
	p.busy[name] = true
	v, err := p.eval(d.expr, d.iota)
	p.busy[name] = false
	if err != nil {
		return 0, err
	}
	p.consts[name] = v
	return v, nil
}

func (p *tokPkg) eval(e ast.Expr, iota int64) (int64, error) {
	switch x := e.(type) {
	case *ast.BasicLit:
		switch x.Kind {
		case token.INT:
			v, err := strconv.ParseInt(x.Value, 0, 64)
			return v, err
		case token.CHAR:
			r, _, _, err := strconv.UnquoteChar(x.Value[1:len(x.Value)-1], '\'')
			return int64(r), err
		}
	case *ast.Ident:
		if x.Name == "iota" {
			return iota, nil
		}
		return p.value(x.Name)
	case *ast.ParenExpr:
		return p.eval(x.X, iota)
	case *ast.UnaryExpr:
		v, err := p.eval(x.X, iota)
		if err != nil {
			return 0, err
		}
		switch x.Op {
		case token.SUB:
			return -v, nil
		case token.ADD:
			return v, nil
		}
	case *ast.BinaryExpr:
		a, err := p.eval(x.X, iota)
		if err != nil {
			return 0, err
		}
		b, err := p.eval(x.Y, iota)
		if err != nil {
			return 0, err
		}
		switch x.Op {
		case token.ADD:
			return a + b, nil
		case token.SUB:
			return a - b, nil
		case token.MUL:
			return a * b, nil
		case token.SHL:
			return a << uint(b), nil
		case token.OR:
			return a | b, nil
		}
	case *ast.CallExpr: // conversion T(x) with T a named integer type
		if id, ok := x.Fun.(*ast.Ident); ok && len(x.Args) == 1 && (id.Name == "Token" || id.Name == "int" || id.Name == "uint" || id.Name == "Pos") {
			return p.eval(x.Args[0], iota)
		}
		if sel, ok := x.Fun.(*ast.SelectorExpr); ok && len(x.Args) == 1 && sel.Sel.Name == "Token" {
			return p.eval(x.Args[0], iota)
		}
	case *ast.SelectorExpr:
		if id, ok := x.X.(*ast.Ident); ok {
			path, ok := p.imports[id.Name]
			if !ok {
				return 0, fmt.Errorf("unknown package %s", id.Name)
			}
			q, err := p.resolve(path)
			if err != nil {
				return 0, err
			}
			return q.value(x.Sel.Name)
		}
	}
	return 0, fmt.Errorf("unsupported constant expression %s", tokShow(p.fset, e))
}

func tokShow(fset *token.FileSet, n interface{}) string {
	var b bytes.Buffer
	printer.Fprint(&b, fset, n)
	return b.String()
}

// all integer constants that evaluate (string/other constants are skipped silently only if
// their expression is a string literal; anything else unsupported is an error).
func (p *tokPkg) evalAll() error {
	for _, n := range p.order {
		d := p.pending[n]
		if bl, ok := d.expr.(*ast.BasicLit); ok && (bl.Kind == token.STRING || bl.Kind == token.FLOAT) {
			continue
		}
		if _, err := p.value(n); err != nil {
			return broken("%s: constant %s: %v", p.dir, n, err)
		}
	}
	return nil
}

func (p *tokPkg) funcDecl(recv, name string) *ast.FuncDecl {
	for _, f := range p.files {
		for _, d := range f.Decls {
			fd, ok := d.(*ast.FuncDecl)
			if !ok || fd.Name.Name != name {
				continue
			}
			if recv == "" && fd.Recv == nil {
				return fd
			}
			if recv != "" && fd.Recv != nil && len(fd.Recv.List) == 1 {
				if id, ok := fd.Recv.List[0].Type.(*ast.Ident); ok && id.Name == recv {
					return fd
				}
			}
		}
	}
	return nil
}

// tokens table: `var tokens = [...]string{K: "v", ...}`
func (p *tokPkg) tokensTable() (map[int64]string, int64, error) {
	for _, f := range p.files {
		for _, d := range f.Decls {
			gd, ok := d.(*ast.GenDecl)
			if !ok || gd.Tok != token.VAR {
				continue
			}
			for _, sp := range gd.Specs {
				vs := sp.(*ast.ValueSpec)
				if len(vs.Names) != 1 || vs.Names[0].Name != "tokens" || len(vs.Values) != 1 {
					continue
				}
				cl, ok := vs.Values[0].(*ast.CompositeLit)
				if !ok {
					return nil, 0, broken("tokens is not a composite literal")
				}
				at, ok := cl.Type.(*ast.ArrayType)
				if !ok || tokShow(p.fset, at.Elt) != "string" {
					return nil, 0, broken("tokens is not an array of string")
				}
				if _, ok := at.Len.(*ast.Ellipsis); !ok {
					return nil, 0, broken("tokens is not a [...]string array")
				}
				res := map[int64]string{}
				var max int64 = -1
				for _, el := range cl.Elts {
					kv, ok := el.(*ast.KeyValueExpr)
					if !ok {
						return nil, 0, broken("tokens element without key: %s", tokShow(p.fset, el))
					}
					k, err := p.eval(kv.Key, 0)
					if err != nil {
						return nil, 0, broken("tokens key %s: %v", tokShow(p.fset, kv.Key), err)
					}
					bl, ok := kv.Value.(*ast.BasicLit)
					if !ok || bl.Kind != token.STRING {
						return nil, 0, broken("tokens value is not a string literal: %s", tokShow(p.fset, kv.Value))
					}
					s, err := strconv.Unquote(bl.Value)
					if err != nil {
						return nil, 0, broken("tokens value %s: %v", bl.Value, err)
					}
					if _, dup := res[k]; dup {
						return nil, 0, broken("duplicate index %d in tokens (Go would reject this)", k)
					}
					if k < 0 {
						return nil, 0, broken("negative index in tokens")
					}
					res[k] = s
					if k > max {
						max = k
					}
				}
				return res, max + 1, nil
			}
		}
	}
	return nil, 0, broken("no `var tokens` in %s", p.dir)
}

// ---- restricted boolean expressions over the receiver -----------------------------------

// leanBool translates comparisons between the receiver `recv` and constant expressions,
// combined by && and ||, into a Lean Bool term over `(tok : Nat)`.  `lenTokens` is the
// value of len(tokens).
func (p *tokPkg) leanBool(e ast.Expr, recv string, lenTokens int64) (string, error) {
	switch x := e.(type) {
	case *ast.ParenExpr:
		return p.leanBool(x.X, recv, lenTokens)
	case *ast.BinaryExpr:
		switch x.Op {
		case token.LAND, token.LOR:
			a, err := p.leanBool(x.X, recv, lenTokens)
			if err != nil {
				return "", err
			}
			b, err := p.leanBool(x.Y, recv, lenTokens)
			if err != nil {
				return "", err
			}
			op := "&&"
			if x.Op == token.LOR {
				op = "||"
			}
			return "(" + a + " " + op + " " + b + ")", nil
		case token.LSS, token.LEQ, token.GTR, token.GEQ, token.EQL, token.NEQ:
			a, err := p.leanArith(x.X, recv, lenTokens)
			if err != nil {
				return "", err
			}
			b, err := p.leanArith(x.Y, recv, lenTokens)
			if err != nil {
				return "", err
			}
			op := map[token.Token]string{token.LSS: "<", token.LEQ: "≤", token.GTR: ">", token.GEQ: "≥", token.EQL: "=", token.NEQ: "≠"}[x.Op]
			return "decide (" + a + " " + op + " " + b + ")", nil
		}
	}
	return "", fmt.Errorf("unsupported boolean expression %s", tokShow(p.fset, e))
}

func (p *tokPkg) leanArith(e ast.Expr, recv string, lenTokens int64) (string, error) {
	if id, ok := e.(*ast.Ident); ok && id.Name == recv {
		return "tok", nil
	}
	if c, ok := e.(*ast.CallExpr); ok && len(c.Args) == 1 { // Token(len(tokens))
		if id, ok := c.Fun.(*ast.Ident); ok && id.Name == "Token" {
			if in, ok := c.Args[0].(*ast.CallExpr); ok && tokShow(p.fset, in) == "len(tokens)" {
				return strconv.FormatInt(lenTokens, 10), nil
			}
		}
	}
	v, err := p.eval(e, 0)
	if err != nil {
		return "", err
	}
	if v < 0 {
		return "", fmt.Errorf("negative constant in comparison")
	}
	return strconv.FormatInt(v, 10), nil
}

// body of a predicate method: exactly `return <bool expr>`
func (p *tokPkg) predicate(recvType, name string, lenTokens int64) (string, error) {
	fd := p.funcDecl(recvType, name)
	if fd == nil {
		return "", broken("method %s.%s not found", recvType, name)
	}
	recv := fd.Recv.List[0].Names[0].Name
	if len(fd.Body.List) != 1 {
		return "", broken("%s.%s: body is not a single return", recvType, name)
	}
	rs, ok := fd.Body.List[0].(*ast.ReturnStmt)
	if !ok || len(rs.Results) != 1 {
		return "", broken("%s.%s: body is not a single return", recvType, name)
	}
	s, err := p.leanBool(rs.Results[0], recv, lenTokens)
	if err != nil {
		return "", broken("%s.%s: %v", recvType, name, err)
	}
	return s, nil
}

var tokWS = regexp.MustCompile(`\s+`)

func tokNorm(s string) string { return strings.TrimSpace(tokWS.ReplaceAllString(s, " ")) }

// String(): guard translated, the statements around it must have today's shape.
func (p *tokPkg) stringGuard(lenTokens int64) (string, error) {
	fd := p.funcDecl("Token", "String")
	if fd == nil {
		return "", broken("Token.String not found")
	}
	recv := fd.Recv.List[0].Names[0].Name
	var ifs []*ast.IfStmt
	for _, st := range fd.Body.List {
		if is, ok := st.(*ast.IfStmt); ok {
			ifs = append(ifs, is)
		}
	}
	if len(ifs) != 2 {
		return "", broken("Token.String: expected two if statements")
	}
	if got := tokNorm(tokShow(p.fset, ifs[0].Body)); got != "{ s = tokens["+recv+"] }" {
		return "", broken("Token.String: first if body is %q", got)
	}
	if got := tokNorm(tokShow(p.fset, ifs[1])); got != `if s == "" { s = "token(" + strconv.Itoa(int(`+recv+`)) + ")" }` {
		return "", broken("Token.String: second if is %q", got)
	}
	// remaining statements: `s := ""` (or named result) and `return s` / `return`
	for _, st := range fd.Body.List {
		switch tokNorm(tokShow(p.fset, st)) {
		case `s := ""`, "return s", "return":
		default:
			if _, ok := st.(*ast.IfStmt); !ok {
				return "", broken("Token.String: unexpected statement %q", tokNorm(tokShow(p.fset, st)))
			}
		}
	}
	g, err := p.leanBool(ifs[0].Cond, recv, lenTokens)
	if err != nil {
		return "", broken("Token.String guard: %v", err)
	}
	return g, nil
}

// tpl Len(): `if <guard> { return len(tokens[tok]) }; return 0`
func (p *tokPkg) lenGuard(lenTokens int64) (string, error) {
	fd := p.funcDecl("Token", "Len")
	if fd == nil {
		return "", broken("Token.Len not found")
	}
	recv := fd.Recv.List[0].Names[0].Name
	if len(fd.Body.List) != 2 {
		return "", broken("Token.Len: expected `if` + `return 0`")
	}
	is, ok := fd.Body.List[0].(*ast.IfStmt)
	if !ok || is.Else != nil || is.Init != nil || tokNorm(tokShow(p.fset, is.Body)) != "{ return len(tokens["+recv+"]) }" {
		return "", broken("Token.Len: unexpected first statement %q", tokNorm(tokShow(p.fset, fd.Body.List[0])))
	}
	if tokNorm(tokShow(p.fset, fd.Body.List[1])) != "return 0" {
		return "", broken("Token.Len: unexpected last statement")
	}
	g, err := p.leanBool(is.Cond, recv, lenTokens)
	if err != nil {
		return "", broken("Token.Len guard: %v", err)
	}
	return g, nil
}

// Precedence(): `switch op { case A, B: return n ... }; return LowestPrec`
func (p *tokPkg) precedence() ([][2]int64, int64, error) {
	fd := p.funcDecl("Token", "Precedence")
	if fd == nil {
		return nil, 0, broken("Token.Precedence not found")
	}
	recv := fd.Recv.List[0].Names[0].Name
	if len(fd.Body.List) != 2 {
		return nil, 0, broken("Precedence: expected switch + return")
	}
	sw, ok := fd.Body.List[0].(*ast.SwitchStmt)
	if !ok || sw.Init != nil || tokShow(p.fset, sw.Tag) != recv {
		return nil, 0, broken("Precedence: expected `switch %s`", recv)
	}
	var res [][2]int64
	seen := map[int64]bool{}
	for _, c := range sw.Body.List {
		cc := c.(*ast.CaseClause)
		if cc.List == nil {
			return nil, 0, broken("Precedence: default clause")
		}
		if len(cc.Body) != 1 {
			return nil, 0, broken("Precedence: case body is not a single return")
		}
		rs, ok := cc.Body[0].(*ast.ReturnStmt)
		if !ok || len(rs.Results) != 1 {
			return nil, 0, broken("Precedence: case body is not a single return")
		}
		v, err := p.eval(rs.Results[0], 0)
		if err != nil {
			return nil, 0, broken("Precedence: %v", err)
		}
		for _, e := range cc.List {
			k, err := p.eval(e, 0)
			if err != nil {
				return nil, 0, broken("Precedence: %v", err)
			}
			if seen[k] {
				return nil, 0, broken("Precedence: duplicate case %d", k)
			}
			seen[k] = true
			res = append(res, [2]int64{k, v})
		}
	}
	rs, ok := fd.Body.List[1].(*ast.ReturnStmt)
	if !ok || len(rs.Results) != 1 {
		return nil, 0, broken("Precedence: no final return")
	}
	dflt, err := p.eval(rs.Results[0], 0)
	if err != nil {
		return nil, 0, broken("Precedence: %v", err)
	}
	return res, dflt, nil
}

// keyword map initialisation: `for i := keyword_beg + 1; i < keyword_end; i++ { keywords[tokens[i]] = i }`
// and Lookup: `if tok, is_keyword := keywords[ident]; is_keyword { return tok }; return IDENT`
func (p *tokPkg) keywordShape() error {
	found := false
	for _, f := range p.files {
		ast.Inspect(f, func(n ast.Node) bool {
			if fs, ok := n.(*ast.ForStmt); ok {
				got := tokNorm(tokShow(p.fset, fs))
				if strings.Contains(got, "keywords[") {
					if got == "for i := keyword_beg + 1; i < keyword_end; i++ { keywords[tokens[i]] = i }" {
						found = true
					}
				}
			}
			return true
		})
	}
	if !found {
		return broken("%s: keyword map is no longer filled by `for i := keyword_beg + 1; i < keyword_end; i++ { keywords[tokens[i]] = i }`", p.dir)
	}
	fd := p.funcDecl("", "Lookup")
	if fd == nil {
		return broken("Lookup not found")
	}
	got := tokNorm(tokShow(p.fset, fd.Body))
	want := "{ if tok, is_keyword := keywords[ident]; is_keyword { return tok } return IDENT }"
	if got != want {
		return broken("Lookup body changed: %q", got)
	}
	return nil
}

// tpl ForEach loop bounds: from operator_beg+1 (when from == 0) while from < operator_end
func (p *tokPkg) forEachShape() error {
	fd := p.funcDecl("", "ForEach")
	if fd == nil {
		return broken("tpl/token.ForEach not found")
	}
	got := tokNorm(tokShow(p.fset, fd.Body))
	want := `{ if from == 0 { from = operator_beg + 1 } for from < operator_end { if s := tokens[from]; s != "" { if f(Token(from), s) == Break { break } } from++ } }`
	if got != want {
		return broken("tpl/token.ForEach body changed: %q", got)
	}
	return nil
}

// ---- Lean output ---------------------------------------------------------------------------

func tokLeanStr(s string) string {
	var b strings.Builder
	b.WriteByte('"')
	for _, c := range []byte(s) {
		switch {
		case c == '"' || c == '\\':
			b.WriteByte('\\')
			b.WriteByte(c)
		case c >= 0x20 && c < 0x7f:
			b.WriteByte(c)
		default:
			fmt.Fprintf(&b, "\\x%02x", c)
		}
	}
	b.WriteByte('"')
	return b.String()
}

func tokIdentOK(s string) bool {
	ok, _ := regexp.MatchString(`^[A-Za-z_][A-Za-z0-9_]*$`, s)
	return ok
}

func (p *tokPkg) emit(b *bytes.Buffer, ns string, withPrec, withPreds, withLen bool) error {
	if err := p.evalAll(); err != nil {
		return err
	}
	table, n, err := p.tokensTable()
	if err != nil {
		return err
	}
	fmt.Fprintf(b, "\nnamespace %s\n\n", ns)
	fmt.Fprintf(b, "/-- every non-negative integer constant of the package, in declaration order -/\ndef consts : List (String × Nat) := [\n")
	first := true
	for _, nm := range p.order {
		v, ok := p.consts[nm]
		if !ok || v < 0 {
			continue
		}
		if !first {
			b.WriteString(",\n")
		}
		first = false
		fmt.Fprintf(b, "  (%s, %d)", tokLeanStr(nm), v)
	}
	b.WriteString("]\n\n")
	for _, nm := range p.order {
		v, ok := p.consts[nm]
		if !ok || v < 0 || !tokIdentOK(nm) {
			continue
		}
		fmt.Fprintf(b, "def «%s» : Nat := %d\n", nm, v)
	}
	fmt.Fprintf(b, "\n/-- len(tokens) -/\ndef tokensLen : Nat := %d\n\n", n)
	fmt.Fprintf(b, "/-- the non-empty entries of the `tokens` array: (index, spelling), by index -/\ndef tokens : List (Nat × String) := [\n")
	keys := make([]int64, 0, len(table))
	for k := range table {
		keys = append(keys, k)
	}
	sort.Slice(keys, func(i, j int) bool { return keys[i] < keys[j] })
	first = true
	for _, k := range keys {
		if table[k] == "" {
			continue
		}
		if !first {
			b.WriteString(",\n")
		}
		first = false
		fmt.Fprintf(b, "  (%d, %s)", k, tokLeanStr(table[k]))
	}
	b.WriteString("]\n\n")
	fmt.Fprintf(b, "/-- the same entries with the spelling as the bytes of the Go string -/\ndef tokenBytes : List (Nat × List UInt8) := [\n")
	first = true
	for _, k := range keys {
		if table[k] == "" {
			continue
		}
		if !first {
			b.WriteString(",\n")
		}
		first = false
		fmt.Fprintf(b, "  (%d, [", k)
		for i, c := range []byte(table[k]) {
			if i > 0 {
				b.WriteString(", ")
			}
			fmt.Fprintf(b, "0x%02x", c)
		}
		b.WriteString("])")
	}
	b.WriteString("]\n\n")
	g, err := p.stringGuard(n)
	if err != nil {
		return err
	}
	fmt.Fprintf(b, "/-- guard of `Token.String` (`s = tokens[tok]` only under it) -/\ndef stringGuard (tok : Nat) : Bool := %s\n\n", g)
	if withPrec {
		pr, dflt, err := p.precedence()
		if err != nil {
			return err
		}
		fmt.Fprintf(b, "/-- the cases of `Token.Precedence` (token, precedence) and its default -/\ndef precCases : List (Nat × Nat) := [")
		for i, kv := range pr {
			if i > 0 {
				b.WriteString(", ")
			}
			fmt.Fprintf(b, "(%d, %d)", kv[0], kv[1])
		}
		fmt.Fprintf(b, "]\ndef precDefault : Nat := %d\n\n", dflt)
	}
	if withPreds {
		for _, nm := range []string{"IsOperator", "IsLiteral", "IsKeyword"} {
			s, err := p.predicate("Token", nm, n)
			if err != nil {
				return err
			}
			fmt.Fprintf(b, "def %s (tok : Nat) : Bool := %s\n", strings.ToLower(nm[:1])+nm[1:], s)
		}
		if err := p.keywordShape(); err != nil {
			return err
		}
		b.WriteString("\n")
	}
	if withLen {
		s, err := p.lenGuard(n)
		if err != nil {
			return err
		}
		fmt.Fprintf(b, "/-- guard of `Token.Len` (`len(tokens[tok])` under it, else 0) -/\ndef lenGuard (tok : Nat) : Bool := %s\n\n", s)
		if err := p.forEachShape(); err != nil {
			return err
		}
	}
	fmt.Fprintf(b, "end %s\n", ns)
	return nil
}

func tokGoEnv(key string) string {
	cmd := exec.Command("go", "env", key)
	cmd.Env = append(os.Environ(), "GOFLAGS=-mod=mod", "GOTOOLCHAIN=local")
	out, err := cmd.Output()
	if err != nil {
		return ""
	}
	return strings.TrimSpace(string(out))
}

func tokTarget(repo, out string) error {
	goroot := tokGoEnv("GOROOT")
	modcache := tokGoEnv("GOMODCACHE")
	// versions of required modules from go.mod
	gomod, err := os.ReadFile(filepath.Join(repo, "go.mod"))
	if err != nil {
		return broken("go.mod: %v", err)
	}
	modver := map[string]string{}
	for _, m := range regexp.MustCompile(`(?m)^\s*(?:require\s+)?([a-zA-Z0-9./_-]+)\s+(v[0-9][^\s]*)`).FindAllStringSubmatch(string(gomod), -1) {
		modver[m[1]] = m[2]
	}
	cache := map[string]*tokPkg{}
	var resolve func(path string) (*tokPkg, error)
	resolve = func(path string) (*tokPkg, error) {
		if p, ok := cache[path]; ok {
			return p, nil
		}
		var dir string
		switch {
		case strings.HasPrefix(path, "github.com/goplus/xgo/"):
			dir = filepath.Join(repo, strings.TrimPrefix(path, "github.com/goplus/xgo/"))
		case !strings.Contains(strings.SplitN(path, "/", 2)[0], "."):
			dir = filepath.Join(goroot, "src", path)
		default:
			for mod, ver := range modver {
				if path == mod || strings.HasPrefix(path, mod+"/") {
					dir = filepath.Join(modcache, mod+"@"+ver, strings.TrimPrefix(path, mod))
				}
			}
		}
		if dir == "" {
			return nil, fmt.Errorf("cannot locate package %s", path)
		}
		p, err := tokLoadPkg(dir, resolve)
		if err != nil {
			return nil, err
		}
		cache[path] = p
		return p, nil
	}
	var b bytes.Buffer
	b.WriteString("/- GENERATED by /verif/extract (target `tokens`) from token/token.go, tpl/token/token.go of the\n   tree under test and go/token of the toolchain.  Do not edit. Definitions only. -/\n")
	b.WriteString("namespace GopModel.Generated.Tokens\n")
	x, err := resolve("github.com/goplus/xgo/token")
	if err != nil {
		return err
	}
	if err := x.emit(&b, "XGo", true, true, false); err != nil {
		return err
	}
	t, err := resolve("github.com/goplus/xgo/tpl/token")
	if err != nil {
		return err
	}
	if err := t.emit(&b, "Tpl", false, false, true); err != nil {
		return err
	}
	g, err := resolve("go/token")
	if err != nil {
		return err
	}
	if err := g.emit(&b, "Go", true, true, false); err != nil {
		return err
	}
	b.WriteString("\nend GopModel.Generated.Tokens\n")
	return writeIfChanged(filepath.Join(out, "Tokens.lean"), b.Bytes())
}
