// Target "dirclassify" (property C34), from parser/parser_gop.go:
//
//	Generated/DirClassify.lean  the `switch ext` of defaultClassKind as a table
//	                            (extensions of a case, rule for isProj, value of ok)
//
// and a fingerprint tie (DESIGN §2.8) for the functions that are modelled BY HAND in
// lean/GopModel/Model/DirClassify.lean (ParseFSDir, ParseFSEntry, ParseFSEntries, filter,
// reqPkg): a canonical print (comments dropped, white space normalised) is hashed and compared
// with the committed dirclassify_expect.txt.
//
// defaultClassKind: only `ext := path.Ext(fname)`, `switch ext { case "<lit>"…: return E, B }`,
// a final bare `return`, with E one of `fname == "<lit>"`, `true`, `false` and B `true`/`false`,
// are translated; anything else is a broken tie.
package main

import (
	"bytes"
	"crypto/sha256"
	_ "embed"
	"fmt"
	"go/ast"
	"go/parser"
	"go/printer"
	"go/token"
	"os"
	"path/filepath"
	"sort"
	"strconv"
	"strings"
)

func init() { register("dirclassify", dirclassify) }

//go:embed dirclassify_expect.txt
var dirclassifyExpect string

var dcHandFuncs = []string{"ParseFSDir", "ParseFSEntry", "ParseFSEntries", "filter", "reqPkg"}

func dcBytes(s string) string {
	parts := make([]string, len(s))
	for i := 0; i < len(s); i++ {
		parts[i] = fmt.Sprintf("0x%02x", s[i])
	}
	return "[" + strings.Join(parts, ", ") + "]"
}

func dcStrLit(e ast.Expr) (string, bool) {
	b, ok := e.(*ast.BasicLit)
	if !ok || b.Kind != token.STRING {
		return "", false
	}
	s, err := strconv.Unquote(b.Value)
	return s, err == nil
}

func dcBool(e ast.Expr) (bool, bool) {
	id, ok := e.(*ast.Ident)
	if !ok || (id.Name != "true" && id.Name != "false") {
		return false, false
	}
	return id.Name == "true", true
}

func dirclassify(repo, out string) error {
	fset := token.NewFileSet()
	src := filepath.Join(repo, "parser", "parser_gop.go")
	f, err := parser.ParseFile(fset, src, nil, 0)
	if err != nil {
		return broken("dirclassify: %v", err)
	}
	show := func(n ast.Node) string {
		var b bytes.Buffer
		printer.Fprint(&b, fset, n)
		return b.String()
	}
	funcs := map[string]*ast.FuncDecl{}
	for _, d := range f.Decls {
		if fd, ok := d.(*ast.FuncDecl); ok && fd.Recv == nil {
			funcs[fd.Name.Name] = fd
		}
	}
	// ---- defaultClassKind → table
	fd := funcs["defaultClassKind"]
	if fd == nil || fd.Body == nil {
		return broken("dirclassify: func defaultClassKind not found")
	}
	ps := fd.Type.Params.List
	if len(ps) != 1 || len(ps[0].Names) != 1 || fd.Type.Results == nil || fd.Type.Results.NumFields() != 2 {
		return broken("dirclassify: defaultClassKind signature changed: %s", show(fd.Type))
	}
	fname := ps[0].Names[0].Name
	body := fd.Body.List
	if len(body) != 3 {
		return broken("dirclassify: defaultClassKind body has %d statements, expected `ext := path.Ext(%s)`, `switch`, `return`", len(body), fname)
	}
	as, ok := body[0].(*ast.AssignStmt)
	if !ok || as.Tok != token.DEFINE || len(as.Lhs) != 1 || len(as.Rhs) != 1 || show(as.Rhs[0]) != "path.Ext("+fname+")" {
		return broken("dirclassify: defaultClassKind: unexpected first statement `%s`", show(body[0]))
	}
	extVar := show(as.Lhs[0])
	sw, ok := body[1].(*ast.SwitchStmt)
	if !ok || sw.Init != nil || sw.Tag == nil || show(sw.Tag) != extVar {
		return broken("dirclassify: defaultClassKind: unexpected switch `%s`", show(body[1]))
	}
	if r, ok := body[2].(*ast.ReturnStmt); !ok || len(r.Results) != 0 {
		return broken("dirclassify: defaultClassKind: unexpected last statement `%s`", show(body[2]))
	}
	var rows []string
	for _, st := range sw.Body.List {
		cc := st.(*ast.CaseClause)
		if cc.List == nil {
			return broken("dirclassify: defaultClassKind: default clause not supported")
		}
		var exts []string
		for _, e := range cc.List {
			s, ok := dcStrLit(e)
			if !ok {
				return broken("dirclassify: defaultClassKind: case expression `%s` is not a string literal", show(e))
			}
			exts = append(exts, dcBytes(s))
		}
		if len(cc.Body) != 1 {
			return broken("dirclassify: defaultClassKind: case body `%s` is not a single return", show(cc))
		}
		ret, ok := cc.Body[0].(*ast.ReturnStmt)
		if !ok || len(ret.Results) != 2 {
			return broken("dirclassify: defaultClassKind: case body `%s` is not `return E, B`", show(cc.Body[0]))
		}
		okv, isB := dcBool(ret.Results[1])
		if !isB {
			return broken("dirclassify: defaultClassKind: second result `%s` is not a boolean literal", show(ret.Results[1]))
		}
		var rule string
		if b, isB := dcBool(ret.Results[0]); isB {
			rule = ".never"
			if b {
				rule = ".always"
			}
		} else if be, isBin := ret.Results[0].(*ast.BinaryExpr); isBin && be.Op == token.EQL && show(be.X) == fname {
			lit, isLit := dcStrLit(be.Y)
			if !isLit {
				return broken("dirclassify: defaultClassKind: unsupported isProj expression `%s`", show(ret.Results[0]))
			}
			rule = "(.nameEq " + dcBytes(lit) + ")"
		} else {
			return broken("dirclassify: defaultClassKind: unsupported isProj expression `%s` (only `%s == \"lit\"`, true, false)", show(ret.Results[0]), fname)
		}
		rows = append(rows, fmt.Sprintf("  ([%s], %s, %v)", strings.Join(exts, ", "), rule, okv))
	}
	var b bytes.Buffer
	b.WriteString("/- GENERATED by extract/dirclassify.go from parser/parser_gop.go (defaultClassKind). Do not edit. -/\n")
	b.WriteString("import GopModel.Model.DirClassify\nnamespace GopModel.Generated.DirClassify\nopen GopModel.DirClassify\n\n")
	b.WriteString("/-- the `switch ext` of `defaultClassKind`: (case extensions, isProj rule, ok) -/\n")
	b.WriteString("def defaultClassKindCases : List (List Name × ProjRule × Bool) := [\n" + strings.Join(rows, ",\n") + "]\n\n")
	b.WriteString("end GopModel.Generated.DirClassify\n")
	if err := writeIfChanged(filepath.Join(out, "DirClassify.lean"), b.Bytes()); err != nil {
		return err
	}
	// ---- fingerprints of the hand-modelled functions
	want := map[string]string{}
	for _, l := range strings.Split(dirclassifyExpect, "\n") {
		if l = strings.TrimSpace(l); l == "" || strings.HasPrefix(l, "#") {
			continue
		}
		p := strings.Fields(l)
		if len(p) == 2 {
			want[p[0]] = p[1]
		}
	}
	var lines, bad []string
	names := append([]string{}, dcHandFuncs...)
	sort.Strings(names)
	for _, n := range names {
		fd := funcs[n]
		if fd == nil {
			bad = append(bad, n+" (missing)")
			continue
		}
		fd.Doc = nil
		canon := strings.Join(strings.Fields(show(fd)), " ") // parsed without comments
		h := fmt.Sprintf("%x", sha256.Sum256([]byte(canon)))[:16]
		lines = append(lines, n+" "+h)
		if want[n] != h {
			bad = append(bad, n)
		}
	}
	if os.Getenv("VERIF_DIRCLASSIFY_PRINT") != "" {
		fmt.Println(strings.Join(lines, "\n"))
	}
	if len(bad) > 0 {
		return broken("dirclassify: function(s) modelled by hand changed in parser/parser_gop.go: %s (review against lean/GopModel/Model/DirClassify.lean, then update extract/dirclassify_expect.txt)", strings.Join(bad, ", "))
	}
	return nil
}
