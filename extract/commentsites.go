// Translator target "commentsites" (property C21).
//
// Reads /repo/printer/*.go (non-test files without a `verif` build constraint) with go/ast and
// regenerates lean/GopModel/Generated/CommentSites.lean: the record `sites : Sites` of facts
// about the comment-queue code that the Lean model (Model/CommentQueue.lean) relies on:
//
//   - who calls writeComment / intersperseComments / nextComment,
//   - every assignment to cindex / comment / commentOffset / commentNewline / commentInfo and
//     its form, who assigns p.comments and p.useNodeComments,
//   - the statement shapes of nextComment, commentBefore, commentSizeBefore, the loop of
//     intersperseComments, flush, the prelude of printNode and the final flush of fprint,
//   - the value of `infinity`.
//
// Props/C21.lean proves `Sites.ok sites = true` by kernel evaluation; a change of the code that
// invalidates a fact (removed final flush, `p.cindex = 0` somewhere, `<=` in commentBefore, …)
// makes that obligation fail.  A function that is missing altogether is a broken tie (exit 3).
package main

import (
	"bytes"
	"fmt"
	"go/ast"
	"go/parser"
	"go/printer"
	"go/token"
	"os"
	"path/filepath"
	"regexp"
	"sort"
	"strconv"
	"strings"
)

func init() { register("commentsites", extractCommentSites) }

var csFnOrder = []string{"nextComment", "commentBefore", "commentSizeBefore", "intersperseComments",
	"flush", "setComment", "printNode", "fprint", "print"}

func csFnIndex(name string) int {
	for i, n := range csFnOrder {
		if n == name {
			return i
		}
	}
	return len(csFnOrder) // other
}

func csFnLean(name string) string {
	if csFnIndex(name) < len(csFnOrder) {
		return "." + name
	}
	return ".other"
}

var csKindOrder = []string{"inc", "zero", "fromQueue", "groupOffset", "inf", "haveNewline", "restore", "other"}

func csKindIndex(k string) int {
	for i, n := range csKindOrder {
		if n == k {
			return i
		}
	}
	return len(csKindOrder)
}

type csFunc struct {
	name string
	recv string
	decl *ast.FuncDecl
}

type csCtx struct {
	fset  *token.FileSet
	funcs []*csFunc
	byNm  map[string]*csFunc
	files []*ast.File
}

// str prints a node and renames the receiver to `p`.
func (c *csCtx) str(f *csFunc, n ast.Node) string {
	if n == nil {
		return ""
	}
	var b bytes.Buffer
	printer.Fprint(&b, c.fset, n)
	s := b.String()
	if f != nil && f.recv != "" && f.recv != "p" {
		s = regexp.MustCompile(`\b`+regexp.QuoteMeta(f.recv)+`\.`).ReplaceAllString(s, "p.")
	}
	return strings.Join(strings.Fields(s), " ")
}

func csSelName(e ast.Expr) string {
	switch x := e.(type) {
	case *ast.SelectorExpr:
		return x.Sel.Name
	case *ast.IndexExpr:
		return csSelName(x.X)
	case *ast.SliceExpr:
		return csSelName(x.X)
	case *ast.ParenExpr:
		return csSelName(x.X)
	}
	return ""
}

func csHasVerifConstraint(f *ast.File) bool {
	for _, g := range f.Comments {
		if g.Pos() > f.Package {
			break
		}
		for _, c := range g.List {
			t := strings.TrimSpace(c.Text)
			if strings.HasPrefix(t, "//go:build") && strings.Contains(t, "verif") && !strings.Contains(t, "!verif") {
				return true
			}
		}
	}
	return false
}

func csCallers(c *csCtx, callee string) []string {
	set := map[string]bool{}
	for _, f := range c.funcs {
		if f.decl.Body == nil {
			continue
		}
		ast.Inspect(f.decl.Body, func(n ast.Node) bool {
			if call, ok := n.(*ast.CallExpr); ok {
				if sel, ok := call.Fun.(*ast.SelectorExpr); ok && sel.Sel.Name == callee {
					set[f.name] = true
				}
			}
			return true
		})
	}
	var r []string
	for n := range set {
		r = append(r, n)
	}
	sort.Slice(r, func(i, j int) bool {
		if a, b := csFnIndex(r[i]), csFnIndex(r[j]); a != b {
			return a < b
		}
		return r[i] < r[j]
	})
	return r
}

func csLeanFnList(names []string) string {
	xs := make([]string, len(names))
	for i, n := range names {
		xs[i] = csFnLean(n)
	}
	return "[" + strings.Join(xs, ", ") + "]"
}

func csBool(b bool) string {
	if b {
		return "true"
	}
	return "false"
}

func extractCommentSites(repo, out string) error {
	c := &csCtx{fset: token.NewFileSet(), byNm: map[string]*csFunc{}}
	dir := filepath.Join(repo, "printer")
	ents, err := os.ReadDir(dir)
	if err != nil {
		return broken("cannot read %s: %v", dir, err)
	}
	var infinityValue int64 = -1
	for _, e := range ents {
		if e.IsDir() || !strings.HasSuffix(e.Name(), ".go") || strings.HasSuffix(e.Name(), "_test.go") {
			continue
		}
		f, err := parser.ParseFile(c.fset, filepath.Join(dir, e.Name()), nil, parser.ParseComments)
		if err != nil {
			return broken("printer/%s does not parse: %v", e.Name(), err)
		}
		if csHasVerifConstraint(f) {
			continue // verification-only exports (build tag verif) are not part of the printer
		}
		c.files = append(c.files, f)
		for _, d := range f.Decls {
			switch d := d.(type) {
			case *ast.FuncDecl:
				fn := &csFunc{name: d.Name.Name, decl: d}
				if d.Recv != nil && len(d.Recv.List) == 1 && len(d.Recv.List[0].Names) == 1 {
					fn.recv = d.Recv.List[0].Names[0].Name
				}
				c.funcs = append(c.funcs, fn)
				if _, dup := c.byNm[fn.name]; !dup {
					c.byNm[fn.name] = fn
				}
			case *ast.GenDecl:
				if d.Tok != token.CONST {
					continue
				}
				for _, s := range d.Specs {
					vs := s.(*ast.ValueSpec)
					for i, n := range vs.Names {
						if n.Name == "infinity" && i < len(vs.Values) {
							infinityValue = csConstInt(vs.Values[i])
						}
					}
				}
			}
		}
	}
	for _, need := range []string{"nextComment", "commentBefore", "commentSizeBefore", "intersperseComments",
		"flush", "setComment", "printNode", "fprint", "writeComment"} {
		if c.byNm[need] == nil || c.byNm[need].decl.Body == nil {
			return broken("printer: function %s not found", need)
		}
	}
	if infinityValue < 0 {
		return broken("printer: constant infinity not found or not an integer constant expression")
	}

	// --- queue writes ---------------------------------------------------------------
	type write struct{ fn, kind string }
	var writes []write
	commentsWriters := map[string]bool{}
	type unc struct {
		fn  *csFunc
		rhs string
	}
	var useNode []unc
	queueFields := map[string]bool{"cindex": true, "comment": true, "commentOffset": true, "commentNewline": true, "commentInfo": true}
	for _, f := range c.funcs {
		if f.decl.Body == nil {
			continue
		}
		// c := p.comments[p.cindex] definitions in this function
		fromQueueVars := map[string]bool{}
		restoreVars := map[string]bool{} // params of deferred func literals bound to p.commentInfo
		ast.Inspect(f.decl.Body, func(n ast.Node) bool {
			switch x := n.(type) {
			case *ast.AssignStmt:
				if x.Tok == token.DEFINE && len(x.Lhs) == 1 && len(x.Rhs) == 1 {
					if id, ok := x.Lhs[0].(*ast.Ident); ok && c.str(f, x.Rhs[0]) == "p.comments[p.cindex]" {
						fromQueueVars[id.Name] = true
					}
				}
			case *ast.DeferStmt:
				if fl, ok := x.Call.Fun.(*ast.FuncLit); ok && len(x.Call.Args) == 1 && c.str(f, x.Call.Args[0]) == "p.commentInfo" &&
					len(fl.Type.Params.List) == 1 && len(fl.Type.Params.List[0].Names) == 1 {
					restoreVars[fl.Type.Params.List[0].Names[0].Name] = true
				}
			}
			return true
		})
		ast.Inspect(f.decl.Body, func(n ast.Node) bool {
			switch x := n.(type) {
			case *ast.IncDecStmt:
				if nm := csSelName(x.X); queueFields[nm] {
					k := "other"
					if nm == "cindex" && x.Tok == token.INC {
						k = "inc"
					}
					writes = append(writes, write{f.name, k})
				}
			case *ast.AssignStmt:
				for i, l := range x.Lhs {
					nm := csSelName(l)
					if _, isSel := l.(*ast.SelectorExpr); !isSel && nm != "comments" {
						continue
					}
					rhs := ""
					if len(x.Rhs) == len(x.Lhs) {
						rhs = c.str(f, x.Rhs[i])
					}
					switch {
					case nm == "comments":
						commentsWriters[f.name] = true
					case nm == "useNodeComments":
						useNode = append(useNode, unc{f, rhs})
					case queueFields[nm]:
						k := "other"
						if x.Tok == token.ASSIGN {
							switch {
							case nm == "cindex" && rhs == "0":
								k = "zero"
							case nm == "comment" && fromQueueVars[rhs]:
								k = "fromQueue"
							case nm == "commentOffset" && rhs == "p.posFor(list[0].Pos()).Offset":
								k = "groupOffset"
							case nm == "commentOffset" && rhs == "infinity":
								k = "inf"
							case nm == "commentNewline" && rhs == "p.commentsHaveNewline(list)":
								k = "haveNewline"
							case nm == "commentInfo" && restoreVars[rhs]:
								k = "restore"
							}
						}
						writes = append(writes, write{f.name, k})
					}
				}
			case *ast.UnaryExpr:
				// &p.cindex etc. would allow writes we cannot see
				if x.Op == token.AND && queueFields[csSelName(x.X)] {
					writes = append(writes, write{f.name, "other"})
				}
			}
			return true
		})
	}
	sort.SliceStable(writes, func(i, j int) bool {
		if a, b := csFnIndex(writes[i].fn), csFnIndex(writes[j].fn); a != b {
			return a < b
		}
		return csKindIndex(writes[i].kind) < csKindIndex(writes[j].kind)
	})
	var cw []string
	for n := range commentsWriters {
		cw = append(cw, n)
	}
	sort.Slice(cw, func(i, j int) bool {
		if a, b := csFnIndex(cw[i]), csFnIndex(cw[j]); a != b {
			return a < b
		}
		return cw[i] < cw[j]
	})

	// --- setComment guard -----------------------------------------------------------
	setC := c.byNm["setComment"]
	setGuarded := false
	if l := setC.decl.Body.List; len(l) > 0 {
		if is, ok := l[0].(*ast.IfStmt); ok && is.Init == nil && is.Else == nil && len(is.Body.List) == 1 {
			cond := c.str(setC, is.Cond)
			_, isRet := is.Body.List[0].(*ast.ReturnStmt)
			setGuarded = isRet && (cond == "g == nil || !p.useNodeComments" || cond == "!p.useNodeComments || g == nil" || cond == "!p.useNodeComments")
		}
	}
	useNodeOK := len(useNode) == 1 && useNode[0].fn.name == "printNode" && useNode[0].rhs == "p.comments == nil"

	// --- printNode prelude ----------------------------------------------------------
	pn := c.byNm["printNode"]
	var lastCommentsAssign, useNodePos, nextCommentPos, switchPos token.Pos
	nNext := 0
	ast.Inspect(pn.decl.Body, func(n ast.Node) bool {
		switch x := n.(type) {
		case *ast.AssignStmt:
			for _, l := range x.Lhs {
				switch csSelName(l) {
				case "comments":
					if x.Pos() > lastCommentsAssign {
						lastCommentsAssign = x.Pos()
					}
				case "useNodeComments":
					useNodePos = x.Pos()
				}
			}
		case *ast.CallExpr:
			if c.str(pn, x) == "p.nextComment()" {
				nextCommentPos = x.Pos()
				nNext++
			}
		}
		return true
	})
	nextTopLevel := false
	for _, s := range pn.decl.Body.List {
		if es, ok := s.(*ast.ExprStmt); ok && c.str(pn, es.X) == "p.nextComment()" {
			nextTopLevel = true
		}
		if ts, ok := s.(*ast.TypeSwitchStmt); ok {
			switchPos = ts.Pos() // the last top-level type switch formats the node
		}
	}
	printNodeOK := nNext == 1 && nextTopLevel && lastCommentsAssign.IsValid() && useNodePos.IsValid() &&
		lastCommentsAssign < useNodePos && useNodePos < nextCommentPos && nextCommentPos < switchPos

	// --- nextComment shape ----------------------------------------------------------
	nc := c.byNm["nextComment"]
	nextShape := false
	if l := nc.decl.Body.List; len(l) == 2 {
		fs, ok1 := l[0].(*ast.ForStmt)
		if ok1 && fs.Init == nil && fs.Post == nil && c.str(nc, fs.Cond) == "p.cindex < len(p.comments)" &&
			c.str(nc, l[1]) == "p.commentOffset = infinity" && len(fs.Body.List) == 3 &&
			c.str(nc, fs.Body.List[0]) == "c := p.comments[p.cindex]" && c.str(nc, fs.Body.List[1]) == "p.cindex++" {
			if is, ok := fs.Body.List[2].(*ast.IfStmt); ok && is.Else == nil &&
				c.str(nc, is.Init) == "list := c.List" && c.str(nc, is.Cond) == "len(list) > 0" && len(is.Body.List) >= 2 {
				_, isRet := is.Body.List[len(is.Body.List)-1].(*ast.ReturnStmt)
				onlyAssign := true
				for _, s := range is.Body.List[:len(is.Body.List)-1] {
					if _, ok := s.(*ast.AssignStmt); !ok {
						onlyAssign = false
					}
				}
				nextShape = isRet && onlyAssign
			}
		}
	}

	// --- commentBefore --------------------------------------------------------------
	cb := c.byNm["commentBefore"]
	cmpOp, guard := ".other", false
	if l := cb.decl.Body.List; len(l) == 1 {
		if rs, ok := l[0].(*ast.ReturnStmt); ok && len(rs.Results) == 1 {
			if be, ok := rs.Results[0].(*ast.BinaryExpr); ok && be.Op == token.LAND {
				if cmp, ok := be.X.(*ast.BinaryExpr); ok && c.str(cb, cmp.X) == "p.commentOffset" && c.str(cb, cmp.Y) == "next.Offset" {
					switch cmp.Op {
					case token.LSS:
						cmpOp = ".lt"
					case token.LEQ:
						cmpOp = ".le"
					}
				}
				g := c.str(cb, be.Y)
				guard = g == "(!p.impliedSemi || !p.commentNewline)" || g == "(!p.commentNewline || !p.impliedSemi)"
			}
		}
	}

	// --- intersperseComments loop -----------------------------------------------------
	ic := c.byNm["intersperseComments"]
	interShape := false
	nLoops := 0
	for _, s := range ic.decl.Body.List {
		fs, ok := s.(*ast.ForStmt)
		if !ok {
			continue
		}
		nLoops++
		if fs.Init != nil || fs.Post != nil || c.str(ic, fs.Cond) != "p.commentBefore(next)" || len(fs.Body.List) != 2 {
			continue
		}
		rs, ok := fs.Body.List[0].(*ast.RangeStmt)
		if !ok || c.str(ic, rs.X) != "p.comment.List" || rs.Value == nil || c.str(ic, fs.Body.List[1]) != "p.nextComment()" {
			continue
		}
		v := c.str(ic, rs.Value)
		seq := ""
		for _, bs := range rs.Body.List {
			t := c.str(ic, bs)
			switch {
			case strings.HasPrefix(t, "p.writeCommentPrefix("):
				seq += "P"
			case t == "p.writeComment("+v+")":
				seq += "W"
			case regexp.MustCompile(`^[A-Za-z_][A-Za-z_0-9]* = `+regexp.QuoteMeta(v)+`$`).MatchString(t):
				seq += "L" // remembers the last comment written (any variable name)
			default:
				seq += "?"
			}
		}
		jumps := false
		ast.Inspect(fs, func(n ast.Node) bool {
			switch n.(type) {
			case *ast.BranchStmt, *ast.ReturnStmt, *ast.GoStmt, *ast.DeferStmt:
				jumps = true
			}
			return true
		})
		interShape = seq == "PWL" && !jumps
	}
	interShape = interShape && nLoops == 1

	// --- flush ------------------------------------------------------------------------
	fl := c.byNm["flush"]
	flushShape := false
	if l := fl.decl.Body.List; len(l) >= 1 {
		if is, ok := l[0].(*ast.IfStmt); ok && is.Init == nil && c.str(fl, is.Cond) == "p.commentBefore(next)" && len(is.Body.List) == 1 {
			t := c.str(fl, is.Body.List[0])
			flushShape = strings.HasSuffix(t, "= p.intersperseComments(next, tok)") || t == "p.intersperseComments(next, tok)"
		}
	}

	// --- commentSizeBefore --------------------------------------------------------------
	sb := c.byNm["commentSizeBefore"]
	sizeShape := false
	if l := sb.decl.Body.List; len(l) >= 2 {
		if ds, ok := l[0].(*ast.DeferStmt); ok {
			if lit, ok := ds.Call.Fun.(*ast.FuncLit); ok && len(ds.Call.Args) == 1 && c.str(sb, ds.Call.Args[0]) == "p.commentInfo" &&
				len(lit.Body.List) == 1 && len(lit.Type.Params.List) == 1 && len(lit.Type.Params.List[0].Names) == 1 &&
				c.str(sb, lit.Body.List[0]) == "p.commentInfo = "+lit.Type.Params.List[0].Names[0].Name {
				for _, s := range l[1:] {
					if fs, ok := s.(*ast.ForStmt); ok && fs.Init == nil && fs.Post == nil && c.str(sb, fs.Cond) == "p.commentBefore(next)" &&
						len(fs.Body.List) >= 1 && c.str(sb, fs.Body.List[len(fs.Body.List)-1]) == "p.nextComment()" {
						sizeShape = true
					}
				}
			}
		}
	}

	// --- fprint final flush -------------------------------------------------------------
	fp := c.byNm["fprint"]
	semiCleared, toInfinity := false, false
	{
		l := fp.decl.Body.List
		start := -1
		for i, s := range l {
			if is, ok := s.(*ast.IfStmt); ok && strings.Contains(c.str(fp, is.Init), "p.printNode(node)") {
				start = i
			}
		}
		if start >= 0 {
			for i := start + 1; i < len(l); i++ {
				t := c.str(fp, l[i])
				if strings.Contains(t, "p.output") || strings.Contains(t, "return") {
					break
				}
				if es, ok := l[i].(*ast.ExprStmt); ok {
					if call, ok := es.X.(*ast.CallExpr); ok && c.str(fp, call.Fun) == "p.flush" && len(call.Args) == 2 {
						if cl, ok := call.Args[0].(*ast.CompositeLit); ok && c.str(fp, cl.Type) == "token.Position" {
							for _, el := range cl.Elts {
								if kv, ok := el.(*ast.KeyValueExpr); ok && c.str(fp, kv.Key) == "Offset" && c.str(fp, kv.Value) == "infinity" {
									toInfinity = true
									semiCleared = i > start+1 && c.str(fp, l[i-1]) == "p.impliedSemi = false"
								}
							}
						}
					}
				}
			}
		}
	}

	// --- emit ---------------------------------------------------------------------------
	var w strings.Builder
	w.WriteString("/- GENERATED by /verif/extract (target commentsites) from printer/*.go.  Do not edit. -/\n")
	w.WriteString("import GopModel.Model.CommentQueue\nnamespace GopModel.Generated.CommentSites\nopen GopModel.CommentQueue\n\n")
	w.WriteString("def sites : Sites where\n")
	fmt.Fprintf(&w, "  infinityValue := %d\n", infinityValue)
	fmt.Fprintf(&w, "  writeCommentCallers := %s\n", csLeanFnList(csCallers(c, "writeComment")))
	fmt.Fprintf(&w, "  intersperseCallers := %s\n", csLeanFnList(csCallers(c, "intersperseComments")))
	fmt.Fprintf(&w, "  nextCommentCallers := %s\n", csLeanFnList(csCallers(c, "nextComment")))
	ws := make([]string, len(writes))
	for i, x := range writes {
		ws[i] = "(" + csFnLean(x.fn) + ", ." + x.kind + ")"
	}
	fmt.Fprintf(&w, "  queueWrites := [%s]\n", strings.Join(ws, ", "))
	fmt.Fprintf(&w, "  commentsWriters := %s\n", csLeanFnList(cw))
	fmt.Fprintf(&w, "  setCommentGuarded := %s\n", csBool(setGuarded))
	fmt.Fprintf(&w, "  useNodeCommentsIsCommentsNil := %s\n", csBool(useNodeOK))
	fmt.Fprintf(&w, "  printNodeStartsQueue := %s\n", csBool(printNodeOK))
	fmt.Fprintf(&w, "  nextCommentShape := %s\n", csBool(nextShape))
	fmt.Fprintf(&w, "  commentBeforeOp := %s\n", cmpOp)
	fmt.Fprintf(&w, "  commentBeforeGuard := %s\n", csBool(guard))
	fmt.Fprintf(&w, "  intersperseShape := %s\n", csBool(interShape))
	fmt.Fprintf(&w, "  flushShape := %s\n", csBool(flushShape))
	fmt.Fprintf(&w, "  sizeBeforeShape := %s\n", csBool(sizeShape))
	fmt.Fprintf(&w, "  finalFlushImpliedSemiCleared := %s\n", csBool(semiCleared))
	fmt.Fprintf(&w, "  finalFlushToInfinity := %s\n", csBool(toInfinity))
	w.WriteString("\nend GopModel.Generated.CommentSites\n")
	return writeIfChanged(filepath.Join(out, "CommentSites.lean"), []byte(w.String()))
}

// csConstInt evaluates integer literals and `a << b` / `a * b` / `a + b` of them; -1 otherwise.
func csConstInt(e ast.Expr) int64 {
	switch x := e.(type) {
	case *ast.BasicLit:
		if x.Kind == token.INT {
			if v, err := strconv.ParseInt(x.Value, 0, 64); err == nil {
				return v
			}
		}
	case *ast.ParenExpr:
		return csConstInt(x.X)
	case *ast.BinaryExpr:
		a, b := csConstInt(x.X), csConstInt(x.Y)
		if a < 0 || b < 0 {
			return -1
		}
		switch x.Op {
		case token.SHL:
			if b < 62 {
				return a << uint(b)
			}
		case token.MUL:
			return a * b
		case token.ADD:
			return a + b
		}
	}
	return -1
}
