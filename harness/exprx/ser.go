// Package exprx: helpers shared by the C22 / C19 / C20 harness commands (model M3,
// lean/GopModel/Model/ExprSyntax.lean): serialisation of real ast.Expr trees and real token
// streams into the line protocol of drv_expr, a generator of synthesized expression trees,
// and structural comparison modulo ParenExpr.
package exprx

import (
	"fmt"
	"strings"

	"github.com/goplus/xgo/ast"
	"github.com/goplus/xgo/scanner"
	"github.com/goplus/xgo/token"
	"verifharness/vh"
)

// OpNames: Go constant name of every operator token (the constructor names of the Lean `Op`).
var OpNames = map[token.Token]string{
	token.ADD: "ADD", token.SUB: "SUB", token.MUL: "MUL", token.QUO: "QUO", token.REM: "REM",
	token.AND: "AND", token.OR: "OR", token.XOR: "XOR", token.SHL: "SHL", token.SHR: "SHR", token.AND_NOT: "AND_NOT",
	token.ADD_ASSIGN: "ADD_ASSIGN", token.SUB_ASSIGN: "SUB_ASSIGN", token.MUL_ASSIGN: "MUL_ASSIGN",
	token.QUO_ASSIGN: "QUO_ASSIGN", token.REM_ASSIGN: "REM_ASSIGN", token.AND_ASSIGN: "AND_ASSIGN",
	token.OR_ASSIGN: "OR_ASSIGN", token.XOR_ASSIGN: "XOR_ASSIGN", token.SHL_ASSIGN: "SHL_ASSIGN",
	token.SHR_ASSIGN: "SHR_ASSIGN", token.AND_NOT_ASSIGN: "AND_NOT_ASSIGN",
	token.LAND: "LAND", token.LOR: "LOR", token.ARROW: "ARROW", token.INC: "INC", token.DEC: "DEC",
	token.EQL: "EQL", token.LSS: "LSS", token.GTR: "GTR", token.ASSIGN: "ASSIGN", token.NOT: "NOT",
	token.NEQ: "NEQ", token.LEQ: "LEQ", token.GEQ: "GEQ", token.DEFINE: "DEFINE", token.ELLIPSIS: "ELLIPSIS",
	token.LPAREN: "LPAREN", token.LBRACK: "LBRACK", token.LBRACE: "LBRACE", token.COMMA: "COMMA", token.PERIOD: "PERIOD",
	token.RPAREN: "RPAREN", token.RBRACK: "RBRACK", token.RBRACE: "RBRACE", token.SEMICOLON: "SEMICOLON", token.COLON: "COLON",
	token.QUESTION: "QUESTION", token.DRARROW: "DRARROW", token.SRARROW: "SRARROW", token.BIDIARROW: "BIDIARROW",
	token.ENV: "ENV", token.TILDE: "TILDE",
}

var KindNames = map[token.Token]string{
	token.INT: "INT", token.FLOAT: "FLOAT", token.IMAG: "IMAG", token.CHAR: "CHAR", token.STRING: "STRING",
	token.CSTRING: "CSTRING", token.PYSTRING: "PYSTRING", token.RAT: "RAT",
}

func opName(t token.Token) string {
	if n, ok := OpNames[t]; ok {
		return n
	}
	return "TOK" + fmt.Sprint(int(t))
}

func b01(b bool) string {
	if b {
		return "1"
	}
	return "0"
}

// Ser serialises an expression tree (positions are dropped; Ellipsis / NoParenEnd / Rbrace are
// reduced to flags).  Node kinds outside M3 become Unk(<type>).
func Ser(e ast.Expr) string {
	var b strings.Builder
	ser(&b, e)
	return b.String()
}

func serOpt(b *strings.Builder, e ast.Expr) {
	if e == nil || isNilExpr(e) {
		b.WriteString("_")
		return
	}
	ser(b, e)
}

func isNilExpr(e ast.Expr) bool {
	switch v := e.(type) {
	case *ast.Ident:
		return v == nil
	}
	return false
}

func ser(b *strings.Builder, e ast.Expr) {
	switch x := e.(type) {
	case nil:
		b.WriteString("Nil()")
	case *ast.Ident:
		b.WriteString("I(" + vh.HexS(x.Name) + ")")
	case *ast.BasicLit:
		k, ok := KindNames[x.Kind]
		if !ok {
			k = "K" + fmt.Sprint(int(x.Kind))
		}
		b.WriteString("L(" + k + "," + vh.HexS(x.Value) + ")")
	case *ast.NumberUnitLit:
		b.WriteString("N(" + KindNames[x.Kind] + "," + vh.HexS(x.Value) + "," + vh.HexS(x.Unit) + ")")
	case *ast.BinaryExpr:
		b.WriteString("B(" + opName(x.Op) + ",")
		ser(b, x.X)
		b.WriteString(",")
		ser(b, x.Y)
		b.WriteString(")")
	case *ast.UnaryExpr:
		b.WriteString("U(" + opName(x.Op) + ",")
		ser(b, x.X)
		b.WriteString(")")
	case *ast.StarExpr:
		b.WriteString("S(")
		ser(b, x.X)
		b.WriteString(")")
	case *ast.ParenExpr:
		b.WriteString("P(")
		ser(b, x.X)
		b.WriteString(")")
	case *ast.SelectorExpr:
		b.WriteString("D(")
		ser(b, x.X)
		b.WriteString("," + vh.HexS(x.Sel.Name) + ")")
	case *ast.IndexExpr:
		b.WriteString("X(")
		ser(b, x.X)
		b.WriteString(",")
		ser(b, x.Index)
		b.WriteString(")")
	case *ast.SliceExpr:
		b.WriteString("SL(")
		ser(b, x.X)
		b.WriteString(",")
		serOpt(b, x.Low)
		b.WriteString(",")
		serOpt(b, x.High)
		b.WriteString(",")
		serOpt(b, x.Max)
		b.WriteString("," + b01(x.Slice3) + ")")
	case *ast.CallExpr:
		b.WriteString("C(")
		ser(b, x.Fun)
		b.WriteString("," + b01(x.Ellipsis != token.NoPos) + "," + b01(x.NoParenEnd != token.NoPos))
		for _, a := range x.Args {
			b.WriteString(",")
			ser(b, a)
		}
		b.WriteString(")")
	case *ast.CompositeLit:
		b.WriteString("K(")
		serOpt(b, x.Type)
		for _, a := range x.Elts {
			b.WriteString(",")
			ser(b, a)
		}
		b.WriteString(")")
	case *ast.KeyValueExpr:
		b.WriteString("KV(")
		ser(b, x.Key)
		b.WriteString(",")
		ser(b, x.Value)
		b.WriteString(")")
	case *ast.SliceLit:
		b.WriteString("SLit(")
		for i, a := range x.Elts {
			if i > 0 {
				b.WriteString(",")
			}
			ser(b, a)
		}
		b.WriteString(")")
	case *ast.LambdaExpr:
		b.WriteString("Lam(" + b01(x.LhsHasParen) + "," + b01(x.RhsHasParen) + "," + fmt.Sprint(len(x.Lhs)))
		for _, id := range x.Lhs {
			b.WriteString("," + vh.HexS(id.Name))
		}
		for _, a := range x.Rhs {
			b.WriteString(",")
			ser(b, a)
		}
		b.WriteString(")")
	case *ast.ErrWrapExpr:
		b.WriteString("E(")
		ser(b, x.X)
		b.WriteString("," + opName(x.Tok) + ",")
		serOpt(b, x.Default)
		b.WriteString(")")
	case *ast.EnvExpr:
		b.WriteString("Env(" + vh.HexS(x.Name.Name) + "," + b01(x.HasBrace()) + ")")
	case *ast.TypeAssertExpr:
		b.WriteString("TA(")
		ser(b, x.X)
		b.WriteString(",")
		serOpt(b, x.Type)
		b.WriteString(")")
	case *ast.RangeExpr:
		b.WriteString("R(")
		serOpt(b, x.First)
		b.WriteString(",")
		serOpt(b, x.Last)
		b.WriteString(",")
		serOpt(b, x.Expr3)
		b.WriteString(")")
	case *ast.BadExpr:
		b.WriteString("Bad()")
	default:
		b.WriteString("Unk(" + strings.TrimPrefix(fmt.Sprintf("%T", e), "*ast.") + ")")
	}
}

// InM3 reports whether every node of e is of a kind modelled by M3.
func InM3(e ast.Expr) bool { return !strings.Contains(Ser(e), "Unk(") && !strings.Contains(Ser(e), "Nil()") }

// StripParens returns a copy of e without ParenExpr nodes (M3 node kinds only; other nodes
// are returned as they are).
func StripParens(e ast.Expr) ast.Expr {
	sp := StripParens
	spo := func(e ast.Expr) ast.Expr {
		if e == nil {
			return nil
		}
		return sp(e)
	}
	spl := func(l []ast.Expr) []ast.Expr {
		if l == nil {
			return nil
		}
		r := make([]ast.Expr, len(l))
		for i, a := range l {
			r[i] = sp(a)
		}
		return r
	}
	switch x := e.(type) {
	case *ast.ParenExpr:
		return sp(x.X)
	case *ast.BinaryExpr:
		c := *x
		c.X, c.Y = sp(x.X), sp(x.Y)
		return &c
	case *ast.UnaryExpr:
		c := *x
		c.X = sp(x.X)
		return &c
	case *ast.StarExpr:
		c := *x
		c.X = sp(x.X)
		return &c
	case *ast.SelectorExpr:
		c := *x
		c.X = sp(x.X)
		return &c
	case *ast.IndexExpr:
		c := *x
		c.X, c.Index = sp(x.X), sp(x.Index)
		return &c
	case *ast.SliceExpr:
		c := *x
		c.X, c.Low, c.High, c.Max = sp(x.X), spo(x.Low), spo(x.High), spo(x.Max)
		return &c
	case *ast.CallExpr:
		c := *x
		c.Fun, c.Args = sp(x.Fun), spl(x.Args)
		return &c
	case *ast.CompositeLit:
		c := *x
		c.Type, c.Elts = spo(x.Type), spl(x.Elts)
		return &c
	case *ast.KeyValueExpr:
		c := *x
		c.Key, c.Value = sp(x.Key), sp(x.Value)
		return &c
	case *ast.SliceLit:
		c := *x
		c.Elts = spl(x.Elts)
		return &c
	case *ast.LambdaExpr:
		c := *x
		c.Rhs = spl(x.Rhs)
		return &c
	case *ast.ErrWrapExpr:
		c := *x
		c.X, c.Default = sp(x.X), spo(x.Default)
		return &c
	case *ast.TypeAssertExpr:
		c := *x
		c.X, c.Type = sp(x.X), spo(x.Type)
		return &c
	case *ast.RangeExpr:
		c := *x
		c.First, c.Last, c.Expr3 = spo(x.First), spo(x.Last), spo(x.Expr3)
		return &c
	}
	return e
}

// Tok is one scanned token.
type Tok struct {
	Tok token.Token
	Lit string
	Off int
}

// Scan runs the real scanner over src (comments skipped); the automatically inserted final
// semicolon and EOF are dropped.  nerr is the number of scanner errors.
func Scan(src string) (toks []Tok, nerr int) {
	fset := token.NewFileSet()
	f := fset.AddFile("", fset.Base(), len(src))
	var s scanner.Scanner
	s.Init(f, []byte(src), func(pos token.Position, msg string) { nerr++ }, 0)
	for {
		pos, tok, lit := s.Scan()
		if tok == token.EOF {
			break
		}
		toks = append(toks, Tok{tok, lit, f.Offset(pos)})
	}
	if n := len(toks); n > 0 && toks[n-1].Tok == token.SEMICOLON && toks[n-1].Lit == "\n" {
		toks = toks[:n-1]
	}
	return
}

// SerTok serialises one token for drv_expr.
func SerTok(t Tok) string {
	switch {
	case t.Tok == token.IDENT:
		return "i:" + vh.HexS(t.Lit)
	case t.Tok == token.UNIT:
		return "u:" + vh.HexS(t.Lit)
	case KindNames[t.Tok] != "":
		return "l:" + KindNames[t.Tok] + ":" + vh.HexS(t.Lit)
	case t.Tok.IsKeyword():
		return "k:" + vh.HexS(t.Tok.String())
	case OpNames[t.Tok] != "":
		return "o:" + OpNames[t.Tok]
	}
	return "x:" + fmt.Sprint(int(t.Tok))
}

func SerToks(ts []Tok) string {
	ss := make([]string, len(ts))
	for i, t := range ts {
		ss[i] = SerTok(t)
	}
	return strings.Join(ss, ",")
}
