package exprx

import (
	"bytes"
	"fmt"
	"strings"

	"github.com/goplus/xgo/ast"
	"github.com/goplus/xgo/parser"
	"github.com/goplus/xgo/printer"
	"github.com/goplus/xgo/token"
	"verifharness/vh"
)

func printExprReal(e ast.Expr) (s string) {
	defer func() {
		if r := recover(); r != nil {
			s = fmt.Sprint("PANIC ", r)
		}
	}()
	var b bytes.Buffer
	if err := printer.Fprint(&b, token.NewFileSet(), e); err != nil {
		return "PRINTERR " + err.Error()
	}
	return b.String()
}

// ppCase emits a `pp` case (model tie on a parser-shaped expression) and evaluates the
// expression-level form of the property: mode c19: the printed form parses back to the very
// same tree; mode c20: printing the reparsed tree gives the same text.
func ppCase(e ast.Expr, o *vh.Out, mode string) {
	want := Ser(e)
	line := "pp\t" + want
	txt := printExprReal(e)
	if strings.HasPrefix(txt, "PANIC") || strings.HasPrefix(txt, "PRINTERR") {
		o.Oracle("expr-print-fails", line, txt)
		o.Case(line, txt, true)
		return
	}
	toks, nerr := Scan(txt)
	res := "ERR"
	var e2 ast.Expr
	func() {
		defer func() {
			if recover() != nil {
				res = "PANIC"
			}
		}()
		x, err := parser.ParseExpr(txt)
		if err == nil {
			e2, res = x, Ser(x)
		}
	}()
	impl := vh.HexS(txt) + "|" + SerToks(toks) + "|" + res
	if nerr > 0 {
		impl += "|SCANERR"
	}
	o.Count("expr_cases")
	shaped := !strings.Contains(want, "P(P(") // directly nested parentheses are collapsed by design
	switch mode {
	case "c19":
		if shaped && res != want {
			o.Oracle("expr-tree-differs", line, "printed="+txt+" reparsed="+res)
		}
	case "c20":
		if e2 != nil {
			if t2 := printExprReal(e2); t2 != txt {
				o.Oracle("expr-second-print-differs", line, fmt.Sprintf("%q vs %q", txt, t2))
			}
		}
	}
	o.Case(line, impl, len(want) > 12)
}

// SrcMain is the body of the c19 / c20 harness commands.
func SrcMain(mode string) {
	f := vh.ParseFlags()
	o := vh.NewOut(f.Out)
	defer o.Close()
	check := CheckC19
	if mode == "c20" {
		check = CheckC20
	}
	run := func(s *Src, bucket string) {
		res := check(s, o)
		o.Count(bucket)
		o.Count("res_" + strings.SplitN(res, " ", 2)[0])
		nontrivial := res != "INVALID" && len(s.Text) > 40
		o.Case(s.Line, res, nontrivial)
	}
	if f.Replay != "" {
		if strings.HasPrefix(f.Replay, "pp\t") {
			e, err := Deser(strings.TrimPrefix(f.Replay, "pp\t"))
			if err != nil {
				fmt.Println("replay:", err)
				return
			}
			ppCase(e, o, mode)
			return
		}
		s, err := SrcOfLine(f.Replay)
		if err != nil {
			fmt.Println("replay:", err)
			return
		}
		run(s, "replay")
		out, err := FormatSrc(s)
		fmt.Printf("formatted (err=%v):\n%s\n", err, out)
		return
	}
	thorough := f.Tier == "thorough"
	r := vh.NewRand(f.Seed)

	// 0. regression inputs of known defects
	for _, t := range []string{"#\nx := 1\n", "x := 1 #\ny := 2\n", "x := ((a))\n", "println /*c*/ c\"hi\"\n", "x := a[(b?):c]\n",
		"f x => (x + 1) * 2\n", "if (a) {\n}\n", "if ((a)) {\n}\nfor ((a)) {\n}\nswitch (((a))) {\n}\n",
		"switch x {\ncase 1:\n\tL: ;\ncase 2:\n}\n", "import (\n\ta \"math\"\n\tb \"math\"\n\t. \"os\"\n\t\"os\"\n)\n", "import (\n\t\"sort\"\n\t`os`\n\t\"\\x66mt\"\n)\n", "x := 1;;\n", "x := [ #C5\n]string{}\n", "echo 1r + 2\n", "x := (a + 1r) * b\n"} {
		run(&Src{Name: "reg.xgo", Text: t, Line: srcLine(false, "reg.xgo", t)}, "regression")
	}

	// 1. corpus
	files := Corpus()
	o.Stats["corpus_files"] = len(files)
	nExpr := 0
	for i, rel := range files {
		if !thorough && strings.HasSuffix(rel, ".go") && i%3 != int(f.Seed%3) {
			continue // quick: a third of the .go files per seed, all XGo files
		}
		s, err := fileSrc(rel)
		if err != nil {
			continue
		}
		run(s, "corpus"+strings.ReplaceAll(filepathExt(rel), ".", "_"))
		// expression-level cases for the model tie
		if nExpr < 4000 || thorough {
			if fset, af, err := ParseSrc(s); err == nil {
				for _, e := range SingleLineM3Exprs(fset, af, 40) {
					ppCase(e, o, mode)
					nExpr++
				}
			}
		}
	}

	// 2. generated programs
	for i := 0; i < f.N; i++ {
		rr := r.Fork(i)
		pg := NewProgGen(rr)
		text, class, name := pg.Program()
		run(&Src{Name: name, Class: class, Text: text, Line: srcLine(class, name, text)}, "generated")
	}

	// 2b. grammar-directed programs written by the harness's own pretty-printer (gram.go)
	for i := 0; i < f.N; i++ {
		rr := r.Fork(2000000 + i)
		text, class, name := NewGram(rr).Program()
		run(&Src{Name: name, Class: class, Text: text, Line: srcLine(class, name, text)}, "grammar")
	}

	// 3. AST mutants of corpus files, printed and fed back as sources
	nm := f.N / 2
	var xgo []string
	for _, rel := range files {
		if !strings.HasSuffix(rel, ".go") || thorough {
			xgo = append(xgo, rel)
		}
	}
	for i := 0; i < nm && len(xgo) > 0; i++ {
		rr := r.Fork(1000000 + i)
		rel := xgo[rr.Intn(len(xgo))]
		s, err := fileSrc(rel)
		if err != nil || len(s.Text) > 60000 {
			continue
		}
		fset, af, err := ParseSrc(s)
		if err != nil {
			continue
		}
		d := Mutate(rr, af, 1+rr.Intn(3))
		text, err := PrintFile(fset, af)
		if err != nil {
			o.Oracle(errKey("print-mutant", err), "file\t"+rel, d+": "+firstLine(err.Error()))
			continue
		}
		o.Count("mutant_" + strings.SplitN(d, "+", 2)[0])
		run(&Src{Name: s.Name, Class: s.Class, Text: text, Line: srcLine(s.Class, s.Name, text)}, "mutant")
	}
}

func filepathExt(p string) string {
	if i := strings.LastIndexByte(p, '.'); i >= 0 {
		return p[i:]
	}
	return ""
}
