package exprx

import (
	"bytes"
	"fmt"

	"github.com/goplus/xgo/ast"
	"github.com/goplus/xgo/parser"
	"github.com/goplus/xgo/printer"
	"github.com/goplus/xgo/token"
	"verifharness/vh"
)

// StmtGen synthesises statement trees (no positions) from every ast.Stmt kind.
type StmtGen struct {
	R      *vh.Rand
	G      *Gen // expressions: the proved core fragment (no literals with braces, no lambdas)
	nlabel int
	labels []string
}

func NewStmtGen(r *vh.Rand) *StmtGen {
	return &StmtGen{R: r, G: &Gen{R: r, Ext: false}}
}

func (g *StmtGen) e() ast.Expr { return g.G.Expr(g.R.Intn(3)) }
func (g *StmtGen) call() ast.Expr {
	return &ast.CallExpr{Fun: g.G.ident(), Args: []ast.Expr{g.e()}}
}

func (g *StmtGen) block(d int) *ast.BlockStmt { return &ast.BlockStmt{List: g.list(d, 4)} }

// list: a statement list; explicit / implicit empty statements in any position.
func (g *StmtGen) list(d, max int) []ast.Stmt {
	var l []ast.Stmt
	for i, n := 0, g.R.Intn(max+1); i < n; i++ {
		l = append(l, g.stmt(d))
	}
	return l
}

func (g *StmtGen) simple() ast.Stmt {
	switch g.R.Intn(5) {
	case 0:
		return &ast.AssignStmt{Lhs: []ast.Expr{g.G.ident()}, Tok: token.DEFINE, Rhs: []ast.Expr{g.e()}}
	case 1:
		return &ast.AssignStmt{Lhs: []ast.Expr{g.G.ident(), g.G.ident()}, Tok: token.ASSIGN, Rhs: []ast.Expr{g.e(), g.e()}}
	case 2:
		return &ast.AssignStmt{Lhs: []ast.Expr{g.G.ident()}, Tok: []token.Token{token.ADD_ASSIGN, token.SHL_ASSIGN, token.AND_NOT_ASSIGN, token.OR_ASSIGN}[g.R.Intn(4)], Rhs: []ast.Expr{g.e()}}
	case 3:
		return &ast.IncDecStmt{X: g.G.ident(), Tok: []token.Token{token.INC, token.DEC}[g.R.Intn(2)]}
	}
	return &ast.ExprStmt{X: g.call()}
}

func (g *StmtGen) newLabel() *ast.Ident {
	g.nlabel++
	l := fmt.Sprintf("L%d", g.nlabel)
	g.labels = append(g.labels, l)
	return Id(l)
}

func (g *StmtGen) clauses(d int) []ast.Stmt {
	var l []ast.Stmt
	def := g.R.Intn(4)
	for i, n := 0, g.R.Intn(4); i < n; i++ {
		c := &ast.CaseClause{Body: g.list(d, 3)}
		if i != def {
			c.List = []ast.Expr{g.e()}
			if g.R.Bool() {
				c.List = append(c.List, g.e())
			}
			// (`case x!:` reads `!:` as the start of a default value: finding errwrap-before-colon)
			for k := 0; EndsBareErrWrap(c.List[len(c.List)-1]) && k < 20; k++ {
				c.List[len(c.List)-1] = g.e()
			}
			if EndsBareErrWrap(c.List[len(c.List)-1]) {
				c.List[len(c.List)-1] = g.G.ident()
			}
		}
		if i < n-1 && g.R.Chance(15) {
			c.Body = append(c.Body, &ast.BranchStmt{Tok: token.FALLTHROUGH})
		}
		l = append(l, c)
	}
	return l
}

func (g *StmtGen) stmt(d int) ast.Stmt {
	n := g.R.Intn(30)
	if d <= 0 && n >= 12 {
		n = g.R.Intn(12)
	}
	switch n {
	case 0, 1, 2:
		return g.simple()
	case 3:
		return &ast.EmptyStmt{} // explicit `;`
	case 4:
		return &ast.SendStmt{Chan: g.G.ident(), Values: []ast.Expr{g.e()}}
	case 5:
		if g.R.Bool() {
			return &ast.GoStmt{Call: g.call().(*ast.CallExpr)}
		}
		return &ast.DeferStmt{Call: g.call().(*ast.CallExpr)}
	case 6:
		r := &ast.ReturnStmt{}
		for i, k := 0, g.R.Intn(3); i < k; i++ {
			r.Results = append(r.Results, g.e())
		}
		return r
	case 7:
		if len(g.labels) > 0 && g.R.Bool() {
			return &ast.BranchStmt{Tok: []token.Token{token.GOTO, token.BREAK, token.CONTINUE}[g.R.Intn(3)], Label: Id(g.labels[g.R.Intn(len(g.labels))])}
		}
		return &ast.BranchStmt{Tok: []token.Token{token.BREAK, token.CONTINUE}[g.R.Intn(2)]}
	case 8, 9, 10:
		// a label around every statement kind, incl. the empty statement (explicit or implicit)
		l := &ast.LabeledStmt{Label: g.newLabel()}
		switch g.R.Intn(4) {
		case 0:
			l.Stmt = &ast.EmptyStmt{}
		case 1:
			l.Stmt = &ast.EmptyStmt{Implicit: true}
		default:
			l.Stmt = g.stmt(d - 1)
		}
		return l
	case 11:
		specs := []ast.Spec{&ast.ValueSpec{Names: []*ast.Ident{g.G.ident()}, Type: Id("int"), Values: []ast.Expr{g.e()}}}
		tok := token.VAR
		if g.R.Bool() {
			tok = token.CONST
			specs = []ast.Spec{&ast.ValueSpec{Names: []*ast.Ident{g.G.ident()}, Values: []ast.Expr{g.e()}}}
		}
		if g.R.Chance(30) {
			tok = token.TYPE
			specs = []ast.Spec{&ast.TypeSpec{Name: Id("T2"), Type: Id("int")}}
		}
		return &ast.DeclStmt{Decl: &ast.GenDecl{Tok: tok, Specs: specs}}
	case 12, 13:
		return g.block(d - 1)
	case 14, 15, 16:
		s := &ast.IfStmt{Cond: g.e(), Body: g.block(d - 1)}
		if g.R.Chance(40) {
			s.Init = g.simple()
		}
		switch g.R.Intn(4) {
		case 0:
			s.Else = g.block(d - 1)
		case 1:
			s.Else = &ast.IfStmt{Cond: g.e(), Body: g.block(d - 1)}
		}
		return s
	case 17, 18:
		s := &ast.ForStmt{Body: g.block(d - 1)}
		switch g.R.Intn(4) {
		case 0:
			s.Cond = g.e()
		case 1:
			s.Init, s.Cond, s.Post = g.simple(), g.e(), &ast.IncDecStmt{X: g.G.ident(), Tok: token.INC}
		case 2:
			s.Cond, s.Post = g.e(), g.simple()
		}
		return s
	case 19:
		s := &ast.RangeStmt{X: g.e(), Body: g.block(d - 1)}
		switch g.R.Intn(3) {
		case 0:
			s.Key, s.Tok = g.G.ident(), token.DEFINE
		case 1:
			s.Key, s.Value, s.Tok = g.G.ident(), g.G.ident(), token.ASSIGN
		}
		return s
	case 20, 21:
		s := &ast.SwitchStmt{Body: &ast.BlockStmt{List: g.clauses(d - 1)}}
		if g.R.Chance(60) {
			s.Tag = g.e()
		}
		if g.R.Chance(30) {
			s.Init = g.simple()
		}
		return s
	case 22:
		var assign ast.Stmt = &ast.ExprStmt{X: &ast.TypeAssertExpr{X: g.G.ident()}}
		if g.R.Bool() {
			assign = &ast.AssignStmt{Lhs: []ast.Expr{g.G.ident()}, Tok: token.DEFINE, Rhs: []ast.Expr{&ast.TypeAssertExpr{X: g.G.ident()}}}
		}
		var cl []ast.Stmt
		for i, k := 0, g.R.Intn(3); i < k; i++ {
			c := &ast.CaseClause{Body: g.list(d-1, 2)}
			if i > 0 || g.R.Bool() {
				c.List = []ast.Expr{Id([]string{"int", "string", "T"}[g.R.Intn(3)])}
			}
			cl = append(cl, c)
		}
		return &ast.TypeSwitchStmt{Assign: assign, Body: &ast.BlockStmt{List: cl}}
	case 23:
		var cl []ast.Stmt
		for i, k := 0, g.R.Intn(4); i < k; i++ {
			c := &ast.CommClause{Body: g.list(d-1, 2)}
			switch g.R.Intn(4) {
			case 0:
				v := g.e()
				for k := 0; EndsBareErrWrap(v) && k < 20; k++ {
					v = g.e()
				}
				if EndsBareErrWrap(v) {
					v = g.G.ident()
				}
				c.Comm = &ast.SendStmt{Chan: g.G.ident(), Values: []ast.Expr{v}}
			case 1:
				c.Comm = &ast.ExprStmt{X: &ast.UnaryExpr{Op: token.ARROW, X: g.G.ident()}}
			case 2:
				c.Comm = &ast.AssignStmt{Lhs: []ast.Expr{g.G.ident()}, Tok: token.DEFINE, Rhs: []ast.Expr{&ast.UnaryExpr{Op: token.ARROW, X: g.G.ident()}}}
			}
			cl = append(cl, c)
		}
		return &ast.SelectStmt{Body: &ast.BlockStmt{List: cl}}
	case 24, 25:
		// XGo: for v in x [if cond] { }
		fp := &ast.ForPhrase{Value: g.G.ident(), X: g.e()}
		if g.R.Bool() {
			fp.Key = g.G.ident()
		}
		if g.R.Chance(30) {
			fp.Cond = g.e()
		}
		return &ast.ForPhraseStmt{ForPhrase: fp, Body: g.block(d - 1)}
	case 26:
		return &ast.ExprStmt{X: &ast.ErrWrapExpr{X: g.call(), Tok: token.NOT}}
	default:
		return g.simple()
	}
}

// FuncTree builds `func f() { … }`.
func (g *StmtGen) FuncTree(d int) *ast.FuncDecl {
	g.labels, g.nlabel = nil, 0
	return &ast.FuncDecl{Name: Id("f"), Type: &ast.FuncType{Params: &ast.FieldList{}}, Body: g.block(d)}
}

// normEmpty applies the empty-statement normalisation of the C19 comparison.
func normEmpty(d *DNode) *DNode {
	c := false
	return normD(normD(cloneD(d), "all-parens", &c), "empty-statement", &c)
}

// StmtRoundTrip prints a synthesized FuncDecl with the real printer, parses the text with the
// real parser and compares the trees (positions ignored, dropped empty statements ignored).
// ok=false: key classifies the failure.
func StmtRoundTrip(fd *ast.FuncDecl) (text, key, detail string, ok bool) {
	defer func() {
		if r := recover(); r != nil {
			key, detail, ok = "roundtrip-stmt:panic", fmt.Sprint(r), false
		}
	}()
	var b bytes.Buffer
	if err := printer.Fprint(&b, token.NewFileSet(), fd); err != nil {
		return "", "roundtrip-stmt:print-error", err.Error(), false
	}
	text = b.String() + "\n"
	f, err := parser.ParseFile(token.NewFileSet(), "s.xgo", text, 0)
	if err != nil {
		if caseEndsBareErrWrap(fd) {
			return text, "errwrap-before-colon", firstLine(err.Error()), false
		}
		return text, "roundtrip-stmt:does-not-parse:" + msgClass(err.Error()), firstLine(err.Error()), false
	}
	var got *ast.FuncDecl
	for _, d := range f.Decls {
		if x, ok := d.(*ast.FuncDecl); ok && x.Name.Name == "f" && !x.Shadow {
			got = x
		}
	}
	if got == nil {
		return text, "roundtrip-stmt:lost-function", "", false
	}
	a, bb := normEmpty(Dump(fd.Body)), normEmpty(Dump(got.Body))
	if k, p, same := FirstDiff(a, bb); !same {
		if caseEndsBareErrWrap(fd) {
			return text, "errwrap-before-colon", k + " at " + p, false
		}
		return text, "roundtrip-stmt:" + stmtKindOfPath(p), k + " at " + p, false
	}
	return text, "", "", true
}

// stmtKindOfPath: the innermost statement kind on the path of the first difference.
func stmtKindOfPath(p string) string {
	kind := "Block"
	start := 0
	for i := 0; i <= len(p); i++ {
		if i == len(p) || p[i] == '/' {
			seg := bare(p[start:i])
			if len(seg) > 4 && (seg[len(seg)-4:] == "Stmt" || seg == "CaseClause" || seg == "CommClause") {
				kind = seg
			}
			start = i + 1
		}
	}
	return kind
}

func caseEndsBareErrWrap(fd *ast.FuncDecl) bool {
	found := false
	ast.Inspect(fd, func(n ast.Node) bool {
		if c, ok := n.(*ast.CaseClause); ok && len(c.List) > 0 && EndsBareErrWrap(c.List[len(c.List)-1]) {
			found = true
		}
		if c, ok := n.(*ast.CommClause); ok && c.Comm != nil {
			switch m := c.Comm.(type) {
			case *ast.SendStmt:
				found = found || EndsBareErrWrap(m.Values[len(m.Values)-1])
			case *ast.ExprStmt:
				found = found || EndsBareErrWrap(m.X)
			case *ast.AssignStmt:
				found = found || EndsBareErrWrap(m.Rhs[len(m.Rhs)-1])
			}
		}
		return !found
	})
	return found
}
