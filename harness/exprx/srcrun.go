package exprx

import (
	"bytes"
	"fmt"
	"os"
	"path/filepath"
	"regexp"
	"sort"
	"strings"

	"github.com/goplus/xgo/ast"
	"github.com/goplus/xgo/format"
	"github.com/goplus/xgo/parser"
	"github.com/goplus/xgo/printer"
	"github.com/goplus/xgo/token"
	"verifharness/vh"
)

// Src is one source text under test.
type Src struct {
	Name  string // file name given to format.Source (decides nothing but messages)
	Class bool   // parse as class file
	Text  string
	Line  string // case line
}

func RepoRoot() string {
	if r := os.Getenv("VERIF_REPO"); r != "" {
		return r
	}
	return "/repo"
}

func srcLine(class bool, name, text string) string {
	c := "0"
	if class {
		c = "1"
	}
	return "src\t" + c + "," + vh.HexS(name) + "," + vh.HexS(text)
}

// SrcOfLine rebuilds a Src from a `src` / `file` case line.
func SrcOfLine(line string) (*Src, error) {
	fs := strings.SplitN(line, "\t", 2)
	if len(fs) != 2 {
		return nil, fmt.Errorf("bad case line")
	}
	switch fs[0] {
	case "file":
		return fileSrc(fs[1])
	case "src":
		p := strings.Split(fs[1], ",")
		if len(p) != 3 {
			return nil, fmt.Errorf("bad src line")
		}
		return &Src{Name: unhex(p[1]), Class: p[0] == "1", Text: unhex(p[2]), Line: line}, nil
	}
	return nil, fmt.Errorf("unknown op %s", fs[0])
}

func isClassName(name string) bool {
	switch filepath.Ext(name) {
	case ".gox", ".spx", ".gsh", ".gmx", ".rdx", ".yap", ".gtest", ".gshx":
		return true
	}
	return false
}

func fileSrc(rel string) (*Src, error) {
	b, err := os.ReadFile(filepath.Join(RepoRoot(), rel))
	if err != nil {
		return nil, err
	}
	return &Src{Name: filepath.Base(rel), Class: isClassName(rel), Text: string(b), Line: "file\t" + rel}, nil
}

// Corpus lists the source files of the tree under test (relative paths, sorted).
func Corpus() []string {
	var l []string
	root := RepoRoot()
	filepath.Walk(root, func(p string, fi os.FileInfo, err error) error {
		if err != nil {
			return nil
		}
		if fi.IsDir() {
			if n := fi.Name(); n == ".git" || n == "node_modules" {
				return filepath.SkipDir
			}
			return nil
		}
		switch filepath.Ext(p) {
		case ".xgo", ".gox", ".gop", ".go", ".spx", ".gsh", ".yap", ".gmx", ".rdx":
			if fi.Size() < 400000 {
				rel, _ := filepath.Rel(root, p)
				l = append(l, rel)
			}
		}
		return nil
	})
	sort.Strings(l)
	return l
}

func ParseSrc(s *Src) (fset *token.FileSet, f *ast.File, err error) {
	defer func() {
		if r := recover(); r != nil {
			err = fmt.Errorf("PANIC %v", r)
		}
	}()
	fset = token.NewFileSet()
	mode := parser.ParseComments
	if s.Class {
		mode |= parser.ParseGoPlusClass
	}
	f, err = parser.ParseFile(fset, s.Name, []byte(s.Text), mode)
	return
}

// FormatSrc calls the real format.Source; a panic is returned as an error "PANIC ...".
func FormatSrc(s *Src) (out string, err error) {
	defer func() {
		if r := recover(); r != nil {
			err = fmt.Errorf("PANIC %v", r)
		}
	}()
	b, err := format.Source([]byte(s.Text), s.Class, s.Name)
	return string(b), err
}

// `1...` : an integer literal directly followed by an ellipsis is scanned as a malformed number.
var intBeforeEllipsis = regexp.MustCompile(`(^|[^0-9A-Za-z_.])[0-9][0-9A-Za-z_]*\.\.\.`)

var msgPos = regexp.MustCompile(`^[^ ]*:\d+:\d+: `)
var msgFound = regexp.MustCompile(`, found .*$| \(and \d+ more errors\)$`)

// msgClass: the first parser message without position and without the offending token.
func msgClass(m string) string {
	m = firstLine(m)
	m = msgPos.ReplaceAllString(m, "")
	m = msgFound.ReplaceAllString(m, "")
	m = msgFound.ReplaceAllString(m, "")
	return strings.ReplaceAll(strings.TrimSpace(m), " ", "-")
}

func firstLine(s string) string {
	if i := strings.IndexByte(s, '\n'); i >= 0 {
		s = s[:i]
	}
	if len(s) > 120 {
		s = s[:120]
	}
	return s
}

func errKey(prefix string, err error) string {
	m := err.Error()
	if strings.HasPrefix(m, "PANIC") {
		m = strings.TrimSpace(strings.TrimPrefix(m, "PANIC"))
		// drop numbers so that one defect has one key
		var b strings.Builder
		for _, c := range firstLine(m) {
			switch {
			case c >= '0' && c <= '9':
				b.WriteByte('N')
			case c == ' ' || c == '\t':
				b.WriteByte('-')
			default:
				b.WriteRune(c)
			}
		}
		return prefix + "-panic:" + b.String()
	}
	return prefix + "-error"
}

// CheckC19: formatting preserves the syntax tree.  Returns the implementation summary line.
func CheckC19(s *Src, o *vh.Out) string {
	_, f1, err := ParseSrc(s)
	if err != nil {
		o.Count("src_invalid")
		return "INVALID"
	}
	o.Count("src_valid")
	out, err := FormatSrc(s)
	if err != nil {
		o.Oracle(errKey("format", err), s.Line, firstLine(err.Error()))
		return "FORMAT-FAILS " + firstLine(err.Error())
	}
	s2 := &Src{Name: s.Name, Class: s.Class, Text: out}
	_, f2, err := ParseSrc(s2)
	if err != nil {
		key := "formatted-does-not-parse"
		if intBeforeEllipsis.MatchString(out) && !intBeforeEllipsis.MatchString(s.Text) {
			key += ":int-literal-before-ellipsis"
		} else if leadingEmptyTopLevel(Dump(f1)) {
			key = "empty-statement-removed:leading-top-level"
		} else {
			key += ":" + msgClass(err.Error())
		}
		o.Oracle(key, s.Line, firstLine(err.Error()))
		return "REPARSE-FAILS " + firstLine(err.Error())
	}
	d1, d2 := Dump(f1), Dump(f2)
	if keys, path, ok := Classify(d1, d2); !ok {
		for _, key := range keys {
			o.Oracle(key, s.Line, "at "+path)
		}
		o.Count("tree_differs")
		return "DIFF " + strings.Join(keys, "+")
	}
	if out != s.Text {
		o.Count("formatting_changed_text")
	}
	return "ok"
}

// CheckC20: formatting is idempotent.
func CheckC20(s *Src, o *vh.Out) string {
	_, f0, err := ParseSrc(s)
	if err != nil {
		o.Count("src_invalid")
		return "INVALID"
	}
	o.Count("src_valid")
	out, err := FormatSrc(s)
	if err != nil {
		o.Oracle(errKey("format", err), s.Line, firstLine(err.Error()))
		return "FORMAT-FAILS " + firstLine(err.Error())
	}
	out2, err := FormatSrc(&Src{Name: s.Name, Class: s.Class, Text: out})
	if err != nil {
		key := errKey("format2", err)
		if intBeforeEllipsis.MatchString(out) && !intBeforeEllipsis.MatchString(s.Text) {
			key += ":int-literal-before-ellipsis"
		} else if leadingEmptyTopLevel(Dump(f0)) {
			key += ":leading-top-level-empty-statement"
		} else {
			key += ":" + msgClass(err.Error())
		}
		o.Oracle(key, s.Line, firstLine(err.Error()))
		return "FORMAT2-FAILS " + firstLine(err.Error())
	}
	if out2 != out {
		key, detail := idemKey(out, out2, hasExplicitEmptyStmt(f0, s.Text))
		if (key == "second-pass-differs:blank-lines" || key == "second-pass-differs:layout") && len(f0.Comments) > 0 {
			key += "-with-comments"
		}
		o.Oracle(key, s.Line, detail)
		o.Count("not_idempotent")
		return "NOT-IDEMPOTENT " + key
	}
	if out != s.Text {
		o.Count("formatting_changed_text")
	}
	return "ok"
}

// squeeze drops white space and the optional comma before a closing bracket.
func squeeze(s string) string {
	s = squeeze0(s)
	for _, c := range []string{")", "]", "}"} {
		s = strings.ReplaceAll(s, ","+c, c)
	}
	return s
}

func squeeze0(s string) string {
	return strings.Map(func(r rune) rune {
		if r == ' ' || r == '\t' || r == '\n' || r == '\r' || r == '\f' {
			return -1
		}
		return r
	}, s)
}

func dropLineBreakSemis(s string) string { return strings.ReplaceAll(s, ";", "") }

// sameTokens: the two texts scan (comments skipped) to the same tokens; explicit and automatic
// semicolons count alike and the optional comma before a closing bracket is ignored.
func sameTokens(a, b string) bool {
	ta, ea := Scan(a)
	tb, eb := Scan(b)
	if ea != 0 || eb != 0 {
		return false
	}
	norm := func(ts []Tok) []string {
		var l []string
		for i, t := range ts {
			if t.Tok == token.COMMA && i+1 < len(ts) && (ts[i+1].Tok == token.RPAREN || ts[i+1].Tok == token.RBRACK || ts[i+1].Tok == token.RBRACE) {
				continue
			}
			if t.Tok == token.SEMICOLON {
				if i+1 < len(ts) && (ts[i+1].Tok == token.RPAREN || ts[i+1].Tok == token.RBRACE) {
					continue
				}
				l = append(l, ";")
				continue
			}
			l = append(l, t.Tok.String()+"\x00"+t.Lit)
		}
		return l
	}
	na, nb := norm(ta), norm(tb)
	if len(na) != len(nb) {
		return false
	}
	for i := range na {
		if na[i] != nb[i] {
			return false
		}
	}
	return true
}

func nonEmptyLines(s string) []string {
	var l []string
	for _, x := range strings.Split(s, "\n") {
		if strings.TrimSpace(x) != "" {
			l = append(l, x)
		}
	}
	return l
}

// idemKey classifies the difference between two formatting passes: `text` (tokens differ),
// or a layout-only class (blank lines, line breaks, alignment padding, blanks).
func idemKey(a, b string, srcHasEmptyStmt bool) (string, string) {
	la, lb := strings.Split(a, "\n"), strings.Split(b, "\n")
	detail := fmt.Sprintf("%d vs %d lines", len(la), len(lb))
	first := ""
	for i := 0; i < len(la) && i < len(lb); i++ {
		if la[i] != lb[i] {
			detail = fmt.Sprintf("line %d: %q vs %q", i+1, la[i], lb[i])
			first = la[i]
			break
		}
	}
	if squeeze(a) != squeeze(b) {
		if sameTokens(a, b) {
			if squeeze(dropLineBreakSemis(a)) != squeeze(dropLineBreakSemis(b)) || strings.Contains(a, "/*") {
				// same tokens; a /*…*/ comment sits at another token boundary (e.g. before instead
				// of after a comma), or a `;` became a line break
				if strings.Contains(a, "/*") {
					return "second-pass-differs:block-comment-position", detail
				}
			}
			return "second-pass-differs:line-breaks", detail
		}
		return "second-pass-differs:text", detail
	}
	if strings.Contains(first, "*/") && !strings.Contains(first, "/*") {
		return "second-pass-differs:multiline-comment-indent", detail
	}
	na, nb := nonEmptyLines(a), nonEmptyLines(b)
	if strings.Join(na, "\n") == strings.Join(nb, "\n") {
		if srcHasEmptyStmt {
			return "second-pass-differs:blank-line-left-by-empty-statement", detail
		}
		return "second-pass-differs:blank-lines", detail
	}
	if len(na) != len(nb) {
		t := strings.TrimSpace(first)
		if strings.HasPrefix(t, "if ") || strings.HasPrefix(t, "for ") || strings.HasPrefix(t, "switch ") || strings.HasPrefix(t, "} else if ") {
			return "second-pass-differs:line-breaks-in-control-clause", detail
		}
		return "second-pass-differs:line-breaks", detail
	}
	// same lines, different blanks inside a line
	for i := range na {
		if na[i] != nb[i] {
			ta, tb := strings.Fields(na[i]), strings.Fields(nb[i])
			if strings.Join(ta, " ") == strings.TrimSpace(nb[i]) && strings.Contains(strings.TrimSpace(na[i]), "  ") {
				return "second-pass-differs:alignment-padding-removed", detail
			}
			_ = tb
			if strings.Contains(na[i], "//") || strings.Contains(na[i], "/*") {
				if t := strings.TrimSpace(na[i]); strings.HasPrefix(t, "//") && i+1 < len(na) && labelLine.MatchString(strings.TrimSpace(na[i+1])) {
					return "second-pass-differs:comment-before-label", detail
				}
				if inImportBlock(na, i) {
					// after sorting / de-duplicating the specs, their comments are aligned one pass late
					return "second-pass-differs:import-comment-alignment", detail
				}
				return "second-pass-differs:layout-near-comment", detail
			}
			return "second-pass-differs:layout", detail
		}
	}
	return "second-pass-differs:layout", detail
}

var labelLine = regexp.MustCompile(`^[A-Za-z_][A-Za-z_0-9]*:$`)

func inImportBlock(lines []string, i int) bool {
	for j := i; j >= 0; j-- {
		t := strings.TrimSpace(lines[j])
		if strings.HasPrefix(t, "import (") {
			return true
		}
		if j < i && strings.HasPrefix(t, ")") {
			return false
		}
	}
	return false
}

func hasExplicitEmptyStmt(f *ast.File, src string) bool {
	found := false
	ast.Inspect(f, func(n ast.Node) bool {
		if e, ok := n.(*ast.EmptyStmt); ok && !e.Implicit {
			found = true
		}
		return !found
	})
	if found {
		return true
	}
	// stray ';' between top-level declarations are not in the tree
	for _, l := range strings.Split(src, "\n") {
		t := strings.TrimSpace(l)
		if t == ";" || strings.HasSuffix(t, ";;") || strings.HasSuffix(t, ");") || strings.HasSuffix(t, "};") {
			return true
		}
	}
	return false
}

// PrintFile prints an AST with the formatter's configuration.
func PrintFile(fset *token.FileSet, f *ast.File) (s string, err error) {
	defer func() {
		if r := recover(); r != nil {
			err = fmt.Errorf("PANIC %v", r)
		}
	}()
	var b bytes.Buffer
	cfg := printer.Config{Mode: printer.UseSpaces | printer.TabIndent, Tabwidth: 8}
	err = cfg.Fprint(&b, fset, f)
	return b.String(), err
}
