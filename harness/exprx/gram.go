package exprx

import (
	"fmt"
	"strings"

	"verifharness/vh"
)

// Gram is a grammar-directed generator of XGo / Go source TEXT.  It walks the statement,
// declaration, type and expression grammar that the printer handles (every ast.Stmt and ast.Decl
// kind) and writes the text with its own layout (random blanks, line breaks where the grammar
// allows them, `;` or newline between statements, comments) — the printer under test is not
// involved, so redundant parentheses, empty statements, unusual import spellings etc. reach
// format.Source as written.  Validity is not guaranteed (the harness parses first and skips
// invalid texts); the generator aims at mostly valid output.
type Gram struct {
	R      *vh.Rand
	labels []string // labels declared so far in the current function
	nlabel int
	Class  bool
	depth  int
	// NoBlockComments switches the /*…*/ comments at token boundaries off.
	NoBlockComments bool
}

func NewGram(r *vh.Rand) *Gram { return &Gram{R: r} }

func (g *Gram) pick(xs ...string) string { return xs[g.R.Intn(len(xs))] }
func (g *Gram) chance(p int) bool      { return g.R.Chance(p) }

// s: mandatory horizontal space; o: optional space.
func (g *Gram) s() string {
	switch g.R.Intn(40) {
	case 0, 1, 2:
		return "  "
	case 3, 4, 5:
		return "\t"
	case 6:
		return g.pick(" ", "") + g.blockComment() + g.pick(" ", "")
	}
	return " "
}
func (g *Gram) o() string {
	switch g.R.Intn(48) {
	case 0, 1, 2, 3, 4, 5, 6, 7:
		return " "
	case 8, 9, 10, 11, 12, 13, 14, 15:
		return "  "
	case 16:
		return g.blockComment()
	}
	return ""
}

// blockComment: a general comment, single- or multi-line.
func (g *Gram) blockComment() string {
	if g.NoBlockComments {
		return ""
	}
	switch g.R.Intn(8) {
	case 0:
		return "/* m" + fmt.Sprint(g.R.Intn(9)) + "\n   more */"
	case 1:
		return "/**/"
	}
	return "/* b" + fmt.Sprint(g.R.Intn(9)) + " */"
}

// nl: end of a line, possibly with a trailing / following comment or an empty line.
func (g *Gram) nl() string {
	switch g.R.Intn(16) {
	case 0:
		return " // c" + fmt.Sprint(g.R.Intn(9)) + "\n"
	case 1:
		return "\n\n"
	case 2:
		return "\n// lead" + fmt.Sprint(g.R.Intn(9)) + "\n"
	case 3:
		return "\n\n\n"
	}
	return "\n"
}

// brk: an optional line break inside a list (after ',' or an operator).
func (g *Gram) brk() string {
	if g.chance(8) {
		return "\n\t"
	}
	return g.o()
}

func (g *Gram) ident() string {
	return g.pick("a", "b", "c", "x", "y", "n", "i", "xs", "m", "f", "g", "ok", "err", "s", "t", "v", "ch", "p", "T", "buf")
}

// quoted content pieces shared by the string-like literals
var gramEsc = []string{`\a`, `\b`, `\f`, `\n`, `\r`, `\t`, `\v`, `\\`, `\x41`, `\u00e9`, `\U0001F600`, `\101`, `\000`}
var gramRaw = []string{"a", "Z", "0", " ", "\t", "\x01", "\x7f", "é", "世", "😀", "#", "/*", "//", "`"}

func (g *Gram) strBody(quote byte, interp bool) string {
	var b strings.Builder
	for i, n := 0, g.R.Intn(5); i < n; i++ {
		switch g.R.Intn(7) {
		case 0, 1:
			b.WriteString(gramEsc[g.R.Intn(len(gramEsc))])
		case 2:
			if quote == '"' {
				b.WriteString(g.pick(`\"`, "'"))
			} else {
				b.WriteString(g.pick(`\'`, `"`))
			}
		case 3:
			if interp {
				b.WriteString(g.pick("${x}", "${x + 1}", "$$", "${f(a)}", "$x", "${a.b}"))
			} else {
				b.WriteString("z")
			}
		default:
			c := gramRaw[g.R.Intn(len(gramRaw))]
			if c == "`" && quote == '`' {
				c = "q"
			}
			b.WriteString(c)
		}
	}
	return b.String()
}

func (g *Gram) number() string {
	switch g.R.Intn(8) {
	case 0:
		return g.pick("0", "1", "42", "007", "1_000", "9_9")
	case 1:
		return g.pick("0x1F", "0X1f", "0x_1F", "0xdead_beef", "0o17", "0O7", "017", "0b101", "0B1_0")
	case 2:
		return g.pick("1.5", ".5", "1.", "0.0", "1_0.2_5", "00.5")
	case 3:
		return g.pick("1e3", "1E+3", "1e-3", "1.5e10", ".5E2", "0x1p-2", "0X1P+2", "0x1.8p1", "0x.8p0")
	case 4:
		return g.pick("2i", "1.5i", "0i", "1e3i", "0x1p0i", "0b1i", "017i")
	case 5:
		return g.pick("1r", "3r", "1_0r")
	case 6:
		return g.pick("3m", "1.5s", "5ms", "2h", "10km", "7d")
	}
	return g.pick("1", "2", "10")
}

func (g *Gram) lit() string {
	switch g.R.Intn(12) {
	case 0, 1, 2:
		return g.number()
	case 3:
		// rune literals: plain, raw TAB / control / non-ASCII bytes, every escape form
		switch g.R.Intn(4) {
		case 0:
			return "'" + g.pick("a", " ", "\t", "\x01", "é", "世", "😀", "\"", "#") + "'"
		case 1:
			return "'" + gramEsc[g.R.Intn(len(gramEsc))] + "'"
		case 2:
			return `'\''`
		}
		return "'x'"
	case 4, 5:
		return `"` + g.strBody('"', true) + `"`
	case 6:
		body := g.strBody('`', false)
		if g.chance(25) {
			body += "\n\tline2\n"
		}
		return "`" + body + "`"
	case 7:
		return `c"` + g.strBody('"', false) + `"`
	case 8:
		return `py"` + g.strBody('"', false) + `"`
	case 9:
		return g.pick("true", "false", "nil", "iota")
	}
	return g.pick(`"s"`, "1", `"k"`)
}

var gramBin = []string{"||", "&&", "==", "!=", "<", "<=", ">", ">=", "+", "-", "|", "^", "*", "/", "%", "<<", ">>", "&", "&^"}

// paren wraps e in 0..3 pairs of (redundant) parentheses.
func (g *Gram) paren(e string) string {
	n := 0
	switch g.R.Intn(14) {
	case 0:
		n = 1
	case 1:
		n = 2
	case 2:
		n = 3
	}
	for i := 0; i < n; i++ {
		e = "(" + g.o() + e + g.o() + ")"
	}
	return e
}

// typ generates a type.
func (g *Gram) typ(d int) string {
	n := g.R.Intn(16)
	if d <= 0 && n >= 6 {
		n = g.R.Intn(6)
	}
	switch n {
	case 0, 1:
		return g.pick("int", "string", "bool", "error", "byte", "float64", "any")
	case 2:
		return g.pick("T", "E", "Point")
	case 3:
		return g.pick("pkg.T", "io.Reader", "time.Duration")
	case 4:
		return "[]" + g.typ(d-1)
	case 5:
		return "*" + g.typ(d-1)
	case 6:
		return "map[" + g.typ(d-1) + "]" + g.typ(d-1)
	case 7:
		return "[" + g.pick("4", "N", "2*n") + "]" + g.typ(d-1)
	case 8:
		return g.pick("chan", "<-chan", "chan<-") + " " + g.typ(d-1)
	case 9:
		return "func(" + g.params(d-1, false) + ")" + g.results(d-1)
	case 10:
		return "struct{" + g.o() + "}"
	case 11:
		return "struct {\n" + g.fields(d-1) + "}"
	case 12:
		return "interface{" + g.o() + "}"
	case 13:
		return "interface {\n\tM(" + g.params(d-1, false) + ")" + g.results(d-1) + "\n\t" + g.pick("E", "io.Reader", "String() string") + "\n}"
	case 14:
		return "(" + g.o() + g.typ(d-1) + g.o() + ")" // redundant parentheses around a type
	default:
		return "T[" + g.typ(d-1) + "]"
	}
}

func (g *Gram) fields(d int) string {
	var b strings.Builder
	for i, n := 0, 1+g.R.Intn(4); i < n; i++ {
		b.WriteString("\t")
		switch g.R.Intn(5) {
		case 0:
			b.WriteString(g.pick("E", "*E", "pkg.T", "io.Reader"))
		case 1:
			b.WriteString(g.ident() + "," + g.s() + g.ident() + "2" + g.s() + g.typ(d))
		default:
			b.WriteString(g.ident() + fmt.Sprint(i) + g.s() + g.typ(d))
		}
		if g.chance(25) {
			b.WriteString(g.s() + g.pick("`json:\"a\"`", `"tag"`))
		}
		if g.chance(20) {
			b.WriteString(" // f" + fmt.Sprint(i))
		}
		b.WriteString(g.pick("\n", "\n", "\n\n", ";\n"))
	}
	return b.String()
}

func (g *Gram) params(d int, variadic bool) string {
	n := g.R.Intn(4)
	var ps []string
	named := g.R.Bool()
	for i := 0; i < n; i++ {
		t := g.typ(d)
		if g.chance(10) {
			t = "(" + t + ")"
		}
		if variadic && i == n-1 && g.chance(40) {
			t = "..." + t
		}
		if named {
			nm := g.ident() + fmt.Sprint(i)
			if g.chance(20) && i+1 < n {
				nm += "," + g.s() + g.ident() + fmt.Sprint(i) + "b"
			}
			ps = append(ps, nm+g.s()+t)
		} else {
			ps = append(ps, t)
		}
	}
	return strings.Join(ps, ","+g.brkArg())
}

func (g *Gram) brkArg() string {
	if g.chance(5) {
		return "\n\t"
	}
	return " "
}

func (g *Gram) results(d int) string {
	switch g.R.Intn(6) {
	case 0:
		return ""
	case 1:
		return g.s() + g.typ(d)
	case 2:
		return g.s() + "(" + g.typ(d) + "," + g.s() + "error)"
	case 3:
		return g.s() + "(r" + g.s() + g.typ(d) + "," + g.s() + "err error)"
	case 4:
		return g.s() + "(" + g.typ(d) + ")"
	}
	return g.s() + "error"
}

// expr generates an expression; hdr: the expression stands in a control-clause header (a
// composite literal with a type name must then be parenthesised).
func (g *Gram) expr(d int, hdr bool) string { return g.paren(g.expr0(d, hdr)) }

func (g *Gram) args(d int) string {
	n := g.R.Intn(4)
	var as []string
	for i := 0; i < n; i++ {
		as = append(as, g.expr(d, false))
	}
	s := strings.Join(as, ","+g.brk())
	if n > 0 && g.chance(12) {
		s += "..."
	}
	if n > 0 && g.chance(6) {
		s += ",\n"
	}
	return s
}

func (g *Gram) expr0(d int, hdr bool) string {
	if d <= 0 {
		if g.R.Bool() {
			return g.ident()
		}
		return g.lit()
	}
	switch g.R.Intn(34) {
	case 0, 1, 2:
		return g.ident()
	case 3, 4:
		return g.lit()
	case 5, 6, 7, 8, 9:
		op := gramBin[g.R.Intn(len(gramBin))]
		sp := g.pick("", " ", " ", "  ")
		r := g.expr(d-1, hdr)
		if sp == "" && (strings.HasPrefix(r, op[len(op)-1:]) || strings.HasPrefix(r, "&") || strings.HasPrefix(r, "-") || strings.HasPrefix(r, "+") || strings.HasPrefix(r, "*") || strings.HasPrefix(r, "<") || strings.HasPrefix(r, "^") || strings.HasPrefix(r, "!")) {
			sp = " "
		}
		brk := ""
		if sp != "" && g.chance(6) {
			brk = "\n\t\t"
		}
		return g.expr(d-1, hdr) + sp + op + sp + brk + r
	case 10:
		op := g.pick("-", "+", "!", "^", "&", "<-", "*")
		x := g.expr(d-1, hdr)
		if strings.HasPrefix(x, op[:1]) || (op == "&" && strings.HasPrefix(x, "^")) || (op == "<-" && strings.HasPrefix(x, "-")) {
			return op + " " + x
		}
		return op + x
	case 11:
		return g.expr(d-1, hdr) + "." + g.ident()
	case 12, 13:
		return g.callee(d-1, hdr) + "(" + g.args(d-1) + ")"
	case 14:
		return g.callee(d-1, hdr) + "[" + g.expr(d-1, false) + "]"
	case 15:
		return g.callee(d-1, hdr) + "[" + g.pick("", g.expr(d-1, false)) + g.o() + ":" + g.o() + g.pick("", g.expr(d-1, false)) + "]"
	case 16:
		return g.callee(d-1, hdr) + "[" + g.expr(d-1, false) + ":" + g.expr(d-1, false) + ":" + g.expr(d-1, false) + "]"
	case 17:
		t := g.pick("T", "pkg.T", "[]int", "map[string]int", "[2]T", "Point")
		e := t + "{" + g.elts(d-1) + "}"
		if hdr {
			return "(" + e + ")"
		}
		return e
	case 18:
		if hdr {
			return g.ident()
		}
		return "{" + g.kvs(d-1) + "}"
	case 19:
		return "[" + g.args2(d-1) + "]"
	case 20:
		if hdr {
			return g.ident()
		}
		return "func(" + g.params(1, true) + ")" + g.results(1) + g.s() + "{" + g.nl() + g.stmts(d-1, 2) + "}"
	case 21:
		return g.pick("x", "(x)", "(x, y)", "()", "") + g.pick(" ", "") + "=>" + g.s() + g.pick(g.ident(), g.ident()+" + 1", "(a, b)", "f(x)")
	case 22:
		return g.callee(d-1, hdr) + "!"
	case 23:
		return g.callee(d-1, hdr) + "?:" + g.pick(g.ident(), g.lit(), "-1", "f(x)")
	case 24:
		return g.callee(d-1, hdr) + ".(" + g.pick("T", "pkg.T", "*T", "[]int", "interface{}", "(T)") + ")"
	case 25:
		return g.pick("[]byte", "string", "float64", "(*T)", "[]T", "(func())", "T") + "(" + g.expr(d-1, false) + ")"
	case 26:
		return g.pick("make", "new", "len", "append") + "(" + g.pick("[]int", "map[string]T", "chan int", "T") + g.pick("", ", 4", ", n, 2*n") + ")"
	case 27:
		return "[" + g.expr(d-1, false) + g.s() + "for" + g.s() + g.pick("x", "i, x", "_, v") + g.s() + "in" + g.s() + g.pick("xs", "m", "1:10", ":n:2", "f(a)") + g.pick("", " if x > 0", " if v := f(x); v != nil") + "]"
	case 28:
		return "{" + g.pick("k: v", "v: k", "x", "") + g.pick(" ", "") + "for" + g.s() + "k, v" + g.s() + "in" + g.s() + "m" + g.pick("", " if v > 1") + "}"
	case 29:
		return g.pick("$x", "${name}", "$HOME")
	case 30:
		return g.pick("tpl`expr = INT`", "json`{\"a\": 1}`", "re`a+`")
	case 31:
		return "&" + g.pick("T", "pkg.T", "Point") + "{" + g.elts(d-1) + "}"
	case 32:
		return "*" + g.callee(d-1, hdr)
	default:
		return g.expr(d-1, hdr) + g.s() + g.pick("->", "<>") + g.s() + g.expr(d-1, hdr)
	}
}

// callee: a primary expression.
func (g *Gram) callee(d int, hdr bool) string {
	switch g.R.Intn(8) {
	case 0:
		return g.ident() + "." + g.ident()
	case 1:
		return "(" + g.expr(d, false) + ")"
	case 2:
		if d > 0 {
			return g.callee(d-1, hdr) + "(" + g.args(d-1) + ")"
		}
	case 3:
		if d > 0 {
			return g.callee(d-1, hdr) + "[" + g.expr(d-1, false) + "]"
		}
	}
	return g.ident()
}

func (g *Gram) args2(d int) string {
	n := 2 + g.R.Intn(3)
	var as []string
	for i := 0; i < n; i++ {
		as = append(as, g.expr(d, false))
	}
	return strings.Join(as, ","+g.brk())
}

func (g *Gram) elts(d int) string {
	switch g.R.Intn(4) {
	case 0:
		return ""
	case 1:
		return g.kvs(d)
	}
	n := 1 + g.R.Intn(3)
	var as []string
	for i := 0; i < n; i++ {
		as = append(as, g.expr(d, false))
	}
	s := strings.Join(as, ","+g.brk())
	if g.chance(15) {
		s += ",\n"
	}
	return s
}

func (g *Gram) kvs(d int) string {
	n := 1 + g.R.Intn(3)
	var as []string
	for i := 0; i < n; i++ {
		k := g.pick(g.ident(), g.lit(), `"k"`, "("+g.ident()+")", "(("+g.lit()+"))")
		as = append(as, k+":"+g.o()+g.expr(d, false))
	}
	s := strings.Join(as, ","+g.brk())
	if g.chance(20) {
		s = "\n" + s + ",\n"
	}
	return s
}

func (g *Gram) newLabel() string {
	g.nlabel++
	l := fmt.Sprintf("L%d", g.nlabel)
	g.labels = append(g.labels, l)
	return l
}

// block: "{ stmts }"
func (g *Gram) block(d int) string {
	if g.chance(8) {
		return "{" + g.pick("", " ", "\n") + "}"
	}
	if g.chance(10) {
		// statements on the line of the opening brace
		return "{" + g.s() + g.stmts(d, 2) + "}"
	}
	return "{" + g.nl() + g.stmts(d, 3) + "}"
}

// stmts: a statement list; every statement is followed by a separator (newline or ';').
func (g *Gram) stmts(d, max int) string {
	var b strings.Builder
	n := g.R.Intn(max + 1)
	for i := 0; i < n; i++ {
		last := i == n-1
		b.WriteString(g.stmt(d, last))
		switch {
		case g.chance(6):
			b.WriteString(";" + g.pick(" ", "", "\n"))
			if g.chance(40) {
				b.WriteString(";") // an extra empty statement
			}
			b.WriteString("\n")
		case g.chance(8):
			// the next statement (or the closing brace) follows on the same line
			if g.chance(35) {
				b.WriteString(";" + g.pick(" ", "") + g.blockComment() + g.pick(" ", ""))
			} else {
				b.WriteString(";" + g.s())
			}
		default:
			b.WriteString(g.nl())
		}
	}
	return b.String()
}

func (g *Gram) simpleStmt(d int) string {
	switch g.R.Intn(9) {
	case 0:
		return g.ident() + g.s() + ":=" + g.s() + g.expr(d, true)
	case 1:
		return g.ident() + "," + g.s() + g.ident() + g.s() + g.pick("=", ":=") + g.s() + g.expr(d, true) + "," + g.s() + g.expr(d, true)
	case 2:
		return g.lhs(d) + g.s() + g.pick("+=", "-=", "*=", "/=", "%=", "&=", "|=", "^=", "<<=", ">>=", "&^=", "=") + g.s() + g.expr(d, true)
	case 3:
		return g.lhs(d) + g.pick("++", "--")
	case 4:
		return g.ident() + g.s() + "<-" + g.s() + g.expr(d, true)
	case 5:
		return g.callee(1, true) + "(" + g.args(d) + ")"
	case 6:
		return "<-" + g.ident()
	case 7:
		return "v," + g.s() + "ok" + g.s() + ":=" + g.s() + g.pick("<-ch", "m[k]", "x.(T)")
	}
	return g.ident() + g.s() + "=" + g.s() + g.expr(d, true)
}

func (g *Gram) lhs(d int) string {
	return g.pick(g.ident(), g.ident()+"."+g.ident(), g.ident()+"["+g.expr(d, false)+"]", "*"+g.ident(), "("+g.ident()+")")
}

func (g *Gram) cases(d int, typeSwitch bool) string {
	var b strings.Builder
	n := g.R.Intn(4)
	def := g.R.Intn(n + 2)
	for i := 0; i < n+1; i++ {
		if i == def {
			if g.chance(70) {
				b.WriteString("default:" + g.nl() + g.clauseBody(d, i == n, typeSwitch))
			}
			continue
		}
		if typeSwitch {
			b.WriteString("case " + g.pick("int", "string, bool", "*T", "nil", "[]byte, pkg.T", "(T)") + ":" + g.nl())
		} else {
			b.WriteString("case " + g.expr(d, false) + g.pick("", ", "+g.expr(d, false)) + ":" + g.nl())
		}
		b.WriteString(g.clauseBody(d, i == n, typeSwitch))
	}
	return b.String()
}

// clauseBody: statements of a case / comm clause; in a non-final clause the last statement may
// be `fallthrough` or a labelled (possibly empty) statement.
func (g *Gram) clauseBody(d int, finalClause, noFallthrough bool) string {
	s := g.stmts(d, 2)
	switch g.R.Intn(10) {
	case 0:
		if !finalClause && !noFallthrough {
			s += "fallthrough" + g.nl()
		}
	case 1:
		s += g.newLabel() + ":" + g.pick(" ;", ";", "\n;") + g.nl()
	case 2:
		s += g.newLabel() + ":" + g.nl() + g.stmt(d, true) + g.nl()
	}
	return s
}

func (g *Gram) commClauses(d int) string {
	var b strings.Builder
	n := g.R.Intn(4)
	for i := 0; i < n; i++ {
		switch g.R.Intn(5) {
		case 0:
			b.WriteString("case v := <-" + g.ident() + ":")
		case 1:
			b.WriteString("case " + g.ident() + " <- " + g.expr(d, false) + ":")
		case 2:
			b.WriteString("case <-" + g.pick("ch", "time.After(1)", "(done)") + ":")
		case 3:
			b.WriteString("case v, ok = <-ch:")
		default:
			b.WriteString("default:")
		}
		b.WriteString(g.nl() + g.clauseBody(d, i == n-1, true))
	}
	return b.String()
}

// stmt generates one statement (without its separator); last: it is the last of its list.
func (g *Gram) stmt(d int, last bool) string {
	n := g.R.Intn(40)
	if d <= 0 && n >= 14 {
		n = g.R.Intn(14)
	}
	switch n {
	case 0, 1, 2, 3:
		return g.simpleStmt(d)
	case 4:
		// command-style call
		return g.pick("println", "echo", "a.b.run", "t.log") + " " + g.pick(g.ident(), g.lit(), `"s"`, "x + 1", "x => x * 2", "f(x), y", `"a", b, 3`, "[1, 2]", "{\"k\": v}", "-x, +y")
	case 5:
		return "return" + g.pick("", " "+g.expr(d, false), " "+g.expr(d, false)+", nil", " (x), ((y))")
	case 6:
		return "var " + g.ident() + g.s() + g.typ(1) + g.pick("", " = "+g.expr(d, false))
	case 7:
		return "var " + g.ident() + ", " + g.ident() + "2 = " + g.expr(d, false) + ", " + g.expr(d, false)
	case 8:
		return "const " + g.pick("c = 1", "c, d = 1, \"s\"", "k T = iota", "(\n\tA = iota\n\tB\n\tC\n)")
	case 9:
		return "type " + g.pick("T2 ", "T3 = ", "P ") + g.typ(2)
	case 10:
		return g.pick("go", "defer") + " " + g.callee(1, false) + "(" + g.args(d) + ")"
	case 11:
		return g.pick("go", "defer") + " func() {" + g.nl() + g.stmts(d-1, 2) + "}()"
	case 12:
		return g.pick("break", "continue")
	case 13:
		if len(g.labels) > 0 {
			return g.pick("goto", "break", "continue", "goto") + " " + g.labels[g.R.Intn(len(g.labels))]
		}
		return ";"
	case 14, 15, 16:
		// if with optional init, else-if chain
		s := "if " + g.pick("", g.simpleStmt(d-1)+"; ") + g.expr(d-1, true) + " " + g.block(d-1)
		for g.chance(25) {
			s += " else if " + g.expr(d-1, true) + " " + g.block(d-1)
		}
		if g.chance(35) {
			s += " else " + g.block(d-1)
		}
		return s
	case 17, 18:
		return "for " + g.pick("", g.expr(d-1, true)+" ", g.pick("i := 0", "")+"; "+g.pick(g.expr(d-1, true), "")+"; "+g.pick("i++", "i += 2", "")+" ") + g.block(d-1)
	case 19:
		return "for " + g.pick("", "i := ", "i, x := ", "_, x = ", "k, v := ") + "range " + g.expr(d-1, true) + " " + g.block(d-1)
	case 20, 21:
		return "for " + g.pick("x", "i, x", "k, v", "_, v") + " in " + g.pick(g.expr(d-1, true), "xs", ":10", "1:n", "0:n:2", "((m))") + g.pick("", " if "+g.expr(d-1, true)) + " " + g.block(d-1)
	case 22, 23:
		return "switch " + g.pick("", g.expr(d-1, true)+" ", g.simpleStmt(d-1)+"; "+g.expr(d-1, true)+" ", "x := f(); ") + "{" + g.nl() + g.cases(d-1, false) + "}"
	case 24:
		return "switch " + g.pick("v := x.(type)", "x.(type)", "v := f(); t := v.(type)", "((x)).(type)") + " {" + g.nl() + g.cases(d-1, true) + "}"
	case 25:
		return "select {" + g.nl() + g.commClauses(d-1) + "}"
	case 26:
		return g.block(d - 1)
	case 27, 28, 29:
		// labelled statement: every statement kind (incl. the empty statement) as its statement
		l := g.newLabel()
		switch g.R.Intn(4) {
		case 0:
			return l + ":" + g.pick(" ;", ";")
		case 1:
			if last {
				return l + ":" // a label directly before '}' (implicit empty statement)
			}
			return l + ": ;"
		}
		return l + ":" + g.pick(" ", "\n", "\n\n") + g.stmt(d-1, last)
	case 30:
		return ";"
	case 31:
		return g.ident() + " => {" + g.nl() + g.stmts(d-1, 2) + "}"
	case 32:
		return g.pick("onStart", "t.run \"x\",", "onMsg \"m\",") + " " + g.pick("=>", "x =>", "(a, b) =>") + " {" + g.nl() + g.stmts(d-1, 2) + "}"
	case 33:
		return g.ident() + " := " + g.expr(d, false) + g.pick("!", "?", "?:0")
	case 34:
		return "var (\n\t" + g.ident() + " = " + g.expr(d-1, false) + "\n\t" + g.ident() + "3, z int\n)"
	case 35:
		return "type (\n\tA1 " + g.typ(1) + "\n\tB1 = " + g.typ(1) + "\n)"
	case 36:
		switch g.R.Intn(4) {
		case 0:
			return g.ident() + " := " + g.pick("T", "[]func()", "map[string]func(int) int", "pkg.T") + "{" + g.pick("", "f: ", `"k": `) + "func(" + g.params(1, false) + ")" + g.results(1) + " {" + g.nl() + g.stmts(d-1, 2) + "}" + g.pick("", ",\n") + "}"
		case 1:
			return g.callee(1, false) + "(func() {" + g.nl() + g.stmts(d-1, 2) + "}, " + g.pick("x => x + 1", "(a, b) => {\n"+g.stmts(d-1, 2)+"}", g.ident()) + ")"
		case 2:
			return "var " + g.ident() + " = [" + g.pick("x => {\n"+g.stmts(d-1, 2)+"}", "func() {}", "=> 1") + ", " + g.expr(1, false) + "]"
		}
		return "for {" + g.nl() + g.stmts(d-1, 2) + "}"
	case 37:
		return "if " + g.expr(d-1, true) + " {" + g.nl() + g.stmts(d-1, 2) + "} else {" + g.nl() + g.stmts(d-1, 1) + "}"
	default:
		return g.simpleStmt(d)
	}
}

var gramPaths = []string{"fmt", "os", "io", "sort", "strings", "math", "github.com/x/y", "a/b/c"}

// spell writes an import path in one of its spellings.
func (g *Gram) spell(p string) string {
	switch g.R.Intn(10) {
	case 0:
		return "`" + p + "`"
	case 1:
		// escape the first byte
		return fmt.Sprintf("\"\\x%02x%s\"", p[0], p[1:])
	case 2:
		return fmt.Sprintf("\"%s\\u%04x\"", p[:len(p)-1], p[len(p)-1])
	}
	return "\"" + p + "\""
}

func (g *Gram) importSpec() string {
	p := gramPaths[g.R.Intn(len(gramPaths))]
	switch g.R.Intn(8) {
	case 0:
		return g.pick("q", "alias", "m2") + g.s() + g.spell(p)
	case 1:
		return "." + g.s() + g.spell(p)
	case 2:
		return "_" + g.s() + g.spell(p)
	}
	return g.spell(p)
}

func (g *Gram) imports() string {
	var b strings.Builder
	for i, n := 0, g.R.Intn(3); i < n; i++ {
		if g.chance(40) {
			b.WriteString("import " + g.importSpec() + g.nl())
			continue
		}
		b.WriteString("import (" + g.pick("\n", " // group\n", "\n\n"))
		m := g.R.Intn(7)
		var prev string
		for j := 0; j < m; j++ {
			sp := g.importSpec()
			if prev != "" && g.chance(25) {
				// the same path again, under the same or another name
				fs := strings.Fields(prev)
				sp = g.pick("", "z ", "_ ", ". ", "q ") + fs[len(fs)-1]
			}
			prev = sp
			b.WriteString("\t" + sp)
			switch g.R.Intn(10) {
			case 0:
				b.WriteString(" // why")
			case 1:
				b.WriteString("\n") // blank line: new group
			case 2:
				b.WriteString("\n\t// about the next")
			}
			b.WriteString(g.pick("\n", "\n", ";\n"))
		}
		b.WriteString(")" + g.nl())
	}
	return b.String()
}

func (g *Gram) funcDecl() string {
	g.labels, g.nlabel = nil, 0
	recv := ""
	switch g.R.Intn(6) {
	case 0:
		recv = "(t *T) "
	case 1:
		recv = "(T) "
	case 2:
		recv = "(p Point) "
	case 3:
		recv = "(t *T[K]) "
	}
	name := g.pick("run", "Add", "m", "String", "init2", "do")
	tp := ""
	if recv == "" && g.chance(15) {
		tp = g.pick("[T any]", "[K comparable, V any]", "[T int | string]")
	}
	switch g.R.Intn(14) {
	case 0:
		if recv != "" {
			return "func " + recv + g.pick("+", "-", "*", "==", "<", "+=", "++", "->") + " (" + g.pick("b T", "b *T", "") + ")" + g.results(1) + " " + g.block(2)
		}
	case 1:
		return "func " + g.pick("add", "mul") + " = (\n\t" + g.pick("addInt", "(T).add") + "\n\t" + g.pick("addFloat", "func(a, b string) string { return a + b }") + "\n)"
	case 2:
		return "func " + recv + name + tp + "(" + g.params(1, true) + ")" + g.results(1) // declaration without body
	}
	return "func " + recv + name + tp + "(" + g.params(1, true) + ")" + g.results(1) + g.s() + "{" + g.nl() + g.stmts(3, 4) + "}"
}

func (g *Gram) genDecl() string {
	switch g.R.Intn(8) {
	case 0:
		return "var " + g.ident() + g.s() + g.typ(2) + g.pick("", " = "+g.expr(2, false))
	case 1:
		return "var (\n\t" + g.ident() + " = " + g.expr(2, false) + g.nl() + "\t" + g.ident() + "2, " + g.ident() + "3 " + g.typ(1) + g.pick("", " = 1, 2") + g.nl() + ")"
	case 2:
		return "const (\n\tA = iota" + g.nl() + "\tB" + g.nl() + "\tC, D = " + g.expr(1, false) + ", ((2))" + g.nl() + ")"
	case 3:
		return "const " + g.pick("Pi = 3.14", "K T = 1 << iota", "S, U = \"s\", 'u'")
	case 4:
		return "type " + g.pick("T", "Point", "E") + g.pick("", "[K comparable]") + " " + g.typ(3)
	case 5:
		return "type (\n\tA " + g.typ(2) + g.nl() + "\tB = " + g.typ(2) + g.nl() + ")"
	case 6:
		return "type E " + g.pick("= ", "") + g.typ(2)
	}
	return "var _ = " + g.expr(3, false)
}

// Program generates a source file: normal (.xgo) or class file (.gox).
func (g *Gram) Program() (text string, class bool, name string) {
	var b strings.Builder
	g.Class = g.chance(25)
	name = "gram.xgo"
	if g.Class {
		name = "Gram.gox"
	} else if g.chance(50) {
		if g.chance(30) {
			b.WriteString("// Package doc.\n")
		}
		b.WriteString("package " + g.pick("main", "p") + g.nl())
	}
	b.WriteString(g.imports())
	if g.Class && g.chance(70) {
		// the field block of a class file: names, embedded types, tags, comments
		b.WriteString("var (" + g.pick("\n", " // fields\n"))
		for i, n := 0, 1+g.R.Intn(4); i < n; i++ {
			switch g.R.Intn(4) {
			case 0:
				b.WriteString("\t" + g.pick("*Base", "Base", "pkg.T", "*pkg.T"))
			case 1:
				b.WriteString("\t" + g.ident() + fmt.Sprint(i) + "," + g.s() + g.ident() + fmt.Sprint(i) + "b" + g.s() + g.typ(1))
			default:
				b.WriteString("\t" + g.ident() + fmt.Sprint(i) + g.s() + g.typ(1))
			}
			if g.chance(30) {
				b.WriteString(g.s() + g.pick("`json:\"a\"`", `"tag"`, "`x:\"1\"\ty:\"2\"`"))
			}
			b.WriteString(g.nl())
		}
		b.WriteString(")" + g.nl())
	}
	for i, n := 0, g.R.Intn(5); i < n; i++ {
		if g.R.Bool() {
			b.WriteString(g.funcDecl())
		} else {
			b.WriteString(g.genDecl())
		}
		b.WriteString(g.nl())
	}
	// top-level statements (shadow entry)
	if g.chance(70) {
		g.labels, g.nlabel = nil, 0
		b.WriteString(g.stmts(3, 5))
	}
	text = b.String()
	if g.chance(6) {
		text = strings.ReplaceAll(text, "\n", "\r\n")
	}
	if g.chance(10) {
		text = strings.TrimRight(text, "\r\n")
	}
	return text, g.Class, name
}
