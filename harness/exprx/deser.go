package exprx

import (
	"fmt"
	"strconv"
	"strings"

	"github.com/goplus/xgo/ast"
	"github.com/goplus/xgo/token"
	"verifharness/vh"
)

type sx struct {
	tag  string
	args []*sx
}

func parseSx(s string, i int) (*sx, int, error) {
	j := i
	for j < len(s) && (s[j] == '_' || s[j] == '-' || s[j] >= '0' && s[j] <= '9' || s[j] >= 'a' && s[j] <= 'z' || s[j] >= 'A' && s[j] <= 'Z') {
		j++
	}
	if j == i {
		return nil, i, fmt.Errorf("tag expected at %d", i)
	}
	n := &sx{tag: s[i:j]}
	if j < len(s) && s[j] == '(' {
		j++
		if j < len(s) && s[j] == ')' {
			return n, j + 1, nil
		}
		for {
			a, k, err := parseSx(s, j)
			if err != nil {
				return nil, k, err
			}
			n.args = append(n.args, a)
			j = k
			if j < len(s) && s[j] == ',' {
				j++
				continue
			}
			if j < len(s) && s[j] == ')' {
				return n, j + 1, nil
			}
			return nil, j, fmt.Errorf("',' or ')' expected at %d", j)
		}
	}
	return n, j, nil
}

var opByName, kindByName = map[string]token.Token{}, map[string]token.Token{}

func init() {
	for t, n := range OpNames {
		opByName[n] = t
	}
	for t, n := range KindNames {
		kindByName[n] = t
	}
}

func unhex(s string) string {
	b, err := vh.UnHex(s)
	if err != nil {
		panic("bad hex " + s)
	}
	return string(b)
}

// Deser rebuilds the (position-free) tree from its serialisation.
func Deser(s string) (e ast.Expr, err error) {
	defer func() {
		if r := recover(); r != nil {
			err = fmt.Errorf("deser: %v", r)
		}
	}()
	n, k, err := parseSx(s, 0)
	if err != nil {
		return nil, err
	}
	if k != len(s) {
		return nil, fmt.Errorf("trailing input at %d", k)
	}
	return toExpr(n), nil
}

func toOpt(n *sx) ast.Expr {
	if n.tag == "_" && len(n.args) == 0 {
		return nil
	}
	return toExpr(n)
}

func toList(ns []*sx) []ast.Expr {
	var l []ast.Expr
	for _, n := range ns {
		l = append(l, toExpr(n))
	}
	return l
}

func flagPos(n *sx) token.Pos {
	if n.tag == "1" {
		return 1
	}
	return token.NoPos
}

func toExpr(n *sx) ast.Expr {
	a := n.args
	switch n.tag {
	case "I":
		return Id(unhex(a[0].tag))
	case "L":
		return &ast.BasicLit{Kind: kindByName[a[0].tag], Value: unhex(a[1].tag)}
	case "N":
		return &ast.NumberUnitLit{Kind: kindByName[a[0].tag], Value: unhex(a[1].tag), Unit: unhex(a[2].tag)}
	case "B":
		return &ast.BinaryExpr{Op: opByName[a[0].tag], X: toExpr(a[1]), Y: toExpr(a[2])}
	case "U":
		return &ast.UnaryExpr{Op: opByName[a[0].tag], X: toExpr(a[1])}
	case "S":
		return &ast.StarExpr{X: toExpr(a[0])}
	case "P":
		return &ast.ParenExpr{X: toExpr(a[0])}
	case "D":
		return &ast.SelectorExpr{X: toExpr(a[0]), Sel: Id(unhex(a[1].tag))}
	case "X":
		return &ast.IndexExpr{X: toExpr(a[0]), Index: toExpr(a[1])}
	case "SL":
		return &ast.SliceExpr{X: toExpr(a[0]), Low: toOpt(a[1]), High: toOpt(a[2]), Max: toOpt(a[3]), Slice3: a[4].tag == "1"}
	case "C":
		return &ast.CallExpr{Fun: toExpr(a[0]), Ellipsis: flagPos(a[1]), NoParenEnd: flagPos(a[2]), Args: toList(a[3:])}
	case "K":
		return &ast.CompositeLit{Type: toOpt(a[0]), Elts: toList(a[1:])}
	case "KV":
		return &ast.KeyValueExpr{Key: toExpr(a[0]), Value: toExpr(a[1])}
	case "SLit":
		return &ast.SliceLit{Elts: toList(a)}
	case "Lam":
		cnt, _ := strconv.Atoi(a[2].tag)
		l := &ast.LambdaExpr{LhsHasParen: a[0].tag == "1", RhsHasParen: a[1].tag == "1"}
		for _, x := range a[3 : 3+cnt] {
			l.Lhs = append(l.Lhs, Id(unhex(x.tag)))
		}
		l.Rhs = toList(a[3+cnt:])
		return l
	case "E":
		return &ast.ErrWrapExpr{X: toExpr(a[0]), Tok: opByName[a[1].tag], Default: toOpt(a[2])}
	case "Env":
		e := &ast.EnvExpr{Name: Id(unhex(a[0].tag))}
		if a[1].tag == "1" {
			e.Lbrace, e.Rbrace = 1, 1
		}
		return e
	case "TA":
		return &ast.TypeAssertExpr{X: toExpr(a[0]), Type: toOpt(a[1])}
	case "R":
		return &ast.RangeExpr{First: toOpt(a[0]), Last: toOpt(a[1]), Expr3: toOpt(a[2])}
	case "Bad":
		return &ast.BadExpr{}
	}
	panic("unknown tag " + n.tag)
}

// DeserToks turns a serialised token list back into source text (tokens separated by one blank).
func DeserToks(s string) (string, error) {
	if s == "" {
		return "", nil
	}
	var parts []string
	for _, t := range strings.Split(s, ",") {
		txt, err := TokText(t)
		if err != nil {
			return "", err
		}
		parts = append(parts, txt)
	}
	return strings.Join(parts, " "), nil
}

// TokText is the spelling of one serialised token.
func TokText(t string) (string, error) {
	f := strings.Split(t, ":")
	switch {
	case len(f) == 2 && (f[0] == "i" || f[0] == "u" || f[0] == "k"):
		b, err := vh.UnHex(f[1])
		return string(b), err
	case len(f) == 3 && f[0] == "l":
		b, err := vh.UnHex(f[2])
		switch f[1] {
		case "CSTRING":
			return "c" + string(b), err
		case "PYSTRING":
			return "py" + string(b), err
		}
		return string(b), err
	case len(f) == 2 && f[0] == "o":
		if tk, ok := opByName[f[1]]; ok {
			return tk.String(), nil
		}
	}
	return "", fmt.Errorf("bad token %q", t)
}
