package exprx

import (
	"bytes"
	"fmt"
	"reflect"
	"strings"

	"github.com/goplus/xgo/ast"
	"github.com/goplus/xgo/printer"
	"github.com/goplus/xgo/token"
	"verifharness/vh"
)

// exprText prints a synthesized expression with the real printer (the building block of the
// generated programs; its validity is C22's business, invalid programs are skipped).
func exprText(e ast.Expr) string {
	defer func() { recover() }()
	var b bytes.Buffer
	if printer.Fprint(&b, token.NewFileSet(), e) != nil {
		return "x"
	}
	return b.String()
}

// ProgGen generates XGo programs (normal and class files) as text.
type ProgGen struct {
	R *vh.Rand
	G *Gen
}

func NewProgGen(r *vh.Rand) *ProgGen {
	return &ProgGen{R: r, G: &Gen{R: r, Ext: true, Parens: r.Bool(), Hazards: 0}}
}

func (p *ProgGen) E() string { return exprText(p.G.Expr(1 + p.R.Intn(3))) }

// simple: an expression that can start a command-style argument list
func (p *ProgGen) simple() string {
	return p.R.Pick([]string{"a", "b", "x + 1", `"s"`, "42", "f(x)", "a.b", "x => x * 2", "1.5", "a[0]", `"v=${x}"`, "c\"str\"", "[1, 2, 3]", "{\"k\": 1}"})
}

func (p *ProgGen) stmt(d int) string {
	r := p.R
	n := r.Intn(30)
	if d <= 0 && n >= 12 {
		n = r.Intn(12)
	}
	switch n {
	case 0:
		return "x := " + p.E()
	case 1:
		return "x, y = " + p.E() + ", " + p.E()
	case 2:
		return "x " + r.Pick([]string{"+=", "-=", "*=", "<<=", "&^=", "|="}) + " " + p.E()
	case 3:
		return "println " + p.simple() + ", " + p.simple()
	case 4:
		return "echo " + p.simple()
	case 5:
		switch r.Intn(4) {
		case 0:
			return "f(" + p.E() + ", " + p.simple() + ", xs...)"
		case 1:
			return "y = append(ys, " + p.simple() + ", " + p.simple() + ", " + p.simple() + ", zs...)"
		case 2:
			return "g(xs...)"
		}
		return "f(" + p.E() + ")"
	case 6:
		return "x = " + p.E() + "!"
	case 7:
		return "y := f(x)?:" + p.simple()
	case 8:
		return "var z " + r.Pick([]string{"int", "[]string", "map[string]int", "*T", "func(int) error", "chan<- int"}) + " = " + p.E()
	case 9:
		return "ch <- " + p.E()
	case 10:
		return "a.b.c " + p.simple()
	case 11:
		return "x++"
	case 12:
		return "if " + p.cond() + " {\n" + p.block(d-1) + "}"
	case 13:
		return "if v := " + p.simple() + "; " + p.cond() + " {\n" + p.block(d-1) + "} else {\n" + p.block(d-1) + "}"
	case 14:
		return "for i := 0; i < n; i++ {\n" + p.block(d-1) + "}"
	case 15:
		return "for x in " + r.Pick([]string{"xs", "[1, 2, 3]", "m", "f(a)"}) + " {\n" + p.block(d-1) + "}"
	case 16:
		return "for k, v in m if " + p.cond() + " {\n" + p.block(d-1) + "}"
	case 17:
		return "for i in " + r.Pick([]string{":10", "1:10", "1:10:2", "a:b", ":n:2"}) + " {\n" + p.block(d-1) + "}"
	case 18:
		return "switch " + p.simple() + " {\ncase 1, 2:\n" + p.block(d-1) + "default:\n" + p.block(d-1) + "}"
	case 19:
		return "ys := [" + p.simple() + " for x in xs if " + p.cond() + "]"
	case 20:
		return "mm := {k: v for k, v in m}"
	case 21:
		return "go func() {\n" + p.block(d-1) + "}()"
	case 22:
		return "defer f(" + p.E() + ")"
	case 23:
		return "onStart => {\n" + p.block(d-1) + "}"
	case 24:
		return "t.run " + p.simple() + ", (a, b) => {\n" + p.block(d-1) + "}"
	case 25:
		return "for range xs {\n" + p.block(d-1) + "}"
	case 26:
		return "select {\ncase v := <-ch:\n" + p.block(d-1) + "default:\n}"
	case 27:
		return "g := tpl`expr = INT % \"+\"`"
	case 28:
		return "{\n" + p.block(d-1) + "}"
	default:
		return "L:\nfor {\nbreak L\n}"
	}
}

func (p *ProgGen) cond() string {
	return p.R.Pick([]string{"x > 0", "a && b", "!ok", "x == y || z", "f(x) != nil", "(x)", "x < len(xs)-1", "a&b != 0"})
}

func (p *ProgGen) block(d int) string {
	var b strings.Builder
	for i, n := 0, 1+p.R.Intn(3); i < n; i++ {
		b.WriteString(p.stmt(d) + "\n")
	}
	return b.String()
}

func (p *ProgGen) decl() string {
	r := p.R
	switch r.Intn(7) {
	case 0:
		return "func " + r.Pick([]string{"add", "run", "(t *T) m", "max[T any]"}) + "(a int, b ...string) (r int, err error) {\n" + p.block(2) + "return\n}"
	case 1:
		return "type T struct {\n\ta int // field a\n\tb, c string `json:\"b\"`\n\t*E\n}"
	case 2:
		return "var (\n\tu = " + p.E() + "\n\tv, w int = 1, 2\n)"
	case 3:
		return "const (\n\tA = iota\n\tB\n\tC = " + p.simple() + "\n)"
	case 4:
		return "type I interface {\n\tM(x int) error\n\tE\n}"
	case 5:
		return "func (a T) + (b T) T {\n\treturn a\n}"
	default:
		return "func init() {\n" + p.block(2) + "}"
	}
}

// Program returns a source text and whether it is a class file.
func (p *ProgGen) Program() (text string, class bool, name string) {
	r := p.R
	var b strings.Builder
	class = r.Chance(25)
	name = "gen.xgo"
	if class {
		name = "Gen.gox"
		if r.Bool() {
			b.WriteString("import \"fmt\"\n\n")
		}
		b.WriteString("var (\n\tname string\n\tn, m int\n)\n\n")
	} else {
		if r.Chance(40) {
			b.WriteString("package main\n\n")
		}
		switch r.Intn(4) {
		case 0:
			b.WriteString("import (\n\t\"os\"\n\t\"fmt\"\n\n\tq \"github.com/x/y\"\n\t\"bytes\"\n)\n\n")
		case 1:
			b.WriteString("import \"fmt\"\n\n")
		}
	}
	for i, n := 0, r.Intn(3); i < n; i++ {
		b.WriteString(p.decl() + "\n\n")
	}
	// top-level statements (the shadow main)
	for i, n := 0, 1+r.Intn(5); i < n; i++ {
		b.WriteString(p.stmt(2) + "\n")
	}
	text = b.String()
	if r.Chance(60) {
		text = Perturb(r, text)
	}
	return
}

// Perturb changes the layout of a source text without (intending to) change its tokens:
// wider blanks, line breaks after ',' '(' '{' and binary operators, comments at line ends,
// extra empty lines.  (Whether the result is still valid is checked by parsing it.)
func Perturb(r *vh.Rand, src string) string {
	var b strings.Builder
	inStr := byte(0)
	depth := 0
	for i := 0; i < len(src); i++ {
		c := src[i]
		if inStr != 0 {
			b.WriteByte(c)
			if c == '\\' && inStr != '`' && i+1 < len(src) {
				i++
				b.WriteByte(src[i])
			} else if c == inStr {
				inStr = 0
			}
			continue
		}
		switch c {
		case '"', '`', '\'':
			inStr = c
			b.WriteByte(c)
		case '/':
			if i+1 < len(src) && src[i+1] == '/' { // keep comments
				j := strings.IndexByte(src[i:], '\n')
				if j < 0 {
					j = len(src) - i
				}
				b.WriteString(src[i : i+j])
				i += j - 1
			} else {
				b.WriteByte(c)
			}
		case ' ':
			switch r.Intn(12) {
			case 0:
				b.WriteString("  ")
			case 1:
				b.WriteString("\t")
			default:
				b.WriteByte(' ')
			}
		case '(', '[':
			depth++
			b.WriteByte(c)
			if r.Chance(6) {
				b.WriteString("\n")
			}
		case ')', ']':
			depth--
			b.WriteByte(c)
		case ',':
			b.WriteByte(c)
			if depth > 0 && r.Chance(12) {
				b.WriteString("\n\t")
			}
		case '+', '*', '|':
			b.WriteByte(c)
			if i+1 < len(src) && src[i+1] == ' ' && i > 0 && src[i-1] == ' ' && r.Chance(8) {
				b.WriteString("\n\t\t")
			}
		case '\n':
			switch r.Intn(14) {
			case 0:
				b.WriteString(" // note\n")
			case 1:
				b.WriteString("\n\n")
			case 2:
				b.WriteString("\n\n\n")
			case 3:
				b.WriteString("\n// lead\n")
			default:
				b.WriteByte('\n')
			}
		default:
			b.WriteByte(c)
		}
	}
	return b.String()
}

var exprIface = reflect.TypeOf((*ast.Expr)(nil)).Elem()

// exprSlots collects the addresses of all ast.Expr-typed fields / slice elements of a file.
func exprSlots(f *ast.File) []reflect.Value {
	var slots []reflect.Value
	seen := map[uintptr]bool{}
	var walk func(v reflect.Value)
	walk = func(v reflect.Value) {
		switch v.Kind() {
		case reflect.Ptr:
			if v.IsNil() || seen[v.Pointer()] {
				return
			}
			seen[v.Pointer()] = true
			walk(v.Elem())
		case reflect.Interface:
			if v.IsNil() {
				return
			}
			if v.Type() == exprIface && v.CanSet() {
				slots = append(slots, v)
			}
			walk(v.Elem())
		case reflect.Slice:
			for i := 0; i < v.Len(); i++ {
				walk(v.Index(i))
			}
		case reflect.Struct:
			t := v.Type()
			if t.Name() == "Object" || t.Name() == "Scope" || t.Name() == "CommentGroup" {
				return
			}
			for i := 0; i < v.NumField(); i++ {
				if t.Field(i).PkgPath == "" && t.Field(i).Name != "Obj" && t.Field(i).Name != "Unresolved" && t.Field(i).Name != "Imports" {
					walk(v.Field(i))
				}
			}
		}
	}
	for i := range f.Decls {
		walk(reflect.ValueOf(&f.Decls[i]).Elem())
	}
	return slots
}

func isValueExpr(e ast.Expr) bool {
	switch e.(type) {
	case *ast.BinaryExpr, *ast.UnaryExpr, *ast.ParenExpr, *ast.CallExpr, *ast.IndexExpr, *ast.SelectorExpr,
		*ast.BasicLit, *ast.ErrWrapExpr, *ast.SliceExpr, *ast.SliceLit, *ast.LambdaExpr, *ast.StarExpr:
		return true
	}
	return false
}

// Mutate applies k random structure-changing edits to the expressions of a parsed file:
// change / swap binary operators, drop or add ParenExpr, wrap in unary / errwrap, replace an
// expression by another one of the file.  Returns a description.
func Mutate(r *vh.Rand, f *ast.File, k int) string {
	var desc []string
	for i := 0; i < k; i++ {
		slots := exprSlots(f)
		var cand []reflect.Value
		for _, s := range slots {
			if isValueExpr(s.Interface().(ast.Expr)) {
				cand = append(cand, s)
			}
		}
		if len(cand) == 0 {
			break
		}
		m := r.Intn(7)
		// pick a slot that fits the mutation
		var fit []reflect.Value
		for _, c := range cand {
			switch c.Interface().(type) {
			case *ast.BinaryExpr:
				if m <= 1 {
					fit = append(fit, c)
				}
			case *ast.ParenExpr:
				if m == 2 {
					fit = append(fit, c)
				}
			}
		}
		if m <= 2 && len(fit) == 0 {
			m = 3 + r.Intn(4)
		}
		if m > 2 {
			fit = cand
		}
		s := fit[r.Intn(len(fit))]
		e := s.Interface().(ast.Expr)
		switch {
		case m == 0:
			e.(*ast.BinaryExpr).Op = BinOps[r.Intn(len(BinOps))]
			desc = append(desc, "op")
		case m == 1:
			b := e.(*ast.BinaryExpr)
			b.X, b.Y = b.Y, b.X
			desc = append(desc, "swap")
		case m == 2:
			s.Set(reflect.ValueOf(e.(*ast.ParenExpr).X))
			desc = append(desc, "unparen")
		case m == 3:
			s.Set(reflect.ValueOf(ast.Expr(&ast.ParenExpr{X: e})))
			desc = append(desc, "paren")
		case m == 4:
			s.Set(reflect.ValueOf(ast.Expr(&ast.UnaryExpr{Op: UnOps[r.Intn(len(UnOps))], X: e})))
			desc = append(desc, "unary")
		case m == 5:
			s.Set(reflect.ValueOf(ast.Expr(&ast.ErrWrapExpr{X: e, Tok: token.NOT})))
			desc = append(desc, "errwrap")
		default:
			o := cand[r.Intn(len(cand))].Interface().(ast.Expr)
			if !contains(o, e) && !contains(e, o) {
				s.Set(reflect.ValueOf(ast.Expr(&ast.BinaryExpr{X: e, Op: BinOps[r.Intn(len(BinOps))], Y: o})))
				desc = append(desc, "combine")
			}
		}
	}
	return strings.Join(desc, "+")
}

func contains(a, b ast.Expr) bool {
	found := false
	ast.Inspect(a, func(n ast.Node) bool {
		if n == ast.Node(b) {
			found = true
		}
		return !found
	})
	return found
}

// SingleLineM3Exprs returns position-free copies of the maximal expressions of a file that are
// made of M3 node kinds only and occupy one source line.
func SingleLineM3Exprs(fset *token.FileSet, f *ast.File, max int) []ast.Expr {
	var out []ast.Expr
	seen := map[string]bool{}
	ast.Inspect(f, func(n ast.Node) bool {
		e, ok := n.(ast.Expr)
		if !ok || len(out) >= max {
			return len(out) < max
		}
		switch e.(type) {
		case *ast.Ident, *ast.BasicLit, *ast.KeyValueExpr:
			return true
		}
		if fset.Position(e.Pos()).Line != fset.Position(e.End()).Line || !e.Pos().IsValid() {
			return true
		}
		s := Ser(e)
		if strings.Contains(s, "Unk(") || strings.Contains(s, "Nil()") || strings.Contains(s, "Bad()") || strings.Contains(s, "R(") {
			return true
		}
		if c, ok := e.(*ast.CallExpr); ok && c.NoParenEnd != token.NoPos {
			return true
		}
		if strings.Contains(s, "C(") && hasCmdCall(e) {
			return true
		}
		if hasKeywordIdent(e) { // `type(x)`, `a.goto(1)`: identifiers spelled like keywords are outside M3
			return true
		}
		if !seen[s] {
			seen[s] = true
			if c, err := Deser(s); err == nil {
				out = append(out, c)
			}
		}
		return false
	})
	return out
}

func hasKeywordIdent(e ast.Expr) bool {
	found := false
	ast.Inspect(e, func(n ast.Node) bool {
		if id, ok := n.(*ast.Ident); ok && token.Lookup(id.Name) != token.IDENT {
			found = true
		}
		return !found
	})
	return found
}

func hasCmdCall(e ast.Expr) bool {
	found := false
	ast.Inspect(e, func(n ast.Node) bool {
		if c, ok := n.(*ast.CallExpr); ok && c.NoParenEnd != token.NoPos {
			found = true
		}
		return !found
	})
	return found
}

var _ = fmt.Sprint
