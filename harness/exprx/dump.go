package exprx

import (
	"fmt"
	"reflect"
	"sort"
	"strings"

	"github.com/goplus/xgo/ast"
	"github.com/goplus/xgo/token"
)

// DNode is a position-free, comment-free image of an AST used to compare trees.
type DNode struct {
	Label string
	Kids  []*DNode
}

func (d *DNode) String() string {
	if len(d.Kids) == 0 {
		return d.Label
	}
	var b strings.Builder
	b.WriteString(d.Label + "(")
	for i, k := range d.Kids {
		if i > 0 {
			b.WriteString(",")
		}
		b.WriteString(k.String())
	}
	b.WriteString(")")
	return b.String()
}

var posType = reflect.TypeOf(token.NoPos)

// Dump builds the image of a node: token.Pos fields, comments, objects/scopes, File.Imports,
// File.Comments, File.Code are left out; CallExpr.Ellipsis is kept as a flag; the specs of an
// import declaration are sorted by (name, path) and exact duplicates dropped (import order
// within a group is not part of C19; duplicate removal is ast.SortImports' documented job).
func Dump(n any) *DNode { return dump(reflect.ValueOf(n), "") }

func dump(v reflect.Value, field string) *DNode {
	lbl := func(s string) string {
		if field != "" {
			return field + ":" + s
		}
		return s
	}
	switch v.Kind() {
	case reflect.Invalid:
		return &DNode{Label: lbl("nil")}
	case reflect.Interface, reflect.Ptr:
		if v.IsNil() {
			return &DNode{Label: lbl("nil")}
		}
		return dump(v.Elem(), field)
	case reflect.Slice:
		d := &DNode{Label: lbl("[]")}
		for i := 0; i < v.Len(); i++ {
			d.Kids = append(d.Kids, dump(v.Index(i), ""))
		}
		return d
	case reflect.Struct:
		t := v.Type()
		d := &DNode{Label: lbl(t.Name())}
		for i := 0; i < t.NumField(); i++ {
			f := t.Field(i)
			if f.PkgPath != "" { // unexported
				continue
			}
			ft := f.Type
			if ft == posType || ft.Name() == "Pos" {
				if t.Name() == "CallExpr" && f.Name == "Ellipsis" {
					d.Kids = append(d.Kids, &DNode{Label: fmt.Sprintf("Ellipsis:%v", v.Field(i).Int() != 0)})
				}
				continue
			}
			switch ft.String() {
			case "*ast.CommentGroup", "[]*ast.CommentGroup", "*ast.Object", "*ast.Scope", "[]*ast.Ident":
				if ft.String() != "[]*ast.Ident" || f.Name == "Unresolved" {
					continue
				}
			}
			if t.Name() == "File" && (f.Name == "Imports" || f.Name == "Code" || f.Name == "ShadowEntry") {
				continue
			}
			if t.Name() == "Ident" && f.Name == "Obj" {
				continue
			}
			if t.Name() == "Scope" || t.Name() == "Object" {
				continue
			}
			if f.Name == "Extra" && t.Name() == "DomainTextLit" {
				continue // parsed from Value, which is compared
			}
			d.Kids = append(d.Kids, dump(v.Field(i), f.Name))
		}
		if t.Name() == "GenDecl" && v.FieldByName("Tok").Int() == int64(token.IMPORT) {
			for _, k := range d.Kids {
				if strings.HasPrefix(k.Label, "Specs:") {
					sort.SliceStable(k.Kids, func(i, j int) bool { return k.Kids[i].String() < k.Kids[j].String() })
					var u []*DNode
					for i, s := range k.Kids {
						if i == 0 || s.String() != k.Kids[i-1].String() {
							u = append(u, s)
						}
					}
					k.Kids = u
				}
			}
		}
		return d
	case reflect.String:
		return &DNode{Label: lbl(fmt.Sprintf("%q", v.String()))}
	case reflect.Bool:
		return &DNode{Label: lbl(fmt.Sprint(v.Bool()))}
	case reflect.Int, reflect.Int8, reflect.Int16, reflect.Int32, reflect.Int64:
		if v.Type().Name() == "Token" {
			return &DNode{Label: lbl(token.Token(v.Int()).String())}
		}
		return &DNode{Label: lbl(fmt.Sprint(v.Int()))}
	case reflect.Uint, reflect.Uint8, reflect.Uint16, reflect.Uint32, reflect.Uint64:
		return &DNode{Label: lbl(fmt.Sprint(v.Uint()))}
	case reflect.Map, reflect.Func, reflect.Chan:
		return &DNode{Label: lbl("-")}
	}
	return &DNode{Label: lbl("?" + v.Kind().String())}
}

func bare(l string) string {
	if i := strings.IndexByte(l, ':'); i >= 0 && !strings.HasPrefix(l, "\"") {
		return l[i+1:]
	}
	return l
}

// FirstDiff compares two images; ok means equal.  Otherwise key classifies the first
// difference and path says where it is.
func FirstDiff(a, b *DNode) (key, path string, ok bool) {
	return firstDiff(a, b, "File", "")
}

func firstDiff(a, b *DNode, parent, path string) (string, string, bool) {
	la, lb := bare(a.Label), bare(b.Label)
	if a.Label != b.Label {
		field := ""
		if i := strings.IndexByte(a.Label, ':'); i >= 0 && !strings.HasPrefix(a.Label, "\"") {
			field = a.Label[:i]
		}
		switch {
		case la == "ParenExpr" && lb != "ParenExpr":
			// did the formatter drop a pair of parentheses?
			if len(a.Kids) == 1 {
				if _, _, same := firstDiff(relabel(a.Kids[0], b.Label), b, parent, path); same {
					if bare(a.Kids[0].Label) == "ParenExpr" || parent == "ParenExpr" {
						return "redundant-parens-removed:nested", path, false
					}
					switch parent {
					case "IfStmt", "ForStmt", "SwitchStmt", "RangeStmt", "TypeSwitchStmt":
						return "redundant-parens-removed:control-clause", path, false
					case "Field":
						return "redundant-parens-removed:parameter-type", path, false
					}
					return "redundant-parens-removed:" + parent + "." + field, path, false
				}
			}
		case lb == "ParenExpr" && la != "ParenExpr":
			return "parens-added:" + parent + "." + field, path, false
		}
		return "tree-differs:" + parent + "." + field + ":" + trunc(la) + "->" + trunc(lb), path, false
	}
	if len(a.Kids) != len(b.Kids) {
		return "tree-differs:" + la + ":arity", path, false
	}
	for i := range a.Kids {
		if k, p, ok := firstDiff(a.Kids[i], b.Kids[i], la, path+"/"+a.Kids[i].Label); !ok {
			return k, p, false
		}
	}
	return "", "", true
}

func relabel(d *DNode, like string) *DNode {
	c := *d
	if i := strings.IndexByte(like, ':'); i >= 0 && !strings.HasPrefix(like, "\"") {
		c.Label = like[:i] + ":" + bare(d.Label)
	} else {
		c.Label = bare(d.Label)
	}
	return &c
}

func trunc(s string) string {
	if len(s) > 24 {
		return s[:24]
	}
	return s
}

var _ = ast.NewIdent
