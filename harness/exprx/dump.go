package exprx

import (
	"fmt"
	"reflect"
	"sort"
	"strconv"
	"strings"

	"github.com/goplus/xgo/ast"
	"github.com/goplus/xgo/token"
)

// DNode is a position-free, comment-free image of an AST used to compare trees.
type DNode struct {
	Label string
	Kids  []*DNode
}

func (d *DNode) String() string {
	if len(d.Kids) == 0 {
		return d.Label
	}
	var b strings.Builder
	b.WriteString(d.Label + "(")
	for i, k := range d.Kids {
		if i > 0 {
			b.WriteString(",")
		}
		b.WriteString(k.String())
	}
	b.WriteString(")")
	return b.String()
}

var posType = reflect.TypeOf(token.NoPos)

// Dump builds the image of a node: token.Pos fields, comments, objects/scopes, File.Imports,
// File.Comments, File.Code are left out; CallExpr.Ellipsis is kept as a flag; the specs of an
// import declaration are sorted by (name, path) and exact duplicates dropped (import order
// within a group is not part of C19; duplicate removal is ast.SortImports' documented job).
func Dump(n any) *DNode { return dump(reflect.ValueOf(n), "") }

func dump(v reflect.Value, field string) *DNode {
	lbl := func(s string) string {
		if field != "" {
			return field + ":" + s
		}
		return s
	}
	switch v.Kind() {
	case reflect.Invalid:
		return &DNode{Label: lbl("nil")}
	case reflect.Interface, reflect.Ptr:
		if v.IsNil() {
			return &DNode{Label: lbl("nil")}
		}
		return dump(v.Elem(), field)
	case reflect.Slice:
		d := &DNode{Label: lbl("[]")}
		for i := 0; i < v.Len(); i++ {
			d.Kids = append(d.Kids, dump(v.Index(i), ""))
		}
		return d
	case reflect.Struct:
		t := v.Type()
		d := &DNode{Label: lbl(t.Name())}
		for i := 0; i < t.NumField(); i++ {
			f := t.Field(i)
			if f.PkgPath != "" { // unexported
				continue
			}
			ft := f.Type
			if ft == posType || ft.Name() == "Pos" {
				if t.Name() == "CallExpr" && f.Name == "Ellipsis" {
					d.Kids = append(d.Kids, &DNode{Label: fmt.Sprintf("Ellipsis:%v", v.Field(i).Int() != 0)})
				}
				continue
			}
			switch ft.String() {
			case "*ast.CommentGroup", "[]*ast.CommentGroup", "*ast.Object", "*ast.Scope", "[]*ast.Ident":
				if ft.String() != "[]*ast.Ident" || f.Name == "Unresolved" {
					continue
				}
			}
			if t.Name() == "File" && (f.Name == "Imports" || f.Name == "Code" || f.Name == "ShadowEntry") {
				continue
			}
			if t.Name() == "Ident" && f.Name == "Obj" {
				continue
			}
			if t.Name() == "Scope" || t.Name() == "Object" {
				continue
			}
			if f.Name == "Extra" && t.Name() == "DomainTextLit" {
				continue // parsed from Value, which is compared
			}
			d.Kids = append(d.Kids, dump(v.Field(i), f.Name))
		}
		if t.Name() == "ImportSpec" {
			// the printer writes every import path in its canonical spelling (sanitizeImportPath):
			// compare the path, not its spelling
			if pv := v.FieldByName("Path"); pv.IsValid() && !pv.IsNil() {
				val := pv.Elem().FieldByName("Value").String()
				if u, err := strconv.Unquote(val); err == nil {
					for _, k := range d.Kids {
						if strings.HasPrefix(k.Label, "Path:") {
							k.Label, k.Kids = "Path:"+strconv.Quote(u), nil
						}
					}
				}
			}
		}
		if t.Name() == "GenDecl" && v.FieldByName("Tok").Int() == int64(token.IMPORT) {
			for _, k := range d.Kids {
				if strings.HasPrefix(k.Label, "Specs:") {
					sort.SliceStable(k.Kids, func(i, j int) bool { return k.Kids[i].String() < k.Kids[j].String() })
					var u []*DNode
					for i, s := range k.Kids {
						if i == 0 || s.String() != k.Kids[i-1].String() {
							u = append(u, s)
						}
					}
					k.Kids = u
				}
			}
		}
		return d
	case reflect.String:
		return &DNode{Label: lbl(fmt.Sprintf("%q", v.String()))}
	case reflect.Bool:
		return &DNode{Label: lbl(fmt.Sprint(v.Bool()))}
	case reflect.Int, reflect.Int8, reflect.Int16, reflect.Int32, reflect.Int64:
		if v.Type().Name() == "Token" {
			return &DNode{Label: lbl(token.Token(v.Int()).String())}
		}
		return &DNode{Label: lbl(fmt.Sprint(v.Int()))}
	case reflect.Uint, reflect.Uint8, reflect.Uint16, reflect.Uint32, reflect.Uint64:
		return &DNode{Label: lbl(fmt.Sprint(v.Uint()))}
	case reflect.Map, reflect.Func, reflect.Chan:
		return &DNode{Label: lbl("-")}
	}
	return &DNode{Label: lbl("?" + v.Kind().String())}
}

func bare(l string) string {
	if i := strings.IndexByte(l, ':'); i >= 0 && !strings.HasPrefix(l, "\"") {
		return l[i+1:]
	}
	return l
}

// FirstDiff compares two images; ok means equal.  Otherwise key classifies the first
// difference and path says where it is.
func FirstDiff(a, b *DNode) (key, path string, ok bool) {
	return firstDiff(a, b, "File", "")
}

func firstDiff(a, b *DNode, parent, path string) (string, string, bool) {
	la, lb := bare(a.Label), bare(b.Label)
	if a.Label != b.Label {
		field := ""
		if i := strings.IndexByte(a.Label, ':'); i >= 0 && !strings.HasPrefix(a.Label, "\"") {
			field = a.Label[:i]
		}
		switch {
		case la == "ParenExpr":
			// did the formatter drop one or more pairs of parentheses?
			inner, layers := a, 0
			for bare(inner.Label) == "ParenExpr" && len(inner.Kids) == 1 && inner.Label != relabel(inner, b.Label).Label || (bare(inner.Label) == "ParenExpr" && bare(b.Label) != "ParenExpr" && len(inner.Kids) == 1) {
				inner = inner.Kids[0]
				layers++
				if _, _, same := firstDiff(relabel(inner, b.Label), b, parent, path); same {
					if layers > 1 || parent == "ParenExpr" {
						return "redundant-parens-removed:nested", path, false
					}
					switch parent {
					case "IfStmt", "ForStmt", "SwitchStmt", "RangeStmt", "TypeSwitchStmt", "ForPhraseStmt", "ForPhrase":
						return "redundant-parens-removed:control-clause", path, false
					case "Field":
						return "redundant-parens-removed:parameter-type", path, false
					}
					return "redundant-parens-removed:" + parent + "." + field, path, false
				}
				if layers > 4 {
					break
				}
			}
		case lb == "ParenExpr" && la != "ParenExpr":
			return "parens-added:" + parent + "." + field, path, false
		}
		if strings.HasPrefix(la, "\"") || strings.HasPrefix(lb, "\"") {
			// a string-valued field (literal text, name): the values are not part of the key
			return "tree-differs:" + parent + "." + field, path + " " + trunc(la) + "->" + trunc(lb), false
		}
		return "tree-differs:" + parent + "." + field + ":" + trunc(la) + "->" + trunc(lb), path, false
	}
	if len(a.Kids) != len(b.Kids) {
		// did the formatter only drop explicit empty statements (`;;`)?
		var kept []*DNode
		for _, k := range a.Kids {
			if bare(k.Label) != "EmptyStmt" {
				kept = append(kept, k)
			}
		}
		if len(kept) == len(b.Kids) && len(kept) < len(a.Kids) {
			same := true
			for i := range kept {
				if _, _, ok := firstDiff(kept[i], b.Kids[i], la, path); !ok {
					same = false
				}
			}
			if same {
				return "empty-statement-removed", path, false
			}
		}
		return "tree-differs:" + la + ":arity", path, false
	}
	for i := range a.Kids {
		if k, p, ok := firstDiff(a.Kids[i], b.Kids[i], la, path+"/"+a.Kids[i].Label); !ok {
			return k, p, false
		}
	}
	return "", "", true
}

func relabel(d *DNode, like string) *DNode {
	c := *d
	if i := strings.IndexByte(like, ':'); i >= 0 && !strings.HasPrefix(like, "\"") {
		c.Label = like[:i] + ":" + bare(d.Label)
	} else {
		c.Label = bare(d.Label)
	}
	return &c
}

func trunc(s string) string {
	if len(s) > 24 {
		return s[:24]
	}
	return s
}

var _ = ast.NewIdent

// ---------------------------------------------------------------------------------------
// Deliberate normalisations of the printer (inherited from gofmt), applied to BOTH images one
// after the other; Classify reports the key of every normalisation that was needed to make the
// images equal (known findings), or the first remaining difference.

func cloneD(d *DNode) *DNode {
	c := &DNode{Label: d.Label}
	for _, k := range d.Kids {
		c.Kids = append(c.Kids, cloneD(k))
	}
	return c
}

func fieldOf(l string) string {
	if i := strings.IndexByte(l, ':'); i >= 0 && !strings.HasPrefix(l, "\"") {
		return l[:i]
	}
	return ""
}

func withField(f string, d *DNode) *DNode {
	c := *d
	if f != "" {
		c.Label = f + ":" + bare(d.Label)
	} else {
		c.Label = bare(d.Label)
	}
	return &c
}

func stripAllParens(d *DNode) *DNode {
	f := fieldOf(d.Label)
	for bare(d.Label) == "ParenExpr" && len(d.Kids) == 1 {
		d = d.Kids[0]
	}
	return withField(f, d)
}

// normD applies one normalisation kind; changed reports whether anything was rewritten.
func normD(d *DNode, kind string, changed *bool) *DNode {
	for i, k := range d.Kids {
		d.Kids[i] = normD(k, kind, changed)
	}
	name := bare(d.Label)
	switch kind {
	case "all-parens":
		if name == "ParenExpr" && len(d.Kids) == 1 {
			*changed = true
			return withField(fieldOf(d.Label), d.Kids[0])
		}
	case "nested":
		if name == "ParenExpr" && len(d.Kids) == 1 && bare(d.Kids[0].Label) == "ParenExpr" {
			*changed = true
			return withField(fieldOf(d.Label), d.Kids[0])
		}
	case "control-clause":
		switch name {
		case "IfStmt", "ForStmt", "SwitchStmt", "RangeStmt":
			for i, k := range d.Kids {
				switch fieldOf(k.Label) {
				case "Cond", "Tag", "X":
					if bare(k.Label) == "ParenExpr" {
						*changed = true
						d.Kids[i] = stripAllParens(k)
					}
				}
			}
		}
	case "parameter-type":
		if name == "Field" {
			for i, k := range d.Kids {
				if fieldOf(k.Label) == "Type" && bare(k.Label) == "ParenExpr" {
					*changed = true
					d.Kids[i] = stripAllParens(k)
				}
			}
		}
	case "empty-statement":
		if name == "[]" {
			var kept []*DNode
			for _, k := range d.Kids {
				if bare(k.Label) == "EmptyStmt" || emptyShadow(k) {
					*changed = true
					continue
				}
				kept = append(kept, k)
			}
			d.Kids = kept
		}
		if name == "EmptyStmt" { // `L: ;` before '}' is printed as `L:` (implicit empty statement)
			for _, k := range d.Kids {
				if strings.HasPrefix(k.Label, "Implicit:") && k.Label != "Implicit:_" {
					k.Label = "Implicit:_"
				}
			}
		}
	}
	return d
}

// emptyShadow: the shadow entry function of top-level statements, with nothing left in it.
func emptyShadow(d *DNode) bool {
	if bare(d.Label) != "FuncDecl" {
		return false
	}
	shadow, empty := false, false
	for _, k := range d.Kids {
		if k.Label == "Shadow:true" {
			shadow = true
		}
		if k.Label == "Body:BlockStmt" {
			for _, l := range k.Kids {
				if l.Label == "List:[]" && len(l.Kids) == 0 {
					empty = true
				}
			}
		}
	}
	return shadow && empty
}

func leadingEmptyTopLevel(file *DNode) bool {
	for _, k := range file.Kids {
		if k.Label != "Decls:[]" {
			continue
		}
		for _, d := range k.Kids {
			if bare(d.Label) != "FuncDecl" {
				continue
			}
			shadow := false
			for _, f := range d.Kids {
				if f.Label == "Shadow:true" {
					shadow = true
				}
			}
			if !shadow {
				continue
			}
			for _, f := range d.Kids {
				if f.Label == "Body:BlockStmt" {
					for _, l := range f.Kids {
						if l.Label == "List:[]" && len(l.Kids) > 0 && bare(l.Kids[0].Label) == "EmptyStmt" {
							return true
						}
					}
				}
			}
		}
	}
	return false
}

var normKinds = []struct{ kind, key string }{
	{"nested", "redundant-parens-removed:nested"},
	{"control-clause", "redundant-parens-removed:control-clause"},
	{"parameter-type", "redundant-parens-removed:parameter-type"},
	{"empty-statement", "empty-statement-removed"},
}

// Classify compares the image a of the source tree with the image b of the re-parsed formatter
// output.  ok: equal as they are.  Otherwise keys lists what is different: the by-design
// normalisations that had to be applied to make them equal, and/or the first real difference.
func Classify(a, b *DNode) (keys []string, path string, ok bool) {
	if _, _, same := FirstDiff(a, b); same {
		return nil, "", true
	}
	a0 := a
	a, b = cloneD(a), cloneD(b)
	for _, nk := range normKinds {
		ca, cb := false, false
		a = normD(a, nk.kind, &ca)
		b = normD(b, nk.kind, &cb)
		as, bs := a.String(), b.String()
		if ca && !cb || ca && cb && nk.kind == "empty-statement" {
			keys = append(keys, nk.key)
		}
		if as == bs {
			if len(keys) == 0 {
				keys = append(keys, nk.key)
			}
			return keys, "", false
		}
	}
	if leadingEmptyTopLevel(a0) {
		// `;` as the first top-level statement opens the shadow entry; once the formatter has
		// dropped it, the declarations that followed are ordinary top-level declarations again
		return []string{"empty-statement-removed:leading-top-level"}, "", false
	}
	k, p, _ := FirstDiff(a, b)
	// the by-design keys are only reported when they explain the whole difference
	return []string{k}, p, false
}
