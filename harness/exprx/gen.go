package exprx

import (
	"github.com/goplus/xgo/ast"
	"github.com/goplus/xgo/token"
	"verifharness/vh"
)

// BinOps: every binary operator of token.Precedence, by precedence level 1..5.
var BinOps = []token.Token{
	token.LOR, token.LAND,
	token.EQL, token.NEQ, token.LSS, token.LEQ, token.GTR, token.GEQ, token.SRARROW, token.BIDIARROW,
	token.ADD, token.SUB, token.OR, token.XOR,
	token.MUL, token.QUO, token.REM, token.SHL, token.SHR, token.AND, token.AND_NOT,
}

// UnOps: the operators parseUnaryExpr accepts (StarExpr is separate).
var UnOps = []token.Token{token.ADD, token.SUB, token.NOT, token.XOR, token.AND, token.ARROW}

var Idents = []string{"a", "b", "c", "x", "y", "f", "g", "p", "T", "pkg", "_", "c1", "in", "py1", "C", "tpl"}

type litv struct {
	k token.Token
	v string
}

var Lits = []litv{
	{token.INT, "0"}, {token.INT, "1"}, {token.INT, "42"}, {token.INT, "0x1F"}, {token.INT, "0b101"}, {token.INT, "1_000"}, {token.INT, "0x1e"},
	{token.FLOAT, "1.5"}, {token.FLOAT, ".5"}, {token.FLOAT, "1."}, {token.FLOAT, "1e9"}, {token.FLOAT, "0x1p-2"},
	{token.IMAG, "2i"}, {token.CHAR, "'a'"}, {token.CHAR, `'\n'`},
	{token.STRING, `"s"`}, {token.STRING, "`r`"}, {token.STRING, `"a b"`},
	{token.CSTRING, `"cs"`}, {token.PYSTRING, `"ps"`}, {token.RAT, "1r"}, {token.RAT, "3r"},
}

func Id(s string) *ast.Ident { return &ast.Ident{Name: s} }

// Gen generates synthesized expression trees (no positions) over the node kinds of M3.
type Gen struct {
	R      *vh.Rand
	Ext    bool // also slice, composite, slice literal, lambda, env, number-unit, type assertion
	Parens bool // may wrap sub-expressions in ParenExpr
	// Hazards: rate (percent) of shapes recorded as known findings
	// (`?`/`!` before ':'; lambda body starting with '(' or '{').
	Hazards int
}

func (g *Gen) ident() *ast.Ident { return Id(g.R.Pick(Idents)) }

func (g *Gen) lit() ast.Expr {
	l := Lits[g.R.Intn(len(Lits))]
	return &ast.BasicLit{Kind: l.k, Value: l.v}
}

func (g *Gen) leaf() ast.Expr {
	switch n := g.R.Intn(100); {
	case n < 60:
		return g.ident()
	case n < 90 || !g.Ext:
		return g.lit()
	case n < 95:
		return &ast.EnvExpr{Name: g.ident()}
	default:
		if g.R.Bool() {
			return &ast.NumberUnitLit{Kind: token.INT, Value: "3", Unit: g.R.Pick([]string{"m", "km", "s"})}
		}
		return &ast.NumberUnitLit{Kind: token.FLOAT, Value: "1.5", Unit: "s"}
	}
}

func (g *Gen) typeLike() ast.Expr {
	switch g.R.Intn(4) {
	case 0:
		return &ast.SelectorExpr{X: g.ident(), Sel: g.ident()}
	case 1:
		return &ast.IndexExpr{X: g.ident(), Index: g.ident()}
	}
	return g.ident()
}

func (g *Gen) list(d, min, max int, lambdaOK bool) []ast.Expr {
	n := min + g.R.Intn(max-min+1)
	l := make([]ast.Expr, n)
	for i := range l {
		l[i] = g.expr(d, lambdaOK)
	}
	return l
}

// Expr generates a tree of depth <= d.
func (g *Gen) Expr(d int) ast.Expr { return g.expr(d, true) }

func (g *Gen) expr(d int, lambdaOK bool) ast.Expr {
	e := g.expr0(d, lambdaOK)
	if g.Parens && g.R.Chance(12) {
		return &ast.ParenExpr{X: e}
	}
	return e
}

// endsBareErrWrap: the printed form ends with `x!` / `x?` such that a following ':' would be
// taken as the start of a default value (parseErrWrapExpr).
func EndsBareErrWrap(e ast.Expr) bool {
	switch x := e.(type) {
	case *ast.ErrWrapExpr:
		if x.Default == nil {
			return true
		}
		return EndsBareErrWrap(x.Default)
	case *ast.BinaryExpr:
		return EndsBareErrWrap(x.Y)
	case *ast.UnaryExpr:
		return EndsBareErrWrap(x.X)
	case *ast.StarExpr:
		return EndsBareErrWrap(x.X)
	case *ast.LambdaExpr:
		if !x.RhsHasParen && len(x.Rhs) > 0 {
			return EndsBareErrWrap(x.Rhs[len(x.Rhs)-1])
		}
	case *ast.KeyValueExpr:
		return EndsBareErrWrap(x.Value)
	}
	return false
}

func (g *Gen) noColonHazard(d int, lambdaOK bool) ast.Expr {
	for i := 0; i < 20; i++ {
		e := g.expr(d, lambdaOK)
		if !EndsBareErrWrap(e) || g.R.Chance(g.Hazards) {
			return e
		}
	}
	return g.ident()
}

// elt: an element / key / value of a composite literal.
func (g *Gen) elt(d int, lambdaOK, key bool) ast.Expr {
	for i := 0; i < 20; i++ {
		e := g.expr(d, lambdaOK)
		if (EltBraceHazard(e) || key && EndsBareErrWrap(e)) && !g.R.Chance(g.Hazards) {
			continue
		}
		return e
	}
	return g.ident()
}

func (g *Gen) expr0(d int, lambdaOK bool) ast.Expr {
	if d <= 0 {
		return g.leaf()
	}
	n := g.R.Intn(100)
	if !g.Ext && n >= 78 {
		n = g.R.Intn(78)
	}
	switch {
	case n < 12:
		return g.leaf()
	case n < 40:
		return &ast.BinaryExpr{X: g.expr(d-1, true), Op: BinOps[g.R.Intn(len(BinOps))], Y: g.expr(d-1, true)}
	case n < 50:
		return &ast.UnaryExpr{Op: UnOps[g.R.Intn(len(UnOps))], X: g.expr(d-1, true)}
	case n < 53:
		return &ast.StarExpr{X: g.expr(d-1, true)}
	case n < 59:
		return &ast.SelectorExpr{X: g.expr(d-1, true), Sel: g.ident()}
	case n < 64:
		return &ast.IndexExpr{X: g.callee(d - 1), Index: g.expr(d-1, true)}
	case n < 72:
		c := &ast.CallExpr{Fun: g.callee(d - 1), Args: g.list(d-1, 0, 3, true)}
		if len(c.Args) > 0 && g.R.Chance(10) {
			// (an INT literal before `...` only when Hazards allow: `f(\n1...)` loses its blank, see C19)
			if l, ok := c.Args[len(c.Args)-1].(*ast.BasicLit); !ok || l.Kind != token.INT || g.Hazards > 0 {
				c.Ellipsis = 1
			}
		}
		return c
	case n < 78:
		w := &ast.ErrWrapExpr{X: g.expr(d-1, true), Tok: token.NOT}
		if g.R.Bool() {
			w.Tok = token.QUESTION
		}
		if g.R.Chance(35) {
			w.Default = g.expr(d-1, true)
		}
		return w
	case n < 83:
		s := &ast.SliceExpr{X: g.callee(d - 1)}
		if g.R.Chance(70) {
			s.Low = g.noColonHazard(d-1, true)
		}
		if g.R.Chance(25) {
			s.High = g.noColonHazard(d-1, true)
			s.Max = g.expr(d-1, true)
			s.Slice3 = true
		} else if g.R.Chance(70) {
			s.High = g.expr(d-1, true)
		}
		return s
	case n < 88:
		c := &ast.CompositeLit{}
		if g.R.Chance(70) {
			c.Type = g.typeLike()
		}
		if g.R.Bool() {
			for i, m := 0, g.R.Intn(3); i < m; i++ {
				c.Elts = append(c.Elts, &ast.KeyValueExpr{Key: g.elt(d-1, false, true), Value: g.elt(d-1, true, false)})
			}
		} else {
			for i, m := 0, g.R.Intn(4); i < m; i++ {
				c.Elts = append(c.Elts, g.elt(d-1, false, false))
			}
		}
		return c
	case n < 92:
		return &ast.SliceLit{Elts: g.list(d-1, 2, 4, true)}
	case n < 97:
		if !lambdaOK {
			return g.leaf()
		}
		l := &ast.LambdaExpr{}
		switch g.R.Intn(4) {
		case 0:
		case 1:
			l.Lhs = []*ast.Ident{g.ident()}
		case 2:
			l.Lhs, l.LhsHasParen = []*ast.Ident{g.ident()}, true
		default:
			l.Lhs, l.LhsHasParen = []*ast.Ident{g.ident(), g.ident()}, true
		}
		if g.R.Chance(25) {
			l.Rhs, l.RhsHasParen = g.list(d-1, 1, 3, true), true
		} else {
			for i := 0; ; i++ {
				b := g.expr(d-1, true)
				if !StartsParenOrBrace(b) || g.R.Chance(g.Hazards) || i > 20 {
					l.Rhs = []ast.Expr{b}
					break
				}
			}
		}
		return l
	default:
		return &ast.TypeAssertExpr{X: g.expr(d-1, true), Type: g.ident()}
	}
}

// callee: operand of a call / index / slice.  A slice literal with fewer than two elements
// followed by '(' / '[' is read as an array type by the parser; such (ill-typed) trees are
// outside the generated domain.
func (g *Gen) callee(d int) ast.Expr {
	return g.expr(d, true)
}

// StartsBrace: the printed form of e starts with '{' (an untyped composite literal at the
// left end of an unparenthesised operand chain).
func StartsBrace(e ast.Expr) bool { return startsB(e, 0) }

func startsB(e ast.Expr, prec1 int) bool {
	if exprPrec(e) < prec1 {
		return false // parenthesised
	}
	switch x := e.(type) {
	case *ast.BinaryExpr:
		return startsB(x.X, x.Op.Precedence())
	case *ast.SelectorExpr:
		return startsB(x.X, token.HighestPrec)
	case *ast.IndexExpr:
		return startsB(x.X, token.HighestPrec)
	case *ast.SliceExpr:
		return startsB(x.X, token.HighestPrec)
	case *ast.CallExpr:
		return startsB(x.Fun, token.HighestPrec)
	case *ast.TypeAssertExpr:
		return startsB(x.X, token.HighestPrec)
	case *ast.ErrWrapExpr:
		return startsB(x.X, token.HighestPrec)
	case *ast.CompositeLit:
		if x.Type == nil {
			return true
		}
		return startsB(x.Type, token.HighestPrec)
	}
	return false
}

// EltBraceHazard: e is printed inside a composite literal (element, key or value), starts with
// '{' and is more than the literal value itself: parseValue returns right after the '}'.
func EltBraceHazard(e ast.Expr) bool {
	if c, ok := e.(*ast.CompositeLit); ok && c.Type == nil {
		return false
	}
	return StartsBrace(e)
}

// StartsParenOrBrace: the printed form of e starts with '(' or '{' (lowest precedence context).
func StartsParenOrBrace(e ast.Expr) bool { return startsPB(e, 0) }

func exprPrec(e ast.Expr) int {
	switch x := e.(type) {
	case *ast.BinaryExpr:
		return x.Op.Precedence()
	case *ast.UnaryExpr, *ast.StarExpr:
		return token.UnaryPrec
	case *ast.ErrWrapExpr:
		if x.Default != nil {
			return token.UnaryPrec
		}
	case *ast.LambdaExpr:
		return 0
	}
	return token.HighestPrec
}

func startsPB(e ast.Expr, prec1 int) bool {
	if exprPrec(e) < prec1 {
		return true
	}
	switch x := e.(type) {
	case *ast.ParenExpr:
		return true
	case *ast.BinaryExpr:
		return startsPB(x.X, x.Op.Precedence())
	case *ast.SelectorExpr:
		return startsPB(x.X, token.HighestPrec)
	case *ast.IndexExpr:
		return startsPB(x.X, token.HighestPrec)
	case *ast.SliceExpr:
		return startsPB(x.X, token.HighestPrec)
	case *ast.CallExpr:
		return startsPB(x.Fun, token.HighestPrec)
	case *ast.TypeAssertExpr:
		return startsPB(x.X, token.HighestPrec)
	case *ast.ErrWrapExpr:
		return startsPB(x.X, token.HighestPrec)
	case *ast.CompositeLit:
		if x.Type == nil {
			return true
		}
		return startsPB(x.Type, token.HighestPrec)
	case *ast.LambdaExpr:
		return x.LhsHasParen
	}
	return false
}
