package minigen

import (
	"fmt"

	"verifharness/vh"
)

// Scenario: one generated MiniXGo program (its functions carry a unique suffix, the entry function
// X<suffix> has no parameters/results and reports everything through probe calls).
type Scenario struct {
	Name      string
	Kind      string // what the scenario exercises (also the prefix of oracle keys)
	Prog      *Prog
	NoOracle  bool   // behaviour outside the property's reading: compared with the model only
	MinParens bool   // surface syntax of the XGo text: minimal parentheses (documented precedence) or full
	XGoExtra  string // XGo-only declarations (overload sets): no counterpart in the model, calls are resolved
	NoStruct  bool   // the XGo text uses surface forms the model abstracts (methods, named types, range expressions): no structural tie line
	Probe     bool   // accept/reject probe: case line `minic`, oracle keys prefixed with Note
	Note      string
}

type G struct {
	r      *vh.Rand
	sfx    string
	pid    int // probe ids
	nv     int // variable names
	funcs  []*Func
	ints   []string // int variables in scope
	lists  []string // []int variables in scope
	locals []Param  // locals of the entry function, probed at the end
}

func newG(r *vh.Rand, sfx string) *G { return &G{r: r, sfx: sfx} }

func (g *G) id() int { g.pid++; return g.pid }
func (g *G) v(p string) string {
	g.nv++
	return fmt.Sprintf("%s%d", p, g.nv)
}

func (g *G) pick(xs []string) string { return xs[g.r.Intn(len(xs))] }

func (g *G) smallInt() *Expr { return Int(g.r.Intn(9) - 2) }

// probe-wrapped with probability p percent
func (g *G) maybeProbe(e *Expr, p int) *Expr {
	if g.r.Chance(p) {
		return Probe(g.id(), e)
	}
	return e
}

// gogen folds constant expressions (`(2 * -1) >= (6 % 4)` is emitted as `false`): folding is not
// part of the model, so generated operators always have a non-constant operand.
func isConst(e *Expr) bool {
	switch e.K {
	case "int", "bool", "str":
		return true
	case "bin", "not", "neg":
		for _, a := range e.Args {
			if !isConst(a) {
				return false
			}
		}
		return true
	}
	return false
}

func (g *G) nc(e *Expr) *Expr {
	if (e.K == "bin" || e.K == "not" || e.K == "neg") && isConst(e) {
		e.Args[0] = Probe(g.id(), e.Args[0])
	}
	return e
}

// int expression over the int variables in scope
func (g *G) intE(depth int) *Expr { return g.nc(g.intE0(depth)) }

func (g *G) boolE(depth int) *Expr { return g.nc(g.boolE0(depth)) }

func (g *G) intE0(depth int) *Expr {
	if depth <= 0 || g.r.Chance(35) {
		if len(g.ints) > 0 && g.r.Chance(70) {
			return Var(g.pick(g.ints))
		}
		return g.smallInt()
	}
	switch g.r.Intn(8) {
	case 0:
		return Bin("add", g.intE(depth-1), g.intE(depth-1))
	case 1:
		return Bin("mul", g.intE(depth-1), g.intE(depth-1))
	case 2:
		return Bin("sub", g.intE(depth-1), g.intE(depth-1))
	case 3:
		return Bin("rem", g.intE(depth-1), Int(g.r.Intn(3)+2))
	case 4:
		return Probe(g.id(), g.intE(depth-1))
	case 5:
		if len(g.lists) > 0 {
			return Len(Var(g.pick(g.lists)))
		}
		return g.smallInt()
	case 6:
		return Call(g.incFn(), g.intE(depth-1))
	default:
		return g.intE(depth - 1)
	}
}

func (g *G) boolE0(depth int) *Expr {
	if depth <= 0 || g.r.Chance(50) {
		ops := []string{"lt", "le", "gt", "ge", "eq", "ne"}
		return Bin(g.pick(ops), g.intE(1), g.intE(1))
	}
	switch g.r.Intn(5) {
	case 0:
		return Not(g.boolE(depth - 1))
	case 1:
		return Bin("land", g.boolE(depth-1), g.boolE(depth-1))
	case 2:
		return Bin("lor", g.boolE(depth-1), g.boolE(depth-1))
	case 3:
		return Probe(g.id(), g.boolE(depth-1))
	default:
		return Bool(g.r.Bool())
	}
}

// incFn: a scenario helper `inc<sfx>(x int) int { probe(id, x); return x + 1 }` (a callee with a side effect)
func (g *G) incFn() string {
	name := "inc" + g.sfx
	for _, f := range g.funcs {
		if f.Name == name {
			return name
		}
	}
	g.funcs = append(g.funcs, &Func{Name: name, Params: []Param{{"x", TInt}}, Results: []Param{{"", TInt}},
		Body: []*Stmt{ExprS(Probe(g.id(), Var("x"))), Ret(Bin("add", Var("x"), Int(1)))}})
	return name
}

// list contents: empty, singleton, duplicates, longer
func (g *G) intList() []*Expr {
	var n int
	switch g.r.Intn(6) {
	case 0:
		n = 0
	case 1:
		n = 1
	case 2:
		n = 2
	default:
		n = 3 + g.r.Intn(3)
	}
	es := make([]*Expr, n)
	dup := g.r.Chance(30)
	for i := range es {
		if dup && i > 0 && g.r.Chance(50) {
			es[i] = es[g.r.Intn(i)]
		} else {
			es[i] = Int(g.r.Intn(8) - 1)
		}
	}
	return es
}

// declare a []int variable holding a generated list (an empty one through `var a []int`)
func (g *G) declList(body *[]*Stmt) string {
	a := g.v("a")
	es := g.intList()
	if len(es) == 0 {
		*body = append(*body, VarDecl(a, TList(TInt)))
	} else {
		if g.r.Chance(25) {
			for i := range es {
				es[i] = g.maybeProbe(es[i], 50)
			}
		}
		*body = append(*body, Def1(a, SliceLit(TInt, es...)))
	}
	g.lists = append(g.lists, a)
	g.locals = append(g.locals, Param{a, TList(TInt)})
	return a
}

func (g *G) declInt(body *[]*Stmt) string {
	x := g.v("n")
	*body = append(*body, Def1(x, g.smallInt()))
	g.ints = append(g.ints, x)
	g.locals = append(g.locals, Param{x, TInt})
	return x
}

// container expression of element type int: a variable, probed variable, literal or comprehension
func (g *G) container(depth int) *Expr {
	switch c := g.r.Intn(10); {
	case c < 5 && len(g.lists) > 0:
		return Var(g.pick(g.lists))
	case c < 7 && len(g.lists) > 0:
		return Probe(g.id(), Var(g.pick(g.lists))) // counts how often the container is evaluated
	case c < 9 || depth <= 0:
		es := g.intList()
		if len(es) == 0 {
			es = []*Expr{g.smallInt()}
		}
		return SliceLit(TInt, es...)
	default:
		x := g.v("u")
		save := g.ints
		g.ints = append(append([]string{}, g.ints...), x)
		e := ListCompr(TInt, Bin("add", Var(x), g.intE(1)), Ph("", x, g.container(depth-1), g.optCondUsing(x, 40)))
		g.ints = save
		return e
	}
}

// a condition that mentions variable x (so that x is used), possibly with a side effect
func (g *G) condUsing(x string) *Expr {
	ops := []string{"lt", "le", "gt", "ge", "ne", "eq"}
	c := Bin(g.pick(ops), Var(x), g.intE(1))
	if g.r.Chance(25) {
		c = Bin(g.pick([]string{"land", "lor"}), c, g.boolE(1))
	}
	return g.maybeProbe(c, 40)
}

func (g *G) optCondUsing(x string, p int) *Expr {
	if g.r.Chance(p) {
		return g.condUsing(x)
	}
	return nil
}

// phrases(n): n for-phrases in SOURCE order over int containers; returns them and the variables
// they bind.  The last phrase is the outermost loop: its variables are in scope of the earlier
// phrases' containers and filters.
func (g *G) phrases(n int, depth int, needCond bool) ([]*Phrase, []string) {
	ps := make([]*Phrase, n)
	var bound []string
	save := g.ints
	for i := n - 1; i >= 0; i-- { // build outermost first so that inner ones can refer to outer variables
		x := g.v("x")
		key := ""
		if g.r.Chance(30) {
			key = g.v("i")
		}
		cont := g.container(depth)
		in := append([]string{}, g.ints...)
		in = append(in, x)
		if key != "" {
			in = append(in, key)
		}
		g.ints = in
		var p *Phrase
		switch f := g.r.Intn(10); {
		case f < 4 && !(needCond && i == 0):
			p = Ph(key, x, cont, nil)
		case f < 8 || (needCond && i == 0):
			p = Ph(key, x, cont, g.condUsing(x))
		default:
			t := g.v("t")
			init := Bin("mul", Var(x), Int(g.r.Intn(3)+1))
			g.ints = append(g.ints, t)
			p = PhInit(key, x, cont, t, g.maybeProbe(init, 30), g.condUsing(t))
			g.ints = in
		}
		ps[i] = p
		bound = append(bound, x)
		if key != "" {
			bound = append(bound, key)
		}
	}
	_ = save
	return ps, bound
}

// an int expression mentioning every variable of `bound` (so that all loop variables are used)
func (g *G) useAll(bound []string) *Expr {
	var e *Expr
	for i, x := range bound {
		t := Var(x)
		if g.r.Chance(30) {
			t = Probe(g.id(), t)
		}
		if i == 0 {
			e = t
		} else if g.r.Bool() {
			e = Bin("add", Bin("mul", e, Int(10)), t)
		} else {
			e = Bin("add", e, t)
		}
	}
	if g.r.Chance(30) {
		e = Call(g.incFn(), e)
	}
	return e
}

// comprehension of a random kind; returns the expression and its result type(s)
func (g *G) compr(depth int) (*Expr, []*Ty) {
	save := g.ints
	defer func() { g.ints = save }()
	n := 1
	if c := g.r.Intn(10); c >= 8 {
		n = 3
	} else if c >= 4 {
		n = 2
	}
	switch g.r.Intn(5) {
	case 0, 1:
		ps, bound := g.phrases(n, depth, false)
		if g.r.Chance(15) && depth > 0 { // nested list comprehension as the element
			y := g.v("y")
			g.ints = append(g.ints, y)
			inner := ListCompr(TInt, Bin("add", Var(y), g.useAll(bound)), Ph("", y, g.container(0), g.optCondUsing(y, 50)))
			return ListCompr(TList(TInt), inner, ps...), []*Ty{TList(TList(TInt))}
		}
		return ListCompr(TInt, g.useAll(bound), ps...), []*Ty{TList(TInt)}
	case 2:
		ps, bound := g.phrases(n, depth, false)
		k := Bin("rem", g.useAll(bound), Int(g.r.Intn(3)+2)) // duplicate keys: later wins
		if g.r.Chance(30) {
			k = Probe(g.id(), k)
		}
		return MapCompr(TInt, TInt, k, g.maybeProbe(g.useAll(bound), 40), ps...), []*Ty{TMap(TInt, TInt)}
	case 3:
		ps, bound := g.phrases(n, depth, false)
		two := g.r.Bool()
		if two {
			return SelCompr(TInt, true, g.useAll(bound), ps...), []*Ty{TInt, TBool}
		}
		return SelCompr(TInt, false, g.useAll(bound), ps...), []*Ty{TInt}
	default:
		ps, bound := g.phrases(n, depth, true)
		// the innermost filter must use every variable (Go rejects unused loop variables)
		c := ps[0].C
		for _, x := range bound {
			c = Bin("land", c, Bin("ge", Bin("mul", Var(x), Var(x)), Int(0)))
		}
		ps[0].C = c
		return ExistsCompr(ps...), []*Ty{TBool}
	}
}

func (g *G) finish(kind string, body []*Stmt) *Scenario {
	for _, l := range g.locals {
		body = append(body, ExprS(Probe(g.id(), Var(l.Name))))
	}
	entry := &Func{Name: "X" + g.sfx, Body: body}
	return &Scenario{Name: g.sfx, Kind: kind, MinParens: g.r.Chance(60),
		Prog: &Prog{Entry: entry.Name, Funcs: append(g.funcs, entry)}}
}

func (g *G) local(name string, t *Ty) { g.locals = append(g.locals, Param{name, t}) }

// ---- C02 scenario kinds ----

func (g *G) scLiterals() *Scenario {
	var body []*Stmt
	g.declInt(&body)
	a := g.v("a")
	n := 1 + g.r.Intn(4)
	es := make([]*Expr, n)
	for i := range es {
		es[i] = g.maybeProbe(g.intE(1), 60)
	}
	body = append(body, Def1(a, SliceLit(TInt, es...)))
	g.lists = append(g.lists, a)
	g.local(a, TList(TInt))
	// strings
	s := g.v("s")
	strs := []string{"a", "b", "ab", "xy", ""}
	ss := make([]*Expr, 1+g.r.Intn(3))
	for i := range ss {
		ss[i] = g.maybeProbe(Str(g.pick(strs)), 40)
	}
	body = append(body, Def1(s, SliceLit(TStr, ss...)))
	g.local(s, TList(TStr))
	// nested
	if g.r.Bool() {
		nn := g.v("nn")
		body = append(body, Def1(nn, SliceLit(TList(TInt), SliceLit(TInt, g.intE(1)), SliceLit(TInt, g.intE(1), Probe(g.id(), g.intE(1))))))
		g.local(nn, TList(TList(TInt)))
	}
	// map literal: distinct constant keys (Go rejects duplicate constant keys), values with effects
	m := g.v("m")
	keys := []string{"a", "b", "c", "d"}
	nk := g.r.Intn(4) + 1
	kvs := make([][2]*Expr, nk)
	for i := 0; i < nk; i++ {
		kvs[i] = [2]*Expr{g.maybeProbe(Str(keys[(i*3+g.r.Intn(1))%4]), 40), g.maybeProbe(g.intE(1), 50)}
	}
	// make keys distinct: i*3 mod 4 is a permutation
	body = append(body, Def1(m, MapLit(TStr, TInt, kvs...)))
	g.local(m, TMap(TStr, TInt))
	// int-keyed map with computed (possibly equal) keys: later wins
	if g.r.Bool() {
		m2 := g.v("m")
		x := g.pick(g.ints)
		body = append(body, Def1(m2, MapLit(TInt, TInt,
			[2]*Expr{Probe(g.id(), Bin("rem", Var(x), Int(2))), Int(1)},
			[2]*Expr{Probe(g.id(), Bin("rem", Bin("add", Var(x), Int(g.r.Intn(3))), Int(2))), Int(2)})))
		g.local(m2, TMap(TInt, TInt))
	}
	body = append(body, ExprS(Probe(g.id(), Index(TInt, Var(a), Int(g.r.Intn(n))))))
	body = append(body, ExprS(Probe(g.id(), Index(TInt, Var(m), Str(g.pick(keys))))))
	return g.finish("list_map_lit", body)
}

func (g *G) scSend() *Scenario {
	var body []*Stmt
	a := g.declList(&body)
	g.declInt(&body)
	for i, n := 0, 1+g.r.Intn(3); i < n; i++ {
		switch g.r.Intn(3) {
		case 0, 1:
			k := 1 + g.r.Intn(3)
			vs := make([]*Expr, k)
			for j := range vs {
				vs[j] = g.maybeProbe(g.intE(1), 60)
			}
			body = append(body, Send(a, false, vs...))
		default:
			b := g.declList(&body)
			body = append(body, Send(a, true, g.maybeProbe(Var(b), 50)))
		}
	}
	return g.finish("append_send", body)
}

func (g *G) forInBody(x, key, acc, out string, depth int) []*Stmt {
	var b []*Stmt
	save := g.ints
	g.ints = append(append([]string{}, g.ints...), x)
	if key != "" {
		g.ints = append(g.ints, key)
		b = append(b, ExprS(Probe(g.id(), Var(key))))
	}
	b = append(b, Set1(acc, Bin("add", Var(acc), g.maybeProbe(Bin("mul", Var(x), g.intE(1)), 40))))
	if g.r.Chance(50) {
		b = append(b, Send(out, false, g.intE(1)))
	}
	if g.r.Chance(30) {
		b = append(b, If(g.boolE(1), []*Stmt{ExprS(Cmd("probe", Int(g.id()), Var(x)))}, nil))
	}
	if depth > 0 && g.r.Chance(35) {
		y := g.v("y")
		b = append(b, ForIn("", y, g.container(0), g.optCondUsing(y, 50), g.forInBody(y, "", acc, out, depth-1)...))
	}
	g.ints = save
	return b
}

func (g *G) scForIn() *Scenario {
	var body []*Stmt
	g.declList(&body)
	g.declInt(&body)
	acc, out := g.v("acc"), g.v("out")
	body = append(body, Def1(acc, Int(0)), VarDecl(out, TList(TInt)))
	g.local(acc, TInt)
	g.local(out, TList(TInt))
	x := g.v("x")
	key := ""
	if g.r.Chance(40) {
		key = g.v("i")
	}
	body = append(body, ForIn(key, x, g.container(1), g.optCondUsing(x, 60), g.forInBody(x, key, acc, out, 1)...))
	return g.finish("forin_stmt", body)
}

func (g *G) scForInMap() *Scenario {
	// maps: 0/1 entries with anything inside; >= 2 entries only with order-insensitive bodies
	var body []*Stmt
	m := g.v("m")
	n := g.r.Intn(4)
	keys := []string{"a", "b", "c"}
	if n == 0 {
		body = append(body, VarDecl(m, TMap(TStr, TInt)))
	} else {
		kvs := make([][2]*Expr, n)
		for i := range kvs {
			kvs[i] = [2]*Expr{Str(keys[i]), Int(3*i + 1 + g.r.Intn(3))} // distinct values: `{v: k for k, v <- m}` must not depend on map order
		}
		body = append(body, Def1(m, MapLit(TStr, TInt, kvs...)))
	}
	g.local(m, TMap(TStr, TInt))
	acc := g.v("acc")
	body = append(body, Def1(acc, Int(0)))
	g.local(acc, TInt)
	k, v := g.v("k"), g.v("v")
	var cond *Expr
	if g.r.Bool() {
		cond = Bin("gt", Var(v), Int(g.r.Intn(4)))
	}
	lb := []*Stmt{Set1(acc, Bin("add", Var(acc), Bin("mul", Var(v), Len(Var(k)))))}
	if n <= 1 {
		lb = append(lb, ExprS(Probe(g.id(), Var(k))), ExprS(Probe(g.id(), Var(v))))
	}
	body = append(body, ForIn(k, v, Var(m), cond, lb...))
	// comprehensions over the map: map result and exists are order-insensitive
	r1 := g.v("r")
	body = append(body, Def1(r1, MapCompr(TInt, TStr, Var(v), Var(k), Ph(k, v, Var(m), cond))))
	g.local(r1, TMap(TInt, TStr))
	r2 := g.v("r")
	body = append(body, Def1(r2, ExistsCompr(Ph(k, v, Var(m), Bin("land", Bin("ge", Var(v), Int(g.r.Intn(8))), Bin("ne", Var(k), Str("zz")))))))
	g.local(r2, TBool)
	if n <= 1 {
		r3 := g.v("r")
		body = append(body, Def1(r3, ListCompr(TInt, Probe(g.id(), Bin("add", Var(v), Len(Var(k)))), Ph(k, v, Var(m), nil))))
		g.local(r3, TList(TInt))
	}
	return g.finish("forin_map", body)
}

func (g *G) scCompr() *Scenario {
	var body []*Stmt
	for i, n := 0, 1+g.r.Intn(2); i < n; i++ {
		g.declList(&body)
	}
	g.declInt(&body)
	kind := "compr"
	for i, n := 0, 1+g.r.Intn(2); i < n; i++ {
		e, ts := g.compr(1)
		kind = map[string]string{"listCompr": "compr_list", "mapCompr": "compr_map", "selCompr": "compr_select", "existsCompr": "compr_exists"}[e.K]
		if len(ts) == 2 {
			r, ok := g.v("r"), g.v("ok")
			body = append(body, Define([]string{r, ok}, e))
			g.local(r, ts[0])
			g.local(ok, ts[1])
		} else if g.r.Chance(30) {
			body = append(body, ExprS(Probe(g.id(), e))) // argument position
		} else {
			r := g.v("r")
			body = append(body, Def1(r, e))
			g.local(r, ts[0])
			if ts[0].K == "list" && ts[0].A.K == "int" && g.r.Chance(50) {
				g.lists = append(g.lists, r) // later comprehensions iterate over earlier results
			}
		}
	}
	return g.finish(kind, body)
}

func (g *G) scCmd() *Scenario {
	var body []*Stmt
	x := g.declInt(&body)
	a := g.declList(&body)
	show := "show" + g.sfx
	g.funcs = append(g.funcs, &Func{Name: show, Params: []Param{{"p", TInt}, {"q", TList(TInt)}},
		Body: []*Stmt{ExprS(Probe(g.id(), Var("p"))), ExprS(Probe(g.id(), Var("q")))}})
	body = append(body,
		ExprS(Cmd("probe", Int(g.id()), g.intE(2))),
		ExprS(Cmd(show, g.maybeProbe(Var(x), 60), g.maybeProbe(Var(a), 60))),
		ExprS(Cmd(show, g.intE(2), ListCompr(TInt, Bin("add", Var("z"), Int(1)), Ph("", "z", Var(a), nil)))),
		ExprS(Cmd(g.incFn(), g.intE(1))))
	return g.finish("cmd_call", body)
}

// scOverload: sugar as an argument of an OVERLOADED function whose earlier candidates reject the
// LAST argument (a slice literal of the wrong element type): compileCallExpr resets the operand
// stack and compiles ALL arguments again for the next candidate, so every sugar node among the
// arguments is compiled 2 or 3 times.  The model has no overload sets: the s-expression and the
// documented expansion call the candidate Go's rules select; only the XGo source uses the
// overloaded name.  (A compiler that changes its input while compiling shows up here only.)
func (g *G) scOverload() *Scenario {
	var body []*Stmt
	g.declList(&body)
	g.declList(&body)
	g.declInt(&body)
	nargs := 1 + g.r.Intn(2)
	var args []*Expr
	var params []Param
	kind := "overload_arg"
	for i := 0; i < nargs; i++ {
		var e *Expr
		var t *Ty
		switch g.r.Intn(6) {
		case 0:
			e = SliceLit(TInt, g.maybeProbe(g.intE(1), 50), g.intE(1))
			t = TList(TInt)
		case 1:
			f1, t1 := g.callee(1)
			body = append(body, Def1(g.v("m"), Int(2)))
			g.ints = append(g.ints, fmt.Sprintf("m%d", g.nv))
			g.local(fmt.Sprintf("m%d", g.nv), TInt)
			e = ErrDflt(f1, t1[0], Probe(g.id(), Int(40)), Var(fmt.Sprintf("m%d", g.nv)))
			t = TInt
		default: // comprehension with >= 2 phrases most of the time
			save := g.ints
			n := 2 + g.r.Intn(2)
			if g.r.Chance(15) {
				n = 1
			}
			switch g.r.Intn(4) {
			case 0:
				ps, bound := g.phrases(n, 0, false)
				e, t = MapCompr(TInt, TInt, Bin("rem", g.useAll(bound), Int(3)), g.useAll(bound), ps...), TMap(TInt, TInt)
			case 1:
				ps, bound := g.phrases(n, 0, false)
				e, t = SelCompr(TInt, false, g.useAll(bound), ps...), TInt
			case 2:
				ps, bound := g.phrases(n, 0, true)
				c := ps[0].C
				for _, x := range bound {
					c = Bin("land", c, Bin("ge", Bin("mul", Var(x), Var(x)), Int(0)))
				}
				ps[0].C = c
				e, t = ExistsCompr(ps...), TBool
			default:
				ps, bound := g.phrases(n, 0, false)
				e, t = ListCompr(TInt, g.useAll(bound), ps...), TList(TInt)
			}
			g.ints = save
		}
		args = append(args, e)
		params = append(params, Param{fmt.Sprintf("p%d", i), t})
	}
	// the deciding last argument: `[k1, k2]` fits only the candidate whose last parameter is []int
	args = append(args, SliceLit(TInt, Int(g.r.Intn(5)), Int(g.r.Intn(5))))
	lastTys := []*Ty{TList(TStr), TList(TBool), TList(TInt)}
	ncand := 2 + g.r.Intn(2)
	order := []int{0, 2} // candidate i has last parameter lastTys[order[i]]
	if ncand == 3 {
		order = [][]int{{0, 1, 2}, {0, 2, 1}, {1, 0, 2}}[g.r.Intn(3)]
	} else if g.r.Chance(15) {
		order = []int{2, 0} // first candidate fits: compiled once
	}
	ov := "ov" + g.sfx
	extra := "func " + ov + " = (\n"
	resolved := ""
	for ci, k := range order {
		name := fmt.Sprintf("ov%d%s", ci, g.sfx)
		ps := append(append([]Param{}, params...), Param{"w", lastTys[k]})
		var fb []*Stmt
		for _, p := range ps {
			fb = append(fb, ExprS(Probe(g.id(), Var(p.Name))))
		}
		fb = append(fb, Ret(Int(ci+1)))
		g.funcs = append(g.funcs, &Func{Name: name, Params: ps, Results: []Param{{"", TInt}}, Body: fb})
		extra += "\t" + name + "\n"
		if k == 2 {
			resolved = name
		}
	}
	extra += ")\n\n"
	call := Call(resolved, args...)
	call.XS = ov
	switch g.r.Intn(3) {
	case 0:
		r := g.v("r")
		body = append(body, Def1(r, call))
		g.local(r, TInt)
	case 1:
		body = append(body, ExprS(Probe(g.id(), call)))
	default:
		call.K = "cmdCall"
		body = append(body, ExprS(call))
	}
	sc := g.finish(kind, body)
	sc.XGoExtra = extra
	sc.Note = fmt.Sprintf("cands%d", ncand)
	return sc
}

// rngFn: the documented sequence of a range expression `a:b:c` (c > 0) as a scenario function:
// rng(a, b, c) = [a, a+c, …) below b.  The XGo text writes `a:b:c`; operands are evaluated once,
// left to right, when the call is evaluated.
func (g *G) rngFn() string {
	name := "rng" + g.sfx
	for _, f := range g.funcs {
		if f.Name == name {
			return name
		}
	}
	g.funcs = append(g.funcs, &Func{Name: name, Params: []Param{{"a", TInt}, {"b", TInt}, {"c", TInt}},
		Results: []Param{{"", TList(TInt)}},
		Body: []*Stmt{VarDecl("out", TList(TInt)),
			If(Bin("lt", Var("a"), Var("b")), []*Stmt{Send("out", false, Var("a")),
				Send("out", true, Call(name, Bin("add", Var("a"), Var("c")), Var("b"), Var("c")))}, nil),
			Ret(Var("out"))}})
	return name
}

// scRange: for-in statements and comprehensions over RANGE expressions with effectful start / end /
// step (harness-only surface: M4 has no range node, the model iterates over rng(a, b, c)).
func (g *G) scRange() *Scenario {
	var body []*Stmt
	n := g.declInt(&body)
	body = append(body, Set1(n, Int(4+g.r.Intn(4)))) // upper bound variable (an identifier: no `_gop_end`)
	acc := g.v("acc")
	body = append(body, Def1(acc, Int(0)))
	g.local(acc, TInt)
	rng := g.rngFn()
	operand := func(e *Expr, p int) *Expr { return g.maybeProbe(e, p) }
	mkRange := func() *Expr {
		start := operand(Int(g.r.Intn(3)), 60)
		var end *Expr
		switch g.r.Intn(3) {
		case 0:
			end = Var(n)
		case 1:
			end = Int(5 + g.r.Intn(4))
		default:
			end = Probe(g.id(), Bin("add", Var(n), Int(1)))
		}
		var step *Expr
		switch g.r.Intn(4) {
		case 0:
			step = Int(1 + g.r.Intn(2))
		case 1:
			step = Probe(g.id(), Int(1+g.r.Intn(3)))
		case 2:
			step = Call(g.incFn(), Int(g.r.Intn(2)))
		default:
			step = Bin("add", Probe(g.id(), Int(1)), Int(g.r.Intn(2)))
		}
		return RangeE(rng, start, end, step)
	}
	for k, cnt := 0, 1+g.r.Intn(2); k < cnt; k++ {
		i := g.v("i")
		var cond *Expr
		if g.r.Bool() {
			cond = g.maybeProbe(Bin("ne", Bin("rem", Var(i), Int(3)), Int(0)), 40)
		}
		body = append(body, ForIn("", i, mkRange(), cond,
			Set1(acc, Bin("add", Bin("mul", Var(acc), Int(2)), Var(i))), ExprS(Probe(g.id(), Var(i)))))
	}
	r := g.v("r")
	j := g.v("j")
	body = append(body, Def1(r, ListCompr(TInt, Bin("mul", Var(j), g.maybeProbe(Var(j), 40)), Ph("", j, mkRange(), g.optCondUsing(j, 50)))))
	g.local(r, TList(TInt))
	sc := g.finish("forin_range", body)
	sc.NoStruct = true
	return sc
}

// scNamed: NAMED container types (declared only in the XGo text) as targets of `<-`, of literals,
// for-in and comprehensions; the model sees the underlying []int / map[string]int.
func (g *G) scNamed() *Scenario {
	sfx := g.sfx
	lt, mt := "IntList"+sfx, "StrMap"+sfx
	extra := "type " + lt + " []int\n\ntype " + mt + " map[string]int\n\n"
	var body []*Stmt
	g.declInt(&body)
	a, b := g.v("a"), g.v("b")
	vd := VarDecl(a, TList(TInt))
	vd.XT = lt
	body = append(body, vd)
	es := g.intList()
	if len(es) == 0 {
		es = []*Expr{Int(3)}
	}
	body = append(body, Def1(b, Conv(lt, SliceLit(TInt, es...))))
	g.local(a, TList(TInt))
	g.local(b, TList(TInt))
	body = append(body, Send(a, false, g.maybeProbe(g.intE(1), 60), g.maybeProbe(g.intE(1), 60)))
	body = append(body, Send(a, true, g.maybeProbe(Var(b), 50)))
	body = append(body, Send(b, false, g.intE(1)))
	g.lists = append(g.lists, a, b)
	acc := g.v("acc")
	body = append(body, Def1(acc, Int(0)))
	g.local(acc, TInt)
	x := g.v("x")
	body = append(body, ForIn("", x, Var(a), g.optCondUsing(x, 60), Set1(acc, Bin("add", Var(acc), Var(x))), Send(b, false, Var(x))))
	m := g.v("m")
	body = append(body, Def1(m, Conv(mt, MapLit(TStr, TInt, [2]*Expr{Str("k"), g.maybeProbe(g.intE(1), 50)}))))
	g.local(m, TMap(TStr, TInt))
	k, v := g.v("k"), g.v("v")
	body = append(body, ForIn(k, v, Var(m), nil, Set1(acc, Bin("add", Var(acc), Bin("mul", Var(v), Len(Var(k)))))))
	r := g.v("r")
	y := g.v("y")
	body = append(body, Def1(r, Conv(lt, ListCompr(TInt, Bin("add", Var(y), Int(1)), Ph("", y, Var(b), g.optCondUsing(y, 50))))))
	g.local(r, TList(TInt))
	body = append(body, Send(r, false, Len(Var(a))))
	sc := g.finish("named_types", body)
	sc.XGoExtra, sc.NoStruct = extra, true
	return sc
}

// C02Fixed: regression inputs (text in corpus/C02/*.xgo); run first in every run.
func C02Fixed() []*Scenario {
	var out []*Scenario
	{ // for-in over a range: start, end, step evaluated once, before the loop (seeded change C02-3)
		g := newG(vh.NewRand(1), "_rangestep")
		rng := g.rngFn()
		body := []*Stmt{Def1("n", Int(7)), Def1("acc", Int(0)),
			ForIn("", "i", RangeE(rng, Probe(1, Int(1)), Var("n"), Probe(2, Bin("add", Var("acc"), Int(2)))), nil,
				Set1("acc", Bin("add", Var("acc"), Int(1))), ExprS(Probe(3, Var("i")))),
			ForIn("", "j", RangeE(rng, Int(0), Int(6), Call(g.incFn(), Int(1))), Bin("ne", Var("j"), Int(2)),
				ExprS(Probe(4, Var("j"))))}
		g.local("n", TInt)
		g.local("acc", TInt)
		sc := g.finish("forin_range", body)
		sc.Note, sc.NoStruct, sc.MinParens = "fixed-range-step", true, true
		out = append(out, sc)
	}
	{ // `a <- v` on a NAMED slice type is an append (seeded change C02-4)
		g := newG(vh.NewRand(1), "_namedsend")
		vd := VarDecl("a", TList(TInt))
		vd.XT = "IntList_namedsend"
		body := []*Stmt{vd, Send("a", false, Probe(1, Int(5)), Int(6)),
			Def1("b", Conv("IntList_namedsend", SliceLit(TInt, Int(1)))), Send("a", true, Var("b")), Send("b", false, Len(Var("a")))}
		g.local("a", TList(TInt))
		g.local("b", TList(TInt))
		sc := g.finish("named_types", body)
		sc.Note, sc.NoStruct, sc.MinParens = "fixed-named-send", true, true
		sc.XGoExtra = "type IntList_namedsend []int\n\n"
		out = append(out, sc)
	}
	for _, sc := range out {
		sc.Name = "fixed" + sc.Name
	}
	return out
}

// C02Scenario generates the i-th scenario of the C02 mix.
func C02Scenario(r *vh.Rand, i int) *Scenario {
	g := newG(r, fmt.Sprintf("_%d", i))
	switch k := i % 10; {
	case k == 9 || (k == 7 && i%20 == 7):
		return g.scOverload()
	case k == 7:
		return g.scRange()
	case k == 3 && i%20 == 13:
		return g.scNamed()
	case k == 0:
		return g.scLiterals()
	case k == 1:
		return g.scSend()
	case k == 2 || k == 3:
		return g.scForIn()
	case k == 4:
		return g.scForInMap()
	case k == 5:
		return g.scCmd()
	default:
		return g.scCompr()
	}
}
