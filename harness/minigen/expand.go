package minigen

import (
	"fmt"
	"strings"
)

// The DOCUMENTED explicit Go form of each sugar construct, written from doc/docs.md (and the wiki
// text quoted there), not from cl/: comprehensions are explicit nested `for … range` loops with the
// LAST for-phrase outermost and `continue` on a failing filter; select/exists leave at the first
// hit; `a <- v…` is `a = append(a, v…)`; `f()!` panics with the error wrapped in a frame; `f()?`
// returns zero values and the wrapped error from the enclosing function; `f()?:d` evaluates d only
// on error.  This text is compiled by plain Go into the same binary as the compiler's output and
// is the property oracle.

type expCtx struct {
	names   map[string]bool // scenario functions: calls are redirected to their G_ twins
	fn      string          // "main.<name>" recorded in frames
	results []Param         // of the enclosing function (for `?`)
	n       *int            // fresh-name counter
	pre     *strings.Builder
	ind     string
}

func (c *expCtx) fresh(p string) string {
	*c.n++
	return fmt.Sprintf("%s%d_", p, *c.n)
}

func (c *expCtx) inner() *expCtx { // inside a func literal: `?` may not be hoisted out of it
	d := *c
	d.pre = nil
	return &d
}

func (c *expCtx) callee(f string) string {
	if c.names[f] {
		return "G_" + f
	}
	return f
}

func (c *expCtx) list(es []*Expr) string {
	ss := make([]string, len(es))
	for i, e := range es {
		ss[i] = c.exp(e)
	}
	return strings.Join(ss, ", ")
}

func (c *expCtx) frame(errv, code string) string {
	return fmt.Sprintf("errors1.NewFrame(%s, %q, \"\", 0, %q)", errv, code, c.fn)
}

func (c *expCtx) loops(ps []*Phrase, body string) string {
	// ps in SOURCE order; the last phrase is the outermost loop
	s := body
	for _, p := range ps {
		k := p.Key
		if k == "" {
			k = "_"
		}
		in := c.inner()
		h := "for " + k + ", " + p.Val + " := range " + in.exp(p.X) + " {\n"
		if p.Key != "" {
			h += "_ = " + p.Key + "\n"
		}
		h += "_ = " + p.Val + "\n"
		switch p.FK {
		case "cond":
			h += "if !(" + in.exp(p.C) + ") {\ncontinue\n}\n"
		case "init":
			h += p.IX + " := " + in.exp(p.I) + "\n_ = " + p.IX + "\nif !(" + in.exp(p.C) + ") {\ncontinue\n}\n"
		}
		s = h + s + "}\n"
	}
	return s
}

func (c *expCtx) exp(e *Expr) string {
	switch e.K {
	case "int", "bool", "str", "errlit", "nil", "zero", "var":
		return e.XGo()
	case "bin":
		return "(" + c.exp(e.Args[0]) + " " + goOps[e.S] + " " + c.exp(e.Args[1]) + ")"
	case "not":
		return "!" + c.exp(e.Args[0])
	case "neg":
		return "(0 - " + c.exp(e.Args[0]) + ")"
	case "conv":
		return c.exp(e.Args[0])
	case "rangeE":
		return c.callee(e.S) + "(" + c.list(e.Args) + ")"
	case "sliceLit":
		return TList(e.T).Go() + "{" + c.list(e.Args) + "}"
	case "xmapLit":
		ss := make([]string, len(e.KVs))
		for i, kv := range e.KVs {
			ss[i] = c.exp(kv[0]) + ": " + c.exp(kv[1])
		}
		return TMap(e.T, e.T2).Go() + "{" + strings.Join(ss, ", ") + "}"
	case "index":
		return c.exp(e.Args[0]) + "[" + c.exp(e.Args[1]) + "]"
	case "len":
		return "len(" + c.exp(e.Args[0]) + ")"
	case "call", "cmdCall":
		return c.callee(e.S) + "(" + c.list(e.Args) + ")"
	case "probe":
		return fmt.Sprintf("probe(%d, %s)", e.N, c.exp(e.Args[0]))
	case "listCompr":
		in := c.inner()
		acc := c.fresh("acc")
		return "func() " + TList(e.T).Go() + " {\nvar " + acc + " " + TList(e.T).Go() + "\n" +
			c.loops(e.Fors, acc+" = append("+acc+", "+in.exp(e.Args[0])+")\n") + "return " + acc + "\n}()"
	case "mapCompr":
		in := c.inner()
		acc, k, v := c.fresh("acc"), c.fresh("k"), c.fresh("v")
		mt := TMap(e.T, e.T2).Go()
		return "func() " + mt + " {\n" + acc + " := " + mt + "{}\n" +
			c.loops(e.Fors, k+" := "+in.exp(e.Args[0])+"\n"+v+" := "+in.exp(e.Args[1])+"\n"+acc+"["+k+"] = "+v+"\n") +
			"return " + acc + "\n}()"
	case "selCompr":
		in := c.inner()
		z := c.fresh("z")
		if e.Two {
			return "func() (" + e.T.Go() + ", bool) {\n" + c.loops(e.Fors, "return "+in.exp(e.Args[0])+", true\n") +
				"var " + z + " " + e.T.Go() + "\nreturn " + z + ", false\n}()"
		}
		return "func() " + e.T.Go() + " {\n" + c.loops(e.Fors, "return "+in.exp(e.Args[0])+"\n") +
			"var " + z + " " + e.T.Go() + "\nreturn " + z + "\n}()"
	case "existsCompr":
		return "func() bool {\n" + c.loops(e.Fors, "return true\n") + "return false\n}()"
	case "errBang":
		ev := c.fresh("e")
		vs := make([]string, len(e.Tys))
		ts := make([]string, len(e.Tys))
		for i, t := range e.Tys {
			vs[i], ts[i] = c.fresh("v"), t.Go()
		}
		res := ""
		if len(ts) > 0 {
			res = " (" + strings.Join(ts, ", ") + ")"
		}
		call := c.callee(e.S) + "(" + c.list(e.Args) + ")" // arguments are evaluated where the call stands
		return "func()" + res + " {\n" + strings.Join(append(vs, ev), ", ") + " := " + call + "\nif " + ev + " != nil {\npanic(" +
			c.frame(ev, e.CallCode()) + ")\n}\nreturn " + strings.Join(vs, ", ") + "\n}()"
	case "errDflt":
		in := c.inner()
		ev, v := c.fresh("e"), c.fresh("v")
		call := c.callee(e.S) + "(" + c.list(e.Args) + ")"
		return "func() " + e.T.Go() + " {\n" + v + ", " + ev + " := " + call + "\nif " + ev + " != nil {\nreturn " +
			in.exp(e.D) + "\n}\nreturn " + v + "\n}()"
	case "errQ":
		if c.pre == nil {
			panic("minigen: `?` inside a closure-producing construct has no documented expansion")
		}
		args := c.list(e.Args)
		ev := c.fresh("e")
		vs := make([]string, len(e.Tys))
		for i := range e.Tys {
			vs[i] = c.fresh("q")
		}
		c.pre.WriteString(c.ind + strings.Join(append(append([]string{}, vs...), ev), ", ") + " := " + c.callee(e.S) + "(" + args + ")\n")
		zs := []string{}
		for _, r := range c.results[:len(c.results)-1] {
			zs = append(zs, r.T.Zero())
		}
		zs = append(zs, c.frame(ev, e.CallCode()))
		c.pre.WriteString(c.ind + "if " + ev + " != nil {\n" + c.ind + "\treturn " + strings.Join(zs, ", ") + "\n" + c.ind + "}\n")
		for _, v := range vs {
			c.pre.WriteString(c.ind + "_ = " + v + "\n")
		}
		if len(vs) == 0 {
			return ""
		}
		return strings.Join(vs, ", ")
	}
	panic("exp: bad expr kind " + e.K)
}

func (c *expCtx) block(ss []*Stmt, ind string) string {
	var b strings.Builder
	for _, s := range ss {
		b.WriteString(c.stmt(s, ind))
	}
	return b.String()
}

func (c *expCtx) stmt(s *Stmt, ind string) string {
	var pre strings.Builder
	d := *c
	d.pre, d.ind = &pre, ind
	var body string
	switch s.K {
	case "define":
		body = ind + strings.Join(s.Xs, ", ") + " := " + d.list(s.Es) + "\n"
	case "assign":
		body = ind + strings.Join(s.Xs, ", ") + " = " + d.list(s.Es) + "\n"
	case "setIndex":
		k := d.exp(s.Es[0])
		v := d.exp(s.Es[1])
		body = ind + s.M + "[" + k + "] = " + v + "\n"
	case "varDecl":
		body = ind + "var " + s.M + " " + s.T.Go() + "\n"
	case "expr":
		t := d.exp(s.Es[0])
		if s.Es[0].K == "errQ" {
			body = "" // the value (if any) is discarded
		} else {
			body = ind + t + "\n"
		}
	case "if":
		in := c.inner()
		body = ind + "if " + in.exp(s.C) + " {\n" + c.block(s.Body, ind+"\t") + ind + "}"
		if len(s.Else) > 0 {
			body += " else {\n" + c.block(s.Else, ind+"\t") + ind + "}"
		}
		body += "\n"
	case "forRange":
		in := c.inner()
		body = ind + "for " + rangeVars(s.Key, s.Val) + "range " + in.exp(s.X) + " {\n" + c.block(s.Body, ind+"\t") + ind + "}\n"
	case "ret":
		if len(s.Es) == 0 {
			body = ind + "return\n"
		} else {
			body = ind + "return " + d.list(s.Es) + "\n"
		}
	case "panic":
		body = ind + "panic(" + d.exp(s.Es[0]) + ")\n"
	case "block":
		body = ind + "{\n" + c.block(s.Body, ind+"\t") + ind + "}\n"
	case "send":
		sp := ""
		if s.Spread {
			sp = "..."
		}
		body = ind + s.M + " = append(" + s.M + ", " + d.list(s.Es) + sp + ")\n"
	case "forIn":
		in := c.inner()
		k := s.Key
		if k == "" {
			k = "_"
		}
		body = ind + "for " + k + ", " + s.Val + " := range " + in.exp(s.X) + " {\n"
		if s.FK == "cond" {
			body += ind + "\tif !(" + in.exp(s.C) + ") {\n" + ind + "\t\tcontinue\n" + ind + "\t}\n"
		}
		body += c.block(s.Body, ind+"\t") + ind + "}\n"
	default:
		panic("stmt: bad kind " + s.K)
	}
	return pre.String() + body
}

// GoExpansion returns the Go text of the documented expansion of all functions, each renamed G_<name>.
func GoExpansion(funcs []*Func, counter *int) string {
	names := map[string]bool{}
	for _, f := range funcs {
		names[f.Name] = true
	}
	var b strings.Builder
	for _, f := range funcs {
		c := &expCtx{names: names, fn: "main." + f.Name, results: f.Results, n: counter}
		b.WriteString(sig(f, "G_"+f.Name) + " {\n" + c.block(f.Body, "\t") + "}\n\n")
	}
	return b.String()
}
