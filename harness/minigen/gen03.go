package minigen

import (
	"fmt"

	"verifharness/vh"
)

// ---- C03: error-wrapping operators ----
//
// Callees  fK<sfx>(m int) (values…, error)  log one probe event per call (so "exactly once" is
// visible in the trace), succeed when m > 0 and fail with errors.New("boomK") otherwise.
// K = number of values: f0 (error), f1 (int, error), f2 (int, string, error).

func (g *G) callee(k int) (string, []*Ty) {
	name := fmt.Sprintf("f%d%s", k, g.sfx)
	tys := [][]*Ty{{}, {TInt}, {TInt, TStr}}[k]
	for _, f := range g.funcs {
		if f.Name == name {
			return name, tys
		}
	}
	res := []Param{}
	okv, zv := []*Expr{}, []*Expr{}
	for i, t := range tys {
		res = append(res, Param{"", t})
		if t == TInt {
			okv = append(okv, Bin("mul", Var("m"), Int(10+i)))
		} else {
			okv = append(okv, Str("s"))
		}
		zv = append(zv, Zero(t))
	}
	res = append(res, Param{"", TErr})
	g.funcs = append(g.funcs, &Func{Name: name, Params: []Param{{"m", TInt}}, Results: res, Body: []*Stmt{
		ExprS(Probe(g.id(), Var("m"))),
		If(Bin("gt", Var("m"), Int(0)), []*Stmt{Ret(append(okv, Nil())...)}, nil),
		Ret(append(zv, ErrLit(fmt.Sprintf("boom%d", k)))...),
	}})
	return name, tys
}

// argument of a wrapped call: an atom or a probed atom (keeps the recorded code text predictable)
func (g *G) callArg(m string) *Expr {
	if g.r.Chance(25) {
		return Probe(g.id(), Var(m))
	}
	return Var(m)
}

func (g *G) h3() string { // h3<sfx>(a, b, c int) int: probes its arguments, returns a+b+c
	name := "h3" + g.sfx
	for _, f := range g.funcs {
		if f.Name == name {
			return name
		}
	}
	g.funcs = append(g.funcs, &Func{Name: name, Params: []Param{{"a", TInt}, {"b", TInt}, {"c", TInt}}, Results: []Param{{"", TInt}},
		Body: []*Stmt{ExprS(Probe(g.id(), Var("a"))), ExprS(Probe(g.id(), Var("b"))), ExprS(Probe(g.id(), Var("c"))),
			Ret(Bin("add", Bin("add", Var("a"), Var("b")), Var("c")))}})
	return name
}

var resultShapes = [][]*Ty{
	{},
	{TInt},
	{TStr},
	{TInt, TStr},
	{TStr, TList(TInt)},
	{TBool, TInt},
}

// scQ: a function g<sfx>(m, m2 int) (shape…, error) that uses `?` in one position; the entry calls it
// with a succeeding and a failing argument and probes every result.
func (g *G) scQ(pos int) *Scenario {
	shape := resultShapes[g.r.Intn(len(resultShapes))]
	named := g.r.Chance(30)
	var res []Param
	for i, t := range shape {
		n := ""
		if named {
			n = fmt.Sprintf("r%d", i)
		}
		res = append(res, Param{n, t})
	}
	en := ""
	if named {
		en = "rerr"
	}
	res = append(res, Param{en, TErr})
	var body []*Stmt
	note := ""
	noOracle := false
	f1, t1 := g.callee(1)
	f0, _ := g.callee(0)
	switch pos {
	case 0: // statement, no value; paren or command style (`f0? m`)
		q := ErrQ(f0, nil, g.callArg("m"))
		q.Cmd = g.r.Bool()
		body = append(body, ExprS(q))
		note = "stmt"
		if q.Cmd {
			note = "stmt-cmd"
		}
	case 1: // define
		body = append(body, Def1("x", ErrQ(f1, t1, g.callArg("m"))), ExprS(Probe(g.id(), Var("x"))))
		note = "define"
	case 2: // assign
		body = append(body, Def1("x", Int(3)), Set1("x", ErrQ(f1, t1, g.callArg("m"))), ExprS(Probe(g.id(), Var("x"))))
		note = "assign"
	case 3: // argument of a probe call / command-style call
		if g.r.Bool() {
			body = append(body, ExprS(Probe(g.id(), ErrQ(f1, t1, g.callArg("m")))))
		} else {
			body = append(body, ExprS(Cmd("probe", Int(g.id()), ErrQ(f1, t1, g.callArg("m")))))
		}
		note = "arg"
	case 4: // argument after a pure one and before an effectful one
		body = append(body, Def1("y", Call(g.h3(), Var("m2"), ErrQ(f1, t1, g.callArg("m")), Probe(g.id(), Int(4)))), ExprS(Probe(g.id(), Var("y"))))
		note = "arg-mid"
	case 5: // two `?` in one statement (docs.md example shape)
		body = append(body, Def1("x", Bin("add", ErrQ(f1, t1, g.callArg("m")), ErrQ(f1, t1, g.callArg("m2")))), ExprS(Probe(g.id(), Var("x"))))
		note = "two"
	case 6: // nested: argument of another wrapped call
		body = append(body, Def1("x", ErrQ(f1, t1, ErrQ(f1, t1, Var("m")))), ExprS(Probe(g.id(), Var("x"))))
		note = "nested"
	case 7: // inside a for-in body: returns out of the loop
		body = append(body, ForIn("", "v", SliceLit(TInt, Int(2), Var("m"), Int(3)), nil,
			Def1("x", ErrQ(f1, t1, Var("v"))), ExprS(Probe(g.id(), Var("x")))))
		note = "in-loop"
	case 8: // TIE ONLY: an effectful operand to the left of `?` — the compiler evaluates the wrapped call first
		body = append(body, Def1("x", Bin("add", Probe(g.id(), Int(5)), ErrQ(f1, t1, g.callArg("m")))), ExprS(Probe(g.id(), Var("x"))))
		note = "left-effect(tie-only)"
		noOracle = true
	}
	body = append(body, ExprS(Probe(g.id(), Int(77)))) // reached only without early return
	var rets []*Expr
	for _, t := range shape {
		switch t.K {
		case "int":
			rets = append(rets, Int(5))
		case "str":
			rets = append(rets, Str("r"))
		case "bool":
			rets = append(rets, Bool(true))
		default:
			rets = append(rets, SliceLit(TInt, Int(1), Int(2)))
		}
	}
	body = append(body, Ret(append(rets, Nil())...))
	gname := "g" + g.sfx
	g.funcs = append(g.funcs, &Func{Name: gname, Params: []Param{{"m", TInt}, {"m2", TInt}}, Results: res, Body: body})
	// entry: call with (ok, ok), (fail, ok), (ok, fail)
	var eb []*Stmt
	for ci, ms := range [][2]int{{2, 3}, {0, 3}, {4, -1}} {
		var xs []string
		for i := range shape {
			xs = append(xs, fmt.Sprintf("c%dr%d", ci, i))
		}
		xs = append(xs, fmt.Sprintf("c%de", ci))
		eb = append(eb, Define(xs, Call(gname, Int(ms[0]), Int(ms[1]))))
		for _, x := range xs {
			eb = append(eb, ExprS(Probe(g.id(), Var(x))))
		}
	}
	sc := g.finish("errwrap_q", eb)
	sc.Note, sc.NoOracle = note, noOracle
	return sc
}

// scBang: `!` in one position; the entry runs a succeeding use and then (maybe) a failing one.
func (g *G) scBang(pos int, fail bool) *Scenario {
	f0, _ := g.callee(0)
	f1, t1 := g.callee(1)
	f2, t2 := g.callee(2)
	var body []*Stmt
	body = append(body, Def1("m", Int(3)))
	use := func(m string) []*Stmt {
		switch pos {
		case 0:
			b0, b1, b2 := ErrBang(f0, nil, g.callArg(m)), ErrBang(f1, t1, g.callArg(m)), ErrBang(f2, t2, g.callArg(m))
			b0.Cmd, b1.Cmd, b2.Cmd = g.r.Bool(), g.r.Bool(), g.r.Bool() // `f! a` command style
			return []*Stmt{ExprS(b0), ExprS(b1), ExprS(b2)}
		case 1:
			x := g.v("x")
			return []*Stmt{Def1(x, ErrBang(f1, t1, g.callArg(m))), ExprS(Probe(g.id(), Var(x)))}
		case 2:
			x, y := g.v("x"), g.v("y")
			return []*Stmt{Define([]string{x, y}, ErrBang(f2, t2, g.callArg(m))), ExprS(Probe(g.id(), Var(x))), ExprS(Probe(g.id(), Var(y)))}
		case 3:
			x := g.v("x")
			return []*Stmt{Def1(x, Int(1)), Set1(x, ErrBang(f1, t1, g.callArg(m))), ExprS(Probe(g.id(), Var(x)))}
		case 4:
			return []*Stmt{ExprS(Probe(g.id(), ErrBang(f1, t1, g.callArg(m)))), ExprS(Cmd("probe", Int(g.id()), ErrBang(f1, t1, g.callArg(m))))}
		case 5:
			y := g.v("y")
			return []*Stmt{Def1(y, Call(g.h3(), Probe(g.id(), Int(1)), ErrBang(f1, t1, g.callArg(m)), Probe(g.id(), Int(4)))), ExprS(Probe(g.id(), Var(y)))}
		default: // operand after an effectful one: evaluated in place
			x := g.v("x")
			return []*Stmt{Def1(x, Bin("add", Probe(g.id(), Int(5)), ErrBang(f1, t1, g.callArg(m)))), ExprS(Probe(g.id(), Var(x)))}
		}
	}
	body = append(body, use("m")...)
	if fail {
		body = append(body, Def1("z", Int(0)))
		body = append(body, use("z")...)
	}
	body = append(body, ExprS(Probe(g.id(), Int(78))))
	g.local("m", TInt)
	if fail {
		g.local("z", TInt)
	}
	sc := g.finish("errwrap_bang", body)
	sc.Note = fmt.Sprintf("pos%d fail=%v", pos, fail)
	return sc
}

// scDflt: `?:` — default with a side effect, evaluated only on error; nested defaults.
func (g *G) scDflt() *Scenario {
	f1, _ := g.callee(1)
	var body []*Stmt
	body = append(body, Def1("m", Int(2)), Def1("z", Int(0)))
	for i, n := 0, 2+g.r.Intn(3); i < n; i++ {
		m := g.pick([]string{"m", "z"})
		x := g.v("x")
		d := Probe(g.id(), Int(40+i))
		var e *Expr
		switch g.r.Intn(4) {
		case 0:
			e = ErrDflt(f1, TInt, d, g.callArg(m))
		case 1: // nested default
			e = ErrDflt(f1, TInt, ErrDflt(f1, TInt, d, g.callArg(g.pick([]string{"m", "z"}))), g.callArg(m))
		case 2: // operand after an effectful one
			e = Bin("add", Probe(g.id(), Int(6)), ErrDflt(f1, TInt, d, g.callArg(m)))
		default: // argument position
			e = Call(g.h3(), Probe(g.id(), Int(1)), ErrDflt(f1, TInt, Bin("add", d, Int(1)), g.callArg(m)), Probe(g.id(), Int(9)))
		}
		body = append(body, Def1(x, e), ExprS(Probe(g.id(), Var(x))))
	}
	g.local("m", TInt)
	g.local("z", TInt)
	return g.finish("errwrap_default", body)
}

// surfaceE: an int expression mixing the error-wrap operators with unary and binary operators so
// that, printed with minimal parentheses, the parser's precedence decisions matter: `x()?:d OP y`,
// `OP x()!`, `-f()?:d`, defaults that are literals, negative literals, probes or another `?:`,
// error-wraps inside index expressions, slice literals and call arguments.
func (g *G) surfaceE(depth int, f1 string, q bool) *Expr {
	leaf := func() *Expr {
		m := g.pick([]string{"m", "z"})
		switch g.r.Intn(7) {
		case 0, 1, 2:
			var d *Expr
			switch g.r.Intn(5) {
			case 0:
				d = Int(-g.r.Intn(4) - 1)
			case 1:
				d = Probe(g.id(), Int(g.r.Intn(5)+1))
			case 2:
				d = ErrDflt(f1, TInt, Int(g.r.Intn(5)+1), Var(g.pick([]string{"m", "z"})))
			default:
				d = Int(g.r.Intn(5) + 1)
			}
			return ErrDflt(f1, TInt, d, g.callArg(m))
		case 3:
			return ErrBang(f1, []*Ty{TInt}, g.callArg("m"))
		case 4:
			return Var(m)
		case 5:
			return Index(TInt, SliceLit(TInt, ErrBang(f1, []*Ty{TInt}, Var("m")), ErrDflt(f1, TInt, Int(2), Var(m))),
				ErrDflt(f1, TInt, Int(g.r.Intn(2)), Var("z")))
		default:
			return Int(g.r.Intn(4) + 1)
		}
	}
	if depth <= 0 {
		return leaf()
	}
	switch g.r.Intn(8) {
	case 0:
		return g.nc(Neg(g.surfaceE(depth-1, f1, q)))
	case 1:
		return g.nc(Bin("rem", g.surfaceE(depth-1, f1, q), Int(g.r.Intn(3)+2)))
	case 2:
		return Call(g.h3(), g.surfaceE(depth-1, f1, q), g.surfaceE(0, f1, q), leaf())
	case 3:
		return leaf()
	default:
		return g.nc(Bin(g.pick([]string{"mul", "mul", "add", "sub"}), g.surfaceE(depth-1, f1, q), g.surfaceE(depth-1, f1, q)))
	}
}

// qFirst: `?` as the first evaluated operand (the compiler evaluates it before the rest of the
// statement anyway), under unary minus and/or followed by binary operators.
func (g *G) qFirst(f1 string) *Expr {
	q := ErrQ(f1, []*Ty{TInt}, g.callArg("m"))
	var e *Expr = q
	if g.r.Bool() {
		e = Neg(q)
	}
	if g.r.Bool() {
		e = Bin(g.pick([]string{"mul", "rem"}), e, Int(g.r.Intn(3)+2))
	}
	return Bin(g.pick([]string{"add", "sub", "mul"}), e, g.surfaceE(1, f1, false))
}

// scSurface: surface-syntax variety (always printed with minimal parentheses).
func (g *G) scSurface() *Scenario {
	f1, _ := g.callee(1)
	var body []*Stmt
	body = append(body, Def1("m", Int(2)), Def1("z", Int(0)))
	for i, n := 0, 2+g.r.Intn(3); i < n; i++ {
		x := g.v("x")
		body = append(body, Def1(x, g.surfaceE(2, f1, false)), ExprS(Probe(g.id(), Var(x))))
	}
	// the same with `?` inside a function
	gname := "g" + g.sfx
	g.funcs = append(g.funcs, &Func{Name: gname, Params: []Param{{"m", TInt}, {"z", TInt}},
		Results: []Param{{"", TInt}, {"", TErr}},
		Body:    []*Stmt{Def1("y", g.qFirst(f1)), ExprS(Probe(g.id(), Var("y"))), Ret(Var("y"), Nil())}})
	for ci, ms := range [][2]int{{2, 0}, {0, 3}} {
		r, e := fmt.Sprintf("c%dr", ci), fmt.Sprintf("c%de", ci)
		body = append(body, Define([]string{r, e}, Call(gname, Int(ms[0]), Int(ms[1]))),
			ExprS(Probe(g.id(), Var(r))), ExprS(Probe(g.id(), Var(e))))
	}
	g.local("m", TInt)
	g.local("z", TInt)
	sc := g.finish("errwrap_surface", body)
	sc.MinParens = true
	return sc
}

// C03Fixed: regression inputs (also written to corpus/C03/*.xgo); run first in every batch.
func C03Fixed() []*Scenario {
	var out []*Scenario
	{ // command-style `f0? m` must return the error, not panic (seeded change C03-1)
		g := newG(vh.NewRand(1), "_cmdq")
		f0, _ := g.callee(0)
		q := ErrQ(f0, nil, Var("m"))
		q.Cmd = true
		g.funcs = append(g.funcs, &Func{Name: "g_cmdq", Params: []Param{{"m", TInt}}, Results: []Param{{"", TInt}, {"", TErr}},
			Body: []*Stmt{ExprS(q), ExprS(Probe(5, Int(77))), Ret(Int(1), Nil())}})
		sc := g.finish("errwrap_q", []*Stmt{
			Define([]string{"a", "e"}, Call("g_cmdq", Int(1))), ExprS(Probe(1, Var("a"))), ExprS(Probe(2, Var("e"))),
			Define([]string{"b", "e2"}, Call("g_cmdq", Int(0))), ExprS(Probe(3, Var("b"))), ExprS(Probe(4, Var("e2")))})
		sc.Note, sc.MinParens = "fixed-cmd-q", true
		out = append(out, sc)
	}
	{ // `a()?:1 * b()?:1`: the default is a unary expression (seeded change C03-2)
		g := newG(vh.NewRand(1), "_dfltprec")
		f1, _ := g.callee(1)
		body := []*Stmt{Def1("m", Int(2)), Def1("z", Int(0)),
			Def1("x1", Bin("mul", ErrDflt(f1, TInt, Int(1), Var("m")), ErrDflt(f1, TInt, Int(1), Var("m")))),
			Def1("x2", Bin("mul", ErrDflt(f1, TInt, Int(3), Var("z")), ErrDflt(f1, TInt, Int(5), Var("m")))),
			Def1("x3", Bin("rem", ErrDflt(f1, TInt, Int(7), Var("m")), Int(3))),
			Def1("x4", Bin("add", ErrDflt(f1, TInt, Int(-2), Var("z")), Bin("mul", Int(2), ErrBang(f1, []*Ty{TInt}, Var("m")))))}
		for _, x := range []string{"x1", "x2", "x3", "x4", "m", "z"} {
			g.local(x, TInt)
		}
		sc := g.finish("errwrap_default", body)
		sc.Note, sc.MinParens = "fixed-default-prec", true
		out = append(out, sc)
	}
	for _, sc := range out {
		sc.Name = "fixed" + sc.Name
	}
	return out
}

// scOperand: error-wrap operands of every callable form the parser/compiler accept besides
// `f(args)`: `f!` / `f?` / `f?:d` without parentheses (zero-argument auto-call), selector operands
// (`c.get!` method values on a pointer receiver, through a field chain `h.c.get?`, through an index
// `cs[0].get?:d`) and call results `mk()()!`.  Structs, methods and the package-level variables exist
// only in the XGo text (XGoExtra) and delegate to the scenario's zero-argument functions; the model
// and the documented expansion call those functions directly (harness-only surface: no structural tie).
func (g *G) scOperand() *Scenario {
	sfx := g.sfx
	mkf := func(name string, vals int, ok bool) string {
		res := []Param{}
		var rets []*Expr
		if vals == 1 {
			res = append(res, Param{"", TInt})
			if ok {
				rets = append(rets, Int(7))
			} else {
				rets = append(rets, Int(0))
			}
		}
		res = append(res, Param{"", TErr})
		if ok {
			rets = append(rets, Nil())
		} else {
			rets = append(rets, ErrLit("boom"+name))
		}
		g.funcs = append(g.funcs, &Func{Name: name + sfx, Results: res,
			Body: []*Stmt{ExprS(Probe(g.id(), Int(len(g.funcs)))), Ret(rets...)}})
		return name + sfx
	}
	ok0, bad0, ok1, bad1 := mkf("ok0", 0, true), mkf("bad0", 0, false), mkf("ok1", 1, true), mkf("bad1", 1, false)
	extra := "type C" + sfx + " struct{ n int }\n\n" +
		"func (c *C" + sfx + ") ping() error { return " + ok0 + "() }\n" +
		"func (c *C" + sfx + ") pong() error { return " + bad0 + "() }\n" +
		"func (c *C" + sfx + ") get() (int, error) { return " + ok1 + "() }\n" +
		"func (c *C" + sfx + ") lose() (int, error) { return " + bad1 + "() }\n\n" +
		"type H" + sfx + " struct{ c *C" + sfx + " }\n\n" +
		"var c" + sfx + " = &C" + sfx + "{}\nvar h" + sfx + " = &H" + sfx + "{c: c" + sfx + "}\nvar cs" + sfx + " = []*C" + sfx + "{c" + sfx + "}\n\n" +
		"func mk" + sfx + "(ok bool) func() (int, error) {\n\tif ok {\n\t\treturn " + ok1 + "\n\t}\n\treturn " + bad1 + "\n}\n\n"
	// surface forms of an operand that, called, behaves like fn
	form := func(fn string, vals int, ok bool) string {
		meth := map[[2]bool]string{{false, true}: "ping", {false, false}: "pong", {true, true}: "get", {true, false}: "lose"}[[2]bool{vals == 1, ok}]
		forms := []string{fn, "c" + sfx + "." + meth, "h" + sfx + ".c." + meth, "cs" + sfx + "[0]." + meth}
		if vals == 1 {
			forms = append(forms, fmt.Sprintf("mk%s(%v)()", sfx, ok))
		}
		return forms[g.r.Intn(len(forms))]
	}
	wrap := func(kind string, vals int, ok bool, d *Expr) *Expr {
		fn := map[[2]bool]string{{false, true}: ok0, {false, false}: bad0, {true, true}: ok1, {true, false}: bad1}[[2]bool{vals == 1, ok}]
		var tys []*Ty
		if vals == 1 {
			tys = []*Ty{TInt}
		}
		var e *Expr
		switch kind {
		case "bang":
			e = ErrBang(fn, tys)
		case "q":
			e = ErrQ(fn, tys)
		default:
			e = ErrDflt(fn, TInt, d)
		}
		e.XSrc = form(fn, vals, ok)
		return e
	}
	// `?` forms inside g(sel int): sel picks which statement fails
	gname := "g" + sfx
	gb := []*Stmt{
		ExprS(wrap("q", 0, true, nil)),
		Def1("x", wrap("q", 1, true, nil)),
		ExprS(Probe(g.id(), Var("x"))),
		If(Bin("eq", Var("sel"), Int(1)), []*Stmt{ExprS(wrap("q", 0, false, nil))}, nil),
		If(Bin("eq", Var("sel"), Int(2)), []*Stmt{Def1("y", Bin("add", wrap("q", 1, false, nil), Int(1))), ExprS(Probe(g.id(), Var("y")))}, nil),
		ExprS(Probe(g.id(), Int(77))),
		Ret(Var("x"), Nil()),
	}
	g.funcs = append(g.funcs, &Func{Name: gname, Params: []Param{{"sel", TInt}}, Results: []Param{{"", TInt}, {"", TErr}}, Body: gb})
	var body []*Stmt
	for sel := 0; sel < 3; sel++ {
		r, e := fmt.Sprintf("c%dr", sel), fmt.Sprintf("c%de", sel)
		body = append(body, Define([]string{r, e}, Call(gname, Int(sel))), ExprS(Probe(g.id(), Var(r))), ExprS(Probe(g.id(), Var(e))))
	}
	// `?:` and `!`
	body = append(body,
		Def1("d1", Bin("add", wrap("dflt", 1, true, Probe(g.id(), Int(40))), wrap("dflt", 1, false, Probe(g.id(), Int(41))))),
		ExprS(Probe(g.id(), Var("d1"))),
		Def1("b1", Bin("mul", Int(2), wrap("bang", 1, true, nil))),
		ExprS(Probe(g.id(), Var("b1"))),
		ExprS(wrap("bang", 0, true, nil)))
	if g.r.Bool() {
		body = append(body, ExprS(wrap("bang", 0, false, nil)))
	} else {
		body = append(body, ExprS(Probe(g.id(), wrap("bang", 1, false, nil))))
	}
	body = append(body, ExprS(Probe(g.id(), Int(78))))
	sc := g.finish("errwrap_operand", body)
	sc.XGoExtra, sc.NoStruct = extra, true
	return sc
}

// C03Scenario generates the i-th scenario of the C03 mix.
func C03Scenario(r *vh.Rand, i int) *Scenario {
	g := newG(r, fmt.Sprintf("_%d", i))
	switch k := i % 20; {
	case k < 9:
		return g.scQ(k)
	case k < 15:
		return g.scBang(k-9, r.Chance(60))
	case k == 15:
		return g.scBang(g.r.Intn(2)*6, r.Chance(60)) // positions 0 (statements, command style) and 6
	case k == 16:
		return g.scSurface()
	case k == 17:
		return g.scOperand()
	default:
		return g.scDflt()
	}
}

// C03CompileProbes: small programs that are valid by the property's reading ("1..3 results, use in
// statement / assignment / argument position"); each is compiled and built separately because a
// rejected one would take the whole batch with it.
func C03CompileProbes() []*Scenario {
	var out []*Scenario
	mk := func(name, note string, stmts func(g *G) []*Stmt) {
		g := newG(vh.NewRand(1), "_"+name)
		body := stmts(g)
		body = append(body, Ret(Int(1), Nil()))
		g.funcs = append(g.funcs, &Func{Name: "g_" + name, Params: []Param{{"m", TInt}}, Results: []Param{{"", TInt}, {"", TErr}}, Body: body})
		sc := g.finish("errwrap_q", []*Stmt{Define([]string{"a", "e"}, Call("g_"+name, Int(1))), ExprS(Probe(1, Var("a"))), ExprS(Probe(2, Var("e")))})
		sc.Note = note
		out = append(out, sc)
	}
	mk("q2assign", "q-two-values-assign", func(g *G) []*Stmt {
		f2, t2 := g.callee(2)
		return []*Stmt{Define([]string{"x", "y"}, ErrQ(f2, t2, Var("m"))), ExprS(Probe(3, Var("x"))), ExprS(Probe(4, Var("y")))}
	})
	mk("q2stmt", "q-two-values-stmt", func(g *G) []*Stmt {
		f2, t2 := g.callee(2)
		return []*Stmt{ExprS(ErrQ(f2, t2, Var("m")))}
	})
	mk("q1stmt", "q-one-value-stmt", func(g *G) []*Stmt {
		f1, t1 := g.callee(1)
		return []*Stmt{ExprS(ErrQ(f1, t1, Var("m")))}
	})
	mk("q1define", "q-one-value-define", func(g *G) []*Stmt {
		f1, t1 := g.callee(1)
		return []*Stmt{Def1("x", ErrQ(f1, t1, Var("m"))), ExprS(Probe(3, Var("x")))}
	})
	mk("q0stmt", "q-no-value-stmt", func(g *G) []*Stmt {
		f0, _ := g.callee(0)
		return []*Stmt{ExprS(ErrQ(f0, nil, Var("m")))}
	})
	mk("b2stmt", "bang-two-values-stmt", func(g *G) []*Stmt {
		f2, t2 := g.callee(2)
		return []*Stmt{ExprS(ErrBang(f2, t2, Var("m")))}
	})
	return out
}
