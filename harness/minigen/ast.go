// Package minigen: generator-side mirror of the Lean MiniGo/MiniXGo syntax (lean/GopModel/Model/
// MiniGo.lean), with three writers: XGo source text (input of the real compiler), the DOCUMENTED
// explicit Go expansion written independently of the compiler (the property oracle, compiled by
// plain Go in the same binary) and the s-expression read by the Lean driver drv_minigo.
package minigen

import (
	"encoding/hex"
	"fmt"
	"strings"
)

type Ty struct {
	K    string // int bool str err list map
	A, B *Ty
}

var (
	TInt  = &Ty{K: "int"}
	TBool = &Ty{K: "bool"}
	TStr  = &Ty{K: "str"}
	TErr  = &Ty{K: "err"}
)

func TList(e *Ty) *Ty   { return &Ty{K: "list", A: e} }
func TMap(k, v *Ty) *Ty { return &Ty{K: "map", A: k, B: v} }

func (t *Ty) Go() string {
	switch t.K {
	case "int":
		return "int"
	case "bool":
		return "bool"
	case "str":
		return "string"
	case "err":
		return "error"
	case "list":
		return "[]" + t.A.Go()
	case "map":
		return "map[" + t.A.Go() + "]" + t.B.Go()
	}
	panic("bad type")
}

func (t *Ty) S() string {
	switch t.K {
	case "list":
		return "(list " + t.A.S() + ")"
	case "map":
		return "(map " + t.A.S() + " " + t.B.S() + ")"
	}
	return t.K
}

func (t *Ty) Zero() string {
	switch t.K {
	case "int":
		return "0"
	case "bool":
		return "false"
	case "str":
		return `""`
	}
	return "nil"
}

// Expr kinds: int bool str errlit nil var bin not sliceLit xmapLit index len call cmdCall probe
// listCompr mapCompr selCompr existsCompr errBang errQ errDflt
type Expr struct {
	K     string
	N     int
	B     bool
	S     string // name / string literal / callee / operator
	XS    string // calls: the name written in the XGo source when it differs (overloaded name; S is the resolved candidate)
	T, T2 *Ty
	Args  []*Expr
	KVs   [][2]*Expr
	Fors  []*Phrase
	Tys   []*Ty
	Two   bool
	XSrc  string // errwrap: the operand as written in the XGo source when it is not `S(args)` (`f`, `c.get`, `mk()()`);
	// conv: the named type; harness-only surface, the model sees the call of S / the plain value
	Cmd bool // errBang/errQ written in command style: `f! a, b` / `f? a` (statement position only)
	D   *Expr
}

type Phrase struct {
	Key, Val string // Key "" = absent
	X        *Expr
	FK       string // "" | cond | init
	IX       string
	I, C     *Expr
}

// Stmt kinds: define assign setIndex varDecl expr if forRange ret panic block send forIn
type Stmt struct {
	K          string
	Xs         []string
	Es         []*Expr
	M          string
	T          *Ty
	FK         string // filter kind for if / forIn
	IX         string
	I, C       *Expr
	Key, Val   string
	X          *Expr
	Body, Else []*Stmt
	Spread     bool
	XT         string // varDecl: named type written in the XGo text (harness-only)
}

type Param struct {
	Name string
	T    *Ty
}

type Func struct {
	Name    string
	Params  []Param
	Results []Param
	Body    []*Stmt
}

type Prog struct {
	Entry string
	Funcs []*Func
}

// ---- constructors ----

func Int(n int) *Expr       { return &Expr{K: "int", N: n} }
func Bool(b bool) *Expr     { return &Expr{K: "bool", B: b} }
func Str(s string) *Expr    { return &Expr{K: "str", S: s} }
func ErrLit(s string) *Expr { return &Expr{K: "errlit", S: s} }
func Nil() *Expr            { return &Expr{K: "nil"} }
func Zero(t *Ty) *Expr      { return &Expr{K: "zero", T: t} }
func Var(x string) *Expr    { return &Expr{K: "var", S: x} }
func Bin(op string, a, b *Expr) *Expr {
	return &Expr{K: "bin", S: op, Args: []*Expr{a, b}}
}

// Conv: `T(e)` with a NAMED container type T declared only in the XGo text; the model sees e.
func Conv(t string, e *Expr) *Expr { return &Expr{K: "conv", XSrc: t, Args: []*Expr{e}} }

// RangeE: the range expression `a:b:c`; the model sees the call rng(a, b, c) of a scenario function
// that builds the documented sequence (operands once, left to right).
func RangeE(rng string, a, b, c *Expr) *Expr {
	return &Expr{K: "rangeE", S: rng, Args: []*Expr{a, b, c}}
}

func Neg(a *Expr) *Expr                 { return &Expr{K: "neg", Args: []*Expr{a}} }
func Not(a *Expr) *Expr                 { return &Expr{K: "not", Args: []*Expr{a}} }
func SliceLit(t *Ty, es ...*Expr) *Expr { return &Expr{K: "sliceLit", T: t, Args: es} }
func MapLit(k, v *Ty, kvs ...[2]*Expr) *Expr {
	return &Expr{K: "xmapLit", T: k, T2: v, KVs: kvs}
}
func Index(vt *Ty, a, i *Expr) *Expr   { return &Expr{K: "index", T: vt, Args: []*Expr{a, i}} }
func Len(a *Expr) *Expr                { return &Expr{K: "len", Args: []*Expr{a}} }
func Call(f string, as ...*Expr) *Expr { return &Expr{K: "call", S: f, Args: as} }
func Cmd(f string, as ...*Expr) *Expr  { return &Expr{K: "cmdCall", S: f, Args: as} }
func Probe(id int, e *Expr) *Expr      { return &Expr{K: "probe", N: id, Args: []*Expr{e}} }
func ListCompr(t *Ty, elt *Expr, fors ...*Phrase) *Expr {
	return &Expr{K: "listCompr", T: t, Args: []*Expr{elt}, Fors: fors}
}
func MapCompr(kt, vt *Ty, k, v *Expr, fors ...*Phrase) *Expr {
	return &Expr{K: "mapCompr", T: kt, T2: vt, Args: []*Expr{k, v}, Fors: fors}
}
func SelCompr(t *Ty, two bool, elt *Expr, fors ...*Phrase) *Expr {
	return &Expr{K: "selCompr", T: t, Two: two, Args: []*Expr{elt}, Fors: fors}
}
func ExistsCompr(fors ...*Phrase) *Expr { return &Expr{K: "existsCompr", Fors: fors} }
func ErrBang(f string, tys []*Ty, as ...*Expr) *Expr {
	return &Expr{K: "errBang", S: f, Tys: tys, Args: as}
}
func ErrQ(f string, tys []*Ty, as ...*Expr) *Expr {
	return &Expr{K: "errQ", S: f, Tys: tys, Args: as}
}
func ErrDflt(f string, t *Ty, d *Expr, as ...*Expr) *Expr {
	return &Expr{K: "errDflt", S: f, T: t, D: d, Args: as}
}

func Define(xs []string, es ...*Expr) *Stmt { return &Stmt{K: "define", Xs: xs, Es: es} }
func Def1(x string, e *Expr) *Stmt          { return &Stmt{K: "define", Xs: []string{x}, Es: []*Expr{e}} }
func Assign(xs []string, es ...*Expr) *Stmt { return &Stmt{K: "assign", Xs: xs, Es: es} }
func Set1(x string, e *Expr) *Stmt          { return &Stmt{K: "assign", Xs: []string{x}, Es: []*Expr{e}} }
func SetIndex(m string, k, v *Expr) *Stmt   { return &Stmt{K: "setIndex", M: m, Es: []*Expr{k, v}} }
func VarDecl(x string, t *Ty) *Stmt         { return &Stmt{K: "varDecl", M: x, T: t} }
func ExprS(e *Expr) *Stmt                   { return &Stmt{K: "expr", Es: []*Expr{e}} }
func If(c *Expr, thn, els []*Stmt) *Stmt {
	return &Stmt{K: "if", FK: "cond", C: c, Body: thn, Else: els}
}
func Ret(es ...*Expr) *Stmt { return &Stmt{K: "ret", Es: es} }
func Panic(e *Expr) *Stmt   { return &Stmt{K: "panic", Es: []*Expr{e}} }
func Send(a string, spread bool, vs ...*Expr) *Stmt {
	return &Stmt{K: "send", M: a, Es: vs, Spread: spread}
}
func ForIn(key, val string, x *Expr, cond *Expr, body ...*Stmt) *Stmt {
	s := &Stmt{K: "forIn", Key: key, Val: val, X: x, Body: body}
	if cond != nil {
		s.FK, s.C = "cond", cond
	}
	return s
}
func ForRange(key, val string, x *Expr, body ...*Stmt) *Stmt {
	return &Stmt{K: "forRange", Key: key, Val: val, X: x, Body: body}
}

func Ph(key, val string, x *Expr, cond *Expr) *Phrase {
	p := &Phrase{Key: key, Val: val, X: x}
	if cond != nil {
		p.FK, p.C = "cond", cond
	}
	return p
}
func PhInit(key, val string, x *Expr, ix string, i, c *Expr) *Phrase {
	return &Phrase{Key: key, Val: val, X: x, FK: "init", IX: ix, I: i, C: c}
}

// ---- XGo source text ----

var goOps = map[string]string{"add": "+", "sub": "-", "mul": "*", "rem": "%", "eq": "==", "ne": "!=",
	"lt": "<", "le": "<=", "gt": ">", "ge": ">=", "land": "&&", "lor": "||"}

func xs(es []*Expr, f func(*Expr) string) string {
	ss := make([]string, len(es))
	for i, e := range es {
		ss[i] = f(e)
	}
	return strings.Join(ss, ", ")
}

// CallCode is the text the compiler records in an error frame for the wrapped call
// (printer.Fprint of v.X); arguments of wrapped calls are kept to atoms and probe calls so that
// gofmt spacing rules cannot differ.
func (e *Expr) CallCode() string {
	if e.XSrc != "" {
		return e.XSrc
	}
	if e.Cmd {
		return e.S + " " + xs(e.Args, (*Expr).XGo)
	}
	return e.S + "(" + xs(e.Args, (*Expr).XGo) + ")"
}

// MinParens selects the surface syntax of the XGo writer: false = every binary expression and
// every `?:` default parenthesised; true = only the parentheses the documented precedence needs
// (|| < && < comparison < + - < * % < unary and `x?:d` < postfix `x!` `x?` calls index; the
// default of `?:` is a unary expression).  Set per scenario by the runner.
var MinParens bool

func (e *Expr) prec() int {
	switch e.K {
	case "bin":
		switch e.S {
		case "lor":
			return 1
		case "land":
			return 2
		case "eq", "ne", "lt", "le", "gt", "ge":
			return 3
		case "add", "sub":
			return 4
		}
		return 5
	case "not", "neg", "errDflt":
		return 6
	case "int":
		if e.N < 0 {
			return 6
		}
	}
	return 7
}

// px prints e as an operand that must bind at least as tightly as need.
func (e *Expr) px(need int) string {
	if e.prec() < need {
		return "(" + e.XGo() + ")"
	}
	return e.XGo()
}

func (e *Expr) srcName() string {
	if e.XS != "" {
		return e.XS
	}
	return e.S
}

func (e *Expr) XGo() string {
	switch e.K {
	case "int":
		return fmt.Sprint(e.N)
	case "bool":
		return fmt.Sprint(e.B)
	case "str":
		return `"` + e.S + `"`
	case "errlit":
		return `errors.New("` + e.S + `")`
	case "nil":
		return "nil"
	case "zero":
		return e.T.Zero()
	case "var":
		return e.S
	case "bin":
		if MinParens {
			p := e.prec()
			return e.Args[0].px(p) + " " + goOps[e.S] + " " + e.Args[1].px(p+1)
		}
		return "(" + e.Args[0].XGo() + " " + goOps[e.S] + " " + e.Args[1].XGo() + ")"
	case "not":
		if MinParens {
			return "!" + e.Args[0].px(6)
		}
		return "!" + e.Args[0].XGo()
	case "neg":
		if MinParens {
			if e.Args[0].K == "neg" || (e.Args[0].K == "int" && e.Args[0].N < 0) {
				return "-(" + e.Args[0].XGo() + ")" // `--x` is the decrement token
			}
			return "-" + e.Args[0].px(6)
		}
		return "-(" + e.Args[0].XGo() + ")"
	case "conv":
		return e.XSrc + "(" + e.Args[0].XGo() + ")"
	case "rangeE":
		return e.Args[0].px(7) + ":" + e.Args[1].px(7) + ":" + e.Args[2].px(7)
	case "sliceLit":
		return "[" + xs(e.Args, (*Expr).XGo) + "]"
	case "xmapLit":
		ss := make([]string, len(e.KVs))
		for i, kv := range e.KVs {
			ss[i] = kv[0].XGo() + ": " + kv[1].XGo()
		}
		return "{" + strings.Join(ss, ", ") + "}"
	case "index":
		return e.Args[0].px(7) + "[" + e.Args[1].XGo() + "]"
	case "len":
		return "len(" + e.Args[0].XGo() + ")"
	case "call":
		return e.srcName() + "(" + xs(e.Args, (*Expr).XGo) + ")"
	case "cmdCall":
		return e.srcName() + " " + xs(e.Args, (*Expr).XGo)
	case "probe":
		return fmt.Sprintf("probe(%d, %s)", e.N, e.Args[0].XGo())
	case "listCompr":
		return "[" + e.Args[0].XGo() + phrasesXGo(e.Fors) + "]"
	case "mapCompr":
		return "{" + e.Args[0].XGo() + ": " + e.Args[1].XGo() + phrasesXGo(e.Fors) + "}"
	case "selCompr":
		return "{" + e.Args[0].XGo() + phrasesXGo(e.Fors) + "}"
	case "existsCompr":
		return "{" + strings.TrimPrefix(phrasesXGo(e.Fors), " ") + "}"
	case "errBang":
		if e.Cmd {
			return e.S + "! " + xs(e.Args, (*Expr).XGo)
		}
		return e.CallCode() + "!"
	case "errQ":
		if e.Cmd {
			return e.S + "? " + xs(e.Args, (*Expr).XGo)
		}
		return e.CallCode() + "?"
	case "errDflt":
		if MinParens {
			return e.CallCode() + "?:" + e.D.px(6)
		}
		return e.CallCode() + "?:(" + e.D.XGo() + ")"
	}
	panic("XGo: bad expr kind " + e.K)
}

func phrasesXGo(ps []*Phrase) string {
	var b strings.Builder
	for _, p := range ps {
		b.WriteString(" for ")
		if p.Key != "" {
			b.WriteString(p.Key + ", ")
		}
		b.WriteString(p.Val + " <- " + p.X.XGo())
		switch p.FK {
		case "cond":
			b.WriteString(" if " + p.C.XGo())
		case "init":
			b.WriteString(" if " + p.IX + " := " + p.I.XGo() + "; " + p.C.XGo())
		}
	}
	return b.String()
}

func blockXGo(ss []*Stmt, ind string) string {
	var b strings.Builder
	for _, s := range ss {
		b.WriteString(s.XGo(ind))
	}
	return b.String()
}

func (s *Stmt) XGo(ind string) string {
	switch s.K {
	case "define":
		return ind + strings.Join(s.Xs, ", ") + " := " + xs(s.Es, (*Expr).XGo) + "\n"
	case "assign":
		return ind + strings.Join(s.Xs, ", ") + " = " + xs(s.Es, (*Expr).XGo) + "\n"
	case "setIndex":
		return ind + s.M + "[" + s.Es[0].XGo() + "] = " + s.Es[1].XGo() + "\n"
	case "varDecl":
		if s.XT != "" {
			return ind + "var " + s.M + " " + s.XT + "\n"
		}
		return ind + "var " + s.M + " " + s.T.Go() + "\n"
	case "expr":
		return ind + s.Es[0].XGo() + "\n"
	case "if":
		r := ind + "if " + s.C.XGo() + " {\n" + blockXGo(s.Body, ind+"\t") + ind + "}"
		if len(s.Else) > 0 {
			r += " else {\n" + blockXGo(s.Else, ind+"\t") + ind + "}"
		}
		return r + "\n"
	case "forRange":
		return ind + "for " + rangeVars(s.Key, s.Val) + "range " + s.X.XGo() + " {\n" + blockXGo(s.Body, ind+"\t") + ind + "}\n"
	case "ret":
		if len(s.Es) == 0 {
			return ind + "return\n"
		}
		return ind + "return " + xs(s.Es, (*Expr).XGo) + "\n"
	case "panic":
		return ind + "panic(" + s.Es[0].XGo() + ")\n"
	case "block":
		return ind + "{\n" + blockXGo(s.Body, ind+"\t") + ind + "}\n"
	case "send":
		sp := ""
		if s.Spread {
			sp = "..."
		}
		return ind + s.M + " <- " + xs(s.Es, (*Expr).XGo) + sp + "\n"
	case "forIn":
		h := ind + "for "
		if s.Key != "" {
			h += s.Key + ", "
		}
		h += s.Val + " <- " + s.X.XGo()
		if s.FK == "cond" {
			h += " if " + s.C.XGo()
		}
		return h + " {\n" + blockXGo(s.Body, ind+"\t") + ind + "}\n"
	}
	panic("XGo: bad stmt kind " + s.K)
}

func rangeVars(k, v string) string {
	switch {
	case k != "" && v != "":
		return k + ", " + v + " := "
	case k != "":
		return k + " := "
	case v != "":
		return "_, " + v + " := "
	}
	return ""
}

func sig(f *Func, name string) string {
	ps := make([]string, len(f.Params))
	for i, p := range f.Params {
		ps[i] = p.Name + " " + p.T.Go()
	}
	r := ""
	if len(f.Results) > 0 {
		rs := make([]string, len(f.Results))
		for i, p := range f.Results {
			if p.Name != "" {
				rs[i] = p.Name + " " + p.T.Go()
			} else {
				rs[i] = p.T.Go()
			}
		}
		r = " (" + strings.Join(rs, ", ") + ")"
	}
	return "func " + name + "(" + strings.Join(ps, ", ") + ")" + r
}

func (f *Func) XGo() string { return sig(f, f.Name) + " {\n" + blockXGo(f.Body, "\t") + "}\n\n" }

// ---- s-expression ----

func hx(s string) string {
	if s == "" {
		return "$-"
	}
	return "$" + hex.EncodeToString([]byte(s))
}

func ss(es []*Expr) string {
	var b strings.Builder
	for _, e := range es {
		b.WriteString(" " + e.SExp())
	}
	return b.String()
}

func tys(ts []*Ty) string {
	var b strings.Builder
	b.WriteString("(tys")
	for _, t := range ts {
		b.WriteString(" " + t.S())
	}
	return b.String() + ")"
}

func (e *Expr) SExp() string {
	switch e.K {
	case "int":
		return fmt.Sprintf("(lit (i %d))", e.N)
	case "bool":
		return fmt.Sprintf("(lit (b %v))", e.B)
	case "str":
		return "(lit (s " + hx(e.S) + "))"
	case "errlit":
		return "(lit (e " + hx(e.S) + "))"
	case "nil":
		return "(lit nil)"
	case "zero":
		return "(zero " + e.T.S() + ")"
	case "var":
		return "(var " + e.S + ")"
	case "bin":
		return "(bin " + e.S + ss(e.Args) + ")"
	case "not":
		return "(not" + ss(e.Args) + ")"
	case "conv":
		return e.Args[0].SExp()
	case "rangeE":
		return "(call " + e.S + ss(e.Args) + ")"
	case "neg": // the model has no unary minus: -x is 0 - x
		return "(bin sub (lit (i 0))" + ss(e.Args) + ")"
	case "sliceLit":
		return "(sliceLit " + e.T.S() + ss(e.Args) + ")"
	case "xmapLit":
		r := "(xmapLit " + e.T.S() + " " + e.T2.S()
		for _, kv := range e.KVs {
			r += " (kv " + kv[0].SExp() + " " + kv[1].SExp() + ")"
		}
		return r + ")"
	case "index":
		return "(index " + e.T.S() + ss(e.Args) + ")"
	case "len":
		return "(len" + ss(e.Args) + ")"
	case "call":
		return "(call " + e.S + ss(e.Args) + ")"
	case "cmdCall":
		return "(cmdCall " + e.S + ss(e.Args) + ")"
	case "probe":
		return fmt.Sprintf("(probe %d%s)", e.N, ss(e.Args))
	case "listCompr":
		return "(listCompr " + e.T.S() + ss(e.Args) + phs(e.Fors) + ")"
	case "mapCompr":
		return "(mapCompr " + e.T.S() + " " + e.T2.S() + ss(e.Args) + phs(e.Fors) + ")"
	case "selCompr":
		two := "0"
		if e.Two {
			two = "1"
		}
		return "(selCompr " + e.T.S() + " " + two + ss(e.Args) + phs(e.Fors) + ")"
	case "existsCompr":
		return "(existsCompr" + phs(e.Fors) + ")"
	case "errBang":
		return "(errBang " + hx(e.CallCode()) + " " + e.S + " " + tys(e.Tys) + ss(e.Args) + ")"
	case "errQ":
		return "(errQ " + hx(e.CallCode()) + " " + e.S + " " + tys(e.Tys) + ss(e.Args) + ")"
	case "errDflt":
		return "(errDflt " + e.S + " " + e.T.S() + " " + e.D.SExp() + ss(e.Args) + ")"
	}
	panic("SExp: bad expr kind " + e.K)
}

func filt(fk, ix string, i, c *Expr) string {
	switch fk {
	case "cond":
		return "(cond " + c.SExp() + ")"
	case "init":
		return "(init " + ix + " " + i.SExp() + " " + c.SExp() + ")"
	}
	return "nof"
}

func dash(s string) string {
	if s == "" {
		return "-"
	}
	return s
}

func phs(ps []*Phrase) string {
	var b strings.Builder
	for _, p := range ps {
		b.WriteString(" (ph " + dash(p.Key) + " " + p.Val + " " + p.X.SExp() + " " + filt(p.FK, p.IX, p.I, p.C) + ")")
	}
	return b.String()
}

func stmts(sl []*Stmt) string {
	var b strings.Builder
	for i, s := range sl {
		if i > 0 {
			b.WriteString(" ")
		}
		b.WriteString(s.SExp())
	}
	return b.String()
}

func (s *Stmt) SExp() string {
	sp := "0"
	if s.Spread {
		sp = "1"
	}
	switch s.K {
	case "define":
		return "(define (" + strings.Join(s.Xs, " ") + ")" + ss(s.Es) + ")"
	case "assign":
		return "(assign (" + strings.Join(s.Xs, " ") + ")" + ss(s.Es) + ")"
	case "setIndex":
		return "(setIndex " + s.M + ss(s.Es) + ")"
	case "varDecl":
		return "(varDecl " + s.M + " " + s.T.S() + ")"
	case "expr":
		return "(expr" + ss(s.Es) + ")"
	case "if":
		return "(if " + filt(s.FK, s.IX, s.I, s.C) + " (" + stmts(s.Body) + ") (" + stmts(s.Else) + "))"
	case "forRange":
		return "(forRange " + dash(s.Key) + " " + dash(s.Val) + " " + s.X.SExp() + " " + stmts(s.Body) + ")"
	case "ret":
		return "(ret" + ss(s.Es) + ")"
	case "panic":
		return "(panic" + ss(s.Es) + ")"
	case "block":
		return "(block " + stmts(s.Body) + ")"
	case "send":
		return "(send " + s.M + " " + sp + ss(s.Es) + ")"
	case "forIn":
		return "(forIn " + dash(s.Key) + " " + s.Val + " " + s.X.SExp() + " " + filt(s.FK, s.IX, s.I, s.C) + " " + stmts(s.Body) + ")"
	}
	panic("SExp: bad stmt kind " + s.K)
}

func params(ps []Param) string {
	var b strings.Builder
	for i, p := range ps {
		if i > 0 {
			b.WriteString(" ")
		}
		b.WriteString("(" + dash(p.Name) + " " + p.T.S() + ")")
	}
	return b.String()
}

func (f *Func) SExp() string {
	return "(func " + f.Name + " (" + params(f.Params) + ") (" + params(f.Results) + ") " + stmts(f.Body) + ")"
}

func (p *Prog) SExp() string {
	var b strings.Builder
	b.WriteString("(prog " + p.Entry)
	for _, f := range p.Funcs {
		b.WriteString(" " + f.SExp())
	}
	return b.String() + ")"
}
