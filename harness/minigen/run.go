package minigen

import (
	"bytes"
	"context"
	"fmt"
	"os"
	"os/exec"
	"path/filepath"
	"strings"
	"time"

	"verifharness/xrun"
)

// HelpersGo is the plain-Go part of every generated package: the probe function (one stdout line
// per event), the canonical value rendering `sv` (the Lean side prints the same: Model/MiniPrint.lean
// `showVal`) and the runner that isolates each scenario function with recover.
const HelpersGo = `package main

import (
	"errors"
	"fmt"
	"os"
	"runtime"
	"strings"

	errors1 "github.com/qiniu/x/errors"
)

var _ = errors.New
var _ = errors1.NewFrame

func sv(v any) string {
	switch x := v.(type) {
	case nil:
		return "<nil>"
	case *errors1.Frame:
		return "F(" + sv(x.Err) + "|" + x.Code + "|" + x.Func + ")"
	case runtime.Error:
		m := x.Error()
		switch {
		case strings.Contains(m, "index out of range"):
			return "RT(index)"
		case strings.Contains(m, "divide by zero"):
			return "RT(divide)"
		case strings.Contains(m, "nil map"):
			return "RT(nilmap)"
		}
		return "RT(" + m + ")"
	case error:
		return "E(" + x.Error() + ")"
	}
	return fmt.Sprint(v)
}

func probe[T any](id int, v T) T {
	fmt.Println("P", id, sv(any(v)))
	return v
}

func runScenario(tag, name string, f func()) {
	fmt.Println("#", tag, name)
	defer func() {
		if r := recover(); r != nil {
			fmt.Println("!PANIC", sv(r))
		}
		fmt.Println("#END")
	}()
	f()
}

// The XGo compiler adds its own (empty) main to the package; the runner lives in init.
func init() {
	for _, s := range scenarioTable {
		runScenario("X", s.name, s.x)
		runScenario("G", s.name, s.g)
	}
	os.Stdout.Sync()
	os.Exit(0)
}
`

// Built is the result of compiling, building and running a batch of scenarios.
type Built struct {
	CompileErr map[string]string // scenario name → XGo compiler error (scenario dropped from the binary)
	BuildErr   string            // go build failed for the whole package (not attributable)
	GoErr      map[string]string // scenario name → go build error in the compiler's output for it (dropped)
	X, G       map[string]string // canonical outcome per scenario: compiler output / documented expansion
	GoText     string            // what the real compiler emitted (for the structural tie)
	Timeout    bool
}

func xgoSource(scs []*Scenario) string {
	var b strings.Builder
	b.WriteString("import \"errors\"\n\nvar _ = errors.New\n\n")
	for _, sc := range scs {
		MinParens = sc.MinParens
		for _, f := range sc.Prog.Funcs {
			b.WriteString(f.XGo())
		}
		MinParens = false
		b.WriteString(sc.XGoExtra)
	}
	return b.String()
}

func expandSource(scs []*Scenario) string {
	var b strings.Builder
	b.WriteString("package main\n\nimport (\n\t\"errors\"\n\n\terrors1 \"github.com/qiniu/x/errors\"\n)\n\nvar _ = errors.New\nvar _ = errors1.NewFrame\n\n")
	n := 0
	for _, sc := range scs {
		b.WriteString(GoExpansion(sc.Prog.Funcs, &n))
	}
	b.WriteString("var scenarioTable = []struct {\n\tname string\n\tx, g func()\n}{\n")
	for _, sc := range scs {
		fmt.Fprintf(&b, "\t{%q, %s, G_%s},\n", sc.Name, sc.Prog.Entry, sc.Prog.Entry)
	}
	b.WriteString("}\n")
	return b.String()
}

func compile(scs []*Scenario) ([]byte, error) {
	// the compiler only needs the signature of the plain-Go helper the XGo file calls
	return xrun.CompileDir(map[string]string{
		"main.xgo":   xgoSource(scs),
		"helpers.go": "package main\n\nfunc probe[T any](id int, v T) T { return v }\n",
	}, false)
}

// BuildAndRun compiles all scenarios as ONE package with the real XGo compiler (scenarios the
// compiler rejects are attributed one by one and dropped), adds the plain-Go files, builds once
// and runs once.
func BuildAndRun(dir string, scs []*Scenario, timeout time.Duration) (*Built, error) {
	res := &Built{CompileErr: map[string]string{}, GoErr: map[string]string{}, X: map[string]string{}, G: map[string]string{}}
	return buildAndRun(dir, scs, timeout, res, true)
}

func buildAndRun(dir string, scs []*Scenario, timeout time.Duration, res *Built, retry bool) (*Built, error) {
	out, err := compile(scs)
	live := scs
	if err != nil {
		live = nil
		for _, sc := range scs {
			if _, e := compile([]*Scenario{sc}); e != nil {
				res.CompileErr[sc.Name] = firstLine(e.Error())
			} else {
				live = append(live, sc)
			}
		}
		if len(live) == 0 {
			return res, nil
		}
		if out, err = compile(live); err != nil {
			return nil, fmt.Errorf("package of individually accepted scenarios rejected: %v", err)
		}
	}
	res.GoText = string(out)
	os.RemoveAll(dir)
	if err := os.MkdirAll(dir, 0o755); err != nil {
		return nil, err
	}
	gomod := fmt.Sprintf("module verifprog\n\ngo 1.18\n\nrequire github.com/goplus/xgo v0.0.0\n\nreplace github.com/goplus/xgo => %s\n", xrun.Repo())
	sum, _ := os.ReadFile(filepath.Join(xrun.Repo(), "go.sum"))
	files := map[string]string{"go.mod": gomod, "go.sum": string(sum), "xgo_autogen.go": string(out),
		"helpers.go": HelpersGo, "expand.go": expandSource(live), "main.xgo.txt": xgoSource(live)}
	for n, c := range files {
		if err := os.WriteFile(filepath.Join(dir, n), []byte(c), 0o644); err != nil {
			return nil, err
		}
	}
	env := append(os.Environ(), "GOFLAGS=-mod=mod", "GOPROXY=off", "GOSUMDB=off", "GOTOOLCHAIN=local", "CGO_ENABLED=0")
	cmd := exec.Command("go", "build", "-o", "prog", ".")
	cmd.Dir, cmd.Env = dir, env
	if o, err := cmd.CombinedOutput(); err != nil {
		msg := strings.TrimSpace(string(o))
		// attribute errors in the compiler's output to scenarios (by enclosing function), drop them, retry once
		bad := offenders(string(out), msg, live)
		if retry && len(bad) > 0 && len(bad) < len(live) {
			var rest []*Scenario
			for _, sc := range live {
				if m, ok := bad[sc.Name]; ok {
					res.GoErr[sc.Name] = m
				} else {
					rest = append(rest, sc)
				}
			}
			return buildAndRun(dir, rest, timeout, res, false)
		}
		if len(bad) == len(live) && len(bad) > 0 && len(live) == 1 {
			res.GoErr[live[0].Name] = bad[live[0].Name]
			return res, nil
		}
		res.BuildErr = msg
		return res, nil
	}
	ctx, cancel := context.WithTimeout(context.Background(), timeout)
	defer cancel()
	run := exec.CommandContext(ctx, filepath.Join(dir, "prog"))
	var so bytes.Buffer
	run.Stdout = &so
	run.Env = append(os.Environ(), "GOTRACEBACK=single", "GOMEMLIMIT=512MiB")
	runErr := run.Run()
	if ctx.Err() == context.DeadlineExceeded {
		res.Timeout = true
	}
	parseOutput(so.String(), res)
	if runErr != nil && !res.Timeout && len(res.X) < len(live) {
		return res, fmt.Errorf("generated program died: %v", runErr)
	}
	return res, nil
}

// offenders maps scenario names to the first go build error reported inside one of their
// functions in xgo_autogen.go.
func offenders(goText, msg string, scs []*Scenario) map[string]string {
	lines := strings.Split(goText, "\n")
	owner := map[string]string{}
	for _, sc := range scs {
		for _, f := range sc.Prog.Funcs {
			owner[f.Name] = sc.Name
		}
	}
	bad := map[string]string{}
	for _, ln := range strings.Split(msg, "\n") {
		ln = strings.TrimSpace(ln)
		if !strings.HasPrefix(ln, "./xgo_autogen.go:") {
			continue
		}
		var n int
		fmt.Sscanf(strings.TrimPrefix(ln, "./xgo_autogen.go:"), "%d", &n)
		for i := n - 1; i >= 0 && i < len(lines); i-- {
			if strings.HasPrefix(lines[i], "func ") {
				name := strings.TrimPrefix(lines[i], "func ")
				if j := strings.IndexByte(name, '('); j >= 0 {
					name = name[:j]
				}
				if sc, ok := owner[name]; ok {
					if _, seen := bad[sc]; !seen {
						bad[sc] = ln
					}
				}
				break
			}
		}
	}
	return bad
}

// ImporterDir creates a scratch module requiring the tree under test and makes it the working
// directory (xrun's importer resolves imports with `go list` relative to the working directory).
func ImporterDir(dir string) error {
	if err := os.MkdirAll(dir, 0o755); err != nil {
		return err
	}
	gomod := fmt.Sprintf("module verifimp\n\ngo 1.18\n\nrequire github.com/goplus/xgo v0.0.0\n\nreplace github.com/goplus/xgo => %s\n", xrun.Repo())
	sum, _ := os.ReadFile(filepath.Join(xrun.Repo(), "go.sum"))
	if err := os.WriteFile(filepath.Join(dir, "go.mod"), []byte(gomod), 0o644); err != nil {
		return err
	}
	os.WriteFile(filepath.Join(dir, "go.sum"), sum, 0o644)
	os.WriteFile(filepath.Join(dir, "imp.go"), []byte("package verifimp\n\nimport _ \"github.com/qiniu/x/errors\"\n"), 0o644)
	return os.Chdir(dir)
}

func firstLine(s string) string {
	if i := strings.IndexByte(s, '\n'); i >= 0 {
		return s[:i]
	}
	return s
}

// parseOutput turns the runner's stdout into the canonical outcome strings
// `id:val|id:val;done` / `…;panic:val` (the format of the Lean driver's showOutcome).
func parseOutput(s string, res *Built) {
	var tag, name string
	var evs []string
	end := "done"
	for _, ln := range strings.Split(s, "\n") {
		switch {
		case strings.HasPrefix(ln, "# "):
			f := strings.SplitN(ln, " ", 3)
			if len(f) == 3 {
				tag, name, evs, end = f[1], f[2], nil, "done"
			}
		case strings.HasPrefix(ln, "P "):
			f := strings.SplitN(ln, " ", 3)
			if len(f) == 3 {
				evs = append(evs, f[1]+":"+f[2])
			} else if len(f) == 2 {
				evs = append(evs, f[1]+":")
			}
		case strings.HasPrefix(ln, "!PANIC "):
			end = "panic:" + strings.TrimPrefix(ln, "!PANIC ")
		case ln == "#END":
			o := strings.Join(evs, "|") + ";" + end
			if tag == "X" {
				res.X[name] = o
			} else if tag == "G" {
				res.G[name] = o
			}
		}
	}
}
