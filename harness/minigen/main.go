package minigen

import (
	"fmt"
	"os"
	"path/filepath"
	"strconv"
	"strings"
	"time"

	"verifharness/vh"
)

// Main is the shared body of harness/cmd/c02 and harness/cmd/c03.
func Main(prop string, gen func(r *vh.Rand, i int) *Scenario, probes func() []*Scenario, fixed func() []*Scenario) {
	f := vh.ParseFlags()
	if abs, err := filepath.Abs(f.Out); err == nil {
		f.Out = abs
	}
	o := vh.NewOut(f.Out)
	defer o.Close()
	work := filepath.Join(f.Out, "build")
	// The compiler's importer runs `go list` in the current directory: give it a module that
	// requires the tree under test (so that github.com/qiniu/x/errors resolves offline).
	if err := ImporterDir(filepath.Join(f.Out, "imp")); err != nil {
		fmt.Fprintln(os.Stderr, "harness:", err)
		os.Exit(3)
	}
	var scs []*Scenario
	ident := map[string]string{}
	if f.Replay != "" {
		// replay: the last field of the case line is <seed>:<index> (or probe:<name>)
		fs := strings.Fields(f.Replay) // recorded case lines have their tabs replaced by blanks
		id := fs[len(fs)-1]
		if strings.HasPrefix(id, "fixed:") && fixed != nil {
			for _, p := range fixed() {
				if p.Name == strings.TrimPrefix(id, "fixed:") {
					scs = append(scs, p)
					ident[p.Name] = id
				}
			}
		} else if strings.HasPrefix(id, "probe:") {
			for _, p := range probes() {
				if p.Name == strings.TrimPrefix(id, "probe:") {
					runProbes(o, work, []*Scenario{p})
				}
			}
			return
		}
		if len(scs) == 0 {
			parts := strings.SplitN(id, ":", 2)
			if len(parts) != 2 {
				fmt.Fprintln(os.Stderr, "replay: case line carries no <seed>:<index>")
				os.Exit(2)
			}
			seed, _ := strconv.ParseUint(parts[0], 10, 64)
			idx, _ := strconv.Atoi(parts[1])
			sc := gen(vh.NewRand(seed).Fork(idx), idx)
			scs = append(scs, sc)
			ident[sc.Name] = id
		}
	} else {
		if fixed != nil { // regression inputs first (corpus/<prop>/)
			for _, p := range fixed() {
				scs = append(scs, p)
				ident[p.Name] = "fixed:" + p.Name
			}
			if d := os.Getenv("VERIF_DUMP_CORPUS"); d != "" {
				for _, p := range fixed() {
					os.WriteFile(filepath.Join(d, p.Name+".xgo"), []byte("// "+p.Note+" (scenario fixed:"+p.Name+" of harness/cmd/"+prop+")\n"+xgoSource([]*Scenario{p})), 0o644)
				}
			}
		}
		r := vh.NewRand(f.Seed)
		for i := 0; i < f.N; i++ {
			sc := gen(r.Fork(i), i)
			scs = append(scs, sc)
			ident[sc.Name] = fmt.Sprintf("%d:%d", f.Seed, i)
		}
	}
	if probes != nil && f.Replay == "" {
		// the accept/reject probes ride in the first batch (BuildAndRun attributes rejections)
		ps := probes()
		for _, p := range ps {
			p.Probe = true
			ident[p.Name] = "probe:" + p.Name
		}
		scs = append(ps, scs...)
	}
	const batch = 150
	for b := 0; b < len(scs); b += batch {
		e := b + batch
		if e > len(scs) {
			e = len(scs)
		}
		runBatch(o, work, scs[b:e], ident)
	}
	os.RemoveAll(work)
	os.RemoveAll(filepath.Join(f.Out, "imp"))
}

func runBatch(o *vh.Out, work string, scs []*Scenario, ident map[string]string) {
	res, err := BuildAndRun(work, scs, 60*time.Second)
	if err != nil {
		fmt.Fprintln(os.Stderr, "harness:", err)
		os.Exit(3)
	}
	if res.BuildErr != "" {
		fmt.Fprintln(os.Stderr, "go build of the generated package failed:\n"+res.BuildErr)
	}
	norm := NormalizeGo(res.GoText)
	for _, sc := range scs {
		if sc.Probe {
			probeCase(o, res, nil, sc)
			continue
		}
		op := "mini"
		if sc.NoOracle {
			op = "minilow" // outside the property's reading: the model of the lowering only
		}
		line := op + "\t" + sc.Prog.SExp() + "\t" + ident[sc.Name]
		impl, ok := res.X[sc.Name]
		switch {
		case res.CompileErr[sc.Name] != "":
			impl = "COMPILE-ERROR " + res.CompileErr[sc.Name]
			o.Oracle(sc.Kind+"-rejected-by-compiler", line, impl)
		case res.GoErr[sc.Name] != "":
			impl = "GO-BUILD-ERROR " + res.GoErr[sc.Name]
			o.Oracle(sc.Kind+"-output-is-not-valid-go", line, impl)
		case res.BuildErr != "":
			impl = "GO-BUILD-ERROR " + firstLine(res.BuildErr)
		case !ok:
			impl = "NO-OUTPUT"
		default:
			if g, okg := res.G[sc.Name]; !sc.NoOracle && (!okg || g != impl) {
				o.Oracle(sc.Kind+"-differs-from-documented-expansion", line, "compiled="+impl+" expansion="+g)
			}
		}
		o.Count("kind_" + sc.Kind)
		if sc.Note != "" {
			o.Count("note_" + strings.Fields(sc.Note)[0])
		}
		if strings.Contains(impl, ";panic:") {
			o.Count("outcome_panic")
		} else {
			o.Count("outcome_done")
		}
		o.Count(fmt.Sprintf("events_%s", bucket(strings.Count(impl, "|")+1)))
		o.Case(line, impl, strings.Count(impl, "|") >= 2)
		if res.CompileErr[sc.Name] == "" && res.BuildErr == "" && res.GoErr[sc.Name] == "" && !sc.NoStruct {
			// structural tie: what the compiler emitted for this scenario's functions
			var names []string
			for _, fn := range sc.Prog.Funcs {
				names = append(names, fn.Name)
			}
			o.Case("minigo\t"+sc.Prog.SExp()+"\t"+ident[sc.Name], norm.Funcs(names), false)
		}
	}
}

// runProbes: each probe is first compiled on its own (cheap); the accepted ones are built and
// run together (BuildAndRun attributes go build errors to single scenarios and retries once).
func runProbes(o *vh.Out, work string, ps []*Scenario) {
	res, err := BuildAndRun(work, ps, 30*time.Second)
	for _, p := range ps {
		probeCase(o, res, err, p)
	}
}

func probeCase(o *vh.Out, res *Built, err error, p *Scenario) {
	{
		line := "minic\t" + p.Prog.SExp() + "\tprobe:" + p.Name
		impl := "accept"
		switch {
		case err != nil:
			impl = "HARNESS-ERROR " + err.Error()
		case res.CompileErr[p.Name] != "":
			impl = "reject"
			o.Oracle(p.Note+"-rejected-by-compiler", line, res.CompileErr[p.Name])
		case res.GoErr[p.Name] != "":
			impl = "reject"
			o.Oracle(p.Note+"-output-is-not-valid-go", line, res.GoErr[p.Name])
		case res.BuildErr != "":
			impl = "HARNESS-ERROR " + lastLine(res.BuildErr)
		default:
			if res.X[p.Name] != res.G[p.Name] || res.X[p.Name] == "" {
				o.Oracle(p.Note+"-differs-from-documented-expansion", line, "compiled="+res.X[p.Name]+" expansion="+res.G[p.Name])
			}
		}
		o.Count("probe_" + strings.Fields(impl)[0])
		o.Case(line, impl, true)
	}
}

func lastLine(s string) string {
	ls := strings.Split(strings.TrimSpace(s), "\n")
	return ls[len(ls)-1]
}

func bucket(n int) string {
	switch {
	case n <= 2:
		return "00-02"
	case n <= 8:
		return "03-08"
	case n <= 20:
		return "09-20"
	}
	return "21+"
}
