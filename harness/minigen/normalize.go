package minigen

import (
	"fmt"
	"go/ast"
	"go/parser"
	"go/token"
	"sort"
	"strconv"
	"strings"
)

// Structural tie.  The Go text the real compiler emitted is parsed with go/parser and re-printed in
// the canonical form of lean/GopModel/Model/MiniPrint.lean (`printProg`): binary expressions fully
// parenthesised (source parentheses dropped), one statement per line, no indentation.  Differences
// the model deliberately abstracts from are normalised here and nowhere else:
//   - `errors.NewFrame(e, code, FILE, LINE, fn)`: file and line become "FILE", 0;
//   - gogen's `goto _autoGo_n` followed by the label `_autoGo_n:` (end of an inlined `?` block) is dropped;
//   - `_autoGo_n` numbers are per package in gogen and per program in the model: within the
//     functions of one scenario they are shifted so that the smallest is 1.
//
// Anything outside the MiniGo subset prints as `/*?<node type>*/` and breaks the comparison.
type Normalized struct {
	funcs map[string]*ast.FuncDecl
	err   string
}

func NormalizeGo(src string) *Normalized {
	n := &Normalized{funcs: map[string]*ast.FuncDecl{}}
	if src == "" {
		n.err = "no compiler output"
		return n
	}
	f, err := parser.ParseFile(token.NewFileSet(), "xgo_autogen.go", src, 0)
	if err != nil {
		n.err = "compiler output does not parse: " + err.Error()
		return n
	}
	for _, d := range f.Decls {
		if fd, ok := d.(*ast.FuncDecl); ok {
			n.funcs[fd.Name.Name] = fd
		}
	}
	return n
}

// Funcs prints the named functions (in the given order), newlines escaped as the driver does.
func (n *Normalized) Funcs(names []string) string {
	if n.err != "" {
		return "NORMALIZE-ERROR " + n.err
	}
	// collect the _autoGo numbers used by this scenario
	min := 0
	for _, name := range names {
		fd := n.funcs[name]
		if fd == nil {
			return "NORMALIZE-ERROR function " + name + " missing from the compiler output"
		}
		ast.Inspect(fd, func(x ast.Node) bool {
			if id, ok := x.(*ast.Ident); ok && strings.HasPrefix(id.Name, "_autoGo_") {
				if k, err := strconv.Atoi(strings.TrimPrefix(id.Name, "_autoGo_")); err == nil && (min == 0 || k < min) {
					min = k
				}
			}
			return true
		})
	}
	p := &cprinter{shift: 0}
	if min > 0 {
		p.shift = min - 1
	}
	var b strings.Builder
	for _, name := range names {
		b.WriteString(p.funcDecl(n.funcs[name]))
	}
	return strings.ReplaceAll(b.String(), "\n", "\\n")
}

type cprinter struct{ shift int }

func (p *cprinter) ident(s string) string {
	if strings.HasPrefix(s, "_autoGo_") {
		if k, err := strconv.Atoi(strings.TrimPrefix(s, "_autoGo_")); err == nil {
			return "_autoGo_" + strconv.Itoa(k-p.shift)
		}
	}
	return s
}

func (p *cprinter) typ(e ast.Expr) string {
	switch t := e.(type) {
	case *ast.Ident:
		return t.Name
	case *ast.ArrayType:
		if t.Len == nil {
			return "[]" + p.typ(t.Elt)
		}
	case *ast.MapType:
		return "map[" + p.typ(t.Key) + "]" + p.typ(t.Value)
	}
	return fmt.Sprintf("/*?type %T*/", e)
}

func (p *cprinter) fields(fl *ast.FieldList) []string {
	var out []string
	if fl == nil {
		return nil
	}
	for _, f := range fl.List {
		if len(f.Names) == 0 {
			out = append(out, p.typ(f.Type))
		}
		for _, nm := range f.Names {
			out = append(out, nm.Name+" "+p.typ(f.Type))
		}
	}
	return out
}

func results(rs []string) string {
	if len(rs) == 0 {
		return ""
	}
	return " (" + strings.Join(rs, ", ") + ")"
}

func (p *cprinter) funcDecl(fd *ast.FuncDecl) string {
	return "func " + fd.Name.Name + "(" + strings.Join(p.fields(fd.Type.Params), ", ") + ")" +
		results(p.fields(fd.Type.Results)) + " {\n" + p.stmts(fd.Body.List) + "}\n"
}

func (p *cprinter) exprs(es []ast.Expr) []string {
	out := make([]string, len(es))
	for i, e := range es {
		out[i] = p.expr(e)
	}
	return out
}

func (p *cprinter) expr(e ast.Expr) string {
	switch x := e.(type) {
	case *ast.ParenExpr:
		return p.expr(x.X)
	case *ast.Ident:
		return p.ident(x.Name)
	case *ast.BasicLit:
		return x.Value
	case *ast.BinaryExpr:
		if x.Op == token.NEQ {
			if id, ok := x.Y.(*ast.Ident); ok && id.Name == "nil" {
				return p.expr(x.X) + " != nil"
			}
		}
		return "(" + p.expr(x.X) + " " + x.Op.String() + " " + p.expr(x.Y) + ")"
	case *ast.UnaryExpr:
		if x.Op == token.SUB {
			if bl, ok := x.X.(*ast.BasicLit); ok {
				return "-" + bl.Value
			}
		}
		if x.Op == token.NOT {
			return "!" + p.expr(x.X)
		}
		if x.Op == token.SUB { // the model writes -x as 0 - x
			return "(0 - " + p.expr(x.X) + ")"
		}
	case *ast.CompositeLit:
		var elts []string
		for _, el := range x.Elts {
			if kv, ok := el.(*ast.KeyValueExpr); ok {
				elts = append(elts, p.expr(kv.Key)+": "+p.expr(kv.Value))
			} else {
				elts = append(elts, p.expr(el))
			}
		}
		return p.typ(x.Type) + "{" + strings.Join(elts, ", ") + "}"
	case *ast.IndexExpr:
		return p.expr(x.X) + "[" + p.expr(x.Index) + "]"
	case *ast.SelectorExpr:
		return p.expr(x.X) + "." + x.Sel.Name
	case *ast.CallExpr:
		if fl, ok := x.Fun.(*ast.FuncLit); ok && len(x.Args) == 0 {
			return "func()" + results(p.fields(fl.Type.Results)) + " {\n" + p.stmts(fl.Body.List) + "}()"
		}
		fn := p.expr(x.Fun)
		args := p.exprs(x.Args)
		if strings.HasSuffix(fn, ".NewFrame") && len(args) == 5 {
			fn = "errors1.NewFrame" // the alias depends on what else the file imports
			args[2], args[3] = `"FILE"`, "0"
		}
		ell := ""
		if x.Ellipsis.IsValid() {
			ell = "..."
		}
		return fn + "(" + strings.Join(args, ", ") + ell + ")"
	}
	return fmt.Sprintf("/*?expr %T*/", e)
}

func (p *cprinter) stmts(list []ast.Stmt) string {
	var b strings.Builder
	for i := 0; i < len(list); i++ {
		// drop `goto L` immediately followed by `L:` + empty statement
		if br, ok := list[i].(*ast.BranchStmt); ok && br.Tok == token.GOTO && i+1 < len(list) {
			if ls, ok := list[i+1].(*ast.LabeledStmt); ok && ls.Label.Name == br.Label.Name {
				if _, empty := ls.Stmt.(*ast.EmptyStmt); empty {
					i++
					continue
				}
			}
		}
		b.WriteString(p.stmt(list[i]))
	}
	return b.String()
}

func (p *cprinter) simple(s ast.Stmt) string { return strings.TrimSuffix(p.stmt(s), "\n") }

func (p *cprinter) stmt(s ast.Stmt) string {
	switch x := s.(type) {
	case *ast.AssignStmt:
		if x.Tok == token.DEFINE || x.Tok == token.ASSIGN {
			return strings.Join(p.exprs(x.Lhs), ", ") + " " + x.Tok.String() + " " + strings.Join(p.exprs(x.Rhs), ", ") + "\n"
		}
	case *ast.DeclStmt:
		if gd, ok := x.Decl.(*ast.GenDecl); ok && gd.Tok == token.VAR && len(gd.Specs) == 1 {
			if vs, ok := gd.Specs[0].(*ast.ValueSpec); ok && len(vs.Names) == 1 && len(vs.Values) == 0 && vs.Type != nil {
				return "var " + p.ident(vs.Names[0].Name) + " " + p.typ(vs.Type) + "\n"
			}
		}
	case *ast.ExprStmt:
		return p.expr(x.X) + "\n"
	case *ast.IfStmt:
		h := "if "
		if x.Init != nil {
			h += p.simple(x.Init) + "; "
		}
		r := h + p.expr(x.Cond) + " {\n" + p.stmts(x.Body.List) + "}"
		switch el := x.Else.(type) {
		case nil:
			return r + "\n"
		case *ast.BlockStmt:
			return r + " else {\n" + p.stmts(el.List) + "}\n"
		}
	case *ast.RangeStmt:
		if x.Tok == token.DEFINE {
			h := "for "
			switch {
			case x.Key != nil && x.Value != nil:
				h += p.expr(x.Key) + ", " + p.expr(x.Value) + " := "
			case x.Key != nil:
				h += p.expr(x.Key) + " := "
			}
			return h + "range " + p.expr(x.X) + " {\n" + p.stmts(x.Body.List) + "}\n"
		}
	case *ast.ReturnStmt:
		if len(x.Results) == 0 {
			return "return\n"
		}
		return "return " + strings.Join(p.exprs(x.Results), ", ") + "\n"
	case *ast.BlockStmt:
		return "{\n" + p.stmts(x.List) + "}\n"
	}
	return fmt.Sprintf("/*?stmt %T*/\n", s)
}

// SortedNames is a helper for deterministic iteration.
func SortedNames(m map[string]string) []string {
	ks := make([]string, 0, len(m))
	for k := range m {
		ks = append(ks, k)
	}
	sort.Strings(ks)
	return ks
}
