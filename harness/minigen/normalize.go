package minigen

// NormalizeGo: placeholder until the structural printer is written.
type Normalized struct{ funcs map[string]string }

func NormalizeGo(src string) *Normalized { return &Normalized{} }

func (n *Normalized) Funcs(names []string) string { return "TODO" }
