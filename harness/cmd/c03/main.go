// C03: error-wrapping operators `!`, `?`, `?:` — same scheme as cmd/c02 plus separately compiled
// and built probes for shapes the compiler may reject.
package main

import (
	"verifharness/minigen"
)

func main() {
	minigen.Main("c03", minigen.C03Scenario, minigen.C03CompileProbes, minigen.C03Fixed)
}
