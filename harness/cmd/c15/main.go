// Differential + oracle harness for C15 (scanner/scanner.go: scanning is total and every token
// is the exact source text).  Every source is scanned by the real XGo scanner with comments on
// and off (sometimes also with dontInsertSemis); the same case line goes to the Lean model
// (drv_scan); the statement of C15 is evaluated on the real output (scangen.CheckC15).
package main

import (
	"fmt"
	"os"
	"path/filepath"
	"sort"

	"github.com/goplus/xgo/token"
	"verifharness/scangen"
	"verifharness/vh"
)

var o *vh.Out

func one(src []byte, mode int) {
	res := scangen.RunXGo(src, mode)
	line := scangen.CaseLine("xgo", mode, src)
	for _, v := range scangen.CheckC15(src, res, mode&1 == 1) {
		o.Oracle(v.Key, line, v.Detail)
	}
	for _, t := range res.Toks {
		tok := token.Token(t.Kind)
		switch {
		case tok.IsKeyword():
			o.Count("tok_keyword")
		case tok.IsOperator():
			o.Count("tok_operator")
		default:
			o.Count("tok_" + tok.String())
		}
	}
	for _, e := range res.Errs {
		k := e.Msg
		for i := 0; i < len(k); i++ {
			if k[i] == ':' {
				k = k[:i]
				break
			}
		}
		o.Count("err_" + k)
	}
	o.Count("status_" + res.Status)
	switch n := len(src); {
	case n < 8:
		o.Count("len_lt8")
	case n < 32:
		o.Count("len_lt32")
	case n < 128:
		o.Count("len_lt128")
	default:
		o.Count("len_ge128")
	}
	o.Case(line, res.Canon(), len(src) >= 2)
}

func source(src []byte, r *vh.Rand) {
	one(src, 1)
	one(src, 0)
	if r != nil && r.Chance(10) {
		one(src, 3)
		one(src, 2)
	}
}

func main() {
	f := vh.ParseFlags()
	o = vh.NewOut(f.Out)
	defer o.Close()
	if f.Replay != "" {
		_, mode, src, err := scangen.ParseCaseLine(f.Replay)
		if err != nil {
			fmt.Fprintln(os.Stderr, err)
			os.Exit(2)
		}
		one(src, mode)
		return
	}
	for _, s := range scangen.Regression {
		source([]byte(s), nil)
	}
	// minimised past disagreements
	if ents, err := os.ReadDir("/verif/corpus/C15"); err == nil {
		var names []string
		for _, e := range ents {
			names = append(names, e.Name())
		}
		sort.Strings(names)
		for _, n := range names {
			if b, err := os.ReadFile(filepath.Join("/verif/corpus/C15", n)); err == nil {
				source(b, nil)
			}
		}
	}
	r := vh.NewRand(f.Seed)
	g := &scangen.Gen{R: r, Corpus: scangen.LoadCorpus(0), Stat: o.Count}
	o.Stats["corpus_files"] = len(g.Corpus)
	// exhaustive small scope over the symbols that drive the hidden state (nParen, insertSemi)
	depth := 4
	if f.Tier == "thorough" {
		depth = 6
	}
	scangen.Exhaustive(scangen.StateAlphabet, depth, func(b []byte) { one(b, 1); one(b, 0) })
	o.Stats["exhaustive_state_depth"] = depth
	if f.Tier == "thorough" {
		// all byte strings up to length 3 over 24 symbols and up to length 5 over 8 symbols
		al24 := []string{"a", "1", "0", " ", "\n", "\r", "/", "*", "#", "\"", "'", "`", "\\", ".", "_", "x", "e", "i", "c", "y", "=", "<", "!", "\x80"}
		scangen.Exhaustive(al24, 3, func(b []byte) { one(b, 1); one(b, 0) })
		al8 := []string{"1", " ", "\n", "/", "*", "#", ".", "k"}
		scangen.Exhaustive(al8, 5, func(b []byte) { one(b, 1); one(b, 0) })
		o.Stats["exhaustive"] = 1
	}
	for i := 0; i < f.N; i++ {
		rr := r.Fork(i)
		g.R = rr
		source(g.Source(), rr)
	}
}
