// Search/oracle + model-correspondence harness for C08 (compilation output is deterministic).
//
// Every generated package is compiled with the real compiler (parser.ParseFSDir → cl.NewPackage →
// gogen WriteTo, via x/build) N times in this process and once in each of K fresh child processes,
// each time with a different order of file presentation (memfs listing order = order of parsing,
// of token.FileSet bases and of map insertion).  Oracle: all outputs (bytes or error text) are
// identical.  For "sched" cases the abstract loader model (Lean, drv_compb) predicts the order of
// the top-level declarations in the output resp. the order of the errors.
package main

import (
	"bufio"
	"encoding/json"
	"flag"
	"fmt"
	goast "go/ast"
	goparser "go/parser"
	gotoken "go/token"
	"io"
	"os"
	"os/exec"
	"path/filepath"
	"regexp"
	"sort"
	"strconv"
	"strings"
	"sync"
	"time"

	"github.com/goplus/gogen/packages"
	"github.com/goplus/xgo/cl"
	"github.com/goplus/xgo/parser"
	"github.com/goplus/xgo/parser/fsx/memfs"
	"github.com/goplus/xgo/token"
	"github.com/goplus/xgo/x/build"
	"verifharness/vh"
)

func repo() string {
	if r := os.Getenv("VERIF_REPO"); r != "" {
		return r
	}
	return "/repo"
}

func perm(r *vh.Rand, n int) []int {
	p := make([]int, n)
	for i := range p {
		p[i] = i
	}
	for i := n - 1; i > 0; i-- {
		j := r.Intn(i + 1)
		p[i], p[j] = p[j], p[i]
	}
	return p
}

var (
	impOnce sync.Once
	impFset *token.FileSet
	imp     *packages.Importer
)

func init() {
	// the test class kinds of /repo/cl/cltest (cl/internal/spx, spx2)
	build.RegisterClassFileType(".tgmx", "*MyGame", []*build.Class{{Ext: ".tspx", Class: "Sprite"}},
		"github.com/goplus/xgo/cl/internal/spx", "math")
	build.RegisterClassFileType(".t2gmx", "Game", []*build.Class{{Ext: ".t2spx", Class: "Sprite"}},
		"github.com/goplus/xgo/cl/internal/spx2")
	build.RegisterClassFileType("_spx.gox", "Game", []*build.Class{{Ext: "_spx.gox", Class: "Sprite"}},
		"github.com/goplus/xgo/cl/internal/spx3", "math")
}

// expCache resolves export data files for the importer.  The parent asks `go list -export -deps`
// once for the packages generated code can import and hands the table to its children (file
// C08_EXPORTS), so that a fresh process does not spend its time in `go list` (3–4 s per call here).
type expCache struct {
	mu sync.Mutex
	m  map[string]string
}

var preloadPkgs = []string{"fmt", "math", "strings", "testing", "strconv", "errors", "os", "reflect",
	"github.com/goplus/xgo/cl/internal/spx", "github.com/goplus/xgo/cl/internal/spx2",
	"github.com/goplus/xgo/cl/internal/spx3", "github.com/goplus/xgo/cl/internal/spx3/jwt",
	"github.com/goplus/xgo/cl/internal/spx4", "github.com/goplus/xgo/cl/internal/mcp",
	"github.com/qiniu/x/stringutil", "github.com/qiniu/x/stringslice", "github.com/qiniu/x/osx",
	"github.com/qiniu/x/errors", "github.com/qiniu/x/xgo/ng", "github.com/qiniu/x/xgo", "github.com/qiniu/x/stringutil"}

func goList(args ...string) ([]byte, error) {
	cmd := exec.Command("go", append([]string{"list", "-export", "-e"}, args...)...)
	cmd.Dir = repo()
	cmd.Env = append(os.Environ(), "GOFLAGS=-mod=mod", "GOPROXY=off", "GOSUMDB=off", "GOTOOLCHAIN=local", "CGO_ENABLED=0")
	return cmd.Output()
}

func (c *expCache) load() {
	c.m = map[string]string{}
	if f := os.Getenv("C08_EXPORTS"); f != "" {
		if b, err := os.ReadFile(f); err == nil {
			json.Unmarshal(b, &c.m)
			return
		}
	}
	out, _ := goList(append([]string{"-deps", "-f", "{{.ImportPath}}\t{{.Export}}"}, preloadPkgs...)...)
	for _, l := range strings.Split(string(out), "\n") {
		if f := strings.SplitN(l, "\t", 2); len(f) == 2 && f[1] != "" {
			c.m[f[0]] = f[1]
		}
	}
}

func (c *expCache) Find(dir, pkgPath string) (io.ReadCloser, error) {
	c.mu.Lock()
	f, ok := c.m[pkgPath]
	c.mu.Unlock()
	if !ok {
		nFallback++
		out, err := goList("-f", "{{.Export}}", pkgPath)
		if err != nil {
			return nil, fmt.Errorf("go list -export %s: %v", pkgPath, err)
		}
		f = strings.TrimSpace(string(out))
		c.mu.Lock()
		c.m[pkgPath] = f
		c.mu.Unlock()
	}
	if f == "" {
		return nil, fmt.Errorf("no export data for %s", pkgPath)
	}
	return os.Open(f)
}

// curRelBase: cl.Config.RelativeBase of the compile in progress (compiles are sequential).
var curRelBase = "/"

var (
	cache     = &expCache{}
	nFallback int
)

func (c *pkgCase) dir() string {
	if c.Dir != "" {
		return c.Dir
	}
	return "/pkg"
}

func (c *pkgCase) relBase() string {
	if c.Dir != "" {
		return c.RelBase
	}
	return "/"
}

func newCtx() *build.Context {
	impOnce.Do(func() {
		impFset = token.NewFileSet()
		imp = packages.NewImporter(impFset)
		cache.load()
		imp.SetCache(cache)
	})
	ctx := build.NewContext(imp, impFset)
	ctx.LoadConfig = func(c *cl.Config) { c.NoFileLine = false; c.RelativeBase = curRelBase }
	return ctx
}

// compileDir: route "dir" — a directory listing in the given presentation order.
func compileDir(c *pkgCase, order []string) (res string) {
	defer func() {
		if r := recover(); r != nil {
			res = fmt.Sprintf("PANIC: %v", r)
		}
	}()
	fmap := map[string]string{}
	for n, d := range c.Files {
		fmap[c.dir()+"/"+n] = d
	}
	mfs := memfs.New(map[string][]string{c.dir(): order}, fmap)
	curRelBase = c.relBase()
	out, err := newCtx().BuildFSDir(mfs, c.dir())
	if err != nil {
		return "ERR\n" + err.Error()
	}
	return "OK\n" + string(out)
}

// compileFiles: route "files" — an explicit file list (parser.ParseFSEntries, as the xgo tool does
// for file arguments; .go files are then parsed by the XGo parser) handed to cl.NewPackage.
func compileFiles(c *pkgCase, order []string) (res string) {
	defer func() {
		if r := recover(); r != nil {
			res = fmt.Sprintf("PANIC: %v", r)
		}
	}()
	fmap := map[string]string{}
	var list []string
	for _, n := range order {
		fmap[c.dir()+"/"+n] = c.Files[n]
		list = append(list, c.dir()+"/"+n)
	}
	mfs := memfs.New(map[string][]string{c.dir(): order}, fmap)
	newCtx()
	pkgs, err := parser.ParseFSEntries(impFset, mfs, list, parser.Config{ClassKind: build.ClassKind})
	if err != nil {
		return "PARSEERR\n" + err.Error()
	}
	names := make([]string, 0, len(pkgs))
	for n := range pkgs {
		names = append(names, n)
	}
	sort.Strings(names)
	pkg := pkgs[names[0]]
	if p, ok := pkgs["main"]; ok {
		pkg = p
	}
	conf := &cl.Config{Fset: impFset, Importer: imp, RelativeBase: c.relBase(), LookupClass: func(ext string) (*cl.Project, bool) {
		return lookupClass(ext)
	}}
	out, err := cl.NewPackage("", pkg, conf)
	if err != nil {
		return "ERR\n" + err.Error()
	}
	var b strings.Builder
	if err := out.WriteTo(&b); err != nil {
		return "WRITEERR\n" + err.Error()
	}
	return "OK\n" + b.String()
}

func lookupClass(ext string) (*cl.Project, bool) {
	switch ext {
	case ".tgmx", ".tspx":
		return &cl.Project{Ext: ".tgmx", Class: "*MyGame", Works: []*cl.Class{{Ext: ".tspx", Class: "Sprite"}},
			PkgPaths: []string{"github.com/goplus/xgo/cl/internal/spx", "math"}}, true
	case ".t2gmx", ".t2spx":
		return &cl.Project{Ext: ".t2gmx", Class: "Game", Works: []*cl.Class{{Ext: ".t2spx", Class: "Sprite"}},
			PkgPaths: []string{"github.com/goplus/xgo/cl/internal/spx2"}}, true
	case "_spx.gox":
		return &cl.Project{Ext: "_spx.gox", Class: "Game", Works: []*cl.Class{{Ext: "_spx.gox", Class: "Sprite"}},
			PkgPaths: []string{"github.com/goplus/xgo/cl/internal/spx3", "math"}}, true
	}
	return nil, false
}

func shuffled(r *vh.Rand, names []string) []string {
	p := perm(r, len(names))
	res := make([]string, len(names))
	for i, j := range p {
		res[i] = names[j]
	}
	return res
}

// ---- sched correspondence ------------------------------------------------------------------

var undefRe = regexp.MustCompile(`[uU]ndefE(\d+)`)

// schedImpl canonicalises the real result of a sched case: the order of top-level declarations
// (as symbol ids) when the compile succeeded, the order of the injected errors otherwise.
func schedImpl(c *pkgCase, res string) string {
	if strings.HasPrefix(res, "ERR\n") {
		var ids []string
		for _, line := range strings.Split(res[4:], "\n") {
			if m := undefRe.FindStringSubmatch(line); m != nil {
				ids = append(ids, m[1])
			} else if strings.TrimSpace(line) != "" && !strings.HasPrefix(line, "\t") {
				ids = append(ids, "?"+line)
			}
		}
		return "err=" + strings.Join(ids, ",")
	}
	if !strings.HasPrefix(res, "OK\n") {
		return res
	}
	f, err := goparser.ParseFile(gotoken.NewFileSet(), "out.go", res[3:], 0)
	if err != nil {
		return "UNPARSEABLE " + err.Error()
	}
	var ids []string
	add := func(name string) {
		if id, ok := c.Names[name]; ok {
			ids = append(ids, strconv.Itoa(id))
		} else if name != "_" {
			ids = append(ids, "?"+name)
		}
	}
	for _, d := range f.Decls {
		switch d := d.(type) {
		case *goast.GenDecl:
			for _, s := range d.Specs {
				switch s := s.(type) {
				case *goast.ValueSpec:
					for _, n := range s.Names {
						add(n.Name)
					}
				case *goast.TypeSpec:
					add(s.Name.Name)
				}
			}
		case *goast.FuncDecl:
			if d.Recv == nil && d.Name.Name != "main" {
				add(d.Name.Name)
			}
		}
	}
	return "decl=" + strings.Join(ids, ",")
}

// ---- driver ------------------------------------------------------------------------------

type childOut struct {
	ID    int    `json:"id"`
	Route string `json:"route"`
	Res   string `json:"res"`
}

func runChild(file string, k int, seed uint64) {
	os.Chdir(repo())
	data, err := os.ReadFile(file)
	if err != nil {
		panic(err)
	}
	var cases []*pkgCase
	if err := json.Unmarshal(data, &cases); err != nil {
		panic(err)
	}
	w := bufio.NewWriter(os.Stdout)
	enc := json.NewEncoder(w)
	r := vh.NewRand(seed ^ uint64(k+1)*0x51ed27)
	for _, c := range cases {
		rr := r.Fork(c.ID)
		enc.Encode(childOut{c.ID, "dir", compileDir(c, shuffled(rr, c.fileNames()))})
		if c.Kind == "rich" {
			enc.Encode(childOut{c.ID, "files", compileFiles(c, shuffled(rr, c.fileNames()))})
		}
	}
	w.Flush()
}

func caseLine(c *pkgCase) string {
	if c.Kind == "sched" {
		return "sched\t" + c.Sched
	}
	return pkgLine(c)
}

// pkgLine is the replayable form of any case: the files themselves.
func pkgLine(c *pkgCase) string {
	b, _ := json.Marshal(struct {
		Files   map[string]string `json:"files"`
		Dir     string            `json:"dir,omitempty"`
		RelBase string            `json:"relbase,omitempty"`
	}{c.Files, c.Dir, c.RelBase})
	return "pkg\t" + vh.Hex(b)
}

func corpusCases(id0 int) []*pkgCase {
	var res []*pkgCase
	dirs, _ := filepath.Glob(filepath.Join(repo(), "cl/_testspx/*"))
	sort.Strings(dirs)
	for _, d := range dirs {
		ents, err := os.ReadDir(d)
		if err != nil {
			continue
		}
		c := &pkgCase{ID: id0 + len(res), Kind: "corpus", Files: map[string]string{}}
		for _, e := range ents {
			n := e.Name()
			if e.IsDir() || strings.HasSuffix(n, ".go") {
				continue
			}
			if _, ok := lookupClass(classExt(n)); !ok {
				c = nil
				break
			}
			b, _ := os.ReadFile(filepath.Join(d, n))
			c.Files[n] = string(b)
		}
		if c != nil && len(c.Files) > 0 {
			res = append(res, c)
		}
	}
	return res
}

func classExt(fname string) string {
	ext := filepath.Ext(fname)
	if ext == ".gox" {
		if i := strings.LastIndexByte(fname[:len(fname)-4], '_'); i >= 0 {
			return fname[i:]
		}
	}
	return ext
}

func main() {
	child := flag.String("child", "", "child mode: cases file")
	childK := flag.Int("k", 0, "child index")
	f := vh.ParseFlags()
	if *child != "" {
		runChild(*child, *childK, f.Seed)
		return
	}
	os.MkdirAll(f.Out, 0o755)
	o := vh.NewOut(f.Out)
	defer o.Close()
	abs, _ := filepath.Abs(f.Out)
	exe, _ := os.Executable()
	os.Chdir(repo())

	var cases []*pkgCase
	if f.Replay != "" {
		fs := strings.SplitN(f.Replay, "\t", 2)
		c := &pkgCase{ID: 0, Kind: "rich", Files: map[string]string{}}
		if fs[0] == "sched" {
			// a model/implementation disagreement: the line is the model's input; the package
			// itself is regenerated from the seed (rerun the check with the same VERIF_SEED)
			o.Case(f.Replay, "rerun-with-seed", false)
			return
		}
		if len(fs) == 2 && strings.HasPrefix(fs[1], " ") {
			fs[1] = strings.TrimSpace(fs[1])
		}
		b, _ := vh.UnHex(fs[1])
		json.Unmarshal(b, c) // files, dir, relbase
		cases = []*pkgCase{c}
	} else {
		r := vh.NewRand(f.Seed)
		n := f.N
		for i := 0; i < n; i++ {
			rr := r.Fork(i)
			switch {
			case i%10 == 9:
				cases = append(cases, genTwoPkg(rr, i))
			case i%2 == 0:
				cases = append(cases, genSched(rr, i))
			default:
				cases = append(cases, genRich(rr, i, i%4 == 1))
			}
		}
		// hand-written regression shapes (found by this harness on the unrepaired tree)
		cases = append(cases,
			&pkgCase{ID: n, Kind: "rich", NErr: 2, Files: map[string]string{
				"a.xgo": "package foo\n\nfunc F() int { return 1 }\n",
				"b.go":  "package foo\n\ntype A struct { x Undef1 }\n",
				"c.go":  "package foo\n\ntype B struct { y Undef2 }\n"}},
			&pkgCase{ID: n + 1, Kind: "rich", NErr: 1, Files: map[string]string{
				"a.xgo": "package foo\n\nfunc F() int { return 1 }\n",
				"b.go":  "package foo\n\nfunc G() {}\n",
				"c.go":  "package foo\n\nfunc G() {}\n"}},
			&pkgCase{ID: n + 2, Kind: "rich", Files: map[string]string{
				"a.xgo": "package foo\n\nvar V1 [3]int\nvar V2 [4]int\nvar V3 [5]int\nvar V4 [6]int\n",
				"b.go":  "package foo\n\ntype A struct { x [len(V4)]int }\ntype B struct { x [len(V3)]int }\ntype C struct { x [len(V2)]int }\n"}},
		)
		cases = append(cases,
			&pkgCase{ID: n + 3, Kind: "rich", Files: map[string]string{ // same stem, different extension
				"Rect.gox": "var (\n\tW, H int\n)\n\nfunc Area() int {\n\treturn W * H\n}\n",
				"Rect.xgo": "func F1() int {\n\treturn 1\n}\n\nvar X1 = 1\n",
				"a.gop":    "func F2() int {\n\treturn 2\n}\n\nvar X2 = 2\n",
				"a.xgo":    "func F3() int {\n\treturn 3\n}\n\nvar X3 = 3\n"}},
			&pkgCase{ID: n + 4, Kind: "rich", NErr: 3, Files: map[string]string{ // every entity declared in two files
				"a.xgo": "package foo\n\ntype Point struct {\n\tX int\n}\n\nconst K = 1\n\nvar V = 2\n\nfunc (p *Point) M() int {\n\treturn 1\n}\n",
				"b.xgo": "package foo\n\nvar V = 3\n\ntype Point struct {\n\tY int\n}\n\nconst K = 2\n\nfunc (p *Point) M() int {\n\treturn 2\n}\n"}},
		)
		cases = append(cases, corpusCases(n+5)...)
	}

	nIn := 20
	nChild := 5
	if f.Tier == "thorough" {
		nIn, nChild = 30, 8
	}
	r := vh.NewRand(f.Seed ^ 0xc08)
	base := map[string]string{} // "<id>/<route>" → first result
	reported := map[string]bool{}
	check := func(c *pkgCase, route, res, how string) {
		k := fmt.Sprintf("%d/%s", c.ID, route)
		if b, ok := base[k]; !ok {
			base[k] = res
		} else if b != res && !reported[k] {
			reported[k] = true
			key := "output-differs"
			switch {
			case strings.HasPrefix(b, "ERR") && strings.HasPrefix(res, "ERR"):
				key = "error-list-differs"
			case strings.HasPrefix(b, "ERR") != strings.HasPrefix(res, "ERR"):
				key = "success-differs"
			}
			if c.Kind == "twopkg" {
				key = "arbitrary-package-" + key
			}
			o.Oracle(key, pkgLine(c), fmt.Sprintf("route=%s how=%s\n--- first:\n%s\n--- other:\n%s", route, how, b, res))
		}
	}
	tStart := time.Now()
	for _, c := range cases {
		names := c.fileNames()
		rr := r.Fork(c.ID)
		if os.Getenv("C08_TIMING") != "" {
			fmt.Fprintf(os.Stderr, "case %d %s t=%v fallbacks=%d\n", c.ID, c.Kind, time.Since(tStart), nFallback)
		}
		for i := 0; i < nIn; i++ {
			order := names
			if i > 0 {
				order = shuffled(rr, names)
			}
			check(c, "dir", compileDir(c, order), "same-process")
		}
		if c.Kind == "rich" {
			for i := 0; i < nIn/3; i++ {
				check(c, "files", compileFiles(c, shuffled(rr, names)), "same-process")
			}
		}
		first := base[fmt.Sprintf("%d/dir", c.ID)]
		o.Count("kind_" + c.Kind)
		if c.Dir != "" {
			o.Count("config_" + c.Cfg)
		}
		for k, v := range c.Stats {
			o.Stats[k] += v
		}
		stems := map[string]int{}
		for _, n := range names {
			stems[strings.ToLower(strings.TrimSuffix(n, filepath.Ext(n)))]++
		}
		for _, v := range stems {
			if v > 1 {
				o.Count("packages_with_colliding_file_stems")
				break
			}
		}
		o.Count(fmt.Sprintf("files_%d", len(names)))
		switch {
		case strings.HasPrefix(first, "OK"):
			o.Count("result_ok")
		case strings.HasPrefix(first, "ERR"):
			o.Count(fmt.Sprintf("result_err_%d_lines", len(strings.Split(strings.TrimSpace(first), "\n"))-1))
		default:
			o.Count("result_other")
		}
		if d := os.Getenv("C08_DUMP"); d != "" && (d == "all" || d == c.Kind) {
			fmt.Fprintf(os.Stderr, "=== case %d %s nerr=%d\n", c.ID, c.Kind, c.NErr)
			if os.Getenv("C08_DUMPSRC") != "" {
				for _, n := range names {
					fmt.Fprintf(os.Stderr, "--- %s\n%s", n, c.Files[n])
				}
			}
			fmt.Fprintf(os.Stderr, ">>> %s\n", first)
		}
		if strings.HasPrefix(first, "PANIC") || strings.Contains(first, "compile /pkg failed") {
			o.Count("result_panic")
		}
		for _, n := range names {
			o.Count("ext" + classExt(n))
		}
		impl := "-"
		if c.Kind == "sched" {
			impl = schedImpl(c, first)
			if strings.Contains(impl, "?") {
				o.Count("sched_unpredicted")
			}
			o.Case(caseLine(c), impl, len(names) >= 2)
		}
	}
	// fresh processes
	casesFile := filepath.Join(abs, "cases.json")
	expFile := filepath.Join(abs, "exports.json")
	cache.mu.Lock()
	eb, _ := json.Marshal(cache.m)
	cache.mu.Unlock()
	os.WriteFile(expFile, eb, 0o644)
	defer os.Remove(expFile)
	o.Stats["go_list_fallbacks"] = nFallback
	data, _ := json.Marshal(cases)
	os.WriteFile(casesFile, data, 0o644)
	byID := map[int]*pkgCase{}
	for _, c := range cases {
		byID[c.ID] = c
	}
	var wg sync.WaitGroup
	outs := make([][]byte, nChild)
	errs := make([]error, nChild)
	for k := 0; k < nChild; k++ {
		wg.Add(1)
		go func(k int) {
			defer wg.Done()
			cmd := exec.Command(exe, "-child", casesFile, "-k", strconv.Itoa(k), "-seed", strconv.FormatUint(f.Seed, 10))
			cmd.Stderr = os.Stderr
			cmd.Env = append(os.Environ(), "C08_EXPORTS="+expFile)
			outs[k], errs[k] = cmd.Output()
		}(k)
	}
	wg.Wait()
	for k := 0; k < nChild; k++ {
		if errs[k] != nil {
			fmt.Fprintf(os.Stderr, "child %d failed: %v\n", k, errs[k])
			os.Exit(1)
		}
		dec := json.NewDecoder(strings.NewReader(string(outs[k])))
		for dec.More() {
			var co childOut
			if err := dec.Decode(&co); err != nil {
				fmt.Fprintf(os.Stderr, "child %d output: %v\n", k, err)
				os.Exit(1)
			}
			check(byID[co.ID], co.Route, co.Res, fmt.Sprintf("fresh-process-%d", k))
			o.Count("fresh_process_compiles")
		}
	}
	o.Stats["in_process_repeats"] = nIn
	o.Stats["fresh_processes"] = nChild
	os.Remove(casesFile)
}
