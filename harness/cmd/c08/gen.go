package main

import (
	"fmt"
	"sort"
	"strings"

	"verifharness/vh"
)

// A generated package: file name → source, plus (for "sched" cases) the abstract loader program
// the Lean model runs.
type pkgCase struct {
	ID    int               `json:"id"`
	Kind  string            `json:"kind"` // sched | rich | twopkg | corpus
	Files map[string]string `json:"files"`
	Sched string            `json:"sched,omitempty"` // driver case line (without the op) for sched cases
	NErr  int               `json:"nerr"`            // number of independent errors injected
	// sched bookkeeping: symbol name → id
	Names map[string]int `json:"names,omitempty"`
	Stats map[string]int `json:"-"`
	// compile configuration (random dimension): source directory, cl.Config.RelativeBase
	Dir     string `json:"dir,omitempty"`
	RelBase string `json:"relbase,omitempty"`
	Cfg     string `json:"cfg,omitempty"`
}

// configs: source directory vs RelativeBase (equal, trailing slash, parent, sibling with a common
// string prefix, unrelated, root, empty, relative directories).
var configs = [][3]string{
	{"/pkg", "/", "root"},
	{"/pkg", "/pkg", "equal"},
	{"/pkg", "/pkg/", "equal-trailing-slash"},
	{"/w/app/sub", "/w/app", "parent"},
	{"/w/app2", "/w/app", "sibling-common-prefix"},
	{"/w/app", "/other/place", "unrelated"},
	{"/w/app", "", "empty-base"},
	{"rel/pkg", "", "relative-dir-empty-base"},
	{"rel/pkg2", "rel/pkg", "relative-sibling-common-prefix"},
}

func (c *pkgCase) setConfig(r *vh.Rand) {
	if r.Chance(50) {
		return // the default: /pkg with RelativeBase /
	}
	cfg := configs[r.Intn(len(configs))]
	c.Dir, c.RelBase, c.Cfg = cfg[0], cfg[1], cfg[2]
}

func (c *pkgCase) fileNames() []string {
	ns := make([]string, 0, len(c.Files))
	for n := range c.Files {
		ns = append(ns, n)
	}
	sort.Strings(ns)
	return ns
}

// ---------------------------------------------------------------------------------------------
// "sched" cases: the subset of packages whose loader behaviour the abstract model predicts.

type ssym struct {
	id   int
	kind string // const | var | arr | func | gotype | gofunc
	file string
	deps []int
	err  bool
}

func sname(id int) string { return fmt.Sprintf("S%03d", id) }

// File-name pools.  They contain on purpose: the same stem with different extensions (a.xgo / a.gop /
// a.go, Rect.xgo / Rect.gox / Rect.go), names differing in case only (a.xgo / A.xgo), names that sort
// differently with and without their extension (ab.xgo / ab-c.xgo: '-' < '.'), and _test variants.
var schedXgoNames = []string{"a.xgo", "a.gop", "A.xgo", "ab.xgo", "ab-c.xgo", "b_x.xgo", "m.xgo", "q.gop", "z.xgo", "c1.xgo"}
var xgoNames = append([]string{"m_test.xgo", "Rect.xgo", "Circle.gop", "a_test.gop"}, schedXgoNames...)
var goNames = []string{"b.go", "g1.go", "k.go", "zz.go", "aa.go", "a.go", "ab.go", "Rect.go", "m.go"}

func pickFiles(r *vh.Rand, pool []string, n int) []string {
	idx := perm(r, len(pool))
	res := make([]string, 0, n)
	for _, i := range idx[:n] {
		res = append(res, pool[i])
	}
	sort.Strings(res)
	return res
}

func genSched(r *vh.Rand, id int) *pkgCase {
	nx := 1 + r.Intn(3)
	ng := r.Intn(3)
	xfiles := pickFiles(r, schedXgoNames, nx)
	gfiles := pickFiles(r, goNames, ng)
	n := 4 + r.Intn(9)
	syms := make([]*ssym, n)
	var consts, arrs, intvals, funcs, gofuncs []int // ids usable as dependencies
	// ids are assigned so that id order has nothing to do with file order
	for i := 0; i < n; i++ {
		s := &ssym{id: i}
		k := r.Intn(100)
		switch {
		case k < 15:
			s.kind = "const"
		case k < 35:
			s.kind = "var"
		case k < 45:
			s.kind = "arr"
		case k < 75:
			s.kind = "func"
		case k < 90 && ng > 0:
			s.kind = "gotype"
		case ng > 0:
			s.kind = "gofunc"
		default:
			s.kind = "func"
		}
		if s.kind == "gotype" || s.kind == "gofunc" {
			s.file = gfiles[r.Intn(ng)]
		} else {
			s.file = xfiles[r.Intn(nx)]
		}
		syms[i] = s
		switch s.kind {
		case "const":
			consts = append(consts, i)
		case "var":
			intvals = append(intvals, i)
		case "arr":
			arrs = append(arrs, i)
		case "func":
			funcs = append(funcs, i)
		case "gofunc":
			gofuncs = append(gofuncs, i)
		}
	}
	nerr := 0
	// dependencies
	for _, s := range syms {
		switch s.kind {
		case "const":
			for _, c := range consts {
				if c < s.id && r.Chance(40) { // earlier ids only: no constant cycles
					s.deps = append(s.deps, c)
				}
			}
		case "var", "func":
			// only smaller ids (plus self-recursion of a func): a variable that is requested
			// while its own initialiser is being compiled is "undefined" (the loader has
			// already removed it from syms) – kept out of the predictable subset
			var cand []int
			for _, pool := range [][]int{consts, intvals, funcs, gofuncs} {
				for _, d := range pool {
					if d < s.id || (d == s.id && s.kind == "func") {
						cand = append(cand, d)
					}
				}
			}
			k := r.Intn(4)
			for j := 0; j < k && len(cand) > 0; j++ {
				d := cand[r.Intn(len(cand))]
				dup := false
				for _, e := range s.deps {
					dup = dup || e == d
				}
				if !dup {
					s.deps = append(s.deps, d)
				}
			}
			if s.kind == "func" && r.Chance(22) {
				s.err = true
				nerr++
			}
		case "gotype":
			if len(arrs) > 0 && r.Chance(60) {
				s.deps = append(s.deps, arrs[r.Intn(len(arrs))])
			}
			if r.Chance(35) {
				s.err = true
				nerr++
			}
		}
	}
	// variables must not form an initialisation cycle through vars only (Go allows the XGo
	// compile; we never build these) – nothing to do.
	files := map[string]*strings.Builder{}
	for _, f := range append(append([]string{}, xfiles...), gfiles...) {
		b := &strings.Builder{}
		b.WriteString("package main\n\n")
		files[f] = b
	}
	// shuffle declaration order within files: emit symbols in a random order
	order := perm(r, n)
	perFile := map[string][]int{}
	for _, i := range order {
		perFile[syms[i].file] = append(perFile[syms[i].file], i)
	}
	expr := func(s *ssym) string {
		parts := []string{}
		for _, d := range s.deps {
			switch syms[d].kind {
			case "func", "gofunc":
				parts = append(parts, sname(d)+"()")
			default:
				parts = append(parts, sname(d))
			}
		}
		if s.err {
			parts = append(parts, fmt.Sprintf("undefE%d", s.id))
		}
		if len(parts) == 0 {
			parts = append(parts, fmt.Sprint(1+s.id))
		}
		return strings.Join(parts, " + ")
	}
	for f, ids := range perFile {
		b := files[f]
		for _, i := range ids {
			s := syms[i]
			switch s.kind {
			case "const":
				fmt.Fprintf(b, "const %s = %s\n\n", sname(i), expr(s))
			case "var":
				fmt.Fprintf(b, "var %s = %s\n\n", sname(i), expr(s))
			case "arr":
				fmt.Fprintf(b, "var %s [%d]int\n\n", sname(i), 2+i)
			case "func":
				fmt.Fprintf(b, "func %s() int {\n\treturn %s\n}\n\n", sname(i), expr(s))
			case "gofunc":
				fmt.Fprintf(b, "func %s() int {\n\treturn %d\n}\n\n", sname(i), i)
			case "gotype":
				fmt.Fprintf(b, "type %s struct {\n\tA int\n", sname(i))
				for _, d := range s.deps {
					fmt.Fprintf(b, "\tB%d [len(%s)]int\n", d, sname(d))
				}
				if s.err {
					fmt.Fprintf(b, "\tE UndefE%d\n", i)
				}
				b.WriteString("}\n\n")
			}
		}
	}
	c := &pkgCase{ID: id, Kind: "sched", Files: map[string]string{}, NErr: nerr, Names: map[string]int{}}
	c.setConfig(r)
	for f, b := range files {
		c.Files[f] = b.String()
	}
	// the abstract program: XGo symbols in source order (files sorted by path, declaration order),
	// then the Go-file symbols; π = Go-file types (initGopPkg loads typeLoaders and overload
	// funcs only); fixed = XGo symbols in source order (loadFile).
	var prog, pi, fixed, skip []string
	emitSym := func(s *ssym) {
		slot := 0
		if s.kind == "const" || s.kind == "gotype" {
			slot = 1
		}
		e := "-"
		if s.err {
			e = fmt.Sprint(s.id)
		}
		ds := make([]string, len(s.deps))
		for i, d := range s.deps {
			ds[i] = fmt.Sprint(d)
		}
		prog = append(prog, fmt.Sprintf("%d:%s:%d:%s", s.id, strings.Join(ds, ","), slot, e))
		c.Names[sname(s.id)] = s.id
	}
	for _, f := range xfiles {
		for _, i := range perFile[f] {
			emitSym(syms[i])
			fixed = append(fixed, fmt.Sprint(i))
		}
	}
	for _, f := range gfiles {
		for _, i := range perFile[f] {
			emitSym(syms[i])
			skip = append(skip, fmt.Sprint(i))
			if syms[i].kind == "gotype" {
				pi = append(pi, fmt.Sprint(i))
			}
		}
	}
	// present π to the model in a shuffled order: the model sorts it (as the repaired code does)
	for i := len(pi) - 1; i > 0; i-- {
		j := r.Intn(i + 1)
		pi[i], pi[j] = pi[j], pi[i]
	}
	c.Sched = strings.Join([]string{strings.Join(prog, ";"), strings.Join(pi, ","), strings.Join(fixed, ","), strings.Join(skip, ",")}, "\t")
	return c
}

// ---------------------------------------------------------------------------------------------
// "rich" cases: XGo + Go + class files, cross-file references both ways, overloads, inits, errors.

type richGen struct {
	r      *vh.Rand
	files  map[string]*strings.Builder
	xfiles []string
	gfiles []string
	cfiles []string // normal .gox class files
	consts []string
	types  []string // XGo struct types
	gtypes []string // Go-file struct types
	funcs  []string // func(int) int, any file
	arrs   []string
	vars   []string    // package-level V%d
	meths  [][2]string // (type, method) with signature func(a int) int for XGo types, func() int for Go types
	stats  map[string]int
	nerr   int
}

func (g *richGen) any(pool ...[]string) string {
	var all []string
	for _, p := range pool {
		all = append(all, p...)
	}
	return all[g.r.Intn(len(all))]
}

func (g *richGen) w(file, format string, a ...interface{}) {
	fmt.Fprintf(g.files[file], format, a...)
}

func (g *richGen) intExpr(arg string) string {
	parts := []string{arg}
	k := 1 + g.r.Intn(3)
	for i := 0; i < k; i++ {
		switch g.r.Intn(4) {
		case 0:
			if len(g.consts) > 0 {
				parts = append(parts, g.any(g.consts))
			}
		case 1:
			if len(g.funcs) > 0 {
				parts = append(parts, g.any(g.funcs)+"("+arg+")")
			}
		case 2:
			if len(g.arrs) > 0 {
				parts = append(parts, "len("+g.any(g.arrs)+")")
			}
		default:
			parts = append(parts, fmt.Sprint(g.r.Intn(9)))
		}
	}
	return strings.Join(parts, " + ")
}

func genRich(r *vh.Rand, id int, withErr bool) *pkgCase {
	g := &richGen{r: r, files: map[string]*strings.Builder{}, stats: map[string]int{}}
	nx := 1 + r.Intn(3)
	ng := r.Intn(3)
	nc := r.Intn(3)
	g.xfiles = pickFiles(r, xgoNames, nx)
	g.gfiles = pickFiles(r, goNames, ng)
	g.cfiles = pickFiles(r, []string{"Rect.gox", "Circle.gox", "Anchor.gox"}, nc)
	spx := r.Chance(35)
	pkgName := "main"
	if !spx && r.Chance(30) {
		pkgName = "foo"
	}
	for _, f := range g.xfiles {
		g.files[f] = &strings.Builder{}
		if pkgName != "main" || r.Bool() {
			g.w(f, "package %s\n\n", pkgName)
		}
	}
	for _, f := range g.gfiles {
		g.files[f] = &strings.Builder{}
		g.w(f, "package %s\n\n", pkgName)
	}
	if pkgName != "main" {
		g.cfiles = nil
	}
	for _, f := range g.cfiles {
		g.files[f] = &strings.Builder{}
	}
	srcFiles := append(append([]string{}, g.xfiles...), g.gfiles...)
	xOrG := func() string { return srcFiles[r.Intn(len(srcFiles))] }
	isGo := func(f string) bool { return strings.HasSuffix(f, ".go") }
	// imports first (only XGo files import fmt; used below)
	usesFmt := map[string]bool{}
	for _, f := range g.xfiles {
		if r.Chance(50) {
			g.w(f, "import \"fmt\"\n\n")
			usesFmt[f] = true
			if withErr && r.Chance(30) { // the import name declared twice in one file
				g.w(f, "import fmt \"strings\"\n\n")
				g.nerr++
			}
		}
	}
	// consts
	for i, n := 0, 1+r.Intn(4); i < n; i++ {
		name := fmt.Sprintf("C%d", i)
		f := xOrG()
		e := fmt.Sprint(2 + r.Intn(5))
		if len(g.consts) > 0 && r.Bool() {
			e += " + " + g.any(g.consts)
		}
		g.w(f, "const %s = %s\n\n", name, e)
		g.consts = append(g.consts, name)
	}
	// array vars (XGo files)
	for i, n := 0, r.Intn(3); i < n; i++ {
		name := fmt.Sprintf("A%d", i)
		f := g.xfiles[r.Intn(nx)]
		g.w(f, "var %s [%s]int\n\n", name, g.any(g.consts))
		g.arrs = append(g.arrs, name)
	}
	// type names are decided first so that they can refer to each other cyclically
	nt := 1 + r.Intn(4)
	typeFile := map[string]string{}
	for i := 0; i < nt; i++ {
		f := xOrG()
		var name string
		if isGo(f) {
			name = fmt.Sprintf("G%d", i)
			g.gtypes = append(g.gtypes, name)
		} else {
			name = fmt.Sprintf("T%d", i)
			g.types = append(g.types, name)
		}
		typeFile[name] = f
	}
	allTypes := append(append([]string{}, g.types...), g.gtypes...)
	sort.Strings(allTypes)
	for _, name := range allTypes {
		f := typeFile[name]
		g.w(f, "type %s struct {\n\tA int\n\tB string\n", name)
		if r.Bool() {
			g.w(f, "\tP *%s\n", g.any(allTypes))
		}
		if r.Bool() {
			g.w(f, "\tS []%s\n", g.any(allTypes))
		}
		if r.Bool() {
			g.w(f, "\tArr [%s]int\n", g.any(g.consts))
		}
		if isGo(f) && len(g.arrs) > 0 && r.Bool() {
			g.w(f, "\tL [len(%s)]int\n", g.any(g.arrs))
		}
		if isGo(f) && len(g.types) > 0 && r.Bool() {
			g.w(f, "\tX %s\n", g.any(g.types)) // Go-file type embedding an XGo-file type by value
		}
		g.w(f, "}\n\n")
	}
	// funcs
	for i, n := 0, 2+r.Intn(4); i < n; i++ {
		name := fmt.Sprintf("F%d", i)
		f := xOrG()
		if isGo(f) {
			g.w(f, "func %s(a int) int {\n\treturn a + %d\n}\n\n", name, i)
		} else {
			g.w(f, "func %s(a int) int {\n", name)
			switch r.Intn(4) {
			case 0:
				g.w(f, "\tx := [v*2 for v <- [1, 2, a]]\n\treturn len(x) + %s\n", g.intExpr("a"))
			case 1:
				g.w(f, "\tif a > %s {\n\t\tprintln a\n\t}\n\treturn %s\n", g.any(g.consts), g.intExpr("a"))
			case 2:
				g.w(f, "\tt := &%s{A: a}\n\treturn t.A + %s\n", g.any(allTypes), g.intExpr("a"))
			default:
				g.w(f, "\treturn %s\n", g.intExpr("a"))
			}
			g.w(f, "}\n\n")
		}
		g.funcs = append(g.funcs, name)
	}
	// package vars with initialisers
	for i, n := 0, r.Intn(4); i < n; i++ {
		f := xOrG()
		g.vars = append(g.vars, fmt.Sprintf("V%d", i))
		if isGo(f) {
			g.w(f, "var V%d = %d\n\n", i, i)
		} else if r.Bool() {
			g.w(f, "var V%d = %s\n\n", i, g.intExpr("1"))
		} else {
			g.w(f, "var V%d = &%s{A: %s}\n\n", i, g.any(allTypes), g.intExpr("2"))
		}
	}
	// methods (XGo types: in any XGo file; Go types: in their own file)
	for i, name := range allTypes {
		if !r.Chance(60) {
			continue
		}
		g.meths = append(g.meths, [2]string{name, fmt.Sprintf("M%d", i)})
		if strings.HasPrefix(name, "G") {
			g.w(typeFile[name], "func (p *%s) M%d() int {\n\treturn p.A\n}\n\n", name, i)
		} else {
			f := g.xfiles[r.Intn(nx)]
			g.w(f, "func (p *%s) M%d(a int) int {\n\treturn p.A + %s\n}\n\n", name, i, g.intExpr("a"))
		}
	}
	// overloads
	if r.Chance(50) {
		f := g.xfiles[r.Intn(nx)]
		f2 := g.xfiles[r.Intn(nx)]
		g.w(f2, "func addInt(a, b int) int {\n\treturn a + b\n}\n\nfunc addStr(a, b string) string {\n\treturn a + b\n}\n\n")
		g.w(f, "func add = (\n\taddInt\n\taddStr\n)\n\n")
		f3 := g.xfiles[r.Intn(nx)]
		g.w(f3, "func useAdd() int {\n\treturn add(1, %s) + len(add(\"a\", \"b\"))\n}\n\n", g.any(g.consts))
	}
	if r.Chance(40) {
		f := g.xfiles[r.Intn(nx)]
		g.w(f, "func mul = (\n\tfunc(a, b int) int {\n\t\treturn a * b\n\t}\n\tfunc(a, b float64) float64 {\n\t\treturn a * b\n\t}\n)\n\n")
		g.w(g.xfiles[r.Intn(nx)], "var MulV = mul(2, 3)\n\n")
	}
	if ng > 0 && r.Chance(50) {
		f := g.gfiles[r.Intn(ng)]
		f2 := g.gfiles[r.Intn(ng)]
		g.w(f, "func Sub__0(a, b int) int {\n\treturn a - b\n}\n\n")
		g.w(f2, "func Sub__1(a, b float64) float64 {\n\treturn a - b\n}\n\n")
		g.w(g.xfiles[r.Intn(nx)], "func useSub() int {\n\treturn Sub(5, %s) + int(Sub(1.5, 0.5))\n}\n\n", g.any(g.consts))
	}
	// init functions
	for _, f := range srcFiles {
		if r.Chance(40) {
			if isGo(f) {
				g.w(f, "func init() {\n\tprintln(%s)\n}\n\n", g.any(g.consts))
			} else if usesFmt[f] {
				g.w(f, "func init() {\n\tfmt.println %s\n}\n\n", g.intExpr("0"))
			} else {
				g.w(f, "func init() {\n\techo %s\n}\n\n", g.intExpr("0"))
			}
		}
	}
	for _, f := range g.xfiles {
		if usesFmt[f] {
			g.w(f, "func fmtUse%d() {\n\tfmt.println \"x\"\n}\n\n", len(f)+int(f[0]))
		}
	}
	// normal class files
	for _, f := range g.cfiles {
		g.w(f, "var (\n\tW, H int\n\tName string\n)\n\n")
		g.w(f, "func Area() int {\n\treturn W*H + %s\n}\n\n", g.intExpr("W"))
		if r.Bool() {
			g.w(f, "func Scale(k int) {\n\tW *= k\n\tH *= k\n}\n\n")
		}
		cls := strings.TrimSuffix(f, ".gox")
		g.w(g.xfiles[r.Intn(nx)], "func new%s() int {\n\tc := &%s{W: 2, H: %s}\n\treturn c.Area()\n}\n\n", cls, cls, g.any(g.consts))
	}
	// spx-like project + work classes (test class kinds of cl/internal/spx, spx2)
	if spx {
		kind := r.Intn(3)
		switch kind {
		case 0, 2:
			if r.Chance(70) {
				g.files["Game.tgmx"] = &strings.Builder{}
				g.w("Game.tgmx", "var (\n\tCount int\n)\n\nfunc onStart() {\n\tCount = %s\n}\n\n", g.intExpr("1"))
			}
			for _, f := range pickFiles(r, []string{"Kai.tspx", "Bar.tspx", "Zed.tspx"}, 1+r.Intn(3)) {
				g.files[f] = &strings.Builder{}
				g.w(f, "var (\n\thp int\n)\n\nfunc onInit() {\n\thp = %s\n\tsay \"hi\"\n}\n\n", g.intExpr("3"))
			}
			if kind == 2 { // a second project kind in the same package
				if r.Chance(85) {
					g.files["main.t2gmx"] = &strings.Builder{}
					g.w("main.t2gmx", "func onB() int {\n\treturn %s\n}\n\n", g.intExpr("2"))
				}
				g.files["Dog.t2spx"] = &strings.Builder{}
				g.w("Dog.t2spx", "func bark() int {\n\treturn %s\n}\n\n", g.intExpr("4"))
			}
		case 1:
			g.files["main.t2gmx"] = &strings.Builder{}
			g.w("main.t2gmx", "func onA() int {\n\treturn %s\n}\n\n", g.intExpr("1"))
			g.files["Cat.t2spx"] = &strings.Builder{}
			g.w("Cat.t2spx", "func meow() int {\n\treturn %s\n}\n\n", g.intExpr("4"))
		}
	}
	// script-style files: statements only, the first one at BYTE 0 of the file (class files: body of
	// Main; one XGo file: body of main); empty files; files that consist of comments only
	if pkgName == "main" {
		for _, f := range pickFiles(r, []string{"Only.gox", "Zz.gox", "Aa.gox", "Mm.gox"}, r.Intn(4)) {
			g.files[f] = &strings.Builder{}
			g.w(f, "echo %s\necho \"%s\"\n", g.intExpr("1"), f)
			if r.Bool() {
				g.w(f, "if %s > 3 {\n\techo %s\n}\n", g.any(g.consts), g.intExpr("2"))
			}
			g.stats["file_script_class"]++
		}
		if !spx && r.Chance(40) {
			f := []string{"script.xgo", "aaa_script.xgo", "zzz.gop"}[r.Intn(3)]
			g.files[f] = &strings.Builder{}
			g.w(f, "echo %s\nfor i <- 0:2 {\n\techo i + %s\n}\n", g.intExpr("1"), g.any(g.consts))
			g.stats["file_script_main"]++
		}
		if r.Chance(25) {
			g.files["empty.xgo"] = &strings.Builder{}
			g.stats["file_empty"]++
		}
		if r.Chance(25) {
			g.files["doc_only.gop"] = &strings.Builder{}
			g.w("doc_only.gop", "// Only a comment.\n\n/* and a\n   block comment */\n")
			g.stats["file_comment_only"]++
		}
	}
	// independent errors in different files / symbols: undefined names, a type mismatch and EVERY kind
	// of redeclaration (type / const / var / func / method / cross-kind), in the declaring file itself
	// or in another XGo / Go / class file
	if withErr {
		all := append(append([]string{}, srcFiles...), g.cfiles...)
		k := 3 + r.Intn(3)
		for i := 0; i < k; i++ {
			f := all[r.Intn(len(all))]
			if r.Chance(30) { // redeclare in the very file of an earlier error: two errors in one file
				f = all[0]
			}
			kind := r.Intn(12)
			switch kind {
			case 0:
				if isGo(f) {
					g.w(f, "type GE%d struct {\n\tx UndefT%d\n}\n\n", i, i)
				} else {
					g.w(f, "func E%d() int {\n\treturn undefV%d\n}\n\n", i, i)
				}
			case 1:
				if isGo(f) {
					g.w(f, "func Ov%d__0(a UndefP%d) {\n}\n\n", i, i)
				} else {
					g.w(f, "var VE%d int = \"str%d\"\n\n", i, i)
				}
			case 2, 3: // function redeclared
				g.w(f, "func %s(a int) int {\n\treturn %d\n}\n\n", g.any(g.funcs), i)
			case 4, 5: // type redeclared
				g.w(f, "type %s struct {\n\tDup%d int\n}\n\n", g.any(allTypes), i)
			case 6: // constant redeclared
				g.w(f, "const %s = %d\n\n", g.any(g.consts), 90+i)
			case 7: // variable redeclared
				if vs := append(append([]string{}, g.vars...), g.arrs...); len(vs) > 0 {
					g.w(f, "var %s int\n\n", vs[r.Intn(len(vs))])
				} else {
					g.w(f, "var %s int\n\n", g.any(g.consts)) // a variable named like a constant
				}
			case 8: // method redeclared (in a file of the right kind)
				if len(g.meths) > 0 {
					m := g.meths[r.Intn(len(g.meths))]
					if strings.HasPrefix(m[0], "G") {
						g.w(typeFile[m[0]], "func (p *%s) %s() int {\n\treturn %d\n}\n\n", m[0], m[1], i)
					} else {
						g.w(g.xfiles[r.Intn(nx)], "func (p *%s) %s(a int) int {\n\treturn %d\n}\n\n", m[0], m[1], i)
					}
				} else {
					g.w(f, "type %s struct {\n\tDup%d int\n}\n\n", g.any(allTypes), i)
				}
			case 9: // cross-kind: a function named like a type, a variable named like a function
				if r.Bool() {
					g.w(f, "func %s() {\n}\n\n", g.any(allTypes))
				} else {
					g.w(f, "var %s = %d\n\n", g.any(g.funcs), i)
				}
			case 10: // the same new name twice in one file
				g.w(f, "type DD%d struct {\n\tA int\n}\n\ntype DD%d struct {\n\tB int\n}\n\n", i, i)
			default:
				if isGo(f) {
					g.w(f, "type GX%d struct {\n\tx *UndefQ%d\n}\n\n", i, i)
				} else {
					g.w(f, "type TE%d struct {\n\tx UndefX%d\n}\n\n", i, i)
				}
			}
			g.stats[fmt.Sprintf("errkind_%02d", kind)]++
			g.nerr++
		}
	}
	c := &pkgCase{ID: id, Kind: "rich", Files: map[string]string{}, NErr: g.nerr, Stats: g.stats}
	c.setConfig(r)
	for f, b := range g.files {
		c.Files[f] = b.String()
	}
	return c
}

// two packages in one directory, none called main
func genTwoPkg(r *vh.Rand, id int) *pkgCase {
	c := &pkgCase{ID: id, Kind: "twopkg", Files: map[string]string{}}
	names := pickFiles(r, []string{"alpha", "beta", "gamma", "delta"}, 2+r.Intn(2))
	for i, n := range names {
		c.Files[fmt.Sprintf("f%d_%s.xgo", r.Intn(9), n)] = fmt.Sprintf("package %s\n\nfunc F%d() int {\n\treturn %d\n}\n", n, i, i)
	}
	return c
}
