// Harness for C21 (formatting keeps every comment, in order).
//
//	-mode search : comment-insertion search on the REAL format.Source (oracle = C21's predicate)
//	-mode queue  : differential cases for the Lean comment-queue model, executed on the REAL
//	               printer methods through printer.VerifQueue (verif-tagged export)
package main

import (
	"bytes"
	"flag"
	"fmt"
	"os"
	"runtime"
	"sort"
	"strconv"
	"strings"
	"sync"
	"sync/atomic"
	"time"

	"verifharness/vh"
)

var (
	flagMode    = flag.String("mode", "queue", "queue|search|gencheck")
	flagExplore = flag.Bool("explore", false, "print a table of failure keys to stderr")
	flagMaxSize = flag.Int("maxsize", 0, "max corpus file size in bytes (0 = tier default)")
	flagBudget  = flag.Duration("budget", 0, "wall-clock budget of the search (0 = tier default)")
)

type job struct {
	s     *source
	style string // asis | allblk | one of styles
	bidx  int    // boundary index (-1 for asis/allblk)
}

type result struct {
	caseLine string
	impl     string
	nontriv  bool
	counts   []string
	oracle   [][3]string // key, replay case line, detail
}

const fmtTimeout = 6 * time.Second

// sources up to this size get every boundary x every style in the thorough tier before anything else
const smallSource = 1200

type prepared struct {
	toks   []tokInfo
	bounds []int
}

var (
	prepMu sync.Mutex
	preps  = map[*source]*prepared{}
)

func prep(s *source) *prepared {
	prepMu.Lock()
	defer prepMu.Unlock()
	if p, ok := preps[s]; ok {
		return p
	}
	toks, _, _, _ := scanAll(s.src)
	p := &prepared{toks: toks, bounds: boundaries(toks)}
	preps[s] = p
	return p
}

func variant(s *source, style string, bidx int) (src []byte, off int, ok bool) {
	switch style {
	case "asis", "shape":
		return s.src, -1, true
	case "allblk":
		p := prep(s)
		var b []byte
		last := 0
		for k, o := range p.bounds {
			b = append(b, s.src[last:o]...)
			b = append(b, styleText("blk", k)...)
			last = o
		}
		b = append(b, s.src[last:]...)
		return b, -1, true
	}
	p := prep(s)
	if bidx < 0 || bidx >= len(p.bounds) {
		return nil, 0, false
	}
	off = p.bounds[bidx]
	switch style {
	case "rich", "ownrich", "indrich":
		return insertAt(s.src, off, richText(style, s.id, bidx)), off, true
	case "uline", "uhash", "ublk", "uown", "ucrlf":
		return insertAt(s.src, off, uniText(style, s.id, bidx)), off, true
	}
	return insertAt(s.src, off, styleText(style, bidx)), off, true
}

func srcCase(s *source, src []byte) string {
	c := "0"
	if s.class {
		c = "1"
	}
	return "src\t" + c + "\t" + s.fname + "\t" + vh.Hex(src)
}

// failureKey: stable classifier = what fails + comment style class + innermost node kind +
// position class (tokens before/after the inserted comment).
func failureKey(v verdict, j job, s *source, src []byte, off int) string {
	if v.what == "invalid-utf8" {
		return "output-invalid-utf8:" + styleClass(j.style)
	}
	if v.what == "panic" || v.what == "hang" || v.what == "error" || v.what == "outscan" {
		d := v.detail
		if v.what == "panic" && (strings.Contains(d, "slice bounds out of range [2:1]") || strings.Contains(d, "index out of range [1] with length 1")) {
			if hasOneByteHash(src) {
				return "printer-hash-1byte"
			}
		}
		if v.what == "error" {
			// message without position
			if i := strings.Index(d, ": "); i >= 0 {
				d = d[i+2:]
			}
		}
		d = strings.Map(func(r rune) rune {
			if r == ' ' || r == '\t' || r == '\n' {
				return '_'
			}
			return r
		}, d)
		if len(d) > 60 {
			d = d[:60]
		}
		return "format-" + v.what + ":" + d
	}
	for _, c := range append(append([]string{}, v.lost...), v.extra...) {
		// the scanner skips the byte after `#`, so an empty `#` comment swallows the next
		// line ("#\nfoo" is ONE comment): scanner defect, keyed separately
		if c == "#" || strings.HasPrefix(c, "#\n") {
			return "scanner-hash-empty"
		}
	}
	if off < 0 {
		return v.what + ":" + j.style
	}
	prev, next := tokensAround(prep(s).toks, off)
	kind := nodeKindAt(s, src, off)
	return v.what + ":" + styleClass(j.style) + ":" + kind + ":" + prev + "_" + next
}

func styleClass(st string) string {
	switch st {
	case "blk", "blk2":
		return "inline-block"
	case "mblk":
		return "multiline-block"
	case "rich", "ownrich", "indrich":
		return "rich-block"
	case "uline", "uhash", "ublk", "uown", "ucrlf":
		return "unicode-text"
	case "line", "hash", "hash1":
		return "line"
	default:
		return "own-line"
	}
}

func hasOneByteHash(src []byte) bool {
	// a `#` immediately followed by a line end (or EOF): the comment text is the one byte "#"
	return bytes.Contains(src, []byte("#\n")) || bytes.Contains(src, []byte("#\r\n")) || bytes.HasSuffix(src, []byte("#"))
}

func runJob(j job) (res result) {
	res.caseLine = fmt.Sprintf("fmt\t%s\t%s\t%d", j.s.id, j.style, j.bidx)
	src, off, ok := variant(j.s, j.style, j.bidx)
	if !ok {
		res.impl = "skip-no-boundary"
		return
	}
	if j.style != "asis" && j.style != "shape" {
		if _, _, err := parseFile(j.s, src); err != nil {
			res.impl = "skip-invalid-variant"
			res.counts = append(res.counts, "variant_invalid_"+j.style)
			return
		}
	}
	v := checkComments(j.s, src, fmtTimeout)
	res.counts = append(res.counts, "variant_valid_"+j.style)
	if v.corr != "" {
		rc := res.caseLine
		if len(src) <= 6000 {
			rc = srcCase(j.s, src)
		}
		res.oracle = append(res.oracle, [3]string{"corr:lexer-vs-scanner", rc, v.corr + " @" + j.s.id + " style=" + j.style + " boundary=" + strconv.Itoa(j.bidx)})
	}
	if j.style == "asis" && strings.HasSuffix(j.s.fname, ".go") {
		// validate the harness' lexer against the Go standard library scanner
		if gc, ok := goScanComments(src); ok {
			mine := lexComments(src)
			same := len(gc) == len(mine)
			for i := 0; same && i < len(gc); i++ {
				same = normComment(gc[i]) == normComment(mine[i].lit)
			}
			res.counts = append(res.counts, "lexer_vs_goscanner_files")
			if !same {
				res.oracle = append(res.oracle, [3]string{"corr:lexer-vs-goscanner", res.caseLine, fmt.Sprintf("go/scanner %d comments, lexer %d @%s", len(gc), len(mine), j.s.id)})
			}
		}
	}
	if v.byDesign != "" && v.ok {
		res.counts = append(res.counts, "bydesign_"+v.byDesign)
	}
	if v.ok {
		res.impl = fmt.Sprintf("ok comments=%d", v.nIn)
		res.nontriv = v.nIn > 0
		if off >= 0 {
			prev, next := tokensAround(prep(j.s).toks, off)
			res.counts = append(res.counts, "pos_"+prev+"_"+next)
		}
		return
	}
	key := failureKey(v, j, j.s, src, off)
	res.impl = "FAIL " + key
	res.nontriv = true
	rc := res.caseLine
	if len(src) <= 6000 {
		rc = srcCase(j.s, src)
	}
	res.oracle = append(res.oracle, [3]string{key, rc, v.what + " " + v.detail + " @" + j.s.id + " style=" + j.style + " boundary=" + strconv.Itoa(j.bidx)})
	return
}

func runAll(jobs []job, o *vh.Out, deadline time.Time) (done int) {
	results := make([]*result, len(jobs))
	var wg sync.WaitGroup
	idx := make(chan int, 256)
	nw := runtime.NumCPU()
	if nw > 16 {
		nw = 16
	}
	for w := 0; w < nw; w++ {
		wg.Add(1)
		go func() {
			defer wg.Done()
			for i := range idx {
				r := runJob(jobs[i])
				results[i] = &r
			}
		}()
	}
	for i := range jobs {
		if !deadline.IsZero() && i%64 == 0 && time.Now().After(deadline) {
			break
		}
		if atomic.LoadInt32(&hung) != 0 {
			break // a formatter call hangs (and may allocate without bound): stop, report, exit
		}
		idx <- i
	}
	close(idx)
	wg.Wait()
	for _, r := range results {
		if r == nil {
			o.Count("jobs_dropped_by_budget")
			continue
		}
		done++
		for _, c := range r.counts {
			o.Count(c)
		}
		for _, f := range r.oracle {
			o.Oracle(f[0], f[1], f[2])
		}
		o.Case(r.caseLine, r.impl, r.nontriv)
	}
	return
}

func replay(line string, o *vh.Out) {
	fs := strings.Fields(strings.ReplaceAll(line, "\t", " "))
	if len(fs) == 0 {
		return
	}
	switch fs[0] {
	case "src":
		if len(fs) < 4 {
			fmt.Println("bad src replay line")
			return
		}
		b, _ := vh.UnHex(fs[3])
		s := &source{id: "replay", fname: fs[2], class: fs[1] == "1", src: b}
		if _, _, err := parseFile(s, b); err != nil {
			fmt.Println("input does not parse:", err)
			o.Case(line, "skip-invalid-variant", false)
			return
		}
		v := checkComments(s, b, fmtTimeout)
		r := runFormat(s, b, fmtTimeout)
		fmt.Printf("INPUT:\n%s\nOUTPUT:\n%s\nverdict ok=%v what=%s %s\n", b, r.out, v.ok, v.what, v.detail)
		if !v.ok {
			key := failureKey(v, job{s: s, style: "asis", bidx: -1}, s, b, -1)
			o.Oracle(key, line, v.what+" "+v.detail)
			o.Case(line, "FAIL "+key, true)
		} else {
			o.Case(line, "ok", true)
		}
	case "fmt":
		if len(fs) < 4 {
			return
		}
		bidx, _ := strconv.Atoi(fs[3])
		var all []*source
		if strings.HasPrefix(fs[1], "gen:") {
			p := strings.Split(fs[1], ":")
			seed, _ := strconv.ParseUint(p[1], 10, 64)
			i, _ := strconv.Atoi(p[2])
			all = []*source{genSource(seed, i)}
		} else {
			all = allSources(1<<30, 0, 0)
		}
		for _, s := range all {
			if s.id == fs[1] {
				r := runJob(job{s: s, style: fs[2], bidx: bidx})
				for _, f := range r.oracle {
					o.Oracle(f[0], f[1], f[2])
				}
				o.Case(r.caseLine, r.impl, r.nontriv)
				if src, _, ok := variant(s, fs[2], bidx); ok {
					out := runFormat(s, src, fmtTimeout)
					fmt.Printf("INPUT:\n%s\nOUTPUT:\n%s\n", src, out.out)
				}
				fmt.Println(r.impl)
				return
			}
		}
		fmt.Println("source not found:", fs[1])
	case "queue":
		runQueueCase(strings.Join(fs, "\t"), o)
	}
}

var embedDirs = []string{"cl", "parser", "printer", "format", "x/format", "x/typesutil", "x/build", "cl/internal/typesalias", "tool", "scanner", "ast", "doc"}

func allSources(maxSize int, seed uint64, ngen int) []*source {
	root := repoRoot()
	res := savedCorpus()
	res = append(res, corpusFiles(root, maxSize)...)
	res = append(res, embeddedSources(root, embedDirs, maxSize)...)
	for i := 0; i < ngen; i++ {
		res = append(res, genSource(seed, i))
	}
	return res
}

func genSource(seed uint64, i int) *source {
	p, class := genProgram(vh.NewRand(seed).Fork(i))
	fname := "gen.xgo"
	if class {
		fname = "gen.gox"
	}
	return &source{id: fmt.Sprintf("gen:%d:%d", seed, i), fname: fname, class: class, src: []byte(p)}
}

func search(f *vh.Flags, o *vh.Out) {
	thorough := f.Tier == "thorough"
	maxSize := 40000
	budget := 50 * time.Second
	ngen := 150
	if thorough {
		maxSize = 400000
		budget = 11 * time.Minute
		ngen = 800
	}
	if *flagMaxSize > 0 {
		maxSize = *flagMaxSize
	}
	if *flagBudget > 0 {
		budget = *flagBudget
	}
	start := time.Now()
	deadline := start.Add(budget)
	cands := allSources(maxSize, f.Seed, ngen)
	// keep the sources that are valid (parse) — checked in parallel
	valid := make([]bool, len(cands))
	{
		var wg sync.WaitGroup
		sem := make(chan struct{}, runtime.NumCPU())
		for i := range cands {
			wg.Add(1)
			sem <- struct{}{}
			go func(i int) {
				defer wg.Done()
				valid[i] = parses(cands[i])
				<-sem
			}(i)
		}
		wg.Wait()
	}
	var srcs []*source
	for i, s := range cands {
		kind := "file"
		switch {
		case strings.HasPrefix(s.id, "gen:"):
			kind = "generated"
		case strings.Contains(s.id, "#lit"):
			kind = "embedded"
		}
		if valid[i] {
			srcs = append(srcs, s)
			o.Count("sources_valid_" + kind)
		} else {
			o.Count("sources_unparsable_" + kind)
		}
	}
	// phase 0: exhaustive small scope of multi-line block-comment shapes x hosts
	var jobs []job
	for _, s := range shapeSources(thorough) {
		jobs = append(jobs, job{s, "shape", -1})
	}
	o.Stats["block_comment_shapes"] = len(jobs)
	us := uniSources()
	for _, s := range us {
		jobs = append(jobs, job{s, "shape", -1})
	}
	o.Stats["unicode_text_sources"] = len(us)
	runAll(jobs, o, time.Time{})
	if atomic.LoadInt32(&hung) != 0 {
		return
	}
	jobs = nil
	// phase 1: every source as is + all-boundaries block-comment variant
	for _, s := range srcs {
		jobs = append(jobs, job{s, "asis", -1}, job{s, "allblk", -1})
	}
	runAll(jobs, o, time.Time{})
	if atomic.LoadInt32(&hung) != 0 {
		return
	}
	// phase 2: single insertions
	jobs = jobs[:0]
	r := vh.NewRand(f.Seed ^ 0xC21)
	if thorough {
		// every boundary x every style for sources up to 6000 bytes, sampled beyond
		for _, s := range srcs {
			nb := len(prep(s).bounds)
			for _, st := range styles {
				if st == "hash1" {
					continue
				}
				step := 1
				if len(s.src) > 6000 {
					step = 1 + nb/150
				}
				for b := r.Intn(step); b < nb; b += step {
					jobs = append(jobs, job{s, st, b})
				}
			}
		}
		// small sources first (their boundaries are enumerated completely), then the rest;
		// each part deterministically shuffled so that a budget cut drops a uniform sample
		var small, rest []job
		for _, j := range jobs {
			if len(j.s.src) <= smallSource {
				small = append(small, j)
			} else {
				rest = append(rest, j)
			}
		}
		for _, part := range [][]job{small, rest} {
			for i := len(part) - 1; i > 0; i-- {
				k := r.Intn(i + 1)
				part[i], part[k] = part[k], part[i]
			}
		}
		jobs = append(small, rest...)
		o.Stats["single_insertions_planned_small_sources"] = len(small)
	} else {
		// sampled: weight small sources (all XGo syntax) over large .go files
		var pool []*source
		for _, s := range srcs {
			w := 1
			if !strings.HasSuffix(s.fname, ".go") {
				w = 4
			}
			for i := 0; i < w; i++ {
				pool = append(pool, s)
			}
		}
		for i := 0; i < f.N && len(pool) > 0; i++ {
			rr := r.Fork(i)
			s := pool[rr.Intn(len(pool))]
			nb := len(prep(s).bounds)
			st := styles[rr.Intn(len(styles))]
			if rr.Chance(30) {
				st = richStyles[rr.Intn(len(richStyles))]
			} else if rr.Chance(25) {
				st = uniStyles[rr.Intn(len(uniStyles))]
			}
			if st == "hash1" && !rr.Chance(10) {
				st = "hash"
			}
			jobs = append(jobs, job{s, st, rr.Intn(nb)})
		}
	}
	done := runAll(jobs, o, deadline)
	o.Stats["single_insertions_planned"] = len(jobs)
	o.Stats["single_insertions_run"] = done
	o.Stats["search_seconds"] = int(time.Since(start).Seconds())
}

func main() {
	f := vh.ParseFlags()
	o := vh.NewOut(f.Out)
	o.Samples = []string{} // never null in stats.json (a run cut short by a hang has no samples)
	defer o.Close()
	if f.Replay != "" {
		replay(f.Replay, o)
		return
	}
	switch *flagMode {
	case "search":
		search(f, o)
	case "gencheck":
		bad := map[string]int{}
		for i := 0; i < f.N; i++ {
			s := genSource(f.Seed, i)
			if _, _, err := parseFile(s, s.src); err != nil {
				m := err.Error()
				if k := strings.Index(m, ": "); k >= 0 {
					m = m[k+2:]
				}
				bad[m]++
				if bad[m] == 1 {
					fmt.Printf("---- %s\n%s\n", err, s.src)
				}
			}
		}
		for m, n := range bad {
			fmt.Printf("%5d %s\n", n, m)
		}
	default:
		queueCases(f, o)
	}
	if *flagExplore {
		explore(f.Out)
	}
	if atomic.LoadInt32(&hung) != 0 {
		o.Close()
		os.Exit(0) // kills the goroutine(s) still looping inside the code under test
	}
}

func explore(dir string) {
	b, _ := os.ReadFile(dir + "/oracle.txt")
	m := map[string]int{}
	ex := map[string]string{}
	for _, l := range strings.Split(string(b), "\n") {
		p := strings.SplitN(l, "\t", 3)
		if len(p) == 3 {
			m[p[0]]++
			ex[p[0]] = p[2]
		}
	}
	keys := make([]string, 0, len(m))
	for k := range m {
		keys = append(keys, k)
	}
	sort.Strings(keys)
	for _, k := range keys {
		fmt.Fprintf(os.Stderr, "%6d %s\t%s\n", m[k], k, ex[k])
	}
}
