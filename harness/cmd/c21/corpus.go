package main

import (
	goast "go/ast"
	goparser "go/parser"
	gotoken "go/token"
	"os"
	"path/filepath"
	"sort"
	"strconv"
	"strings"

	"github.com/goplus/xgo/parser"
	"github.com/goplus/xgo/token"
)

// A source is one file-shaped input of format.Source.
type source struct {
	id    string // stable identifier: repo-relative path, path#lit<N>, gen:<seed>:<i>, corpus:<name>
	fname string // file name passed to format.Source (decides nothing but error messages / fset)
	class bool   // parse as class file (parser.ParseGoPlusClass)
	src   []byte
}

func repoRoot() string {
	if r := os.Getenv("VERIF_REPO"); r != "" {
		return r
	}
	return "/repo"
}

// classExt mirrors cmd/internal/gopfmt: .go/.xgo/.gop are normal files, every other
// XGo extension in the tree is a class file.
func classExt(ext string) (ok, class bool) {
	switch ext {
	case ".go", ".xgo", ".gop":
		return true, false
	case ".gox", ".spx", ".gmx", ".gsh", ".tspx", ".tgmx", ".yap", ".rdx":
		return true, true
	}
	return false, false
}

func parses(s *source) bool {
	defer func() { recover() }()
	mode := parser.ParseComments
	if s.class {
		mode |= parser.ParseGoPlusClass
	}
	_, err := parser.ParseFile(token.NewFileSet(), s.fname, s.src, mode)
	return err == nil
}

// corpusFiles lists every source file of the tree under test (sorted by path) that parses.
func corpusFiles(root string, maxSize int) (res []*source) {
	var paths []string
	filepath.Walk(root, func(p string, fi os.FileInfo, err error) error {
		if err != nil {
			return nil
		}
		if fi.IsDir() {
			if n := fi.Name(); n == ".git" || n == "node_modules" {
				return filepath.SkipDir
			}
			return nil
		}
		if ok, _ := classExt(filepath.Ext(p)); ok && fi.Size() <= int64(maxSize) {
			paths = append(paths, p)
		}
		return nil
	})
	sort.Strings(paths)
	for _, p := range paths {
		b, err := os.ReadFile(p)
		if err != nil {
			continue
		}
		rel, _ := filepath.Rel(root, p)
		_, class := classExt(filepath.Ext(p))
		res = append(res, &source{id: rel, fname: filepath.Base(p), class: class, src: b})
	}
	return
}

// embeddedSources extracts the raw string literals of the _test.go files of the given
// directories (the repo's own XGo test programs) that contain a newline.
func embeddedSources(root string, dirs []string, maxSize int) (res []*source) {
	for _, d := range dirs {
		ents, err := os.ReadDir(filepath.Join(root, d))
		if err != nil {
			continue
		}
		for _, e := range ents {
			if e.IsDir() || !strings.HasSuffix(e.Name(), "_test.go") {
				continue
			}
			p := filepath.Join(root, d, e.Name())
			f, err := goparser.ParseFile(gotoken.NewFileSet(), p, nil, 0)
			if err != nil {
				continue
			}
			n := 0
			goast.Inspect(f, func(nd goast.Node) bool {
				lit, ok := nd.(*goast.BasicLit)
				if !ok || lit.Kind != gotoken.STRING || !strings.HasPrefix(lit.Value, "`") {
					return true
				}
				n++
				s := lit.Value[1 : len(lit.Value)-1]
				if !strings.Contains(s, "\n") || len(s) > maxSize || len(s) < 8 {
					return true
				}
				res = append(res, &source{id: filepath.Join(d, e.Name()) + "#lit" + strconv.Itoa(n),
					fname: "lit.xgo", src: []byte(s)})
				return true
			})
		}
	}
	return
}

// minimised past failures kept under /verif/corpus/C21 (read first).
func savedCorpus() (res []*source) {
	dir := os.Getenv("VERIF_CORPUS")
	if dir == "" {
		dir = "/verif/corpus/C21"
	}
	ents, _ := os.ReadDir(dir)
	for _, e := range ents {
		if ok, class := classExt(filepath.Ext(e.Name())); ok {
			b, err := os.ReadFile(filepath.Join(dir, e.Name()))
			if err == nil {
				res = append(res, &source{id: "corpus:" + e.Name(), fname: e.Name(), class: class, src: b})
			}
		}
	}
	return
}
