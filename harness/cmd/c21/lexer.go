package main

import (
	goscanner "go/scanner"
	gotoken "go/token"
)

// lexComments extracts the comments from RAW source bytes with a lexer that is independent
// of the scanner of the tree under test: it only knows where literals and comments start
// and end.
//
//	"…"   interpreted string (also c"…", py"…", and strings with ${…}): ends at the first
//	      unescaped '"' or at the line end (unterminated)
//	`…`   raw string / domain text: ends at the next '`'
//	'…'   rune literal: ends at the first unescaped '\'' or at the line end
//	//…   line comment up to (not including) the line feed
//	/*…*/ block comment (unterminated: up to EOF)
//	#…    XGo line comment; as in the real scanner "#*" opens a block comment that ends at "*/"
//
// The text is the raw byte slice; '\r' handling is left to the normalisation (the real
// scanner strips carriage returns from comment texts by design).
func lexComments(src []byte) (res []tokInfo) {
	n := len(src)
	i := 0
	for i < n {
		c := src[i]
		switch {
		case c == '"':
			i++
			for i < n && src[i] != '"' && src[i] != '\n' {
				if src[i] == '\\' && i+1 < n && src[i+1] != '\n' {
					i++
				}
				i++
			}
			if i < n && src[i] == '"' {
				i++
			}
		case c == '`':
			i++
			for i < n && src[i] != '`' {
				i++
			}
			i++
		case c == '\'':
			i++
			for i < n && src[i] != '\'' && src[i] != '\n' {
				if src[i] == '\\' && i+1 < n && src[i+1] != '\n' {
					i++
				}
				i++
			}
			if i < n && src[i] == '\'' {
				i++
			}
		case c == '/' && i+1 < n && src[i+1] == '/', c == '#' && !(i+1 < n && src[i+1] == '*'):
			j := i
			for j < n && src[j] != '\n' {
				j++
			}
			res = append(res, tokInfo{off: i, lit: string(src[i:j])})
			i = j
		case c == '/' && i+1 < n && src[i+1] == '*', c == '#' && i+1 < n && src[i+1] == '*':
			j := i + 2
			for j < n && !(src[j-1] == '*' && src[j] == '/' && j-1 >= i+2) {
				j++
			}
			if j < n {
				j++
			}
			res = append(res, tokInfo{off: i, lit: string(src[i:j])})
			i = j
		default:
			i++
		}
	}
	return
}

// goScanComments: the comments according to the Go standard library scanner (reference for
// validating lexComments on Go-compatible sources).
func goScanComments(src []byte) (res []string, ok bool) {
	defer func() {
		if recover() != nil {
			ok = false
		}
	}()
	fset := gotoken.NewFileSet()
	f := fset.AddFile("", fset.Base(), len(src))
	var s goscanner.Scanner
	nerr := 0
	s.Init(f, src, func(gotoken.Position, string) { nerr++ }, goscanner.ScanComments)
	for {
		_, tok, lit := s.Scan()
		if tok == gotoken.EOF {
			break
		}
		if tok == gotoken.COMMENT {
			res = append(res, lit)
		}
	}
	return res, nerr == 0
}
