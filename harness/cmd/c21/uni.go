package main

import (
	"fmt"
	"strings"

	"verifharness/vh"
)

// Comment TEXT generator: non-ASCII text covering every class of last byte (0x80–0xBF
// continuation bytes of 2/3/4-byte runes, incl. 0x85 and 0xA0 which are white space as
// Latin-1 code points), combining marks, NBSP / NEL / U+2028 / U+2029 as real characters,
// trailing blanks/tabs/Unicode white space before the line end (the printer trims trailing
// white-space CHARACTERS by design: the oracle's normalisation trims whole runes only),
// interior '\r', "\r\r\n" line ends, form feed / vertical tab / other NUL-free control
// characters, very long lines.

// runeWithLastByte: a letter-like rune of the given UTF-8 width whose last byte is b.
func runeWithLastByte(width int, b byte) string {
	d := rune(b - 0x80)
	switch width {
	case 2:
		return string(rune(0x400) + d) // D0 80..BF (Cyrillic)
	case 22:
		return string(rune(0xC0) + d) // C3 80..BF (Latin-1 letters)
	case 3:
		return string(rune(0x4E00) + d) // E4 B8 80..BF (CJK)
	default:
		return string(rune(0x1F600) + d) // F0 9F 98 80..BF
	}
}

var uniInterior = []string{
	"\u00e9", "\u00df", "\u0445", "\u00e0", "\u00c5", "\u0105", "\u0160", "\u52a0", "\u8a9e", "\U0001F600", "e\u0301", "a\u0323\u0308",
	"\u00a0", "\u0085", "\u2028", "\u2029", "\u3000", "\ufeff",
	"\t", "  ", "\f", "\v", "\x01", "\x1b", "\x7f", "\r", "\r\r", " ", "-", "x", "/", "*", "/ *", "\\", "\"", "'", "`", "${x}", "#", "//",
}

var uniTrailingWS = []string{"", "", "", " ", "\t", " \t ", "\u00a0", "\u0085", "\u2028", "\f", "  \t", "\u3000"}

// uniLine: one comment line (no line feed, no "*/").
func uniLine(r *vh.Rand, tag string) string {
	var sb strings.Builder
	sb.WriteString(tag)
	n := r.Intn(6)
	for i := 0; i < n; i++ {
		sb.WriteString(uniInterior[r.Intn(len(uniInterior))])
		if r.Chance(50) {
			sb.WriteString("w")
		}
	}
	if r.Chance(4) {
		sb.WriteString(strings.Repeat("long-é", 400+r.Intn(600)))
	}
	// last character: every last-byte class
	switch r.Intn(6) {
	case 0:
		sb.WriteString("z")
	case 1:
		sb.WriteString("é")
	default:
		w := []int{2, 22, 3, 4}[r.Intn(4)]
		b := byte(0x80 + r.Intn(0x40))
		if r.Chance(35) {
			b = []byte{0x85, 0xA0}[r.Intn(2)]
		}
		sb.WriteString(runeWithLastByte(w, b))
	}
	sb.WriteString(uniTrailingWS[r.Intn(len(uniTrailingWS))])
	s := sb.String()
	s = strings.ReplaceAll(s, "*/", "* /")
	return s
}

var uniStyles = []string{"uline", "uhash", "ublk", "uown", "ucrlf"}

// uniText: the comment inserted by the u* styles at boundary bidx of source id.
func uniText(style, id string, bidx int) string {
	r := richRand("u"+id, bidx)
	tag := fmt.Sprintf("U%d ", bidx)
	switch style {
	case "uline":
		return "//" + uniLine(r, tag) + "\n"
	case "uhash":
		return "# " + uniLine(r, tag) + "\n"
	case "uown":
		return "\n// " + uniLine(r, tag) + "\n// " + uniLine(r, tag) + "\n"
	case "ucrlf":
		return "//" + uniLine(r, tag) + r.Pick([]string{"\r\n", "\r\r\n", "\r\n"})
	default: // ublk
		ind := r.Pick([]string{"", " ", "\t", "   "})
		s := "/*" + uniLine(r, tag)
		for i, n := 0, r.Intn(3); i < n; i++ {
			s += "\n" + ind + uniLine(r, r.Pick([]string{"", "* ", tag}))
		}
		if r.Chance(50) {
			return s + "\n" + ind + uniLine(r, "end ") + "*/"
		}
		return s + "\n" + ind + "*/"
	}
}

// uniSources: exhaustive small scope — every last byte 0x80..0xBF x 4 rune shapes x comment
// forms x 2 hosts, as whole sources.
func uniSources() (res []*source) {
	hosts := []string{"%s\nx := 1\n", "func f() {\n\ty := 2 %s\n\t_ = y\n}\n"}
	k := 0
	for b := 0x80; b <= 0xBF; b++ {
		for _, w := range []int{2, 22, 3, 4} {
			ch := runeWithLastByte(w, byte(b))
			forms := []string{
				"// ends with " + ch,
				"# ends with " + ch,
				"/* first " + ch + "\n   mid " + ch + "\n   last " + ch + " */",
				"/* a" + ch + "\n * b" + ch + "\n */",
			}
			for _, f := range forms {
				for h, host := range hosts {
					k++
					res = append(res, &source{id: fmt.Sprintf("uni:%02x:%d:%d:%d", b, w, k, h), fname: "uni.xgo",
						src: []byte(fmt.Sprintf(host, f))})
				}
			}
		}
	}
	// carriage returns, control characters, white-space runes, long lines
	extra := []string{
		"x := 1 // see a\rb\n", "x := 1 # see a\rb\n", "x := 1 // a\r\r\ny := 2\n", "x := 1 // crlf\r\ny := 2 /* a\r\n b */\r\n",
		"// nbsp\u00a0inside\u00a0\nx := 1\n", "// nel\u0085inside\nx := 1\n", "// ls\u2028ps\u2029x\nx := 1\n",
		"// ff\fvt\vesc\x1bdel\x7fsoh\x01.\nx := 1\n", "/* ff\f\n vt\v */\nx := 1\n",
		"// " + strings.Repeat("very long é ", 1500) + "\nx := 1\n",
		"/*" + strings.Repeat("very long 加 ", 1500) + "\n" + strings.Repeat("x", 3000) + " */\nx := 1\n",
		"x := 1 // é\ny := \"// no comment\" // yes\nz := '\"' // q\nw := `# raw\n// raw` // after raw\n",
	}
	for i, e := range extra {
		res = append(res, &source{id: fmt.Sprintf("uni:extra:%d", i), fname: "uni.xgo", src: []byte(e)})
	}
	return
}
