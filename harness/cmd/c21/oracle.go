package main

import (
	"fmt"
	"reflect"
	"sort"
	"strings"
	"sync/atomic"
	"time"
	"unicode"
	"unicode/utf8"

	"github.com/goplus/xgo/ast"
	"github.com/goplus/xgo/format"
	"github.com/goplus/xgo/parser"
	"github.com/goplus/xgo/scanner"
	"github.com/goplus/xgo/token"
)

type tokInfo struct {
	off int
	tok token.Token
	lit string
}

// scanAll runs the REAL scanner (comment mode) over src: the non-comment tokens (incl.
// automatically inserted semicolons and EOF) and the comments, in order.
func scanAll(src []byte) (toks []tokInfo, comments []tokInfo, nerr int, panicked bool) {
	defer func() {
		if e := recover(); e != nil {
			panicked = true
		}
	}()
	fset := token.NewFileSet()
	f := fset.AddFile("", fset.Base(), len(src))
	var s scanner.Scanner
	s.Init(f, src, func(token.Position, string) {}, scanner.ScanComments)
	for i := 0; i < len(src)+8; i++ {
		pos, tok, lit := s.Scan()
		ti := tokInfo{off: f.Offset(pos), tok: tok, lit: lit}
		if tok == token.COMMENT {
			comments = append(comments, ti)
		} else {
			toks = append(toks, ti)
		}
		if tok == token.EOF {
			break
		}
	}
	return toks, comments, s.ErrorCount, false
}

// normComment is the normalisation under which comment texts are compared.  It removes
// exactly what the printer changes by design (writeComment / stripCommonPrefix):
//   - trailing white space of every comment line (trimRight),
//   - leading white space of the 2nd.. lines of a /*-comment (re-indentation; incl. the
//     " */" alignment of a line of stars),
//   - '\r' (already stripped by the scanner).
// `#` comments are printed verbatim (no `#` -> `//` rewriting happens), so nothing else.
func normComment(t string) string {
	t = strings.ReplaceAll(t, "\r", "")
	if len(t) >= 2 && t[0] == '/' && t[1] == '*' {
		lines := strings.Split(t, "\n")
		for i, l := range lines {
			l = strings.TrimRightFunc(l, unicode.IsSpace)
			if i > 0 {
				l = strings.TrimLeftFunc(l, unicode.IsSpace)
			}
			lines[i] = l
		}
		return strings.Join(lines, "\n")
	}
	return strings.TrimRightFunc(t, unicode.IsSpace)
}

func normSeq(cs []tokInfo) []string {
	r := make([]string, len(cs))
	for i, c := range cs {
		r[i] = normComment(c.lit)
	}
	return r
}

type fmtResult struct {
	out      []byte
	err      error
	panicMsg string
	hang     bool
}

// runFormat calls the REAL format.Source (class-file variant when s.class) with a timeout.
func runFormat(s *source, src []byte, timeout time.Duration) fmtResult {
	ch := make(chan fmtResult, 1)
	go func() {
		var r fmtResult
		defer func() {
			if e := recover(); e != nil {
				r.panicMsg = fmt.Sprint(e)
			}
			ch <- r
		}()
		r.out, r.err = format.Source(src, s.class, s.fname)
	}()
	select {
	case r := <-ch:
		return r
	case <-time.After(timeout):
		atomic.StoreInt32(&hung, 1)
		return fmtResult{hang: true}
	}
}

func parseFile(s *source, src []byte) (f *ast.File, fset *token.FileSet, err error) {
	defer func() {
		if e := recover(); e != nil {
			err = fmt.Errorf("parser panic: %v", e)
		}
	}()
	mode := parser.ParseComments
	if s.class {
		mode |= parser.ParseGoPlusClass
	}
	fset = token.NewFileSet()
	f, err = parser.ParseFile(fset, s.fname, src, mode)
	return
}

// importRanges: the (lparen,rparen) byte ranges of parenthesised import declarations, found
// on the token stream (`import` `(` … matching `)`), so that it also works on an output that
// does not parse.  ast.SortImports (called by format.Source, property C23) reorders import
// specs together with their comments inside these ranges: by design, not a C21 matter.
func importRanges(toks []tokInfo) (r [][2]int) {
	for i := 0; i+1 < len(toks); i++ {
		if toks[i].tok != token.IMPORT || toks[i+1].tok != token.LPAREN {
			continue
		}
		depth := 0
		for k := i + 1; k < len(toks); k++ {
			if toks[k].tok == token.LPAREN {
				depth++
			} else if toks[k].tok == token.RPAREN {
				depth--
				if depth == 0 {
					r = append(r, [2]int{toks[i+1].off, toks[k].off})
					i = k
					break
				}
			}
		}
	}
	return
}

func inRanges(off int, rs [][2]int) bool {
	for _, r := range rs {
		if off > r[0] && off < r[1] {
			return true
		}
	}
	return false
}

func splitByRanges(cs []tokInfo, rs [][2]int) (inside, outside []string) {
	for _, c := range cs {
		if inRanges(c.off, rs) {
			inside = append(inside, normComment(c.lit))
		} else {
			outside = append(outside, normComment(c.lit))
		}
	}
	return
}

func eqSeq(a, b []string) bool {
	if len(a) != len(b) {
		return false
	}
	for i := range a {
		if a[i] != b[i] {
			return false
		}
	}
	return true
}

func multisetDiff(a, b []string) (onlyA, onlyB []string) {
	m := map[string]int{}
	for _, x := range a {
		m[x]++
	}
	for _, x := range b {
		if m[x] > 0 {
			m[x]--
		} else {
			onlyB = append(onlyB, x)
		}
	}
	m2 := map[string]int{}
	for _, x := range b {
		m2[x]++
	}
	for _, x := range a {
		if m2[x] > 0 {
			m2[x]--
		} else {
			onlyA = append(onlyA, x)
		}
	}
	return
}

// verdict of the property predicate on one (input, output) pair.
type verdict struct {
	ok       bool
	what     string   // lost | dup | altered | reordered | panic | hang | error | outscan
	lost     []string // comments of the input missing from the output
	extra    []string // comments of the output not in the input
	nIn      int
	detail   string
	byDesign string // non-empty: mismatch explained by import sorting
	corr     string // non-empty: the harness' raw-source lexer and the real scanner read different comments
}

// checkComments evaluates C21 on the real formatter for the (valid) source src.
func checkComments(s *source, src []byte, timeout time.Duration) verdict {
	inT, inC, _, inPanic := scanAll(src)
	if inPanic {
		return verdict{ok: true, detail: "input-scan-panic"} // not a valid source for C21 (C15's matter)
	}
	r := runFormat(s, src, timeout)
	switch {
	case r.hang:
		return verdict{what: "hang", nIn: len(inC), detail: "format.Source did not return in " + timeout.String()}
	case r.panicMsg != "":
		return verdict{what: "panic", nIn: len(inC), detail: r.panicMsg}
	case r.err != nil:
		return verdict{what: "error", nIn: len(inC), detail: r.err.Error()}
	}
	outT, outC, _, outPanic := scanAll(r.out)
	if outPanic {
		return verdict{what: "outscan", nIn: len(inC), detail: "scanner panics on the formatted output"}
	}
	// The reference list of the input's comments comes from the RAW source via the
	// harness' own lexer (lexer.go), not from the scanner of the tree under test (a scanner
	// that drops comment bytes would hide the loss on both sides); the output is read the
	// same way.  Agreement of the two readers is a correspondence check (corr), not part of
	// the property.
	inRef, outRef := lexComments(src), lexComments(r.out)
	corr := ""
	if x, y := normSeq(inRef), normSeq(inC); !eqSeq(x, y) {
		l, e := multisetDiff(x, y)
		corr = fmt.Sprintf("input: raw-source lexer %d comments, real scanner %d; only-lexer=%q only-scanner=%q", len(x), len(y), trunc(l, 3), trunc(e, 3))
	} else if x, y := normSeq(outRef), normSeq(outC); !eqSeq(x, y) {
		l, e := multisetDiff(x, y)
		corr = fmt.Sprintf("output: raw-source lexer %d comments, real scanner %d; only-lexer=%q only-scanner=%q", len(x), len(y), trunc(l, 3), trunc(e, 3))
	}
	inC, outC = inRef, outRef
	if utf8.Valid(src) && !utf8.Valid(r.out) {
		return verdict{what: "invalid-utf8", nIn: len(inC), corr: corr, detail: "input is valid UTF-8, formatted output is not"}
	}
	a, b := normSeq(inC), normSeq(outC)
	if eqSeq(a, b) {
		return verdict{ok: true, nIn: len(inC), corr: corr}
	}
	// import sorting: compare comments inside parenthesised import declarations as a
	// multiset, the others as a sequence.
	byDesign := ""
	if ri, ro := importRanges(inT), importRanges(outT); len(ri) > 0 {
		inI, inO := splitByRanges(inC, ri)
		outI, outO := splitByRanges(outC, ro)
		sort.Strings(inI)
		sort.Strings(outI)
		if eqSeq(inO, outO) && eqSeq(inI, outI) {
			return verdict{ok: true, nIn: len(inC), byDesign: "import-sort", corr: corr}
		}
	}
	lost, extra := multisetDiff(a, b)
	v := verdict{nIn: len(inC), lost: lost, extra: extra, byDesign: byDesign, corr: corr}
	switch {
	case len(lost) == 0 && len(extra) == 0:
		v.what = "reordered"
	case len(lost) > 0 && len(extra) == 0:
		v.what = "lost"
	case len(lost) == 0 && len(extra) > 0:
		v.what = "dup"
	default:
		v.what = "altered"
	}
	// only white space changed inside the comments (beyond the forgiven line-edge white
	// space)?  Then non-blank text is intact: keyed apart from real text loss.
	if l2, e2 := multisetDiff(stripWS(a), stripWS(b)); len(l2) == 0 && len(e2) == 0 && v.what != "reordered" {
		v.what = "ws-" + v.what
	}
	v.detail = fmt.Sprintf("lost=%q extra=%q", trunc(lost, 4), trunc(extra, 4))
	return v
}

func stripWS(xs []string) []string {
	r := make([]string, len(xs))
	for i, x := range xs {
		r[i] = strings.Join(strings.FieldsFunc(x, unicode.IsSpace), "")
	}
	return r
}

func trunc(xs []string, n int) []string {
	if len(xs) > n {
		xs = xs[:n]
	}
	r := make([]string, len(xs))
	for i, x := range xs {
		if len(x) > 60 {
			x = x[:60] + "…"
		}
		r[i] = x
	}
	return r
}

// ---- comment insertion at token boundaries -------------------------------------

var styles = []string{"blk", "line", "mblk", "hash", "own", "ownblk", "free", "doc2", "blk2", "hash1", "ownhash", "rich", "ownrich", "indrich"}
var richStyles = []string{"rich", "ownrich", "indrich"}

func init() { styles = append(styles, uniStyles...) }

func styleText(style string, k int) string {
	switch style {
	case "blk":
		return fmt.Sprintf("/*C%d*/", k)
	case "line":
		return fmt.Sprintf("//C%d\n", k)
	case "mblk":
		return fmt.Sprintf("/*C%d\n  c%d*/", k, k)
	case "hash":
		return fmt.Sprintf("#C%d\n", k)
	case "own":
		return fmt.Sprintf("\n//C%d\n", k)
	case "ownblk":
		return fmt.Sprintf("\n/*C%d*/\n", k)
	case "free":
		return fmt.Sprintf("\n\n//C%d\n\n", k)
	case "doc2":
		return fmt.Sprintf("\n//C%da\n//C%db\n", k, k)
	case "blk2":
		return fmt.Sprintf("/*C%da*//*C%db*/", k, k)
	case "hash1":
		return "#\n"
	case "ownhash":
		return fmt.Sprintf("\n#C%d\n", k)
	}
	panic("bad style " + style)
}

func insertAt(src []byte, off int, text string) []byte {
	r := make([]byte, 0, len(src)+len(text))
	r = append(r, src[:off]...)
	r = append(r, text...)
	return append(r, src[off:]...)
}

// boundaries: the distinct start offsets of the non-comment tokens (incl. auto semicolons, EOF).
func boundaries(toks []tokInfo) []int {
	var r []int
	for _, t := range toks {
		if len(r) == 0 || r[len(r)-1] != t.off {
			r = append(r, t.off)
		}
	}
	return r
}

// tokensAround: kinds of the tokens before/at the boundary offset (position class).
func tokensAround(toks []tokInfo, off int) (prev, next string) {
	prev, next = "BOF", "EOF"
	for i, t := range toks {
		if t.off >= off {
			next = tokName(t)
			if i > 0 {
				prev = tokName(toks[i-1])
			}
			return
		}
	}
	if len(toks) > 0 {
		prev = tokName(toks[len(toks)-1])
	}
	return
}

func tokName(t tokInfo) string {
	if t.tok == token.SEMICOLON && t.lit == "\n" {
		return "NL"
	}
	if t.tok.IsKeyword() || t.tok.IsOperator() {
		return t.tok.String()
	}
	return strings.ToUpper(t.tok.String())
}

// nodeKindAt: kind of the innermost syntax node of the (variant) input that contains off,
// and of its parent ("File" if none).  ast.Inspect may panic on some XGo nodes (C18): "?".
func nodeKindAt(s *source, src []byte, off int) (kind string) {
	kind = "?"
	defer func() { recover() }()
	f, fset, err := parseFile(s, src)
	if err != nil {
		return "unparsed"
	}
	base := fset.Position(f.Pos()).Offset - int(f.Pos()) // offset = pos + base for a single-file fset
	_ = base
	best := "File"
	ast.Inspect(f, func(n ast.Node) bool {
		if n == nil || reflect.ValueOf(n).IsNil() {
			return false
		}
		if _, ok := n.(*ast.CommentGroup); ok {
			return false
		}
		if _, ok := n.(*ast.Comment); ok {
			return false
		}
		if !n.Pos().IsValid() || !n.End().IsValid() {
			return true
		}
		b, e := fset.Position(n.Pos()).Offset, fset.Position(n.End()).Offset
		if b <= off && off <= e {
			if _, isFile := n.(*ast.File); !isFile {
				best = strings.TrimPrefix(fmt.Sprintf("%T", n), "*ast.")
			}
			return true
		}
		return false
	})
	return best
}
