package main

import (
	"fmt"
	"strings"

	"verifharness/vh"
)

// Grammar-directed generator of XGo programs: every XGo-specific node kind (lambda,
// command call, comprehension, range expr, error wrap, string interpolation, env expr,
// list/map/matrix literals, for-in, overload declaration, class-file var block, domain
// text, rational/unit literals) plus the Go statement/declaration forms.  Programs are
// checked with the real parser before use (invalid ones are counted and dropped).

type gen struct {
	r     *vh.Rand
	depth int
	nvar  int
}

var idents = []string{"a", "b", "x", "y", "n", "xs", "m", "ch", "err", "foo", "bar"}

func (g *gen) id() string { return g.r.Pick(idents) }

func (g *gen) list(n int, f func() string, sep string) string {
	xs := make([]string, n)
	for i := range xs {
		xs[i] = f()
	}
	return strings.Join(xs, sep)
}

func (g *gen) expr() string {
	g.depth++
	defer func() { g.depth-- }()
	if g.depth > 3 {
		switch g.r.Intn(6) {
		case 0:
			return g.id()
		case 1:
			return fmt.Sprint(g.r.Intn(100))
		case 2:
			return `"s"`
		case 3:
			return g.id() + "." + g.id()
		case 4:
			return "1r"
		default:
			return g.id()
		}
	}
	switch g.r.Intn(34) {
	case 0:
		return g.expr() + " " + g.r.Pick([]string{"+", "-", "*", "/", "%", "==", "<", "&&", "||", "<<", "&^"}) + " " + g.expr()
	case 1:
		return g.id() + "(" + g.list(g.r.Intn(3), g.expr, ", ") + ")"
	case 2:
		return g.id() + "." + g.id() + "(" + g.list(g.r.Intn(3), g.expr, ", ") + ")"
	case 3:
		return g.id() + "[" + g.expr() + "]"
	case 4:
		return g.id() + "[" + g.expr() + ":" + g.expr() + "]"
	case 5:
		return "[" + g.list(g.r.Intn(4), g.expr, ", ") + "]"
	case 6:
		return "{" + g.list(1+g.r.Intn(3), func() string { return `"k": ` + g.expr() }, ", ") + "}"
	case 7:
		return "[" + g.expr() + " for " + g.id() + " in " + g.expr() + "]"
	case 8:
		return "[" + g.expr() + " for " + g.id() + ", " + g.id() + " in " + g.expr() + " if " + g.expr() + "]"
	case 9:
		return "{" + g.expr() + ": " + g.expr() + " for " + g.id() + ", " + g.id() + " in " + g.expr() + "}"
	case 10:
		return "{" + g.expr() + " for " + g.id() + " in " + g.expr() + " if " + g.expr() + "}"
	case 11:
		return g.id() + " => " + g.expr()
	case 12:
		return "(" + g.id() + ", " + g.id() + ") => " + g.expr()
	case 13:
		return "=> {\n" + g.stmts(1+g.r.Intn(2)) + "}"
	case 14:
		return g.id() + " => {\n" + g.stmts(1+g.r.Intn(2)) + "}"
	case 15:
		return "[" + g.id() + " for " + g.id() + " in " + g.hexpr() + ":" + g.hexpr() + g.r.Pick([]string{"", ":2"}) + "]"
	case 16:
		return g.id() + "()" + g.r.Pick([]string{"!", "?", "?:" + g.expr()})
	case 17:
		return `"a${` + g.r.Pick([]string{g.id(), g.id() + "." + g.id(), g.id() + "(" + g.id() + ")", g.id() + "+1"}) + `}b$$"`
	case 18:
		return g.r.Pick([]string{"$home", "${home}", "$" + g.id()})
	case 19:
		return g.r.Pick([]string{"1r", "3/4r", "1.5r", "2i", "0x1F", "1_000", "1e3", "'c'", "`raw`", `c"cstr"`, `py"pystr"`})
	case 20:
		return "func(" + g.id() + " int) int {\n" + g.stmts(1) + "return " + g.expr() + "\n}"
	case 21:
		return g.r.Pick([]string{"*", "&", "-", "!", "^", "<-"}) + g.id()
	case 22:
		return "&T{" + g.list(g.r.Intn(3), func() string { return g.id() + ": " + g.expr() }, ", ") + "}"
	case 23:
		return "T{" + g.list(g.r.Intn(3), g.expr, ", ") + "}"
	case 24:
		return g.id() + ".(" + g.r.Pick([]string{"int", "T", "*T", "[]string"}) + ")"
	case 25:
		return "(" + g.expr() + ")"
	case 26:
		return "[\n" + g.list(2, func() string { return g.list(2, g.hexpr, ", ") }, "\n") + "\n]"
	case 27:
		return "[]int{" + g.list(g.r.Intn(3), g.expr, ", ") + "}"
	case 28:
		return "map[string]int{\n\"a\": " + g.expr() + ",\n\"b\": " + g.expr() + ",\n}"
	case 29:
		return "tpl`expr = INT % \",\"`"
	case 30:
		return g.id() + "(" + g.expr() + ", " + g.id() + "...)"
	case 31:
		return "[" + g.expr() + " for " + g.id() + " in " + g.expr() + " for " + g.id() + " in " + g.expr() + "]"
	case 32:
		return "{for " + g.id() + " in " + g.expr() + " if " + g.expr() + "}"
	default:
		return g.id()
	}
}

// hexpr: an expression that is safe in if/for/switch headers (no brace-initiated forms
// outside parentheses).
func (g *gen) hexpr() string {
	g.depth++
	defer func() { g.depth-- }()
	if g.depth > 4 {
		return g.id()
	}
	switch g.r.Intn(10) {
	case 0:
		return g.hexpr() + " " + g.r.Pick([]string{"+", "-", "*", "/", "==", "<", "&&", "!="}) + " " + g.hexpr()
	case 1:
		return g.id() + "(" + g.list(g.r.Intn(3), g.hexpr, ", ") + ")"
	case 2:
		return g.id() + "." + g.id()
	case 3:
		return g.id() + "[" + g.hexpr() + "]"
	case 4:
		return "(" + g.expr() + ")"
	case 5:
		return fmt.Sprint(g.r.Intn(100))
	case 6:
		return "[" + g.list(1+g.r.Intn(3), g.hexpr, ", ") + "]"
	case 7:
		return g.id() + "." + g.id() + "(" + g.hexpr() + ")"
	case 8:
		return "!" + g.id()
	default:
		return g.id()
	}
}

func (g *gen) stmts(n int) string {
	var b strings.Builder
	for i := 0; i < n; i++ {
		b.WriteString(g.stmt())
		b.WriteString("\n")
	}
	return b.String()
}

func (g *gen) block() string { return "{\n" + g.stmts(g.r.Intn(3)) + "}" }

func (g *gen) stmt() string {
	g.depth++
	defer func() { g.depth-- }()
	if g.depth > 3 {
		return g.r.Pick([]string{"println " + g.id(), g.id() + " = " + g.expr(), g.id() + "++", "echo " + g.expr()})
	}
	switch g.r.Intn(32) {
	case 0:
		return g.id() + " := " + g.expr()
	case 1:
		return g.id() + ", " + g.id() + " = " + g.expr() + ", " + g.expr()
	case 2:
		return g.r.Pick([]string{"println", "echo", "fmt.Println", "printf"}) + " " + g.list(1+g.r.Intn(3), g.expr, ", ")
	case 3:
		return "if " + g.hexpr() + " " + g.block()
	case 4:
		return "if " + g.id() + " := " + g.hexpr() + "; " + g.hexpr() + " " + g.block() + " else if " + g.hexpr() + " " + g.block() + " else " + g.block()
	case 5:
		return "for " + g.id() + " in " + g.hexpr() + " " + g.block()
	case 6:
		return "for " + g.id() + ", " + g.id() + " in " + g.hexpr() + " if " + g.hexpr() + " " + g.block()
	case 7:
		return "for i := 0; i < " + g.hexpr() + "; i++ " + g.block()
	case 8:
		return g.r.Pick([]string{"for " + g.hexpr() + " " + g.block(), "for " + g.id() + " in " + g.hexpr() + ":" + g.hexpr() + " " + g.block(), "for " + g.id() + " in :" + g.hexpr() + ":2 " + g.block()})
	case 9:
		return "for {\nbreak\n}"
	case 10:
		return "for " + g.id() + " <- " + g.hexpr() + " " + g.block()
	case 11:
		return "for " + g.id() + ", " + g.id() + " := range " + g.hexpr() + " " + g.block()
	case 12:
		return "switch " + g.hexpr() + " {\ncase 1, 2:\n" + g.stmts(1) + "fallthrough\ncase 3:\ndefault:\n" + g.stmts(1) + "}"
	case 13:
		return "switch " + g.id() + " := " + g.id() + ".(type) {\ncase int:\n" + g.stmts(1) + "case *T, nil:\n}"
	case 14:
		return "select {\ncase " + g.id() + " := <-" + g.id() + ":\n" + g.stmts(1) + "case " + g.id() + " <- " + g.expr() + ":\ndefault:\n}"
	case 15:
		return g.r.Pick([]string{"go ", "defer "}) + g.id() + "(" + g.expr() + ")"
	case 16:
		return "return " + g.list(g.r.Intn(3), g.expr, ", ")
	case 17:
		return g.id() + " <- " + g.expr()
	case 18:
		return g.id() + g.r.Pick([]string{"++", "--", " += 1", " <<= 2", " &^= 3"})
	case 19:
		return "L" + fmt.Sprint(g.r.Intn(100)) + ":\n" + g.stmt()
	case 20:
		return "var " + g.id() + " " + g.r.Pick([]string{"int", "[]string", "map[string]T", "*T", "chan<- int", "func(int) string", "struct{ A int }", "interface{ M() }"}) + g.r.Pick([]string{"", " = " + g.expr()})
	case 21:
		return "var (\n" + g.id() + " = " + g.expr() + "\n" + g.id() + ", " + g.id() + " int\n)"
	case 22:
		return "const " + g.id() + " = " + g.expr()
	case 23:
		return "type T" + fmt.Sprint(g.r.Intn(9)) + " struct {\nA int `json:\"a\"`\nB, C string\n*T\n}"
	case 24:
		return g.block()
	case 25:
		return "_ = " + g.expr()
	case 26:
		return g.id() + "." + g.id() + " " + g.expr() + ", " + g.expr()
	case 27:
		return g.id() + " " + g.id() + " => {\n" + g.stmts(1) + "}"
	case 28:
		return g.id() + " " + g.expr() + ", => {\n" + g.stmts(1) + "}"
	case 29:
		return g.id() + "[" + g.expr() + "] = " + g.expr()
	case 30:
		return "if " + g.hexpr() + " {\n" + g.stmts(1) + "} else {\n" + g.stmts(1) + "}"
	default:
		return g.id() + " = " + g.expr()
	}
}

func (g *gen) decl() string {
	switch g.r.Intn(14) {
	case 0:
		return "func " + g.id() + "(" + g.id() + " int, " + g.id() + " ...string) (r int, err error) {\n" + g.stmts(1+g.r.Intn(3)) + "}"
	case 1:
		return "func (t *T) " + g.id() + "() " + g.block()
	case 2:
		return "type T struct {\nA int `json:\"a\"`\nB, C string\n*E\nf func(int) string\n}"
	case 3:
		return "type I interface {\nM(x int) (int, error)\nE\nString() string\n}"
	case 4:
		return "var (\n" + g.id() + " = " + g.expr() + "\n" + g.id() + " int\n" + g.id() + ", " + g.id() + " = 1, 2\n)"
	case 5:
		return "const (\nX = iota\nY\nZ = \"z\"\n)"
	case 6:
		return "func " + g.id() + " = (\nf1\nfunc(a, b int) int {\nreturn a + b\n}\n(T).add\n)"
	case 7:
		return "func (T)." + g.id() + " = (\n(T).f1\n(T).f2\n)"
	case 8:
		return "type (\nA = int\nB []string\nC map[string]*T\n)"
	case 9:
		return "func " + g.id() + "(f func(a, b int) (int, error), ch <-chan int) {\n" + g.stmts(2) + "}"
	case 10:
		return "var " + g.id() + " = " + g.expr()
	case 11:
		return "func " + g.id() + "()"
	case 12:
		return "func (a T) + (b T) T {\nreturn a\n}"
	default:
		return "func " + g.id() + "() " + g.block()
	}
}

// program returns (source, class).
func genProgram(r *vh.Rand) (string, bool) {
	g := &gen{r: r}
	var b strings.Builder
	class := r.Chance(20)
	if r.Chance(8) {
		b.WriteString("#!/usr/bin/env xgo\n")
	}
	if !class && r.Chance(40) {
		b.WriteString("package main\n\n")
	}
	switch r.Intn(4) {
	case 0:
		b.WriteString("import \"fmt\"\n\n")
	case 1:
		b.WriteString("import (\n\"os\"\nfoo \"a/b\"\n\n. \"c\"\n_ \"d\"\n)\n\n")
	}
	if class && r.Chance(70) {
		b.WriteString("var (\nA `json:\"a\"`\n*B\nx, y string\nv int `json:\"v\"`\n)\n\n")
	}
	for i, n := 0, r.Intn(4); i < n; i++ {
		b.WriteString(g.decl())
		b.WriteString("\n\n")
	}
	if r.Chance(75) {
		b.WriteString(g.stmts(1 + r.Intn(5)))
	}
	return b.String(), class
}
