package main

import (
	"fmt"
	"hash/fnv"
	"strings"

	"verifharness/vh"
)

// Multi-line /* */ comments that exercise every branch of printer.stripCommonPrefix /
// writeComment: inner lines with and without a vertical line of stars (`*`, ` *`, `* item`
// bullets), space / tab / mixed indentation of different depths, blank inner lines, text or
// nothing after the opening `/*`, a tab after `/*`, the closing `*/` on its own line (more,
// equally or less indented) or after text (more / equally / LESS indented than the inner
// lines), CRLF line ends.  Every line that carries text carries distinctive non-blank text, so
// that a single dropped or changed character changes the normalised comment.

type blockShape struct {
	first     string   // text after "/*" on the first line ("" = none)
	inner     []string // complete inner lines (indent + stars + text), "" = blank line
	lastInd   string   // indentation of the last line
	lastText  string   // text before the closing */ ("" = bare */)
	crlf      bool
	closeStar bool // " */" instead of "*/" after the indentation (star aligned)
}

func (b blockShape) text(k int) string {
	var sb strings.Builder
	sb.WriteString("/*")
	sb.WriteString(strings.ReplaceAll(b.first, "#", fmt.Sprint(k)))
	for _, l := range b.inner {
		sb.WriteString("\n")
		sb.WriteString(strings.ReplaceAll(l, "#", fmt.Sprint(k)))
	}
	sb.WriteString("\n")
	sb.WriteString(b.lastInd)
	if b.lastText != "" {
		sb.WriteString(strings.ReplaceAll(b.lastText, "#", fmt.Sprint(k)))
		sb.WriteString(" ")
	} else if b.closeStar {
		sb.WriteString(" ")
	}
	sb.WriteString("*/")
	s := sb.String()
	if b.crlf {
		s = strings.ReplaceAll(s, "\n", "\r\n")
	}
	return s
}

var richIndents = []string{"", " ", "  ", "   ", "    ", "      ", "\t", "\t\t", "\t  ", "  \t", " \t "}
var richStars = []string{"", "*", "* ", "*  ", "** ", "*\t"}

func randShape(r *vh.Rand) blockShape {
	var b blockShape
	switch r.Intn(5) {
	case 0:
		b.first = " head C# text"
	case 1:
		b.first = "\thead C# tab"
	case 2:
		b.first = "C#"
	case 3:
		b.first = "* C# star head"
	}
	n := r.Intn(5)
	ind := r.Pick(richIndents)
	star := r.Pick(richStars)
	uniform := r.Chance(70)
	for i := 0; i < n; i++ {
		if r.Chance(12) {
			b.inner = append(b.inner, r.Pick([]string{"", "  ", "\t"}))
			continue
		}
		li, ls := ind, star
		if !uniform {
			if r.Chance(50) {
				li = r.Pick(richIndents)
			}
			if r.Chance(30) {
				ls = r.Pick(richStars)
			}
		} else if r.Chance(25) {
			li = ind + r.Pick([]string{" ", "  ", "\t"}) // nested deeper, same prefix
		}
		b.inner = append(b.inner, fmt.Sprintf("%s%sitem%d.C# of list", li, ls, i))
	}
	switch r.Intn(4) {
	case 0:
		b.lastInd = ind
	case 1:
		b.lastInd = r.Pick(richIndents)
	case 2:
		if len(ind) > 0 {
			b.lastInd = ind[:r.Intn(len(ind))] // LESS indented than the inner lines
		}
	case 3:
		b.lastInd = ind + " "
	}
	if r.Chance(55) {
		b.lastText = r.Pick([]string{"see above C#", "* done C#", "x", "end.C#\ttab"})
	}
	b.closeStar = r.Chance(40)
	b.crlf = r.Chance(10)
	if b.first == "" && len(b.inner) == 0 && b.lastText == "" {
		b.inner = []string{ind + star + "only C#"}
	}
	return b
}

func richRand(id string, bidx int) *vh.Rand {
	h := fnv.New64a()
	h.Write([]byte(id))
	return vh.NewRand(h.Sum64() ^ uint64(bidx)*0x9E3779B97F4A7C15)
}

// richText: the comment inserted by the styles rich / ownrich / indrich at boundary bidx of
// source id (a function of (id, bidx) only, so that a case line replays).
func richText(style, id string, bidx int) string {
	r := richRand(id, bidx)
	c := randShape(r).text(bidx)
	switch style {
	case "ownrich":
		return "\n" + c + "\n"
	case "indrich": // own line, indented like nested code
		return "\n" + r.Pick([]string{"\t", "\t\t", "    ", "\t  "}) + c + "\n"
	}
	return c
}

// ---- exhaustive small scope -------------------------------------------------------

// shapeHosts: places for a comment (the %s): package level, indented in a function body,
// inside a composite literal, at the end of a code line, before a closing brace.
var shapeHosts = []string{
	"package p\n\n%s\nfunc f() {}\n",
	"func f() {\n\tx := 1\n\t%s\n\ty := x\n\t_ = y\n}\n",
	"var t = []int{\n\t1,\n\t%s\n\t2,\n}\n",
	"x := 1 %s\ny := 2\n",
	"func g() {\n\tif a {\n\t\tb()\n\t\t%s\n\t}\n}\n",
}

// shapeSources enumerates block-comment shapes x hosts as whole sources (run "as is").
func shapeSources(thorough bool) (res []*source) {
	firsts := []string{"", " head C#"}
	inds := []string{"", " ", "  ", "    ", "\t", "\t  "}
	stars := []string{"", "*", "* "}
	lastInds := []string{"", " ", "  ", "      ", "\t"}
	lastTexts := []string{"", "see above C#"}
	nInner := []int{1, 2}
	if thorough {
		firsts = append(firsts, "\thead C#")
		inds = append(inds, "   ", "\t\t")
		stars = append(stars, "** ")
		lastInds = append(lastInds, "   ", "\t ")
		lastTexts = append(lastTexts, "* done C#")
		nInner = []int{0, 1, 2, 3}
	}
	k := 0
	for _, f := range firsts {
		for _, n := range nInner {
			for _, ind := range inds {
				for _, st := range stars {
					for _, li := range lastInds {
						for _, lt := range lastTexts {
							b := blockShape{first: f, lastInd: li, lastText: lt}
							for i := 0; i < n; i++ {
								b.inner = append(b.inner, fmt.Sprintf("%s%sitem%d.C# of list", ind, st, i))
							}
							if i := n; i == 3 { // a blank line in the middle
								b.inner[1] = ""
							}
							for h, host := range shapeHosts {
								k++
								res = append(res, &source{
									id:    fmt.Sprintf("shape:%d:%d", k, h),
									fname: "shape.xgo",
									src:   []byte(fmt.Sprintf(host, b.text(k))),
								})
							}
						}
					}
				}
			}
		}
	}
	return
}
