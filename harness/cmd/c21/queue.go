package main

import (
	"fmt"
	"regexp"
	"strconv"
	"strings"
	"sync/atomic"
	"time"

	"github.com/goplus/xgo/printer"
	"github.com/goplus/xgo/token"
	"verifharness/vh"
)

// Differential cases for the Lean comment-queue model (Model/CommentQueue.lean).  The
// implementation side runs the REAL printer methods (nextComment, commentBefore,
// commentSizeBefore, flush -> intersperseComments) through printer.VerifQueue on a synthetic
// comment list; the model side replays the same (groups, operations).
//
//	queue \t <size> \t <groups> \t <ops>
//	groups: g;g;…   g = <offset>:<newline 0|1>:<len>+<len>+…   (no comments: "-"; no groups: "-")
//	ops:    o;o;…   o = p<next>:<semi> | s<next>:<semi> | b<next>:<semi>   (none: "-")
//
// output: one item per op (P<cindex>,<commentOffset>,<newline>,<emitted> | S<size> | B<0|1>)
// then F<cindex>,<commentOffset>,<newline> E<ids of emitted comments, in order>.

type qcomment struct {
	off  int
	text string
	id   int
}
type qgroup struct {
	cs []qcomment
	nl bool
}

type qop struct {
	kind byte
	next int
	semi bool
}

const qInf = 1 << 30

func b01(b bool) string {
	if b {
		return "1"
	}
	return "0"
}

func encodeQueue(size int, gs []qgroup, ops []qop) string {
	var g []string
	for _, x := range gs {
		off := 0
		var lens []string
		for i, c := range x.cs {
			if i == 0 {
				off = c.off
			}
			lens = append(lens, strconv.Itoa(len(c.text)))
		}
		l := strings.Join(lens, "+")
		if l == "" {
			l = "-"
		}
		g = append(g, fmt.Sprintf("%d:%s:%s", off, b01(x.nl), l))
	}
	var os []string
	for _, o := range ops {
		os = append(os, fmt.Sprintf("%c%d:%s", o.kind, o.next, b01(o.semi)))
	}
	gj, oj := strings.Join(g, ";"), strings.Join(os, ";")
	if gj == "" {
		gj = "-"
	}
	if oj == "" {
		oj = "-"
	}
	return fmt.Sprintf("queue\t%d\t%s\t%s", size, gj, oj)
}

var qid = regexp.MustCompile(`q(\d+)q`)

func emittedIDs(out []byte) []string {
	var r []string
	for _, m := range qid.FindAllSubmatch(out, -1) {
		r = append(r, string(m[1]))
	}
	return r
}

// hung is set when the code under test did not return in time: the goroutine cannot be
// stopped (and a looping intersperseComments allocates without bound), so the run is cut
// short and the process exits as soon as the results so far are written.
var hung int32

// runQueueImpl executes the case on the real printer (with a timeout: an endless loop of
// intersperseComments is an outcome, "HANG").
func runQueueImpl(size int, lines []int, gs []qgroup, ops []qop) string {
	ch := make(chan string, 1)
	go func() { ch <- runQueueImpl0(size, lines, gs, ops) }()
	select {
	case r := <-ch:
		return r
	case <-time.After(5 * time.Second):
		atomic.StoreInt32(&hung, 1)
		return "HANG"
	}
}

func runQueueImpl0(size int, lines []int, gs []qgroup, ops []qop) (res string) {
	defer func() {
		if e := recover(); e != nil {
			res = "PANIC " + fmt.Sprint(e)
		}
	}()
	offs := make([][]int, len(gs))
	texts := make([][]string, len(gs))
	for i, g := range gs {
		for _, c := range g.cs {
			offs[i] = append(offs[i], c.off)
			texts[i] = append(texts[i], c.text)
		}
	}
	q := printer.VerifNewQueue(size, lines, offs, texts)
	var items []string
	for _, o := range ops {
		switch o.kind {
		case 'p':
			q.Flush(o.next, o.semi, token.IDENT)
			ci, co, nl, _, out := q.State()
			items = append(items, fmt.Sprintf("P%d,%d,%s,%d", ci, co, b01(nl), len(emittedIDs(out))))
		case 's':
			n := q.SizeBefore(o.next, o.semi)
			ci, co, nl, _, out := q.State()
			items = append(items, fmt.Sprintf("S%d,%d,%d,%s,%d", n, ci, co, b01(nl), len(emittedIDs(out))))
		case 'b':
			items = append(items, "B"+b01(q.Before(o.next, o.semi)))
		}
	}
	q.Final()
	ci, co, nl, _, out := q.State()
	items = append(items, fmt.Sprintf("F%d,%d,%s", ci, co, b01(nl)))
	items = append(items, "E"+strings.Join(emittedIDs(out), "."))
	return strings.Join(items, " ")
}

// independent statement of the property on the implementation's result: the ids after E
// are the ids of the queue's comments in queue order (every comment exactly once, order kept).
func queueOracle(impl string, gs []qgroup) bool {
	var want []string
	for _, g := range gs {
		for _, c := range g.cs {
			want = append(want, strconv.Itoa(c.id))
		}
	}
	i := strings.LastIndex(impl, " E")
	if i < 0 {
		return false
	}
	return impl[i+2:] == strings.Join(want, ".")
}

// mkQueue builds texts/positions: comment k gets text with marker q<k>q; every slot is 16
// bytes wide; each slot may start a new line.
type qbuilder struct {
	lines []int
	next  int // next id
}

func (b *qbuilder) comment(off int, style int) qcomment {
	k := b.next
	b.next++
	var t string
	switch style {
	case 0:
		t = fmt.Sprintf("//q%dq", k)
	case 1:
		t = fmt.Sprintf("/*q%dq*/", k)
	case 2:
		t = fmt.Sprintf("/*q%dq\nx*/", k)
	default:
		t = fmt.Sprintf("#q%dq", k)
	}
	return qcomment{off: off, text: t, id: k}
}

func lineOf(lines []int, off int) int {
	l := 0
	for i, s := range lines {
		if s <= off {
			l = i
		}
	}
	return l
}

func groupNewline(lines []int, cs []qcomment) bool {
	for i, c := range cs {
		if i > 0 && lineOf(lines, c.off) != lineOf(lines, cs[0].off) {
			return true
		}
		if c.text[0] == '#' || c.text[1] == '/' || strings.Contains(c.text, "\n") {
			return true
		}
	}
	return false
}

func countComments(gs []qgroup) (n int) {
	for _, g := range gs {
		n += len(g.cs)
	}
	return
}

func emitQueueCase(o *vh.Out, size int, lines []int, gs []qgroup, ops []qop) {
	line := encodeQueue(size, gs, ops)
	impl := runQueueImpl(size, lines, gs, ops)
	n := countComments(gs)
	if impl == "HANG" {
		o.Oracle("queue-hang", line, "the real flush/intersperseComments did not return within 5s; lines="+fmt.Sprint(lines))
	} else if !queueOracle(impl, gs) {
		o.Oracle("queue-emission", line, impl+" lines="+fmt.Sprint(lines))
	}
	o.Count(fmt.Sprintf("queue_groups_%d", len(gs)))
	o.Count(fmt.Sprintf("queue_ops_%d", len(ops)))
	o.Case(line, impl, n >= 1 && len(ops) >= 1)
}

func randQueue(r *vh.Rand) (size int, lines []int, gs []qgroup, ops []qop) {
	b := &qbuilder{}
	ng := r.Intn(7)
	slots := ng*4 + 4
	size = slots*16 + 8
	lines = []int{0}
	for s := 1; s < slots; s++ {
		if r.Chance(35) {
			lines = append(lines, s*16)
		}
	}
	slot := 0
	var offsets []int
	type spec struct{ off, style int }
	var specs [][]spec
	for g := 0; g < ng; g++ {
		nc := 1 + r.Intn(3)
		if r.Chance(6) {
			nc = 0
		}
		var sp []spec
		for c := 0; c < nc; c++ {
			slot += 1
			if slot >= slots {
				slot = slots - 1
			}
			off := slot*16 + r.Intn(3)
			sp = append(sp, spec{off, r.Intn(4)})
			offsets = append(offsets, off)
		}
		slot += r.Intn(2)
		specs = append(specs, sp)
	}
	if ng >= 2 && r.Chance(12) { // unsorted queue (never produced by the parser; the model covers it)
		i, j := r.Intn(ng), r.Intn(ng)
		specs[i], specs[j] = specs[j], specs[i]
	}
	for _, sp := range specs { // ids are assigned in queue order
		var grp qgroup
		for _, c := range sp {
			grp.cs = append(grp.cs, b.comment(c.off, c.style))
		}
		grp.nl = groupNewline(lines, grp.cs)
		gs = append(gs, grp)
	}
	nops := r.Intn(10)
	for i := 0; i < nops; i++ {
		var next int
		switch {
		case r.Chance(6):
			next = qInf
		case len(offsets) > 0 && r.Chance(50):
			next = offsets[r.Intn(len(offsets))] + r.Intn(3) - 1
			if next < 0 {
				next = 0
			}
		default:
			next = r.Intn(size + 6)
		}
		kind := byte('p')
		switch x := r.Intn(100); {
		case x < 12:
			kind = 's'
		case x < 27:
			kind = 'b'
		}
		ops = append(ops, qop{kind, next, r.Bool()})
	}
	return
}

func queueCases(f *vh.Flags, o *vh.Out) {
	// exhaustive small scope: <= 2 groups (one comment each, line or block style, at offsets
	// 16 / 48, same or different lines), op lists up to length L over 6 positions x semi
	L := 2
	if f.Tier == "thorough" {
		L = 3
	}
	poss := []int{0, 16, 17, 48, 49, qInf}
	var opsAll []qop
	for _, p := range poss {
		opsAll = append(opsAll, qop{'p', p, false}, qop{'p', p, true})
	}
	var cfgs [][]qgroup
	lines := []int{0, 32}
	cfgs = append(cfgs, nil)
	for s1 := 0; s1 < 2; s1++ {
		b := &qbuilder{}
		g1 := qgroup{cs: []qcomment{b.comment(16, s1)}}
		g1.nl = groupNewline(lines, g1.cs)
		cfgs = append(cfgs, []qgroup{g1})
		for s2 := 0; s2 < 2; s2++ {
			b := &qbuilder{}
			g1 := qgroup{cs: []qcomment{b.comment(16, s1)}}
			g1.nl = groupNewline(lines, g1.cs)
			g2 := qgroup{cs: []qcomment{b.comment(48, s2)}}
			g2.nl = groupNewline(lines, g2.cs)
			cfgs = append(cfgs, []qgroup{g1, g2})
		}
	}
	var rec func(gs []qgroup, prefix []qop, depth int)
	rec = func(gs []qgroup, prefix []qop, depth int) {
		if atomic.LoadInt32(&hung) != 0 {
			return
		}
		emitQueueCase(o, 80, lines, gs, prefix)
		if depth == L {
			return
		}
		for _, op := range opsAll {
			rec(gs, append(append([]qop{}, prefix...), op), depth+1)
		}
	}
	for _, gs := range cfgs {
		rec(gs, nil, 0)
	}
	o.Stats["queue_exhaustive_ops_upto"] = L
	r := vh.NewRand(f.Seed)
	for i := 0; i < f.N && atomic.LoadInt32(&hung) == 0; i++ {
		size, lines, gs, ops := randQueue(r.Fork(i))
		emitQueueCase(o, size, lines, gs, ops)
	}
}

// replay of a queue case line: positions are re-derived from the line (line table: every
// slot on its own line), so only the queue behaviour (not the layout) is replayed.
func runQueueCase(line string, o *vh.Out) {
	fs := strings.Split(line, "\t")
	if len(fs) < 4 {
		fmt.Println("bad queue line")
		return
	}
	size, _ := strconv.Atoi(fs[1])
	b := &qbuilder{}
	var gs []qgroup
	if fs[2] != "-" {
		for _, g := range strings.Split(fs[2], ";") {
			p := strings.Split(g, ":")
			off, _ := strconv.Atoi(p[0])
			var grp qgroup
			grp.nl = p[1] == "1"
			if p[2] != "-" {
				for i := range strings.Split(p[2], "+") {
					st := 1
					if grp.nl {
						st = 0
					}
					grp.cs = append(grp.cs, b.comment(off+i*16, st))
				}
			}
			gs = append(gs, grp)
		}
	}
	var ops []qop
	if fs[3] != "-" {
		for _, s := range strings.Split(fs[3], ";") {
			p := strings.Split(s[1:], ":")
			n, _ := strconv.Atoi(p[0])
			ops = append(ops, qop{s[0], n, p[1] == "1"})
		}
	}
	impl := runQueueImpl(size+64, []int{0}, gs, ops)
	fmt.Println(impl)
	if !queueOracle(impl, gs) {
		o.Oracle("queue-emission", line, impl)
	}
	o.Case(line, impl, true)
}
