// Differential + oracle harness for C33 (token spellings round-trip through the scanners).
// Finite and exhaustive: every token value of token.Token (0..319) and tpl/token.Token (0..511)
// is queried through the real API (String, IsOperator, IsKeyword, IsLiteral, Precedence; Len),
// and the spelling of every operator / keyword token is scanned by the real scanner in both
// comment modes.  The same lines go to the Lean model (tables regenerated from the source).
package main

import (
	"fmt"
	"os"
	"strings"

	"github.com/goplus/xgo/token"
	tpltoken "github.com/goplus/xgo/tpl/token"
	"verifharness/scangen"
	"verifharness/vh"
)

var o *vh.Out

func b2s(b bool) string {
	if b {
		return "1"
	}
	return "0"
}

// scanBack: the real scanner must return exactly [tok, (inserted ;)?, EOF] for the spelling.
func scanBack(d string, code int, sp string, semicolon int, eof int) {
	for _, mode := range []int{1, 0} {
		res := scangen.Run(d, []byte(sp), mode)
		line := scangen.CaseLine(d, mode, []byte(sp))
		ok := res.Status == "done" && len(res.Errs) == 0 && (len(res.Toks) == 2 || len(res.Toks) == 3)
		if ok {
			t := res.Toks[0]
			ok = t.Kind == code && t.Pos == 0
			if len(res.Toks) == 3 {
				s := res.Toks[1]
				ok = ok && s.Kind == semicolon && s.Lit == "\n" && s.Pos == len(sp)
			}
			e := res.Toks[len(res.Toks)-1]
			ok = ok && e.Kind == eof && e.Pos == len(sp)
		}
		if !ok {
			o.Oracle("spelling-does-not-scan-back:"+d+":"+vh.HexS(sp), line, res.Canon())
		}
		o.Count("scan_" + d)
		o.Case(line, res.Canon(), true)
	}
}

func xgoTok(n int) {
	tok := token.Token(n)
	s := tok.String()
	impl := fmt.Sprintf("str=%s isop=%s iskw=%s islit=%s prec=%d", vh.HexS(s), b2s(tok.IsOperator()), b2s(tok.IsKeyword()), b2s(tok.IsLiteral()), tok.Precedence())
	line := fmt.Sprintf("tokinfo\txgo\t%d", n)
	if tok.Precedence() > 0 && !tok.IsOperator() {
		o.Oracle("precedence-but-not-operator:"+s, line, impl)
	}
	named := !strings.HasPrefix(s, "token(")
	if named && (tok.IsOperator() || tok.IsKeyword()) {
		o.Count("xgo_operator_or_keyword")
		if tok.IsKeyword() && token.Lookup(s) != tok {
			o.Oracle("keyword-lookup:"+s, line, impl)
		}
		scanBack("xgo", n, s, int(token.SEMICOLON), int(token.EOF))
	} else if tok.IsOperator() || tok.IsKeyword() {
		o.Oracle("operator-without-spelling", line, impl)
	}
	o.Case(line, impl, named)
}

func tplTok(n int, inForEach map[int]string) {
	tok := tpltoken.Token(n)
	s := tok.String()
	impl := fmt.Sprintf("str=%s len=%d", vh.HexS(s), tok.Len())
	line := fmt.Sprintf("tokinfo\ttpl\t%d", n)
	named := !strings.HasPrefix(s, "token(")
	isOp := named && n > int(tpltoken.UNIT) // table entries above the literal classes
	if lit, ok := inForEach[n]; ok && (!isOp || lit != s) {
		o.Oracle("foreach-token-not-in-table", line, impl)
	}
	if isOp {
		o.Count("tpl_operator")
		if tok.Len() != len(s) {
			o.Oracle("len-differs-from-spelling:"+s, line, impl)
		}
		scanBack("tpl", n, s, int(tpltoken.SEMICOLON), int(tpltoken.EOF))
	} else if tok.Len() != 0 {
		o.Oracle("len-of-non-operator", line, impl)
	}
	o.Case(line, impl, named)
}

func main() {
	f := vh.ParseFlags()
	o = vh.NewOut(f.Out)
	defer o.Close()
	each := map[int]string{}
	tpltoken.ForEach(0, func(tok tpltoken.Token, lit string) int { each[int(tok)] = lit; return 0 })
	if f.Replay != "" {
		fs := strings.Fields(f.Replay)
		if len(fs) >= 3 && fs[0] == "tokinfo" {
			var n int
			fmt.Sscan(fs[2], &n)
			if fs[1] == "xgo" {
				xgoTok(n)
			} else {
				tplTok(n, each)
			}
			return
		}
		d, mode, src, err := scangen.ParseCaseLine(f.Replay)
		if err != nil {
			fmt.Fprintln(os.Stderr, err)
			os.Exit(2)
		}
		o.Case(scangen.CaseLine(d, mode, src), scangen.Run(d, src, mode).Canon(), true)
		return
	}
	for n := 0; n < 320; n++ {
		xgoTok(n)
	}
	for n := 0; n < 512; n++ {
		tplTok(n, each)
	}
	o.Stats["tpl_foreach_tokens"] = len(each)
}
