// scratch probe (compC)
package main

import (
	"fmt"
	"os"
	"path/filepath"

	"verifharness/compcx"
)

func main() {
	files := map[string]string{}
	for _, a := range os.Args[1:] {
		b, err := os.ReadFile(a)
		if err != nil {
			panic(err)
		}
		files[filepath.Base(a)] = string(b)
	}
	out, err := compcx.CompileDir(files)
	if err != nil {
		fmt.Println("COMPILE ERR:", err)
		return
	}
	fmt.Println(string(out))
}
