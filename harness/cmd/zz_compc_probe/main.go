// scratch probe (compC)
package main

import (
	"fmt"
	"os"
	"path/filepath"
	"time"

	"verifharness/compcx"
	"verifharness/xrun"
)

func main() {
	run := false
	files := map[string]string{}
	for _, a := range os.Args[1:] {
		if a == "-run" {
			run = true
			continue
		}
		b, err := os.ReadFile(a)
		if err != nil {
			panic(err)
		}
		files[filepath.Base(a)] = string(b)
	}
	out, err := compcx.CompileDir(files)
	if err != nil {
		fmt.Println("COMPILE ERR:", err)
		return
	}
	fmt.Println(string(out))
	if run {
		d, _ := os.MkdirTemp("/tmp/compC", "run")
		defer os.RemoveAll(d)
		rs, err := xrun.RunBatch(d, [][]byte{out}, 10*time.Second)
		fmt.Println(rs, err)
	}
}
