// scratch probe (compC)
package main

import (
	"fmt"
	"os"
	"path/filepath"
	"strings"
	"time"

	xformat "github.com/goplus/xgo/x/format"
	"verifharness/compcx"
	"verifharness/xrun"
)

func main() {
	run, style, quiet := false, false, false
	files := map[string]string{}
	for _, a := range os.Args[1:] {
		switch a {
		case "-run":
			run = true
			continue
		case "-style":
			style = true
			continue
		case "-q":
			quiet = true
			continue
		}
		b, err := os.ReadFile(a)
		if err != nil {
			panic(err)
		}
		files[filepath.Base(a)] = string(b)
	}
	if style {
		conv := map[string]string{}
		for n, s := range files {
			func() {
				defer func() {
					if r := recover(); r != nil {
						fmt.Println("GOPSTYLE PANIC:", r)
					}
				}()
				out, err := xformat.GopstyleSource([]byte(s), n)
				if err != nil {
					fmt.Println("GOPSTYLE ERR:", err)
					return
				}
				fmt.Printf("=== %s converted:\n%s\n", n, out)
				conv[strings.TrimSuffix(n, ".go")+".xgo"] = string(out)
			}()
		}
		files = conv
	}
	out, err := compcx.CompileDir(files)
	if err != nil {
		fmt.Println("COMPILE ERR:", err)
		return
	}
	if !quiet {
		fmt.Println(string(out))
	}
	if run {
		d, _ := os.MkdirTemp("/tmp/compC", "run")
		defer os.RemoveAll(d)
		rs, err := xrun.RunBatch(d, [][]byte{out}, 10*time.Second)
		fmt.Println(rs, err)
	}
}
