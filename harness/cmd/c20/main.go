// Harness for C20: real format.Source on the corpus of the tree under test, on generated XGo
// programs (normal and class files, perturbed layout) and on printed AST mutants; expression-level
// cases for the tie of model M3 (drv_expr).  See harness/exprx/srcmain.go.
package main

import "verifharness/exprx"

func main() { exprx.SrcMain("c20") }
