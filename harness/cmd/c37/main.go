// Differential + oracle harness for C37 (ast/fromgo followed by ast/togo).
//
// Every case is a Go *ast.File (one declaration of a corpus file, or a small generated file):
//   case line : conv <TAB> <s-expression of the Go file tree>
//   impl line : <S1|S0> <TAB> <XGo tree from the real fromgo.ASTFile | PANIC class>
//               <TAB> <Go tree from the real togo.ASTFile | PANIC class | -> <TAB> <HEQ|HNE|H->
// S1 = the tree is a well-formed parser-style tree (independent restatement in wellFormed);
// HEQ = go/printer prints the same header for the original and the round-tripped declaration
// (after the header normalisation of ser.go).  The property oracle: S1 ⇒ no panic ∧ HEQ.
package main

import (
	"bytes"
	"fmt"
	"go/ast"
	"go/parser"
	"go/printer"
	"go/token"
	"io"
	"log"
	"os"
	"path/filepath"
	"reflect"
	"runtime"
	"sort"
	"strings"

	gopast "github.com/goplus/xgo/ast"
	"github.com/goplus/xgo/ast/fromgo"
	"github.com/goplus/xgo/ast/togo"
	xgoparser "github.com/goplus/xgo/parser"
	"verifharness/vh"
)

const maxLine = 48 << 10 // larger trees are checked by the oracle only

var out *vh.Out

// ---------------------------------------------------------------------------------------------

func panicClass(e interface{}) string {
	var s string
	switch v := e.(type) {
	case string:
		s = v
	case error:
		s = v.Error()
	default:
		s = fmt.Sprint(v)
	}
	s = strings.TrimRight(s, "\n")
	if _, ok := e.(runtime.Error); ok {
		switch {
		case strings.Contains(s, "nil pointer dereference"):
			return "nil-deref"
		case strings.Contains(s, "interface conversion"):
			return "type-assertion"
		}
		return "runtime: " + s
	}
	if i := strings.Index(s, "unknown spec -"); i >= 0 {
		return s[:i+len("unknown spec -")]
	}
	s = strings.ReplaceAll(s, "*ast.", "")
	s = strings.ReplaceAll(s, "*typeparams.", "")
	return s
}

type result struct {
	xgo, back string // serialised trees or "PANIC …"
	backFile  *ast.File
	panicked  string
}

func convert(f *ast.File) (r result) {
	r.xgo, r.back = "-", "-"
	func() {
		defer func() {
			if e := recover(); e != nil {
				r.panicked = "fromgo:" + panicClass(e)
				r.xgo = "PANIC " + panicClass(e)
			}
		}()
		g := fromgo.ASTFile(f, 0)
		r.xgo = sexpr(g)
		func() {
			defer func() {
				if e := recover(); e != nil {
					r.panicked = "togo:" + panicClass(e)
					r.back = "PANIC " + panicClass(e)
				}
			}()
			b := togo.ASTFile(g, 0)
			r.back = sexpr(b)
			r.backFile = b
		}()
	}()
	return
}

func printDecl(d ast.Decl) (s string) {
	defer func() {
		if e := recover(); e != nil {
			s = fmt.Sprint("PRINTER-PANIC ", e)
		}
	}()
	var b bytes.Buffer
	if err := printer.Fprint(&b, token.NewFileSet(), d); err != nil {
		return "PRINTER-ERROR " + err.Error()
	}
	return b.String()
}

// wellFormed: independent restatement of "tree as go/parser builds it for an error-free file"
// (what the model calls Supported): no Bad nodes outside bodies, no nil declaration / spec /
// field / function type, GenDecl keyword matches the kind of its specs.
func wellFormed(v reflect.Value) bool {
	t := v.Type()
	if t == tGoCG || t == tGoObj || t == tGoScope || t == tGoBlock {
		return true
	}
	switch v.Kind() {
	case reflect.Interface:
		if v.IsNil() {
			return true
		}
		return wellFormed(v.Elem())
	case reflect.Ptr:
		if v.IsNil() {
			return true
		}
		switch n := v.Interface().(type) {
		case *ast.BadExpr, *ast.BadDecl:
			return false
		case *ast.FuncLit:
			if n.Type == nil {
				return false
			}
		case *ast.FuncDecl:
			if n.Type == nil {
				return false
			}
		case *ast.GenDecl:
			for _, s := range n.Specs {
				ok := false
				switch s.(type) {
				case *ast.ImportSpec:
					ok = n.Tok == token.IMPORT
				case *ast.TypeSpec:
					ok = n.Tok == token.TYPE
				case *ast.ValueSpec:
					ok = n.Tok == token.VAR || n.Tok == token.CONST
				}
				if !ok {
					return false
				}
			}
			if n.Tok != token.IMPORT && n.Tok != token.TYPE && n.Tok != token.VAR && n.Tok != token.CONST {
				return false
			}
		}
		e := v.Elem()
		if e.Kind() != reflect.Struct {
			return true
		}
		for i := 0; i < e.NumField(); i++ {
			if e.Type().Field(i).IsExported() && !wellFormed(e.Field(i)) {
				return false
			}
		}
		return true
	case reflect.Slice:
		et := t.Elem()
		mustNonNil := et == reflect.TypeOf((*ast.Field)(nil)) || et == reflect.TypeOf((*ast.Spec)(nil)).Elem() || et == reflect.TypeOf((*ast.Decl)(nil)).Elem()
		for i := 0; i < v.Len(); i++ {
			x := v.Index(i)
			if mustNonNil && x.IsNil() {
				return false
			}
			if !wellFormed(x) {
				return false
			}
		}
	}
	return true
}

func features(f *ast.File) {
	var walk func(v reflect.Value)
	seen := map[string]bool{}
	walk = func(v reflect.Value) {
		t := v.Type()
		if t == tGoCG || t == tGoObj || t == tGoScope || t == tGoBlock {
			return
		}
		switch v.Kind() {
		case reflect.Interface:
			if !v.IsNil() {
				walk(v.Elem())
			}
		case reflect.Ptr:
			if v.IsNil() {
				return
			}
			switch n := v.Interface().(type) {
			case *ast.FuncType:
				if n.TypeParams != nil {
					seen["typeparams_func"] = true
				}
			case *ast.TypeSpec:
				if n.TypeParams != nil {
					seen["typeparams_type"] = true
				}
				if n.Assign.IsValid() {
					seen["alias"] = true
				}
			case *ast.IndexListExpr:
				seen["index_list"] = true
			case *ast.IndexExpr:
				seen["index"] = true
			case *ast.UnaryExpr:
				if n.Op == token.TILDE {
					seen["tilde"] = true
				}
			case *ast.BinaryExpr:
				if n.Op == token.OR {
					seen["or"] = true
				}
			case *ast.Ellipsis:
				seen["ellipsis"] = true
			case *ast.ChanType:
				if n.Dir != ast.SEND|ast.RECV {
					seen["chan_dir"] = true
				}
			case *ast.Field:
				if n.Tag != nil {
					seen["tag"] = true
				}
				if len(n.Names) == 0 {
					seen["anon_field"] = true
				}
				if len(n.Names) > 1 {
					seen["multi_name_field"] = true
				}
			case *ast.ValueSpec:
				if len(n.Names) > 1 {
					seen["multi_name_spec"] = true
				}
				if len(n.Values) == 0 && n.Type == nil {
					seen["implicit_const"] = true
				}
			case *ast.Ident:
				if n.Name == "iota" {
					seen["iota"] = true
				}
			case *ast.FuncLit:
				seen["funclit"] = true
			case *ast.FuncDecl:
				if n.Recv != nil {
					seen["method"] = true
				}
			case *ast.GenDecl:
				if n.Lparen.IsValid() {
					seen["grouped"] = true
				}
			case *ast.CallExpr:
				if n.Ellipsis.IsValid() {
					seen["call_ellipsis"] = true
				}
			case *ast.SliceExpr:
				if n.Slice3 {
					seen["slice3"] = true
				}
			case *ast.InterfaceType, *ast.StructType, *ast.MapType, *ast.CompositeLit, *ast.TypeAssertExpr, *ast.KeyValueExpr:
				seen[strings.ToLower(reflect.TypeOf(n).Elem().Name())] = true
			}
			e := v.Elem()
			if e.Kind() == reflect.Struct {
				for i := 0; i < e.NumField(); i++ {
					if e.Type().Field(i).IsExported() {
						walk(e.Field(i))
					}
				}
			}
		case reflect.Slice:
			for i := 0; i < v.Len(); i++ {
				walk(v.Index(i))
			}
		}
	}
	walk(reflect.ValueOf(f))
	for k := range seen {
		out.Count("feat_" + k)
	}
}

// runCase runs one Go file tree through the real converters, the oracle and emits the case.
func runCase(src string, f *ast.File) {
	wf := wellFormed(reflect.ValueOf(f))
	line := "conv\t" + sexpr(f)
	r := convert(f)
	s := "S0"
	h := "H-"
	if wf {
		s = "S1"
		features(f)
		if r.panicked != "" {
			out.Oracle("panic:"+strings.ReplaceAll(r.panicked, " ", "_"), oracleCase(line, src), "well-formed declaration makes the converters panic: "+r.panicked)
		} else {
			h = "HEQ"
			if len(r.backFile.Decls) != len(f.Decls) {
				h = "HNE"
				out.Oracle("lost:File.Decls", oracleCase(line, src), "number of declarations differs")
			} else if (f.Name == nil) != (r.backFile.Name == nil) || (f.Name != nil && f.Name.Name != r.backFile.Name.Name) {
				h = "HNE"
				out.Oracle("lost:File.Name", oracleCase(line, src), "package name differs")
			} else {
				for i, d := range f.Decls {
					a, b := normDecl(d), normDecl(r.backFile.Decls[i])
					pa, pb := printDecl(a), printDecl(b)
					if pa != pb {
						h = "HNE"
						where := firstDiff(reflect.ValueOf(a), reflect.ValueOf(b), "Decl")
						if where == "" {
							where = "printed-text"
						}
						out.Oracle("lost:"+where, oracleCase(line, src), fmt.Sprintf("printed header differs: original %q round trip %q", clip(pa), clip(pb)))
						break
					}
				}
			}
		}
		out.Count("wellformed")
	} else {
		out.Count("malformed")
		if r.panicked != "" {
			out.Count("malformed_panic_" + strings.SplitN(r.panicked, ":", 2)[0])
		} else {
			out.Count("malformed_no_panic")
		}
	}
	if len(line) > maxLine {
		out.Count("too_big_for_model(oracle_only)")
		return
	}
	n := strings.Count(line, "(")
	switch {
	case n < 10:
		out.Count("nodes_lt10")
	case n < 50:
		out.Count("nodes_10_49")
	case n < 250:
		out.Count("nodes_50_249")
	default:
		out.Count("nodes_ge250")
	}
	out.Case(line, s+"\t"+r.xgo+"\t"+r.back+"\t"+h, wf && n >= 6)
}

func clip(s string) string {
	if len(s) > 300 {
		return s[:300] + "…"
	}
	return s
}

// the oracle file is tab-separated: keep the case replayable (the check restores the tab).
func oracleCase(line, src string) string {
	if len(line) > 6000 {
		return "conv-src " + src
	}
	return line
}

// ---------------------------------------------------------------------------------------------
// togo alone, on trees of the XGo parser (any XGo node kind; validates the togo table, its
// "unknown expr/decl" panics included).  No property oracle here: correspondence only.

func runTogoCase(gf *gopast.File) {
	line := "togo\t" + sexpr(gf)
	if len(line) > maxLine {
		out.Count("togo_too_big")
		return
	}
	var impl string
	func() {
		defer func() {
			if e := recover(); e != nil {
				impl = "PANIC " + panicClass(e)
				out.Count("togo_panic")
			}
		}()
		impl = sexpr(togo.ASTFile(gf, 0))
		out.Count("togo_ok")
	}()
	out.Case(line, impl, strings.Count(line, "(") >= 6)
}

func runTogoSource(name string, src interface{}) {
	var f *gopast.File
	func() {
		defer func() {
			if e := recover(); e != nil {
				out.Count("xgo_parser_panic")
			}
		}()
		f, _ = xgoparser.ParseFile(token.NewFileSet(), name, src, 0)
	}()
	if f == nil {
		out.Count("xgo_parse_failed")
		return
	}
	out.Count("xgo_files")
	for _, d := range f.Decls {
		runTogoCase(&gopast.File{Package: f.Package, Name: f.Name, Decls: []gopast.Decl{d}})
	}
}

var xgoSeeds = []string{
	"var a = [1, 2, 3]",
	"var m = {\"a\": 1, \"b\": 2}",
	"var f = x => x * 2",
	"var g = (x, y) => { return x + y }",
	"var r = [x*2 for x in [1, 2, 3] if x > 1]",
	"var s = \"${a} and $b\"",
	"var n = 1r + 3.5r",
	"var c = 10:20:2",
	"var e = foo()!",
	"var o = foo()?:0",
	"func add(a, b int) int { return a + b }",
	"func (p *T) M(x ...int) {}",
	"type T[K comparable, V any] struct { m map[K]V }",
	"var t T[int, string]",
	"const ( A = iota; B; C )",
	"func mul = (mulInt; mulFloat)",
	"var d = 1m + 2s",
	"import \"fmt\"",
	"var p = &T{a: 1}",
	"var q = <-ch",
	"echo \"hi\"",
}

func runParsed(src string, f *ast.File, perDecl bool) {
	if f == nil {
		return
	}
	name := f.Name
	if perDecl {
		for _, d := range f.Decls {
			runCase(src, &ast.File{Package: f.Package, Name: name, Decls: []ast.Decl{d}})
		}
		return
	}
	runCase(src, &ast.File{Package: f.Package, Name: name, Decls: f.Decls})
}

func runPath(path string, budget *int) {
	if *budget <= 0 {
		return
	}
	fset := token.NewFileSet()
	f, err := parser.ParseFile(fset, path, nil, parser.SkipObjectResolution)
	if err != nil {
		out.Count("corpus_files_with_parse_errors")
	}
	if f == nil {
		return
	}
	out.Count("corpus_files")
	*budget -= len(f.Decls)
	runParsed(path, f, true)
}

func walkGo(root string, budget *int, skipDirs map[string]bool) {
	var files []string
	filepath.Walk(root, func(p string, info os.FileInfo, err error) error {
		if err != nil {
			return nil
		}
		if info.IsDir() {
			if info.Name() == ".git" || skipDirs[info.Name()] {
				return filepath.SkipDir
			}
			return nil
		}
		if strings.HasSuffix(p, ".go") {
			files = append(files, p)
		}
		return nil
	})
	sort.Strings(files)
	for _, p := range files {
		runPath(p, budget)
	}
}

// declarations that exercise every construct named in the property (and the defects found)
var seeds = []string{
	"func F[T any](x T) T { return x }",
	"func g() int { return 0 }",
	"func h() (int) { return 0 }",
	"func k() (n int, err error) { return }",
	"type L[T any] struct { next *L[T]; v T }",
	"type P[K comparable, V any] struct { k K; v V }",
	"var x P[int, string]",
	"var y = Map[int, string](nil)",
	"type N interface { ~int | string; M() }",
	"type C[S ~[]E, E any] interface { ~int | ~string; comparable; Len() int }",
	"func (p *P[K, V]) Get() (K, V) { return p.k, p.v }",
	"func (l L[T]) Each(f func(T) bool) {}",
	"type A = int",
	"type B = P[int, string]",
	"var _ = f(xs...)",
	"func v(a int, bs ...string) {}",
	"const ( a = iota; b; c )",
	"const ( d, e = iota, 1 << iota; f, g; _, _ )",
	"const k1 Foo = 1",
	"var m, n int = 1, 2",
	"var ( p1 int; q1, r1 = 1, \"s\" )",
	"type S struct { io.Reader; *Foo; a, b int `json:\"a\"`; c string \"t\"; List[int] }",
	"type I interface { io.Reader; M(x int, y ...string) (int, error); comparable }",
	"var ch1 chan int; var ch2 <-chan int; var ch3 chan<- int; var ch4 chan (<-chan int)",
	"var fn = func(a int) (r int) { return a }",
	"var cl = []P[int, string]{{1, \"a\"}, {k: 2, v: \"b\"}}",
	"var ar = [...]int{1, 2, 3}",
	"var mp = map[string][]int{\"a\": {1}}",
	"var sl = x[1:2:3]",
	"var ta = y.(interface{ M() })",
	"var fp func(int, ...string) (a, b int)",
	"import ( \"fmt\"; . \"io\"; _ \"embed\"; x \"a/b\" )",
	"import \"C\"",
	"func ext(x int) int",
	"var u = -x + ^y*(<-c) - *p&^q",
	"type G[T interface{ ~int }] []T",
	"type H[T any, PT interface{ *T; M() }] struct{}",
	"func Ap[A, B any, F ~func(A) B](f F, a A) B { return f(a) }",
	"var _ = Ap[int, string, func(int) string]",
	"var _ = atomic.Pointer[T]{}",
	"type Arr[T any] [8]T",
	"type ( X1 int; X2[T any] = []T; X3 struct{} )",
}

func runSource(tag, src string, perDecl bool) bool {
	fset := token.NewFileSet()
	f, err := parser.ParseFile(fset, tag+".go", "package p\n"+src+"\n", parser.SkipObjectResolution)
	if err != nil {
		out.Count("generated_source_rejected_by_parser")
		if os.Getenv("C37_DEBUG") != "" {
			fmt.Fprintln(os.Stderr, "rejected:", src, err)
		}
		return false
	}
	runParsed(tag, f, perDecl)
	return true
}

func goroot() string {
	if r := os.Getenv("GOROOT"); r != "" {
		return r
	}
	return runtime.GOROOT()
}

func main() {
	log.SetOutput(io.Discard) // the converters panic through log.Panicln
	fl := vh.ParseFlags()
	out = vh.NewOut(fl.Out)
	defer out.Close()
	if fl.Replay != "" {
		fs := strings.SplitN(fl.Replay, "\t", 2)
		if len(fs) != 2 {
			fmt.Fprintln(os.Stderr, "replay: bad case line")
			os.Exit(2)
		}
		if fs[0] == "conv-src" {
			if strings.HasSuffix(fs[1], ".go") && strings.HasPrefix(fs[1], "/") {
				b := 1 << 30
				runPath(fs[1], &b)
			} else {
				fmt.Fprintln(os.Stderr, "replay: generated case too large to embed; rerun with the same seed")
			}
			return
		}
		f, err := parseGoFile(fs[1])
		if err != nil {
			fmt.Fprintln(os.Stderr, "replay:", err)
			os.Exit(2)
		}
		runCase("replay", f)
		return
	}
	thorough := fl.Tier == "thorough"

	// 0. minimised past disagreements
	if ms, _ := filepath.Glob("/verif/corpus/C37/*.txt"); ms != nil {
		for _, m := range ms {
			b, _ := os.ReadFile(m)
			for _, l := range strings.Split(string(b), "\n") {
				fs := strings.SplitN(l, "\t", 2)
				if len(fs) == 2 && fs[0] == "conv" {
					if f, err := parseGoFile(fs[1]); err == nil {
						runCase(m, f)
						out.Count("corpus_lines")
					}
				}
			}
		}
	}
	// 1. seeds
	for i, s := range seeds {
		runSource(fmt.Sprintf("seed%d", i), s, true)
	}
	runSource("seedfile", strings.Join(seeds[:12], "\n"), false)

	// 2. every Go file of the tree under test
	repo := os.Getenv("VERIF_REPO")
	if repo == "" {
		repo = "/repo"
	}
	budget := 1 << 30
	if !thorough {
		budget = 2500
	}
	walkGo(filepath.Join(repo, "ast"), &budget, nil)
	walkGo(filepath.Join(repo, "token"), &budget, nil)
	walkGo(filepath.Join(repo, "x"), &budget, nil)
	walkGo(filepath.Join(repo, "tpl"), &budget, nil)
	walkGo(repo, &budget, map[string]bool{"ast": true, "token": true, "x": true, "tpl": true})

	// 3. GOROOT sample (generics-heavy packages first)
	gr := filepath.Join(goroot(), "src")
	pk := []string{"slices", "maps", "sync/atomic", "cmp", "iter", "sort", "container/list", "container/heap", "sync", "go/token", "errors", "unique"}
	if thorough {
		pk = append(pk, "go/ast", "go/types", "go/parser", "reflect", "strings", "bytes", "encoding/json", "net/http", "internal/types/testdata", "math/rand/v2", "runtime", "fmt", "os", "testing", "context", "time")
	}
	gb := 1200
	if thorough {
		gb = 1 << 30
	}
	for _, p := range pk {
		walkGo(filepath.Join(gr, p), &gb, map[string]bool{"vendor": true})
	}

	// 3b. togo alone on XGo parser output
	for i, s := range seeds {
		runTogoSource(fmt.Sprintf("seed%d.xgo", i), "package p\n"+s+"\n")
	}
	for i, s := range xgoSeeds {
		runTogoSource(fmt.Sprintf("xseed%d.xgo", i), s+"\n")
	}
	{
		var xs []string
		filepath.Walk(repo, func(p string, info os.FileInfo, err error) error {
			if err == nil && !info.IsDir() && (strings.HasSuffix(p, ".xgo") || strings.HasSuffix(p, ".gop") || strings.HasSuffix(p, ".gox")) {
				xs = append(xs, p)
			}
			return nil
		})
		sort.Strings(xs)
		if !thorough && len(xs) > 120 {
			xs = xs[:120]
		}
		for _, p := range xs {
			runTogoSource(p, nil)
		}
	}

	// 4. generated files and fault injection
	r := vh.NewRand(fl.Seed)
	for i := 0; i < fl.N; i++ {
		g := &gen{r: r.Fork(i)}
		nd := 1 + g.r.Intn(3)
		var ds []string
		for j := 0; j < nd; j++ {
			ds = append(ds, g.decl())
		}
		src := strings.Join(ds, "\n")
		tag := fmt.Sprintf("gen-seed%d-%d", fl.Seed, i)
		if g.r.Chance(80) {
			runSource(tag, src, g.r.Chance(50))
			if g.r.Chance(25) {
				runTogoSource(tag+".xgo", "package p\n"+src+"\n")
			}
			continue
		}
		// fault injection into one declaration
		fset := token.NewFileSet()
		f, err := parser.ParseFile(fset, tag+".go", "package p\n"+src+"\n", parser.SkipObjectResolution)
		if err != nil || len(f.Decls) == 0 {
			out.Count("generated_source_rejected_by_parser")
			continue
		}
		k := g.r.Intn(len(f.Decls))
		what := inject(g.r, &f.Decls[k])
		if what == "" {
			out.Count("inject_not_applicable")
		} else {
			out.Count("inject_" + what)
		}
		runCase(tag, &ast.File{Package: f.Package, Name: f.Name, Decls: f.Decls})
	}
}
