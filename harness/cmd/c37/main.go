package main

import (
	"bytes"
	"fmt"
	"go/ast"
	"go/parser"
	"go/printer"
	"go/token"

	"github.com/goplus/xgo/ast/fromgo"
	"github.com/goplus/xgo/ast/togo"
	goptoken "github.com/goplus/xgo/token"
)

func main() {
	src := `package p
func F[T any](x T) T { return x }
type L[T any] struct { next *L[T]; v T }
type P[K comparable, V any] struct{ k K; v V }
var x P[int, string]
type N interface { ~int | string; M() }
func g() int { return 0}
func (p *P[K, V]) Get() (K, V) { return p.k, p.v }
type A = int
var _ = f(xs...)
const ( a = iota; b; c )
`
	fset := token.NewFileSet()
	f, err := parser.ParseFile(fset, "a.go", src, 0)
	if err != nil {
		panic(err)
	}
	for _, d := range f.Decls {
		func() {
			defer func() {
				if e := recover(); e != nil {
					fmt.Printf("PANIC %v\n", e)
				}
			}()
			g := fromgo.ASTFile(&ast.File{Name: f.Name, Decls: []ast.Decl{d}}, 0)
			back := togo.ASTFile(g, 0)
			var b bytes.Buffer
			printer.Fprint(&b, token.NewFileSet(), back.Decls[0])
			fmt.Println(b.String())
		}()
	}
	fmt.Println(int(token.TILDE), int(goptoken.TILDE), int(token.IMPORT), int(goptoken.IMPORT), int(token.OR), int(goptoken.OR), int(token.VAR), int(goptoken.VAR))
}
