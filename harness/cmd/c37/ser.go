// Serialisation of go/ast and xgo/ast trees to the s-expression wire format of drv_conv
// (see lean/GopModel/Driver/Conv.lean), the inverse for Go trees (replay), and the
// header normaliser used by the property oracle.  Everything is reflection-driven, so it does
// not depend on the list of node kinds or fields the converters handle.
package main

import (
	"encoding/hex"
	"fmt"
	"go/ast"
	"go/token"
	"reflect"
	"sort"
	"strconv"
	"strings"

	gopast "github.com/goplus/xgo/ast"
)

var (
	tPos        = reflect.TypeOf(token.NoPos)
	tGoCG       = reflect.TypeOf((*ast.CommentGroup)(nil))
	tGoBlock    = reflect.TypeOf((*ast.BlockStmt)(nil))
	tGopBlock   = reflect.TypeOf((*gopast.BlockStmt)(nil))
	tGoObj      = reflect.TypeOf((*ast.Object)(nil))
	tGopObj     = reflect.TypeOf((*gopast.Object)(nil))
	tGoScope    = reflect.TypeOf((*ast.Scope)(nil))
	tGoIdentPtr = reflect.TypeOf((*ast.Ident)(nil))
)

type field struct {
	name string
	toks []string
}

// ser appends the tokens of value v.
func ser(out *[]string, v reflect.Value) {
	t := v.Type()
	switch {
	case t == tPos:
		*out = append(*out, "p"+strconv.FormatInt(v.Int(), 10))
		return
	case t == tGoCG:
		if v.IsNil() {
			*out = append(*out, "_")
		} else {
			*out = append(*out, "oCG")
		}
		return
	case t == tGoBlock || t == tGopBlock:
		if v.IsNil() {
			*out = append(*out, "_")
			return
		}
		n := v.Elem().FieldByName("List").Len()
		if n == 0 {
			*out = append(*out, "oEmptyBlock")
		} else {
			*out = append(*out, "oBlock"+strconv.Itoa(n))
		}
		return
	case t == tGoObj || t == tGoScope:
		*out = append(*out, "_") // go/ast object resolution is not part of the tree
		return
	case t == tGopObj:
		if v.IsNil() {
			*out = append(*out, "_")
			return
		}
		o := v.Interface().(*gopast.Object)
		if _, ok := o.Data.(*ast.Ident); ok && o.Kind == 0 {
			*out = append(*out, "oObjData")
		} else {
			*out = append(*out, "oObj")
		}
		return
	}
	switch v.Kind() {
	case reflect.Int, reflect.Int8, reflect.Int16, reflect.Int32, reflect.Int64:
		*out = append(*out, "n"+strconv.FormatInt(v.Int(), 10))
	case reflect.Uint, reflect.Uint8, reflect.Uint16, reflect.Uint32, reflect.Uint64:
		*out = append(*out, "n"+strconv.FormatUint(v.Uint(), 10))
	case reflect.Bool:
		if v.Bool() {
			*out = append(*out, "n1")
		} else {
			*out = append(*out, "n0")
		}
	case reflect.String:
		*out = append(*out, "s"+hex.EncodeToString([]byte(v.String())))
	case reflect.Interface:
		if v.IsNil() {
			*out = append(*out, "_")
		} else {
			ser(out, v.Elem())
		}
	case reflect.Ptr:
		if v.IsNil() {
			*out = append(*out, "_")
			return
		}
		e := v.Elem()
		if e.Kind() != reflect.Struct {
			*out = append(*out, "o"+e.Type().String())
			return
		}
		*out = append(*out, "("+e.Type().Name())
		var fs []field
		for i := 0; i < e.NumField(); i++ {
			sf := e.Type().Field(i)
			if !sf.IsExported() {
				continue
			}
			var toks []string
			ser(&toks, e.Field(i))
			if len(toks) == 1 && isZeroTok(toks[0]) {
				continue
			}
			fs = append(fs, field{sf.Name, toks})
		}
		sort.Slice(fs, func(i, j int) bool { return fs[i].name < fs[j].name })
		for _, f := range fs {
			*out = append(*out, f.name+"=")
			*out = append(*out, f.toks...)
		}
		*out = append(*out, ")")
	case reflect.Slice:
		if v.IsNil() {
			*out = append(*out, "_")
			return
		}
		*out = append(*out, "[")
		for i := 0; i < v.Len(); i++ {
			ser(out, v.Index(i))
		}
		*out = append(*out, "]")
	default:
		*out = append(*out, "o"+strings.ReplaceAll(t.String(), " ", ""))
	}
}

func isZeroTok(t string) bool { return t == "_" || t == "p0" || t == "n0" || t == "s" }

func sexpr(node interface{}) string {
	var toks []string
	ser(&toks, reflect.ValueOf(node))
	return strings.Join(toks, " ")
}

// ---------------------------------------------------------------------------------------------
// deserialisation of Go trees (for -replay and corpus lines)

var goKinds = map[string]reflect.Type{}

func init() {
	for _, p := range []interface{}{
		(*ast.File)(nil), (*ast.GenDecl)(nil), (*ast.FuncDecl)(nil), (*ast.BadDecl)(nil),
		(*ast.ImportSpec)(nil), (*ast.TypeSpec)(nil), (*ast.ValueSpec)(nil),
		(*ast.FieldList)(nil), (*ast.Field)(nil),
		(*ast.BadExpr)(nil), (*ast.Ident)(nil), (*ast.Ellipsis)(nil), (*ast.BasicLit)(nil), (*ast.FuncLit)(nil),
		(*ast.CompositeLit)(nil), (*ast.ParenExpr)(nil), (*ast.SelectorExpr)(nil), (*ast.IndexExpr)(nil),
		(*ast.IndexListExpr)(nil), (*ast.SliceExpr)(nil), (*ast.TypeAssertExpr)(nil), (*ast.CallExpr)(nil),
		(*ast.StarExpr)(nil), (*ast.UnaryExpr)(nil), (*ast.BinaryExpr)(nil), (*ast.KeyValueExpr)(nil),
		(*ast.ArrayType)(nil), (*ast.StructType)(nil), (*ast.FuncType)(nil), (*ast.InterfaceType)(nil),
		(*ast.MapType)(nil), (*ast.ChanType)(nil),
	} {
		t := reflect.TypeOf(p).Elem()
		goKinds[t.Name()] = t
	}
}

type deser struct {
	toks []string
	i    int
}

func (d *deser) next() (string, error) {
	if d.i >= len(d.toks) {
		return "", fmt.Errorf("unexpected end of tree")
	}
	t := d.toks[d.i]
	d.i++
	return t, nil
}

// value parses one value into a reflect.Value assignable to type t.
func (d *deser) value(t reflect.Type) (reflect.Value, error) {
	tok, err := d.next()
	if err != nil {
		return reflect.Value{}, err
	}
	zero := reflect.Zero(t)
	switch {
	case tok == "_":
		return zero, nil
	case tok == "[":
		if t.Kind() != reflect.Slice {
			return zero, fmt.Errorf("slice for %v", t)
		}
		sl := reflect.MakeSlice(t, 0, 4)
		for {
			if d.i < len(d.toks) && d.toks[d.i] == "]" {
				d.i++
				return sl, nil
			}
			e, err := d.value(t.Elem())
			if err != nil {
				return zero, err
			}
			sl = reflect.Append(sl, e)
		}
	case tok[0] == '(':
		kt, ok := goKinds[tok[1:]]
		if !ok {
			return zero, fmt.Errorf("unknown kind %s", tok[1:])
		}
		p := reflect.New(kt)
		for {
			nm, err := d.next()
			if err != nil {
				return zero, err
			}
			if nm == ")" {
				break
			}
			if !strings.HasSuffix(nm, "=") {
				return zero, fmt.Errorf("field name expected, got %s", nm)
			}
			f := p.Elem().FieldByName(strings.TrimSuffix(nm, "="))
			if !f.IsValid() {
				return zero, fmt.Errorf("no field %s in %s", nm, kt.Name())
			}
			fv, err := d.value(f.Type())
			if err != nil {
				return zero, err
			}
			f.Set(fv)
		}
		if !p.Type().AssignableTo(t) {
			return zero, fmt.Errorf("%v not assignable to %v", p.Type(), t)
		}
		return p, nil
	case tok[0] == 'p' || tok[0] == 'n':
		n, err := strconv.ParseInt(tok[1:], 10, 64)
		if err != nil {
			return zero, err
		}
		v := reflect.New(t).Elem()
		switch t.Kind() {
		case reflect.Bool:
			v.SetBool(n != 0)
		case reflect.Int, reflect.Int8, reflect.Int16, reflect.Int32, reflect.Int64:
			v.SetInt(n)
		case reflect.Uint, reflect.Uint8, reflect.Uint16, reflect.Uint32, reflect.Uint64:
			v.SetUint(uint64(n))
		default:
			return zero, fmt.Errorf("number for %v", t)
		}
		return v, nil
	case tok[0] == 's':
		b, err := hex.DecodeString(tok[1:])
		if err != nil || t.Kind() != reflect.String {
			return zero, fmt.Errorf("bad string %s for %v", tok, t)
		}
		v := reflect.New(t).Elem()
		v.SetString(string(b))
		return v, nil
	case tok[0] == 'o':
		switch {
		case t == tGoCG:
			return reflect.ValueOf(&ast.CommentGroup{}), nil
		case t == tGoBlock:
			b := &ast.BlockStmt{}
			if strings.HasPrefix(tok, "oBlock") {
				n, _ := strconv.Atoi(tok[6:])
				for i := 0; i < n; i++ {
					b.List = append(b.List, &ast.EmptyStmt{})
				}
			}
			return reflect.ValueOf(b), nil
		}
		return zero, nil
	}
	return zero, fmt.Errorf("bad token %q", tok)
}

func parseGoFile(s string) (*ast.File, error) {
	d := &deser{toks: strings.Split(s, " ")}
	v, err := d.value(reflect.TypeOf((*ast.File)(nil)))
	if err != nil {
		return nil, err
	}
	if d.i != len(d.toks) {
		return nil, fmt.Errorf("trailing tokens")
	}
	f, _ := v.Interface().(*ast.File)
	return f, nil
}

// ---------------------------------------------------------------------------------------------
// header normaliser (property oracle): a deep copy of a Go declaration in which
//   - positions are dropped, except that the three positions whose validity changes the printed
//     text (GenDecl.Lparen, TypeSpec.Assign, CallExpr.Ellipsis) become 1 when valid,
//   - doc/line comments and object links are dropped, FuncDecl.Body is dropped and FuncLit.Body is
//     the empty block (bodies are not converted, by design),
//   - empty slices are nil.
// The copy is printed with go/printer; equal text = equal header.

var flagPos = map[string]bool{"GenDecl.Lparen": true, "TypeSpec.Assign": true, "CallExpr.Ellipsis": true}

func normCopy(v reflect.Value, owner, fname string) reflect.Value {
	t := v.Type()
	switch {
	case t == tPos:
		r := reflect.New(t).Elem()
		if flagPos[owner+"."+fname] && v.Int() != 0 {
			r.SetInt(1)
		}
		return r
	case t == tGoCG, t == tGoObj, t == tGoScope:
		return reflect.Zero(t)
	case t == tGoBlock:
		if owner == "FuncLit" {
			return reflect.ValueOf(&ast.BlockStmt{})
		}
		return reflect.Zero(t)
	}
	switch v.Kind() {
	case reflect.Interface:
		if v.IsNil() {
			return reflect.Zero(t)
		}
		r := reflect.New(t).Elem()
		r.Set(normCopy(v.Elem(), owner, fname))
		return r
	case reflect.Ptr:
		if v.IsNil() {
			return reflect.Zero(t)
		}
		e := v.Elem()
		if e.Kind() != reflect.Struct {
			return v
		}
		p := reflect.New(e.Type())
		for i := 0; i < e.NumField(); i++ {
			sf := e.Type().Field(i)
			if !sf.IsExported() {
				continue
			}
			p.Elem().Field(i).Set(normCopy(e.Field(i), e.Type().Name(), sf.Name))
		}
		return p
	case reflect.Slice:
		if v.Len() == 0 {
			return reflect.Zero(t)
		}
		sl := reflect.MakeSlice(t, v.Len(), v.Len())
		for i := 0; i < v.Len(); i++ {
			sl.Index(i).Set(normCopy(v.Index(i), owner, fname))
		}
		return sl
	}
	return v
}

func normDecl(d ast.Decl) ast.Decl {
	r := normCopy(reflect.ValueOf(d), "", "")
	return r.Interface().(ast.Decl)
}

// firstDiff names the first place (Kind.Field) where two normalised trees differ.
func firstDiff(a, b reflect.Value, where string) string {
	if a.Type() != b.Type() {
		return where
	}
	switch a.Kind() {
	case reflect.Interface, reflect.Ptr:
		if a.IsNil() || b.IsNil() {
			if a.IsNil() != b.IsNil() {
				return where
			}
			return ""
		}
		if a.Kind() == reflect.Interface {
			return firstDiff(a.Elem(), b.Elem(), where)
		}
		ea, eb := a.Elem(), b.Elem()
		if ea.Type() != eb.Type() {
			return where
		}
		if ea.Kind() != reflect.Struct {
			return ""
		}
		for i := 0; i < ea.NumField(); i++ {
			sf := ea.Type().Field(i)
			if !sf.IsExported() {
				continue
			}
			if d := firstDiff(ea.Field(i), eb.Field(i), ea.Type().Name()+"."+sf.Name); d != "" {
				return d
			}
		}
		return ""
	case reflect.Slice:
		if a.Len() != b.Len() {
			return where
		}
		for i := 0; i < a.Len(); i++ {
			if d := firstDiff(a.Index(i), b.Index(i), where); d != "" {
				return d
			}
		}
		return ""
	case reflect.String:
		if a.String() != b.String() {
			return where
		}
	case reflect.Bool:
		if a.Bool() != b.Bool() {
			return where
		}
	case reflect.Int, reflect.Int8, reflect.Int16, reflect.Int32, reflect.Int64:
		if a.Int() != b.Int() {
			return where
		}
	}
	return ""
}

// exprSlots collects the addresses of all ast.Expr-typed slots of a declaration that lie outside
// function bodies (candidates for fault injection).
func exprSlots(v reflect.Value, out *[]reflect.Value) {
	tExpr := reflect.TypeOf((*ast.Expr)(nil)).Elem()
	t := v.Type()
	if t == tGoCG || t == tGoObj || t == tGoScope || t == tGoBlock {
		return
	}
	switch v.Kind() {
	case reflect.Interface:
		if t == tExpr && v.CanSet() && !v.IsNil() {
			*out = append(*out, v)
		}
		if !v.IsNil() {
			exprSlots(v.Elem(), out)
		}
	case reflect.Ptr:
		if !v.IsNil() && v.Elem().Kind() == reflect.Struct {
			e := v.Elem()
			for i := 0; i < e.NumField(); i++ {
				if e.Type().Field(i).IsExported() {
					exprSlots(e.Field(i), out)
				}
			}
		}
	case reflect.Slice:
		for i := 0; i < v.Len(); i++ {
			exprSlots(v.Index(i), out)
		}
	}
}
