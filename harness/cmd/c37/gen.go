// Generators for C37: random Go declarations as source text (grammar-directed, heavy on the
// constructs a converter can lose: type parameters, instantiations, func types, struct tags,
// embedded fields, interface unions, variadics, channel directions, iota groups, multi-name
// specs) and fault injection into parsed trees (kinds/shapes the converters reject).
package main

import (
	"fmt"
	"go/ast"
	"go/token"
	"reflect"
	"strings"

	"verifharness/vh"
)

type gen struct {
	r     *vh.Rand
	depth int
	tps   []string // type parameter names in scope
}

var idents = []string{"a", "b", "x", "y", "n", "buf", "T0", "Foo", "bar", "_"}
var tnames = []string{"int", "string", "byte", "error", "any", "Foo", "Bar", "float64", "bool", "uintptr"}
var pkgs = []string{"io", "fmt", "sync", "atomic", "pkg"}

func (g *gen) pick(xs []string) string { return xs[g.r.Intn(len(xs))] }
func (g *gen) name() string {
	n := g.pick(idents)
	if n == "_" {
		return "v" + fmt.Sprint(g.r.Intn(9))
	}
	return n
}
func (g *gen) exported() string { return g.pick([]string{"F", "Get", "Map", "New", "String", "Len", "Less", "Swap"}) }

func (g *gen) typ() string {
	g.depth++
	defer func() { g.depth-- }()
	if g.depth > 4 {
		if len(g.tps) > 0 && g.r.Bool() {
			return g.pick(g.tps)
		}
		return g.pick(tnames)
	}
	switch g.r.Intn(20) {
	case 0, 1, 2:
		if len(g.tps) > 0 {
			return g.pick(g.tps)
		}
		return g.pick(tnames)
	case 3:
		return g.pick(pkgs) + "." + g.pick([]string{"Reader", "Writer", "Mutex", "Value", "T"})
	case 4:
		return "*" + g.typ()
	case 5:
		return "[]" + g.typ()
	case 6:
		return fmt.Sprintf("[%s]%s", g.pick([]string{"4", "N", "1 << 3", "len(x)"}), g.typ())
	case 7:
		return fmt.Sprintf("map[%s]%s", g.typ(), g.typ())
	case 8:
		return g.pick([]string{"chan ", "<-chan ", "chan<- "}) + g.typ()
	case 9:
		return "chan (" + g.pick([]string{"<-chan ", "chan<- "}) + g.typ() + ")"
	case 10:
		return "func" + g.signature(false)
	case 11:
		return g.structType()
	case 12:
		return g.ifaceType(false)
	case 13: // instantiation with one argument
		return g.pick([]string{"List", "atomic.Pointer", "Seq"}) + "[" + g.typ() + "]"
	case 14: // instantiation with several arguments
		return g.pick([]string{"Pair", "maps.Map", "Seq2"}) + "[" + g.typ() + ", " + g.typ() + g.pick([]string{"", ", " + g.pick(tnames)}) + "]"
	case 15:
		return "(" + g.typ() + ")"
	case 16:
		return "interface{}"
	case 17:
		return "struct{}"
	default:
		return g.pick(tnames)
	}
}

func (g *gen) params(allowVariadic bool) string {
	n := g.r.Intn(4)
	var ps []string
	named := g.r.Bool()
	for i := 0; i < n; i++ {
		t := g.typ()
		if allowVariadic && i == n-1 && g.r.Chance(35) {
			t = "..." + t
		}
		switch {
		case !named:
			ps = append(ps, t)
		case g.r.Chance(30):
			ps = append(ps, g.name()+fmt.Sprint(i)+", "+g.name()+fmt.Sprint(i+10)+" "+t)
		default:
			ps = append(ps, g.name()+fmt.Sprint(i)+" "+t)
		}
	}
	return "(" + strings.Join(ps, ", ") + ")"
}

func (g *gen) signature(_ bool) string {
	s := g.params(true)
	switch g.r.Intn(5) {
	case 0:
	case 1:
		s += " " + g.typ()
	case 2:
		s += " (" + g.typ() + ")"
	case 3:
		s += " (" + g.typ() + ", " + g.typ() + ")"
	case 4:
		s += " (" + g.name() + " " + g.typ() + ", err error)"
	}
	return s
}

func (g *gen) tag() string {
	switch g.r.Intn(4) {
	case 0:
		return " `json:\"" + g.name() + ",omitempty\"`"
	case 1:
		return " \"xml:\\\"a\\\"\""
	default:
		return ""
	}
}

func (g *gen) structType() string {
	n := g.r.Intn(4)
	var fs []string
	for i := 0; i < n; i++ {
		switch g.r.Intn(5) {
		case 0: // embedded
			fs = append(fs, g.pick([]string{"io.Reader", "*Foo", "Bar", "sync.Mutex", "List[int]", "*Pair[K, V]"})+g.tag())
		case 1: // multi-name
			fs = append(fs, fmt.Sprintf("f%d, g%d %s%s", i, i, g.typ(), g.tag()))
		default:
			fs = append(fs, fmt.Sprintf("f%d %s%s", i, g.typ(), g.tag()))
		}
	}
	return "struct { " + strings.Join(fs, "; ") + " }"
}

func (g *gen) union() string {
	n := 1 + g.r.Intn(3)
	var ts []string
	for i := 0; i < n; i++ {
		t := g.pick([]string{"int", "string", "float64", "[]byte", "int8", "uint", "Foo"})
		if g.r.Chance(50) {
			t = "~" + t
		}
		ts = append(ts, t)
	}
	return strings.Join(ts, " | ")
}

func (g *gen) ifaceType(constraint bool) string {
	n := g.r.Intn(4)
	var ms []string
	for i := 0; i < n; i++ {
		switch g.r.Intn(4) {
		case 0:
			ms = append(ms, g.pick([]string{"io.Reader", "fmt.Stringer", "comparable", "Foo[int]"}))
		case 1:
			ms = append(ms, g.union())
		default:
			ms = append(ms, g.exported()+fmt.Sprint(i)+g.signature(false))
		}
	}
	if constraint && len(ms) == 0 {
		ms = append(ms, g.union())
	}
	return "interface { " + strings.Join(ms, "; ") + " }"
}

func (g *gen) typeParams() (string, []string) {
	n := 1 + g.r.Intn(3)
	var ps, names []string
	for i := 0; i < n; i++ {
		nm := []string{"T", "K", "V", "E", "S"}[(i+g.r.Intn(5))%5] + fmt.Sprint(i)
		names = append(names, nm)
		var c string
		switch g.r.Intn(7) {
		case 0:
			c = "any"
		case 1:
			c = "comparable"
		case 2:
			c = g.union()
		case 3:
			c = "~[]" + g.pick(append([]string{"int"}, names...))
		case 4:
			c = g.ifaceType(true)
		case 5:
			c = "constraints.Ordered"
		default:
			c = "fmt.Stringer"
		}
		if g.r.Chance(20) && i+1 < n { // grouped names: [A, B any]
			nm2 := nm + "b"
			names = append(names, nm2)
			ps = append(ps, nm+", "+nm2+" "+c)
		} else {
			ps = append(ps, nm+" "+c)
		}
	}
	return "[" + strings.Join(ps, ", ") + "]", names
}

func (g *gen) lit() string {
	return g.pick([]string{"0", "1", "42", "0x1F", "1_000", "3.14", "1e9", "2i", "'a'", "'\\n'", "\"s\"", "\"\"", "`raw\\n`", "\"\\u00e9\"", "true", "nil", "iota"})
}

func (g *gen) expr() string {
	g.depth++
	defer func() { g.depth-- }()
	if g.depth > 4 {
		if g.r.Bool() {
			return g.lit()
		}
		return g.name()
	}
	switch g.r.Intn(22) {
	case 0, 1:
		return g.lit()
	case 2:
		return g.name()
	case 3:
		return g.expr() + " " + g.pick([]string{"+", "-", "*", "/", "%", "&", "|", "^", "<<", ">>", "&^", "&&", "||", "==", "!=", "<", "<=", ">", ">="}) + " " + g.expr()
	case 4:
		return g.pick([]string{"-", "+", "!", "^", "&", "<-", "*"}) + g.name()
	case 5:
		return "(" + g.expr() + ")"
	case 6:
		args := []string{}
		for i := g.r.Intn(3); i > 0; i-- {
			args = append(args, g.expr())
		}
		ell := ""
		if len(args) > 0 && g.r.Chance(30) {
			ell = "..."
		}
		return g.pick([]string{"f", "pkg.New", "make", "len", "append"}) + "(" + strings.Join(args, ", ") + ell + ")"
	case 7:
		return g.name() + "[" + g.expr() + "]"
	case 8:
		return g.name() + g.pick([]string{"[:]", "[1:]", "[:n]", "[1:2]", "[1:2:3]", "[:2:n]"})
	case 9:
		return g.name() + "." + g.exported()
	case 10:
		return g.name() + ".(" + g.typ() + ")"
	case 11: // composite literal with keys
		var el []string
		for i := g.r.Intn(3); i > 0; i-- {
			if g.r.Bool() {
				el = append(el, g.name()+": "+g.expr())
			} else {
				el = append(el, g.expr())
			}
		}
		return g.pick([]string{"Foo", "[]int", "map[string]int", "[...]string", "pkg.T", "Pair[int, string]", "List[T0]", "struct{ a int }"}) + "{" + strings.Join(el, ", ") + "}"
	case 12: // function literal (body is dropped by the converters)
		return "func" + g.signature(false) + " { " + g.pick([]string{"", "return", "x := 1; _ = x", "for {}"}) + " }"
	case 13:
		return "&" + g.pick([]string{"Foo", "pkg.T"}) + "{" + "}"
	case 14: // generic call / instantiation
		return g.pick([]string{"F", "pkg.Map"}) + "[" + g.typ() + g.pick([]string{"", ", " + g.typ()}) + "](" + g.expr() + ")"
	case 15: // conversion
		return g.pick([]string{"int", "[]byte", "(*Foo)", "(func())", "Seq[int]"}) + "(" + g.expr() + ")"
	case 16:
		return "[]" + g.typ() + "{" + "{}" + "}"
	case 17:
		return "map[" + g.pick(tnames) + "]" + g.typ() + "{" + g.lit() + ": " + "{}" + "}"
	case 18:
		return "*" + g.name()
	case 19:
		return "<-" + g.name()
	default:
		return g.lit()
	}
}

func (g *gen) recv() string {
	base := g.pick([]string{"Foo", "List", "Pair"})
	star := g.pick([]string{"", "*"})
	nm := g.pick([]string{"p ", "r ", "_ ", ""})
	switch base {
	case "List":
		return "(" + nm + star + "List[T])"
	case "Pair":
		return "(" + nm + star + "Pair[K, V])"
	}
	return "(" + nm + star + base + ")"
}

func (g *gen) decl() string {
	g.tps = nil
	g.depth = 0
	switch g.r.Intn(12) {
	case 0, 1: // function, maybe generic
		tp := ""
		if g.r.Chance(60) {
			tp, g.tps = g.typeParams()
		}
		body := g.pick([]string{" { }", " { return }", " { x := 1; _ = x }", ""})
		return "func " + g.exported() + tp + g.signature(true) + body
	case 2: // method
		return "func " + g.recv() + " " + g.exported() + g.signature(true) + " { }"
	case 3: // generic type
		tp, names := g.typeParams()
		g.tps = names
		return "type " + g.pick([]string{"List", "Pair", "Tree", "Set"}) + tp + " " + g.typ()
	case 4: // plain / alias type
		return "type " + g.pick([]string{"A", "B", "Foo"}) + g.pick([]string{" ", " = "}) + g.typ()
	case 5: // grouped types
		tp, _ := g.typeParams()
		return "type (\n A " + g.typ() + "\n B = " + g.typ() + "\n C" + tp + " " + g.typ() + "\n)"
	case 6: // const group with iota and implicit repetition
		var ls []string
		ls = append(ls, g.pick([]string{"a = iota", "a Foo = iota", "a = 1 << iota", "_ = iota + 1", "a, b = iota, iota * 2"}))
		for i := g.r.Intn(4); i > 0; i-- {
			ls = append(ls, g.pick([]string{"c" + fmt.Sprint(i), "_", "d" + fmt.Sprint(i) + " = " + g.expr(), "e" + fmt.Sprint(i) + ", f" + fmt.Sprint(i)}))
		}
		return "const (\n" + strings.Join(ls, "\n") + "\n)"
	case 7:
		return "const " + g.name() + " " + g.pick([]string{"", "int ", "Foo "}) + "= " + g.expr()
	case 8: // var with several names
		switch g.r.Intn(4) {
		case 0:
			return "var " + g.name() + "1, " + g.name() + "2 " + g.typ()
		case 1:
			return "var " + g.name() + "1, " + g.name() + "2 = " + g.expr() + ", " + g.expr()
		case 2:
			return "var " + g.name() + "1, " + g.name() + "2 " + g.typ() + " = " + g.expr() + ", " + g.expr()
		default:
			return "var (\n x1 " + g.typ() + "\n y1, z1 = " + g.expr() + ", " + g.expr() + "\n)"
		}
	case 9:
		return "var " + g.name() + " " + g.pick([]string{"", g.typ() + " "}) + "= " + g.expr()
	case 10: // imports
		return g.pick([]string{"import \"fmt\"", "import f \"fmt\"", "import . \"io\"", "import _ \"embed\"", "import (\n \"a/b\"\n c \"d\"\n)", "import ()"})
	default:
		return "var _ " + g.typ()
	}
}

// ---------------------------------------------------------------------------------------------
// fault injection: returns a description, or "" if not applicable to this declaration.

func inject(r *vh.Rand, d *ast.Decl) string {
	switch r.Intn(9) {
	case 0, 1, 2: // an expression kind no converter handles
		var slots []reflect.Value
		exprSlots(reflect.ValueOf(d).Elem(), &slots)
		if len(slots) == 0 {
			return ""
		}
		slots[r.Intn(len(slots))].Set(reflect.ValueOf(&ast.BadExpr{}))
		return "BadExpr"
	case 3: // function literal without a type (nil dereference in gopFuncType)
		var slots []reflect.Value
		exprSlots(reflect.ValueOf(d).Elem(), &slots)
		if len(slots) == 0 {
			return ""
		}
		slots[r.Intn(len(slots))].Set(reflect.ValueOf(&ast.FuncLit{Body: &ast.BlockStmt{}}))
		return "FuncLit-nil-type"
	case 4: // declaration keyword the spec switch does not know
		if gd, ok := (*d).(*ast.GenDecl); ok && len(gd.Specs) > 0 {
			gd.Tok = []token.Token{token.ILLEGAL, token.FUNC, token.PACKAGE}[r.Intn(3)]
			return "GenDecl-bad-tok"
		}
	case 5: // spec of the wrong kind for the keyword (type assertion fails)
		if gd, ok := (*d).(*ast.GenDecl); ok && len(gd.Specs) > 0 {
			switch gd.Tok {
			case token.TYPE:
				gd.Tok = token.VAR
			case token.IMPORT:
				gd.Tok = token.TYPE
			default:
				gd.Tok = token.IMPORT
			}
			return "GenDecl-spec-mismatch"
		}
	case 6: // nil spec / nil field
		if gd, ok := (*d).(*ast.GenDecl); ok && len(gd.Specs) > 0 {
			gd.Specs[r.Intn(len(gd.Specs))] = nil
			return "nil-spec"
		}
		if fd, ok := (*d).(*ast.FuncDecl); ok && fd.Type.Params != nil && len(fd.Type.Params.List) > 0 {
			fd.Type.Params.List[0] = nil
			return "nil-field"
		}
	case 7: // declaration kinds gopDecl rejects
		if r.Bool() {
			*d = &ast.BadDecl{}
			return "BadDecl"
		}
		*d = nil
		return "nil-decl"
	case 8: // function declaration without a type
		if fd, ok := (*d).(*ast.FuncDecl); ok {
			fd.Type = nil
			return "FuncDecl-nil-type"
		}
	}
	return ""
}
