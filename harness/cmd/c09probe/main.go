package main

import (
	"fmt"
	"os"
	"verifharness/xrun"
)

func main() {
	os.Chdir(xrun.Repo())
	src := `import "runtime"

// doc of mark
func mark(id int) int {
	_, f, l, _ := runtime.Caller(1)
	println(id, f, l)
	return id
}

type T struct{ a int }

// method doc
// second line
func (p *T) M(x int) int {
	mark(1)
	return x
}

func f(a, b int) int {
	mark(2)
	// comment between
	x := mark(3) +
		mark(4)

	// doc of var
	var y = mark(5)
	const c = 3
	if mark(6) > 0 {
		mark(7)
	} else if mark(8) > 1 {
		mark(9)
	}
	for i := mark(10); i < 12; i++ {
		mark(11)
	}
	switch mark(12) {
	case mark(13):
		mark(14)
	default:
		mark(15)
	}
	g := func(k int) int {
		mark(16)
		return k
	}
	defer mark(17)
	go mark(18)
	g(
		mark(19),
	)
	for v <- [1, 2] {
		mark(20 + v)
	}
	z := [mark(30+v) for v <- [1,2]]
	_ = z
	println mark(40), mark(41)
	return x + y
}

mark(50)
f 1, 2
t := &T{}
t.M(3)
`
	out, err := xrun.CompileFile("prog.xgo", src, true)
	fmt.Println(string(out), err)
}
