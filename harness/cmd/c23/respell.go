// Surface re-spelling: keep the token sequence of a source, re-draw everything between the tokens.
// Token boundaries come from the REAL scanner; every change is verified by re-scanning (the
// sequence of non-comment tokens with their literals must stay identical), so a re-spelled script
// means the same and all expectations (which are recomputed from the final text anyway) carry over.
package main

import (
	"strings"

	"github.com/goplus/xgo/scanner"
	"github.com/goplus/xgo/token"
	"verifharness/vh"
)

type rtok struct {
	off, end int
	tok      token.Token
	lit      string
	auto     bool // automatically inserted semicolon (no source text)
}

func rscan(src []byte) (ts []rtok, ok bool) {
	defer func() {
		if recover() != nil {
			ok = false
		}
	}()
	fset := token.NewFileSet()
	f := fset.AddFile("", fset.Base(), len(src))
	var s scanner.Scanner
	s.Init(f, src, nil, scanner.ScanComments)
	base := f.Base()
	for n := 0; n <= 4*len(src)+16; n++ {
		pos, tok, lit := s.Scan()
		if tok == token.EOF {
			return ts, true
		}
		t := rtok{off: int(pos) - base, tok: tok, lit: lit}
		switch {
		case tok == token.SEMICOLON && lit == "\n":
			t.auto = true
			t.end = t.off
		case lit != "":
			t.end = t.off + len(lit)
		default:
			t.end = t.off + len(tok.String())
		}
		ts = append(ts, t)
	}
	return nil, false
}

// tokenKey: the non-comment tokens with their literals (automatic semicolons included).
func tokenKey(ts []rtok) string {
	var b strings.Builder
	for _, t := range ts {
		if t.tok == token.COMMENT {
			continue
		}
		b.WriteString(t.tok.String())
		b.WriteByte(0)
		b.WriteString(t.lit)
		b.WriteByte(1)
	}
	return b.String()
}

func isBlankRun(s string) bool {
	for i := 0; i < len(s); i++ {
		switch s[i] {
		case ' ', '\t', '\r', '\n':
		default:
			return false
		}
	}
	return true
}

// style 0: free mix; 1: never a plain blank first (tab / nothing / glued comment / newline);
// 2: tabs; 3: wide blanks; 4: CRLF line ends everywhere.
func drawGap(r *vh.Rand, old string, style int) string {
	nl := strings.Contains(old, "\n")
	if nl {
		switch style {
		case 4:
			return strings.ReplaceAll(strings.ReplaceAll(old, "\r\n", "\n"), "\n", "\r\n")
		case 1:
			return r.Pick([]string{"\n", "\n\t", "\r\n", "\n\n", "\t\n", "/*g*/\n", ""})
		}
		return r.Pick([]string{"\n", "\n", "\r\n", "\n\n", " \n\t", "\n    ", " ", "\t// g\n"})
	}
	switch style {
	case 1:
		return r.Pick([]string{"\t", "", "/*g*/", "\n", "\t\t", "/*g*/\t", "\r\n"})
	case 2:
		return "\t"
	case 3:
		return r.Pick([]string{"  ", "    ", " \t "})
	}
	return r.Pick([]string{" ", "\t", "   ", "", "\n", "/*g*/", " /* g */ ", "\r\n"})
}

// respell re-draws the gaps of src one by one (each accepted only if the token key is unchanged),
// the text before the first and after the last token, and optionally adds a BOM.
func respell(r *vh.Rand, src []byte) []byte {
	ts, ok := rscan(src)
	if !ok || len(ts) == 0 || len(ts) > 400 {
		return src
	}
	key := tokenKey(ts)
	style := r.Intn(6)
	if style == 5 {
		style = 1 // the "no plain blank" style twice as often
	}
	cur := string(src)
	// real (non-automatic) tokens, right to left so that earlier offsets stay valid
	var real []rtok
	for _, t := range ts {
		if !t.auto {
			real = append(real, t)
		}
	}
	try := func(cand string) bool {
		ts2, ok := rscan([]byte(cand))
		if ok && tokenKey(ts2) == key {
			cur = cand
			return true
		}
		return false
	}
	// tail after the last token
	if last := real[len(real)-1]; last.end <= len(cur) && isBlankRun(cur[last.end:]) {
		try(cur[:last.end] + r.Pick([]string{"", "\n", "\r\n", "\n\n", " ", "\n\t"}))
	}
	for i := len(real) - 1; i >= 1; i-- {
		a, b := real[i-1].end, real[i].off
		if a > b || b > len(cur) || !isBlankRun(cur[a:b]) {
			continue // not a pure white-space gap (or the literal's text differs from the source)
		}
		if style == 0 && r.Chance(40) {
			continue
		}
		for attempt := 0; attempt < 3; attempt++ {
			if try(cur[:a] + drawGap(r, cur[a:b], style) + cur[b:]) {
				break
			}
		}
	}
	// head before the first token
	if first := real[0]; isBlankRun(cur[:first.off]) && r.Chance(30) {
		try(r.Pick([]string{"", "\n", "  ", "\t", "\r\n"}) + cur[first.off:])
	}
	if r.Chance(8) {
		try("\xef\xbb\xbf" + cur)
	}
	return []byte(cur)
}
