// Differential + oracle harness for C23 (ast.SortImports as used by format.Source).
//
// A generated complete file with import declarations is parsed with the REAL parser (the
// "before" view: per import declaration the specs with name, unquoted path, literal, trailing
// comment text, line of Pos()/End()); the real format.Source formats it; the result is parsed
// again (the "after" view).  The Lean model gets the before view and must predict the after
// view (order of (name, path) in every declaration).  Oracles on the real output: the set of
// (name, path) imports is unchanged, only exact duplicates disappear and never a commented one's
// last copy, ungrouped declarations are untouched, every contiguous group of the output is sorted
// by path.
package main

import (
	"bytes"
	"fmt"
	"sort"
	"strconv"
	"strings"

	"github.com/goplus/xgo/ast"
	"github.com/goplus/xgo/format"
	"github.com/goplus/xgo/parser"
	"github.com/goplus/xgo/printer"
	"github.com/goplus/xgo/token"
	"verifharness/vh"
)

type spec struct {
	name, path, lit string
	hasComment      bool
	comment         string
	line, endLine   int
}

type decl struct {
	kind  byte // 'G' grouped import, 'U' ungrouped import, 'O' other
	specs []spec
}

func view(src []byte) (ds []decl, err error) {
	defer func() {
		if e := recover(); e != nil {
			err = fmt.Errorf("PANIC %v", e)
		}
	}()
	fset := token.NewFileSet()
	f, perr := parser.ParseFile(fset, "", src, parser.ParseComments)
	if perr != nil {
		return nil, perr
	}
	line := func(p token.Pos) int { return fset.PositionFor(p, false).Line }
	for _, d := range f.Decls {
		g, ok := d.(*ast.GenDecl)
		if !ok || g.Tok != token.IMPORT {
			ds = append(ds, decl{kind: 'O'})
			continue
		}
		dd := decl{kind: 'U'}
		if g.Lparen.IsValid() {
			dd.kind = 'G'
		}
		for _, s := range g.Specs {
			is := s.(*ast.ImportSpec)
			sp := spec{lit: is.Path.Value, line: line(is.Pos()), endLine: line(is.End())}
			if t, e := strconv.Unquote(is.Path.Value); e == nil {
				sp.path = t
			}
			if is.Name != nil {
				sp.name = is.Name.Name
			}
			if is.Comment != nil {
				sp.hasComment = true
				sp.comment = is.Comment.Text()
			}
			dd.specs = append(dd.specs, sp)
		}
		ds = append(ds, dd)
	}
	return ds, nil
}

func caseLine(ds []decl) string {
	parts := make([]string, len(ds))
	for i, d := range ds {
		if d.kind == 'O' {
			parts[i] = "O"
			continue
		}
		ss := make([]string, len(d.specs))
		for j, s := range d.specs {
			c := "N"
			if s.hasComment {
				c = vh.HexS(s.comment)
			}
			ss[j] = fmt.Sprintf("%s,%s,%s,%s,%d,%d", vh.HexS(s.name), vh.HexS(s.path), vh.HexS(s.lit), c, s.line, s.endLine)
		}
		parts[i] = string(d.kind) + ":" + strings.Join(ss, ";")
	}
	return "c23\t" + strings.Join(parts, "|")
}

func outLine(ds []decl) string {
	parts := make([]string, len(ds))
	for i, d := range ds {
		if d.kind == 'O' {
			parts[i] = "O"
			continue
		}
		ss := make([]string, len(d.specs))
		for j, s := range d.specs {
			ss[j] = vh.HexS(s.name) + "," + vh.HexS(s.path)
		}
		parts[i] = string(d.kind) + ":" + strings.Join(ss, ";")
	}
	return strings.Join(parts, "|")
}

type pair struct{ name, path string }

func counts(ds []decl) map[pair]int {
	m := map[pair]int{}
	for _, d := range ds {
		for _, s := range d.specs {
			m[pair{s.name, s.path}]++
		}
	}
	return m
}

// run formats src through both entry points: format.Source(src) and parser.ParseFile +
// format.Node(*ast.File) (which sorts imports on a re-parsed copy of its own printout).
func run(src []byte, o *vh.Out) {
	runVia(src, o, "")
	runVia(src, o, ":node")
}

var printCfg = printer.Config{Mode: printer.UseSpaces | printer.TabIndent, Tabwidth: 8}

func runVia(src []byte, o *vh.Out, via string) {
	before, err := view(src)
	if err != nil {
		if via == "" {
			o.Count("input_not_parsed")
		}
		return
	}
	var out []byte
	var ferr error
	func() {
		defer func() {
			if e := recover(); e != nil {
				ferr = fmt.Errorf("PANIC %v", e)
			}
		}()
		if via == "" {
			out, ferr = format.Source(src, false)
			return
		}
		// format.Node sorts what it re-parses from its own printout: the "before" view of this
		// path is that printout (same imports, canonical layout)
		fset := token.NewFileSet()
		file, perr := parser.ParseFile(fset, "", src, parser.ParseComments)
		if perr != nil {
			ferr = perr
			return
		}
		var pb bytes.Buffer
		if ferr = printCfg.Fprint(&pb, fset, file); ferr != nil {
			return
		}
		if before, ferr = view(pb.Bytes()); ferr != nil {
			return
		}
		fset2 := token.NewFileSet()
		file2, perr := parser.ParseFile(fset2, "", src, parser.ParseComments)
		if perr != nil {
			ferr = perr
			return
		}
		var nb bytes.Buffer
		ferr = format.Node(&nb, fset2, file2)
		out = nb.Bytes()
	}()
	cl := caseLine(before)
	clsrc := cl + "\t" + vh.Hex(src) // oracle lines carry the source so that they can be replayed
	if ferr != nil {
		// formatting a parseable file failed: not an import-set question, but nothing to compare
		o.Count("format_failed" + via)
		if strings.HasPrefix(ferr.Error(), "PANIC") {
			o.Oracle("format-panic"+via, clsrc, ferr.Error())
		}
		return
	}
	after, err := view(out)
	if err != nil {
		if strings.Contains(err.Error(), "invalid line number") || strings.Contains(err.Error(), "invalid filename") {
			// the printer moved a malformed would-be //line comment to column 1: not an import question
			o.Count("output_invalid_line_directive")
			return
		}
		o.Oracle("output-not-parsed"+via, clsrc, err.Error())
		return
	}
	nspecs, ngrouped, nruns, ndups, ncomments, maxrun := 0, 0, 0, 0, 0, 0
	for _, d := range before {
		if d.kind == 'G' {
			ngrouped++
			run := 0
			for j, s := range d.specs {
				if j == 0 || s.line > 1+d.specs[j-1].endLine {
					nruns++
					run = 0
				}
				run++
				if run > maxrun {
					maxrun = run
				}
			}
		}
		for _, s := range d.specs {
			nspecs++
			if s.hasComment {
				ncomments++
			}
		}
	}
	cb, ca := counts(before), counts(after)
	for p, n := range cb {
		if n > 1 {
			ndups++
		}
		if ca[p] == 0 {
			o.Oracle("import-lost"+via, clsrc, fmt.Sprintf("%q %q", p.name, p.path))
		} else if ca[p] > n {
			o.Oracle("import-multiplied"+via, clsrc, fmt.Sprintf("%q %q", p.name, p.path))
		}
	}
	for p := range ca {
		if cb[p] == 0 {
			o.Oracle("import-added"+via, clsrc, fmt.Sprintf("%q %q", p.name, p.path))
		}
	}
	// a copy that carries a comment is never dropped: per (name, path) at least as many specs
	// stay as there were commented ones (and at least one)
	commented := map[pair]int{}
	for _, d := range before {
		for _, s := range d.specs {
			if s.hasComment {
				commented[pair{s.name, s.path}]++
			}
		}
	}
	for p, n := range commented {
		if ca[p] < n {
			o.Oracle("commented-duplicate-dropped"+via, clsrc, fmt.Sprintf("%q %q", p.name, p.path))
		}
	}
	if len(before) != len(after) {
		o.Oracle("decl-count"+via, clsrc, fmt.Sprintf("%d -> %d", len(before), len(after)))
	} else {
		for i := range before {
			if before[i].kind != after[i].kind {
				o.Oracle("decl-kind"+via, clsrc, fmt.Sprint(i))
				continue
			}
			if before[i].kind == 'U' {
				if outLine(before[i:i+1]) != outLine(after[i:i+1]) {
					o.Oracle("ungrouped-changed"+via, clsrc, fmt.Sprint(i))
				}
			}
		}
	}
	// every contiguous group of the OUTPUT is sorted by path
	for _, d := range after {
		if d.kind != 'G' {
			continue
		}
		for j := 1; j < len(d.specs); j++ {
			if d.specs[j].line <= 1+d.specs[j-1].endLine && d.specs[j].path < d.specs[j-1].path {
				o.Oracle("group-unsorted"+via, clsrc, fmt.Sprintf("%q after %q", d.specs[j].path, d.specs[j-1].path))
			}
		}
	}
	if via != "" {
		o.Count("via_node")
		o.Case(cl, outLine(after), false)
		return
	}
	o.Count(fmt.Sprintf("specs_%s", bucket(nspecs)))
	o.Count(fmt.Sprintf("runs_%s", bucket(nruns)))
	o.Count(fmt.Sprintf("maxrun_%s", bucket(maxrun)))
	if ndups > 0 {
		o.Count("with_duplicates")
	}
	if ncomments > 0 {
		o.Count("with_comments")
	}
	if ngrouped == 0 {
		o.Count("no_grouped_decl")
	}
	changed := outLine(before) != outLine(after)
	if changed {
		o.Count("order_or_set_changed")
	}
	o.Case(cl, outLine(after), nspecs >= 2 && ngrouped > 0)
}

func bucket(n int) string {
	switch {
	case n == 0:
		return "0"
	case n == 1:
		return "1"
	case n <= 3:
		return "2-3"
	case n <= 7:
		return "4-7"
	case n <= 12:
		return "8-12"
	}
	return "13+"
}

// ---- generator -----------------------------------------------------------------------------

var paths = []string{"日本/語", "fmt", "os", "io", "a/b", "a/c", "z", "strings", "github.com/x/y", "a", "b", "fmt", "os", "m/n", "a/b/c", "é/x", "A", "0"}
var names = []string{"", "", "", "", ".", "_", "f", "io2", "zz", "a", "b"}
var trailing = []string{" // комментарий", "", "", "", "", " // c1", " // c2", " /* c3 */", " // fmt", " /* a */ // b", " // z last"}

func lit(r *vh.Rand, p string) string {
	switch r.Intn(12) {
	case 0:
		return "`" + p + "`"
	case 1:
		if len(p) > 0 && p[0] < 0x80 {
			return fmt.Sprintf("\"\\x%02x%s\"", p[0], p[1:])
		}
	}
	return strconv.Quote(p)
}

func lineDirective(r *vh.Rand, inline bool) string {
	n := 1 + r.Intn(400)
	if inline {
		return fmt.Sprintf("/*line f%d.go:%d:%d*/", r.Intn(3), n, 1+r.Intn(9))
	}
	return fmt.Sprintf("//line f%d.go:%d", r.Intn(3), n)
}

func genSpec(r *vh.Rand, pool []string) string {
	s := ""
	if r.Chance(8) {
		s += "/* lead */ "
	}
	if r.Chance(9) {
		s += lineDirective(r, true) // renumbers the rest of the line and what follows, adds no physical line
	}
	if n := r.Pick(names); n != "" {
		s += n + " "
		if r.Chance(10) {
			s += "/* mid */ "
		}
	}
	s += lit(r, r.Pick(pool))
	s += r.Pick(trailing)
	return s
}

func genFile(r *vh.Rand) []byte {
	var b strings.Builder
	if r.Chance(30) {
		b.WriteString("// file comment\n")
	}
	if r.Chance(60) {
		b.WriteString("package main\n\n")
	}
	// a small pool makes duplicates likely
	pool := make([]string, 2+r.Intn(6))
	for i := range pool {
		pool[i] = r.Pick(paths)
	}
	nd := 1 + r.Intn(3)
	if r.Chance(6) {
		b.WriteString(lineDirective(r, false) + "\n")
	}
	for d := 0; d < nd; d++ {
		if d > 0 && r.Chance(6) {
			b.WriteString(lineDirective(r, r.Bool()) + "\n")
		}
		if r.Chance(25) { // ungrouped
			b.WriteString("import " + genSpec(r, pool) + "\n")
			if r.Chance(40) {
				b.WriteString("\n")
			}
			continue
		}
		b.WriteString("import (")
		if r.Chance(8) {
			b.WriteString(r.Pick([]string{" // open", " /* open */"}))
		}
		if r.Chance(5) {
			b.WriteString(")\n")
			continue
		}
		b.WriteString("\n")
		n := r.Intn(9)
		if r.Chance(6) {
			n = 13 + r.Intn(8) // beyond the insertion-sort threshold of sort.Slice
		}
		for i := 0; i < n; i++ {
			switch r.Intn(20) {
			case 0, 1, 2:
				b.WriteString("\n") // blank line: new run
			case 3:
				b.WriteString("\t// doc comment\n") // comment line: also a new run
			case 4:
				b.WriteString("\t/* block\n\t   comment */\n")
			case 5:
				if r.Chance(40) {
					b.WriteString(lineDirective(r, false) + "\n") // column 1: a valid //line directive (and a comment line)
				}
			}
			b.WriteString("\t" + genSpec(r, pool))
			if r.Chance(8) && i+1 < n {
				b.WriteString("; " + genSpec(r, pool))
			}
			b.WriteString("\n")
		}
		if r.Chance(10) {
			b.WriteString("\n")
		}
		if r.Chance(8) {
			b.WriteString(r.Pick([]string{"\t// before close\n", "\t/* before close */\n", "\n\t// detached\n\n"}))
		}
		if d == nd-1 && r.Chance(8) {
			// the file ends right after the last spec: `"x")` without a newline
			s := b.String()
			return []byte(strings.TrimRight(s, "\n") + ")")
		}
		b.WriteString(")\n")
		if r.Chance(40) {
			b.WriteString("\n")
		}
	}
	switch r.Intn(5) {
	case 0:
		b.WriteString("\nfunc main() {\n\tprintln(\"x\")\n}\n")
	case 1:
		b.WriteString("\nvar x = 1\n")
	case 2:
		b.WriteString("\nprintln \"hi\"\n")
	case 3:
		b.WriteString("\ntype T int\n\nimport \"late\"\n") // import after another declaration: parse error
	}
	return []byte(b.String())
}

var fixed = []string{
	"import (\n\t\"b\"\n\t\"a\"\n)\n",
	"import (\n\t\"b\"\n\t\"a\"\n\n\t\"d\"\n\t\"c\"\n)\n",
	"import (\n\t\"a\"\n\t\"a\"\n)\n",
	"import (\n\t\"a\" // c\n\t\"a\"\n)\n",
	"import (\n\t\"a\"\n\t\"a\" // c\n)\n",
	"import (\n\t\"a\" // c\n\t\"a\" // d\n)\n",
	"import (\n\tx \"a\"\n\t\"a\"\n\ty \"a\"\n\t. \"a\"\n\t_ \"a\"\n)\n",
	"import (\n\t\"b\"; \"a\"\n)\n",
	"import \"b\"\nimport \"a\"\n",
	"import (\n\t\"b\"\n\t// doc\n\t\"a\"\n)\n",
	"import (\n\t\"a\"\n\t`a`\n\t\"\\x61\"\n)\n",
	"package p\n\nimport (\n\t\"z\"\n\t\"y\"\n\t\"y\"\n\n\t\"x\"\n\t\"w\"\n)\n\nimport (\n\t\"q\"\n\t\"p\"\n)\n\nvar v int\n",
	"import (\n\t\"c\"\n\t\"c\"\n\t\"c\"\n\n\t\"b\"\n\t\"a\"\n)\n",
	"import (\n\t\"c\" // k\n\t\"c\"\n\t\"c\"\n\n\t\"b\"\n\t\"a\"\n)\n",
	"import ()\n",
	"import (\n\t\"c\"\n\t/*line f.go:100:1*/\"b\"\n\t\"a\"\n)\n",
	"import (\n\t\"z\"\n)\n\nimport (\n\t\"c\"\n\t\"b\"\n\t\"a\"\n)\n",
	"import ()\n\nimport (\n\t\"b\"\n\t\"a\"\n)\n",
	"import (\"a\"; \"a\")",
	"import (\n\t\"a\" // c\n\t\"a\")",
	"import (\n\t\"b\"; \"a\"; \"a\"\n\n\t\"d\"\n\t\"c\"\n)\n",
	"import (\n\t\"z\"; \"a\"\n\t\"a\"\n\n\t\"d\"\n\t\"c\"\n)\n",
}

func main() {
	f := vh.ParseFlags()
	o := vh.NewOut(f.Out)
	defer o.Close()
	if f.Replay != "" {
		fs := strings.Fields(f.Replay)
		if len(fs) >= 3 {
			src, _ := vh.UnHex(fs[len(fs)-1])
			run(src, o)
		} else {
			fmt.Println("replay needs the source (third field); re-run with the recorded seed")
		}
		return
	}
	for _, s := range fixed {
		run([]byte(s), o)
	}
	r := vh.NewRand(f.Seed)
	for i := 0; i < f.N; i++ {
		rr := r.Fork(i)
		src := genFile(rr)
		if rr.Chance(50) {
			if re := respell(rr, src); string(re) != string(src) {
				o.Count("gen_respelled")
				src = re
			}
		}
		run(src, o)
	}
	keys := make([]string, 0)
	for k := range o.Stats {
		keys = append(keys, k)
	}
	sort.Strings(keys)
}
