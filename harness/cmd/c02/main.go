// C02: collection sugar evaluates like its documented expansion.
// One generated XGo package per run: many scenario functions compiled by the REAL compiler, plus
// the generator's own documented Go expansion of each (plain Go, same binary).  Per scenario:
//
//	case line  mini <sexpr> <seed>:<index>     (the Lean driver evaluates lower p and p)
//	impl       the probe trace/outcome of the compiler's output
//	oracle     compiler's output vs documented expansion
//
// plus the structural tie lines  minigo <sexpr>  (normalised Go text of the compiler's output).
package main

import (
	"verifharness/minigen"
)

func main() {
	minigen.Main("c02", minigen.C02Scenario, nil, minigen.C02Fixed)
}
