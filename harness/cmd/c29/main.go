// Differential + oracle harness for C29 (TPL matcher semantics): see harness/tplm.
package main

import "verifharness/tplm"

func main() { tplm.Main("c29") }
