// Differential + oracle harness for C30: result helpers of tpl/tpl.go (List, ListOp, RangeOp,
// BinaryOp, BinaryExpr) on generated result trees, and the README calculator on generated
// arithmetic expressions.
package main

import (
	"fmt"
	"math"
	"strconv"
	"strings"

	"github.com/goplus/xgo/tpl"
	"github.com/goplus/xgo/tpl/ast"
	"github.com/goplus/xgo/tpl/matcher"
	"github.com/goplus/xgo/tpl/token"
	"verifharness/tplm"
	"verifharness/vh"
)

// ---------------------------------------------------------------------------
// values

var toks []*tpl.Token // token i has Pos i+1

// tokIndex: tokens of real match results (rendered by index, like the synthetic ones)
var tokIndex = map[*tpl.Token]int{}

func init() {
	kinds := []token.Token{token.ADD, token.SUB, token.MUL, token.QUO, token.COMMA, token.IDENT, token.INT, token.SEMICOLON}
	for i := 0; i < 40; i++ {
		toks = append(toks, &tpl.Token{Tok: kinds[i%len(kinds)], Pos: token.Pos(i + 1), Lit: ""})
	}
}

func atomExpr(n int) ast.Expr { return &ast.Ident{Name: "e" + strconv.Itoa(n), NamePos: token.Pos(1000 + n)} }

func show(v any) string {
	switch x := v.(type) {
	case nil:
		return "N"
	case *tpl.Token:
		if i, ok := tokIndex[x]; ok {
			return "T" + strconv.Itoa(i)
		}
		return "T" + strconv.Itoa(int(x.Pos)-1)
	case tplm.Leaf:
		return "L" + strconv.Itoa(int(x))
	case *ast.Ident:
		return "X" + x.Name[1:]
	case *ast.BinaryExpr:
		return "(B " + show(x.X) + " " + strconv.Itoa(int(x.OpPos)-1) + " " + show(x.Y) + ")"
	case []any:
		ps := make([]string, len(x))
		for i, e := range x {
			ps[i] = show(e)
		}
		return "(" + strings.Join(ps, " ") + ")"
	}
	return fmt.Sprintf("?%T", v)
}

// nest: the structure `X % op` results have; x0/ys are leaves or nested nests.
type nest struct {
	leaf any // used when ops == nil && x0 == nil
	x0   *nest
	ops  []opnd
}
type opnd struct {
	op int // token index
	y  *nest
}

func (n *nest) isLeaf() bool { return n.x0 == nil }

func (n *nest) value() any {
	if n.isLeaf() {
		return n.leaf
	}
	rest := make([]any, len(n.ops))
	for i, o := range n.ops {
		rest[i] = []any{toks[o.op], o.y.value()}
	}
	return []any{n.x0.value(), rest}
}

// listLeaves: operand VALUES may themselves be lists (vectors, pairs, empty lists, things that
// look like an unfolded X % op result): the non-recursive helpers must treat them as opaque.
var listLeaves bool

func listValue(r *vh.Rand) any {
	switch r.Intn(5) {
	case 0:
		return []any{}
	case 1:
		return []any{tplm.Leaf(r.Intn(9)), tplm.Leaf(r.Intn(9))} // a vector / pair
	case 2:
		return []any{tplm.Leaf(r.Intn(9)), []any{}} // looks like (x % op) with no operator
	case 3:
		return []any{tplm.Leaf(r.Intn(9)), []any{[]any{toks[r.Intn(len(toks))], tplm.Leaf(r.Intn(9))}}} // looks like x op y
	}
	return []any{nil, toks[r.Intn(len(toks))], tplm.Leaf(1)}
}

func genNest(r *vh.Rand, depth int, expr bool) *nest {
	if depth <= 0 || r.Chance(55) {
		if expr {
			return &nest{leaf: atomExpr(r.Intn(9))}
		}
		if listLeaves && r.Chance(35) {
			return &nest{leaf: listValue(r)}
		}
		switch r.Intn(4) {
		case 0:
			return &nest{leaf: toks[r.Intn(len(toks))]}
		case 1:
			return &nest{leaf: nil}
		}
		return &nest{leaf: tplm.Leaf(r.Intn(9))}
	}
	n := &nest{x0: genNest(r, depth-1, expr)}
	for k := r.Intn(4); k > 0; k-- {
		n.ops = append(n.ops, opnd{r.Intn(len(toks)), genNest(r, depth-1, expr)})
	}
	return n
}

// expected results and call logs, computed from the generator structure (not from the value
// tree): fn is called once per separator, left to right; with recursive=true a nested operand
// is folded (its calls happen) right before the call that consumes it.
func foldNR(n *nest, rc *recorder) any {
	acc := n.x0.value()
	for _, o := range n.ops {
		acc = rc.mkOp(toks[o.op], acc, o.y.value())
	}
	return acc
}
func foldR(n *nest, rc *recorder) any {
	if n.isLeaf() {
		return n.leaf
	}
	acc := foldR(n.x0, rc)
	for _, o := range n.ops {
		y := foldR(o.y, rc)
		acc = rc.mkOp(toks[o.op], acc, y)
	}
	return acc
}
func exprR(n *nest, rec bool) string {
	ev := func(m *nest) string {
		if m.isLeaf() || !rec {
			return show(m.value())
		}
		return exprR(m, rec)
	}
	acc := ev(n.x0)
	for _, o := range n.ops {
		acc = "(B " + acc + " " + strconv.Itoa(o.op) + " " + ev(o.y) + ")"
	}
	return acc
}

// damage makes a malformed argument out of a well-formed one.
func damage(r *vh.Rand, in []any) []any {
	cp := func(l []any) []any { return append([]any{}, l...) }
	in = cp(in)
	switch r.Intn(9) {
	case 0:
		return in[:1]
	case 1:
		return nil
	case 2:
		in[1] = tplm.Leaf(3)
	case 3:
		in[1] = nil
	case 4:
		in = append(in, tplm.Leaf(1))
	default:
		rest, _ := in[1].([]any)
		if len(rest) == 0 {
			in[1] = []any{[]any{toks[0]}}
			return in
		}
		rest = cp(rest)
		i := r.Intn(len(rest))
		switch r.Intn(5) {
		case 0:
			rest[i] = tplm.Leaf(4)
		case 1:
			rest[i] = []any{}
		case 2:
			p := rest[i].([]any)
			rest[i] = []any{p[0]}
		case 3:
			p := rest[i].([]any)
			rest[i] = []any{tplm.Leaf(2), p[1]}
		case 4:
			p := rest[i].([]any)
			rest[i] = []any{p[0], p[1], tplm.Leaf(7)}
		}
		in[1] = rest
	}
	return in
}

// damageDeep damages the list itself or (for the recursive helpers) a nested operand list.
func damageDeep(r *vh.Rand, in []any) []any {
	type slot struct {
		nested []any
		put    func(repl []any) []any
	}
	var slots []slot
	if len(in) >= 2 && r.Chance(50) {
		if l, ok := in[0].([]any); ok && len(l) >= 2 {
			slots = append(slots, slot{l, func(repl []any) []any {
				out := append([]any{}, in...)
				out[0] = repl
				return out
			}})
		}
		if rest, ok := in[1].([]any); ok {
			for i, p := range rest {
				pr, ok := p.([]any)
				if !ok || len(pr) < 2 {
					continue
				}
				if l, ok := pr[1].([]any); ok && len(l) >= 2 {
					i, pr := i, pr
					slots = append(slots, slot{l, func(repl []any) []any {
						out := append([]any{}, in...)
						nr := append([]any{}, rest...)
						nr[i] = []any{pr[0], repl}
						out[1] = nr
						return out
					}})
				}
			}
		}
	}
	if len(slots) > 0 {
		s := slots[r.Intn(len(slots))]
		return s.put(damageDeep(r, s.nested))
	}
	return damage(r, in)
}

func noLeaf(v any) any {
	switch x := v.(type) {
	case tplm.Leaf:
		return nil
	case []any:
		if x == nil {
			return []any(nil)
		}
		l := make([]any, len(x))
		for i, e := range x {
			l[i] = noLeaf(e)
		}
		return l
	}
	return v
}

func guard(f func() string) (s string) {
	defer func() {
		if e := recover(); e != nil {
			s = "PANIC"
		}
	}()
	return f()
}

// recorder: the callbacks handed to ListOp / BinaryOp log their arguments and return a value
// that carries the call number, so the ORDER of the calls is observable.
type recorder struct {
	n   int
	log []any
}

func (rc *recorder) wrap(v any) any {
	rc.log = append(rc.log, v)
	rc.n++
	return []any{tplm.Leaf(100 + rc.n - 1), v}
}
func (rc *recorder) mkOp(op *tpl.Token, x, y any) any {
	rc.log = append(rc.log, op)
	rc.n++
	return []any{op, x, y, tplm.Leaf(100 + rc.n - 1)}
}
func (rc *recorder) show() string {
	if rc.log == nil {
		return " log=()"
	}
	return " log=" + show(rc.log)
}

// callHelper applies one helper of tpl/tpl.go to `in` and renders what it returns / visits.
func callHelper(op string, in []any) (impl string) {
	rc := &recorder{}
	switch op {
	case "list":
		impl = guard(func() string { return "ok " + show(tpl.List(in)) }) + rc.show()
	case "listop":
		impl = guard(func() string { return "ok " + show(tpl.ListOp[any](in, rc.wrap)) }) + rc.show()
	case "rangeop":
		var visited []any
		p := guard(func() string { tpl.RangeOp(in, func(v any) { visited = append(visited, v) }); return "0" })
		if p == "PANIC" {
			p = "1"
		}
		if visited == nil {
			visited = []any{}
		}
		impl = "visited " + show(visited) + " panic=" + p
	case "bopnr":
		impl = guard(func() string { return "ok " + show(tpl.BinaryOp(false, in, rc.mkOp)) }) + rc.show()
	case "bopr":
		impl = guard(func() string { return "ok " + show(tpl.BinaryOp(true, in, rc.mkOp)) }) + rc.show()
	case "bexnr":
		impl = guard(func() string { return "ok " + show(tpl.BinaryExpr(false, in)) })
	case "bexr":
		impl = guard(func() string { return "ok " + show(tpl.BinaryExpr(true, in)) })
	}
	return
}

// ---------------------------------------------------------------------------
// sequences of helpers on the SAME result tree: the helpers must not change the match result

// recap deep-copies a tree; every list gets `spare(len)` unused capacity behind its elements.
func recap(v any, spare func(n int) int) any {
	l, ok := v.([]any)
	if !ok {
		return v
	}
	if l == nil {
		return []any(nil)
	}
	out := make([]any, len(l), len(l)+spare(len(l)))
	for i, e := range l {
		out[i] = recap(e, spare)
	}
	return out
}

// sameTree: identical structure, identical leaves (tokens/idents by pointer).
func sameTree(a, b any) bool {
	la, oka := a.([]any)
	lb, okb := b.([]any)
	if oka != okb {
		return false
	}
	if !oka {
		return a == b
	}
	if len(la) != len(lb) {
		return false
	}
	for i := range la {
		if !sameTree(la[i], lb[i]) {
			return false
		}
	}
	return true
}

// runSeq applies the helpers `ops` one after the other to in = whole[:k] (k == len(whole):
// the result itself; k < len(whole): a prefix of a longer sequence result whose later fields
// live in the spare capacity of `in`).  After every call the whole tree must be unchanged.
func runSeq(o *vh.Out, ops []string, whole []any, k int, how, extra string) {
	in := whole[:k]
	before := recap(whole, func(int) int { return 0 }).([]any)
	caseLine := "tplh2\t" + strings.Join(ops, ",") + "\t" + show(in) + "\t" + how + "\t" + extra
	outs := make([]string, len(ops))
	first := map[string]string{}
	for i, op := range ops {
		outs[i] = callHelper(op, in)
		if !sameTree(whole, before) {
			o.Oracle("helper-mutates-input", caseLine,
				fmt.Sprintf("after call %d (%s) of %v on the same result (%s, len %d cap %d) the result tree is %s, was %s",
					i+1, op, ops, how, len(in), cap(in), show(whole), show(before)))
			break
		}
		if prev, ok := first[op]; ok && prev != outs[i] {
			o.Oracle("helper-not-repeatable", caseLine, fmt.Sprintf("%s returned %s, then %s on the same result", op, prev, outs[i]))
		}
		first[op] = outs[i]
	}
	o.Count("seq_" + how)
	o.Case(caseLine, strings.Join(outs, " ; "), k >= 2)
}

var groupA = []string{"list", "listop", "rangeop", "bopnr", "bopr"}
var groupB = []string{"bexnr", "bexr"}

// seqCases: every ordered pair (h1, h2) of a group as h1, h2, h1 on one tree, in three memory
// layouts: exact capacity (what gSequence.Match allocates), spare capacity, prefix of a longer list.
func seqCases(o *vh.Out, r *vh.Rand, group []string, tree []any) {
	h1 := group[r.Intn(len(group))]
	h2 := group[r.Intn(len(group))]
	ops := []string{h1, h2, h1}
	switch r.Intn(3) {
	case 0:
		w := recap(tree, func(int) int { return 0 }).([]any)
		runSeq(o, ops, w, len(w), "exact-capacity", "-")
	case 1:
		w := recap(tree, func(n int) int { return 2 }).([]any)
		runSeq(o, ops, w, len(w), "spare-capacity", "-")
	default:
		w := recap(tree, func(int) int { return 0 }).([]any)
		if len(w) < 2 {
			runSeq(o, ops, w, len(w), "exact-capacity", "-")
			return
		}
		// rule = R *(sep R) tail…: the helper gets self[:2], tail fields follow in the same array
		long := make([]any, 0, len(w)+3)
		long = append(long, w...)
		for j := r.Intn(3) + 1; j > 0; j-- {
			long = append(long, toks[r.Intn(len(toks))])
		}
		runSeq(o, ops, long, 2, "prefix-of-longer-result", strings.ReplaceAll(show(long), " ", "_"))
	}
}

// realSeq: helper sequences directly on results of the real matcher (one fresh Match per sequence).
func realSeq(o *vh.Out, onlyText string, onlyOps []string) {
	c := tplm.Compile("doc = INT % \",\"\n", nil)
	c2 := tplm.Compile("doc = INT *(\",\" INT) \";\"\n", nil)
	if c.Err != nil || c2.Err != nil {
		return
	}
	one := func(ops []string, text string) {
		cc, k, how := c, 0, "real-match"
		if strings.HasSuffix(text, ";") {
			cc, k, how = c2, 2, "real-match-prefix"
		}
		ms, res, err := cc.C.Match("", text, nil)
		if err != nil {
			return
		}
		for i, t := range ms.Toks {
			tokIndex[t] = i
		}
		l, ok := res.([]any)
		if !ok || len(l) < 2 {
			return
		}
		if k == 0 {
			k = len(l)
		}
		runSeq(o, ops, l, k, how, vh.HexS(text))
	}
	if onlyText != "" {
		one(onlyOps, onlyText)
		return
	}
	for n := 1; n <= 5; n++ {
		ws := make([]string, n)
		for i := range ws {
			ws[i] = strconv.Itoa(11 * (i + 1))
		}
		text := strings.Join(ws, ", ")
		for _, h1 := range groupA {
			for _, h2 := range groupA {
				one([]string{h1, h2, h1}, text)
				one([]string{h1, h2, h1}, text+";")
			}
		}
	}
}

func runHelper(o *vh.Out, op string, in []any, n *nest) {
	caseLine := "tplh\t" + op + "\t" + show(in)
	impl := callHelper(op, in)
	if n != nil { // well-formed: compare with the expectation computed from the structure
		var rs []any
		rs = append(rs, n.x0.value())
		for _, x := range n.ops {
			rs = append(rs, x.y.value())
		}
		want := ""
		switch op {
		case "list":
			want = "ok " + show(rs) + " log=()"
		case "listop":
			rc := &recorder{}
			ws := make([]any, len(rs))
			for i, v := range rs {
				ws[i] = rc.wrap(v)
			}
			want = "ok " + show(ws) + rc.show()
		case "rangeop":
			want = "visited " + show(rs) + " panic=0"
		case "bopnr":
			rc := &recorder{}
			want = "ok " + show(foldNR(n, rc))
			want += rc.show()
		case "bopr":
			rc := &recorder{}
			want = "ok " + show(foldR(n, rc))
			want += rc.show()
		case "bexnr":
			leaves := n.x0.isLeaf()
			for _, x := range n.ops {
				leaves = leaves && x.y.isLeaf()
			}
			if leaves {
				want = "ok " + exprR(n, false)
			}
		case "bexr":
			want = "ok " + exprR(n, true)
		}
		if want != "" && impl != want {
			o.Oracle(op+"-order", caseLine, "want (R results / calls in source order, each once) "+want+" got "+impl)
		}
		o.Count("wellformed_" + op)
	} else {
		o.Count("malformed_" + op)
	}
	if impl == "PANIC" {
		o.Count("panic")
	}
	o.Case(caseLine, impl, len(in) >= 2)
}

// ---------------------------------------------------------------------------
// calculator (README)

const calcGrammar = `expr = operand % ("*" | "/") % ("+" | "-")

operand = basicLit | unaryExpr

unaryExpr = "-" operand

basicLit = INT | FLOAT
`

var calcMutated string
var calcCalls []int // positions of the operator tokens in the order the callback was called

func calcFold(in []any) any {
	return tpl.BinaryOp(true, in, func(op *tpl.Token, x, y any) any {
		calcCalls = append(calcCalls, int(op.Pos))
		switch op.Tok {
		case '+':
			return x.(float64) + y.(float64)
		case '-':
			return x.(float64) - y.(float64)
		case '*':
			return x.(float64) * y.(float64)
		case '/':
			return x.(float64) / y.(float64)
		}
		panic("unexpected")
	})
}

func calcProcs() map[string]any {
	return map[string]any{
		"expr": matcher.RetProc(func(self any) any {
			// the calculator is run twice on the same match result; the result must not change
			in := self.([]any)
			before := recap(in, func(int) int { return 0 })
			calcCalls = nil
			r1 := calcFold(in)
			first := calcCalls
			r2 := calcFold(in)
			calcCalls = first
			if r1 != r2 || !sameTree(in, before) {
				calcMutated = fmt.Sprintf("BinaryOp(true, self) gave %v then %v; self is %s, was %s", r1, r2, show(in), show(before))
			}
			return r1
		}),
		"unaryExpr": matcher.RetProc(func(self any) any { return -(self.([]any)[1].(float64)) }),
		"basicLit": matcher.RetProc(func(self any) any {
			v, err := strconv.ParseFloat(self.(*tpl.Token).Lit, 64)
			if err != nil {
				panic(err)
			}
			return v
		}),
	}
}

// independent reference: precedence climbing on the word list
type pc struct {
	ws  []string
	pos int
}

func prec(op string) int {
	switch op {
	case "+", "-":
		return 1
	case "*":
		return 2
	}
	return 0
}
func (p *pc) unary() (float64, bool) {
	if p.pos >= len(p.ws) {
		return 0, false
	}
	w := p.ws[p.pos]
	if w == "-" {
		p.pos++
		v, ok := p.unary()
		return -v, ok
	}
	v, err := strconv.ParseFloat(w, 64)
	if err != nil {
		return 0, false
	}
	p.pos++
	return v, true
}
func (p *pc) expr(minPrec int) (float64, bool) {
	lhs, ok := p.unary()
	if !ok {
		return 0, false
	}
	for p.pos < len(p.ws) && prec(p.ws[p.pos]) >= minPrec && prec(p.ws[p.pos]) > 0 {
		op := p.ws[p.pos]
		p.pos++
		rhs, ok := p.expr(prec(op) + 1)
		if !ok {
			return 0, false
		}
		switch op {
		case "+":
			lhs += rhs
		case "-":
			lhs -= rhs
		case "*":
			lhs *= rhs
		}
	}
	return lhs, true
}

func genExprWords(r *vh.Rand) []string {
	var ws []string
	operand := func() {
		for r.Chance(20) {
			ws = append(ws, "-")
		}
		ws = append(ws, strconv.Itoa(r.Intn(13)))
	}
	operand()
	for k := r.Intn(7); k > 0; k-- {
		ws = append(ws, r.Pick([]string{"+", "-", "*", "*", "+"}))
		operand()
	}
	return ws
}

func runCalc(o *vh.Out, c tplm.Compiled, gsx string, text string, wellFormed bool, ws []string) {
	ts, fileEnd := tplm.Scan(text)
	tf := tplm.TokField(ts, text).Field
	caseLine := strings.Join([]string{"tplc", gsx, tf, strconv.Itoa(fileEnd), vh.HexS(text)}, "\t")
	for _, t := range ts {
		if t.Tok == token.FLOAT {
			return
		}
		if t.Tok == token.INT { // only plain decimal literals (the model's `num` is total; "0x" is an INT token too)
			if _, err := strconv.ParseUint(t.Lit, 10, 32); err != nil {
				return
			}
		}
	}
	impl := guard(func() string {
		v, err := c.C.ParseExpr(text, nil)
		if err != nil {
			return "env=1 err"
		}
		f, ok := v.(float64)
		if !ok || f != math.Trunc(f) || math.Abs(f) > 1e15 {
			return fmt.Sprintf("env=1 ok ?%v", v)
		}
		return "env=1 ok " + strconv.FormatInt(int64(f), 10)
	})
	if calcMutated != "" {
		o.Oracle("helper-mutates-input", caseLine, calcMutated)
		calcMutated = ""
	}
	if wellFormed && !strings.HasSuffix(impl, "err") {
		// evaluation order: the "*" of a term left to right, then the "+"/"-" that consumes the term
		var wantOps []int
		var pendingAdd = -1
		for _, t := range ts {
			switch t.Tok {
			case token.MUL, token.QUO:
				wantOps = append(wantOps, int(t.Pos))
			case token.ADD:
				if pendingAdd >= 0 {
					wantOps = append(wantOps, pendingAdd)
				}
				pendingAdd = int(t.Pos)
			case token.SUB:
				// binary minus iff the previous token is a number
				i := 0
				for ; ts[i] != t; i++ {
				}
				if i > 0 && ts[i-1].Tok == token.INT {
					if pendingAdd >= 0 {
						wantOps = append(wantOps, pendingAdd)
					}
					pendingAdd = int(t.Pos)
				}
			}
		}
		if pendingAdd >= 0 {
			wantOps = append(wantOps, pendingAdd)
		}
		if fmt.Sprint(wantOps) != fmt.Sprint(calcCalls) && !(len(wantOps) == 0 && len(calcCalls) == 0) {
			o.Oracle("calc-call-order", caseLine, fmt.Sprintf("%q: operator callback called at positions %v, evaluation order is %v", text, calcCalls, wantOps))
		}
	}
	calcCalls = nil
	if wellFormed {
		p := &pc{ws: ws}
		want, ok := p.expr(1)
		if !ok || p.pos != len(ws) {
			o.Oracle("harness-reference", caseLine, "reference evaluator rejects a generated expression")
		} else if impl != "env=1 ok "+strconv.FormatInt(int64(want), 10) {
			o.Oracle("calc-differs", caseLine, fmt.Sprintf("%q: reference %v, calculator %s", text, want, impl))
		}
		o.Count("calc_wellformed")
	} else {
		o.Count("calc_damaged")
	}
	o.Case(caseLine, impl, len(ts) >= 3)
}

func joinWords(r *vh.Rand, ws []string) string {
	var b strings.Builder
	for i, w := range ws {
		if i > 0 && (r.Chance(70) || (w == "-" && ws[i-1] == "-")) {
			b.WriteByte(' ')
		}
		b.WriteString(w)
	}
	return b.String()
}

func main() {
	f := vh.ParseFlags()
	o := vh.NewOut(f.Out)
	defer o.Close()
	if f.Replay != "" {
		fs := strings.Split(f.Replay, "\t")
		if len(fs) < 3 {
			fs = strings.SplitN(f.Replay, " ", 3)
		}
		switch fs[0] {
		case "tplh":
			in, ok := parseVal(fs[2]).([]any)
			if !ok {
				in = nil
			}
			runHelper(o, fs[1], in, nil)
		case "tplh2":
			all := strings.Fields(f.Replay) // tplh2 ops value… how extra
			ops := strings.Split(all[1], ",")
			how, extra := all[len(all)-2], all[len(all)-1]
			val := strings.Join(all[2:len(all)-2], " ")
			switch how {
			case "real-match", "real-match-prefix":
				text, _ := vh.UnHex(extra)
				realSeq(o, string(text), ops)
			case "prefix-of-longer-result":
				long, _ := parseVal(strings.ReplaceAll(extra, "_", " ")).([]any)
				buf := make([]any, 0, len(long))
				buf = append(buf, long...)
				runSeq(o, ops, buf, 2, how, extra)
			case "spare-capacity":
				w, _ := recap(parseVal(val), func(int) int { return 2 }).([]any)
				runSeq(o, ops, w, len(w), how, "-")
			default:
				w, _ := recap(parseVal(val), func(int) int { return 0 }).([]any)
				runSeq(o, ops, w, len(w), how, "-")
			}
		case "tplc":
			all := strings.Fields(f.Replay)
			text, _ := vh.UnHex(all[len(all)-1])
			c := tplm.Compile(calcGrammar, calcProcs())
			gsx, _ := tplm.SerResult(c.C.Result, c.Order, true)
			runCalc(o, c, gsx, string(text), false, nil)
		}
		return
	}
	r := vh.NewRand(f.Seed)
	ops := []string{"list", "listop", "rangeop", "bopnr", "bopr", "bexnr", "bexr"}
	nh := f.N * 2 / 3
	for i := 0; i < nh; i++ {
		rr := r.Fork(i)
		op := ops[i%len(ops)]
		expr := strings.HasPrefix(op, "bex")
		depth := 1
		if op == "bopr" || op == "bexr" {
			depth = 3
		}
		listLeaves = !expr && depth == 1 // list, listop, rangeop, bopnr: operands are opaque values
		n := genNest(rr, depth, expr)
		for n.isLeaf() {
			n = genNest(rr, depth, expr)
		}
		listLeaves = false
		in := n.value().([]any)
		if i%3 == 2 { // a sequence of helpers on the same tree
			group := groupA
			if expr {
				group = groupB
			}
			tree := in
			if rr.Chance(25) {
				tree = damageDeep(rr, in)
				if expr {
					tree = noLeaf(tree).([]any)
				}
			}
			seqCases(o, rr, group, tree)
			continue
		}
		if rr.Chance(30) {
			bad := damage(rr, in)
			if op == "bopr" || op == "bexr" {
				bad = damageDeep(rr, in)
			}
			if expr { // BinaryExpr inputs hold ast.Expr leaves only: junk = nil
				bad = noLeaf(bad).([]any)
			}
			runHelper(o, op, bad, nil)
		} else {
			runHelper(o, op, in, n)
		}
	}
	realSeq(o, "", nil)
	c := tplm.Compile(calcGrammar, calcProcs())
	if c.Err != nil {
		o.Case("tplc-compile", "calculator grammar does not compile: "+c.Err.Error(), false)
		return
	}
	gsx, err := tplm.SerResult(c.C.Result, c.Order, true)
	if err != nil {
		o.Case("tplc-tie", "TIE-BROKEN "+err.Error(), false)
		return
	}
	for _, fixed := range []string{"1 + 2 * -3", "1", "-1", "2*3*4-5-6", "1 +", "* 2", "1 2", "1 - - 2", "7 - 2 - 1", "2 * 3 + 4 * 5", ""} {
		runCalc(o, c, gsx, fixed, false, nil)
	}
	for i := nh; i < f.N; i++ {
		rr := r.Fork(i)
		ws := genExprWords(rr)
		if rr.Chance(25) { // damage
			j := rr.Intn(len(ws))
			switch rr.Intn(3) {
			case 0:
				ws = append(ws[:j:j], ws[j+1:]...)
			case 1:
				ws = append(ws[:j:j], append([]string{rr.Pick([]string{"+", "*", "3", "(", "x"})}, ws[j:]...)...)
			case 2:
				ws[j] = rr.Pick([]string{"+", "*", "-", "4", ")"})
			}
			runCalc(o, c, gsx, joinWords(rr, ws), false, nil)
		} else {
			runCalc(o, c, gsx, joinWords(rr, ws), true, ws)
		}
	}
}

// parseVal reads the s-expression rendering of a value (replay only).
func parseVal(s string) any {
	s = strings.ReplaceAll(strings.ReplaceAll(s, "(", " ( "), ")", " ) ")
	ws := strings.Fields(s)
	pos := 0
	var rd func() any
	rd = func() any {
		w := ws[pos]
		pos++
		switch {
		case w == "(":
			l := []any{}
			for pos < len(ws) && ws[pos] != ")" {
				l = append(l, rd())
			}
			pos++
			return l
		case w == "N":
			return nil
		case w[0] == 'T':
			i, _ := strconv.Atoi(w[1:])
			return toks[i]
		case w[0] == 'L':
			i, _ := strconv.Atoi(w[1:])
			return tplm.Leaf(i)
		case w[0] == 'X':
			i, _ := strconv.Atoi(w[1:])
			return atomExpr(i)
		}
		return nil
	}
	if len(ws) == 0 {
		return nil
	}
	return rd()
}
