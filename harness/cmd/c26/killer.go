//go:build linux && amd64

package main

// "killer": a minimal ptrace supervisor that runs a command and delivers SIGKILL to it exactly
// when its K-th file-system-mutating system call on the test directory is about to execute
// (mode "before": at syscall-enter-stop, the call is not executed) or has just returned (mode
// "after": at syscall-exit-stop).  strace's own `inject=…:when=N` counts per thread, and the Go
// runtime moves the formatting goroutine between threads, so an ordinal taken from a reference
// run does not identify the call; here calls are recognised by what they touch.
//
//   c26 killer <dir> <K> <before|after|none> <out.json> -- <argv…>
//
// A call matches if it is one of the mutating calls below and (a) a path argument lies in <dir>
// or (b) its descriptor argument refers to a file in <dir> that is open for writing.
// exit_group always matches (it marks "after the last operation").

import (
	"encoding/json"
	"fmt"
	"os"
	"runtime"
	"strconv"
	"strings"
	"syscall"
)

type kMatch struct {
	Idx   int    `json:"idx"`
	Tid   int    `json:"tid"`
	Name  string `json:"name"`
	What  string `json:"what"`
	Flags uint64 `json:"flags"`
	Mode  uint64 `json:"mode"`
}

type kResult struct {
	Matches  []kMatch `json:"matches"`
	KilledAt int      `json:"killed_at"` // index of the match at which SIGKILL was sent, -1 = none
	Phase    string   `json:"phase"`
	Exit     string   `json:"exit"`
	Err      string   `json:"err,omitempty"`
}

var kNames = map[uint64]string{
	1: "write", 2: "open", 3: "close", 18: "pwrite64", 20: "writev", 74: "fsync", 75: "fdatasync", 76: "truncate",
	77: "ftruncate", 82: "rename", 83: "mkdir", 84: "rmdir", 85: "creat", 86: "link", 87: "unlink", 88: "symlink",
	90: "chmod", 91: "fchmod", 92: "chown", 93: "fchown", 231: "exit_group", 257: "openat", 258: "mkdirat",
	260: "fchownat", 263: "unlinkat", 264: "renameat", 265: "linkat", 266: "symlinkat", 268: "fchmodat",
	280: "utimensat", 285: "fallocate", 316: "renameat2", 452: "fchmodat2",
}

const atFDCWD = 0xffffff9c // (uint32)(-100)

func peekString(tid int, addr uint64) string {
	var out []byte
	buf := make([]byte, 256)
	for len(out) < 8192 {
		n, err := syscall.PtracePeekData(tid, uintptr(addr)+uintptr(len(out)), buf)
		if err != nil || n == 0 {
			break
		}
		for i := 0; i < n; i++ {
			if buf[i] == 0 {
				return string(append(out, buf[:i]...))
			}
		}
		out = append(out, buf[:n]...)
	}
	return string(out)
}

func fdPath(tid int, fd uint64) (string, bool) {
	p, err := os.Readlink(fmt.Sprintf("/proc/%d/fd/%d", tid, int32(fd)))
	if err != nil {
		return "", false
	}
	p = strings.TrimSuffix(p, " (deleted)")
	wr := false
	if b, err := os.ReadFile(fmt.Sprintf("/proc/%d/fdinfo/%d", tid, int32(fd))); err == nil {
		for _, l := range strings.Split(string(b), "\n") {
			if strings.HasPrefix(l, "flags:") {
				if v, err := strconv.ParseUint(strings.TrimSpace(l[6:]), 8, 64); err == nil {
					wr = v&3 != 0
				}
			}
		}
	}
	return p, wr
}

func pathAt(tid int, dirfd, addr uint64) string {
	p := peekString(tid, addr)
	if strings.HasPrefix(p, "/") {
		return p
	}
	if uint32(dirfd) == atFDCWD {
		if cwd, err := os.Readlink(fmt.Sprintf("/proc/%d/cwd", tid)); err == nil {
			return cwd + "/" + p
		}
		return p
	}
	if d, _ := fdPath(tid, dirfd); d != "" {
		return d + "/" + p
	}
	return p
}

func killerMain(args []string) {
	runtime.LockOSThread()
	res := kResult{KilledAt: -1}
	outFile := ""
	finish := func(err string) {
		res.Err = err
		b, _ := json.Marshal(res)
		if outFile != "" {
			os.WriteFile(outFile, b, 0o644)
		} else {
			os.Stdout.Write(b)
		}
		if err != "" {
			os.Exit(3)
		}
		os.Exit(0)
	}
	if len(args) < 6 || args[4] != "--" {
		finish("usage: killer <dir> <K> <before|after|none> <out.json> -- argv…")
	}
	dir := strings.TrimSuffix(args[0], "/") + "/"
	K, _ := strconv.Atoi(args[1])
	phase := args[2]
	outFile = args[3]
	argv := args[5:]
	res.Phase = phase
	inDir := func(p string) bool { return strings.HasPrefix(p, dir) }

	null, err := os.OpenFile(os.DevNull, os.O_RDWR, 0)
	if err != nil {
		finish(err.Error())
	}
	pid, err := syscall.ForkExec(argv[0], argv, &syscall.ProcAttr{
		Env:   os.Environ(),
		Files: []uintptr{null.Fd(), null.Fd(), null.Fd()},
		Sys:   &syscall.SysProcAttr{Ptrace: true},
	})
	if err != nil {
		finish("forkexec: " + err.Error())
	}
	var ws syscall.WaitStatus
	if _, err := syscall.Wait4(pid, &ws, 0, nil); err != nil || !ws.Stopped() {
		finish("initial wait failed")
	}
	const exitKill = 0x100000
	if err := syscall.PtraceSetOptions(pid, syscall.PTRACE_O_TRACESYSGOOD|syscall.PTRACE_O_TRACECLONE|exitKill); err != nil {
		finish("setoptions: " + err.Error())
	}
	syscall.PtraceSyscall(pid, 0)

	started := map[int]bool{pid: true} // the initial SIGSTOP of an auto-attached thread was consumed
	inSys := map[int]bool{}
	pendingMatch := map[int]int{} // tid -> match index of the call it is inside
	killed := false

	// onSyscallStop handles one syscall-enter/exit stop; true = SIGKILL was sent.
	onSyscallStop := func(wpid int) bool {
		entering := !inSys[wpid]
		inSys[wpid] = entering
		if killed {
			return false
		}
		if !entering {
			if idx, ok := pendingMatch[wpid]; ok {
				delete(pendingMatch, wpid)
				if phase == "after" && idx == K {
					syscall.Kill(pid, syscall.SIGKILL)
					res.KilledAt, killed = idx, true
					return true
				}
			}
			return false
		}
		var regs syscall.PtraceRegs
		if err := syscall.PtraceGetRegs(wpid, &regs); err != nil {
			return false
		}
		name, ok := kNames[regs.Orig_rax]
		if !ok {
			return false
		}
		a0, a1, a2, a3 := regs.Rdi, regs.Rsi, regs.Rdx, regs.R10
		m := kMatch{Tid: wpid, Name: name}
		hit := false
		switch name {
		case "exit_group":
			hit = true
		case "open", "creat":
			p := pathAt(wpid, atFDCWD, a0)
			fl := a1
			if name == "creat" {
				fl = syscall.O_CREAT | syscall.O_WRONLY | syscall.O_TRUNC
				m.Mode = a1
			} else {
				m.Mode = a2
			}
			hit = inDir(p) && fl&(syscall.O_WRONLY|syscall.O_RDWR|syscall.O_CREAT|syscall.O_TRUNC) != 0
			m.What, m.Flags = p, fl
		case "openat":
			p := pathAt(wpid, a0, a1)
			hit = inDir(p) && a2&(syscall.O_WRONLY|syscall.O_RDWR|syscall.O_CREAT|syscall.O_TRUNC) != 0
			m.What, m.Flags, m.Mode = p, a2, a3
		case "write", "pwrite64", "writev", "fsync", "fdatasync", "ftruncate", "fallocate", "fchown", "close", "fchmod":
			p, wr := fdPath(wpid, a0)
			hit = inDir(p) && wr
			m.What = p
			if name == "fchmod" {
				m.Mode = a1
			}
		case "chmod", "truncate", "unlink", "mkdir", "rmdir", "chown":
			p := pathAt(wpid, atFDCWD, a0)
			hit = inDir(p)
			m.What, m.Mode = p, a1
		case "fchmodat", "fchmodat2", "unlinkat", "mkdirat", "fchownat", "utimensat":
			p := pathAt(wpid, a0, a1)
			hit = inDir(p)
			m.What, m.Mode, m.Flags = p, a2, a2
		case "rename", "link", "symlink":
			p, q := pathAt(wpid, atFDCWD, a0), pathAt(wpid, atFDCWD, a1)
			hit = inDir(p) || inDir(q)
			m.What = p + " -> " + q
		case "renameat", "renameat2", "linkat":
			p, q := pathAt(wpid, a0, a1), pathAt(wpid, a2, a3)
			hit = inDir(p) || inDir(q)
			m.What = p + " -> " + q
		case "symlinkat":
			q := pathAt(wpid, a1, a2)
			hit = inDir(q)
			m.What = q
		}
		if !hit {
			delete(pendingMatch, wpid)
			return false
		}
		m.Idx = len(res.Matches)
		res.Matches = append(res.Matches, m)
		pendingMatch[wpid] = m.Idx
		if phase == "before" && m.Idx == K {
			syscall.Kill(pid, syscall.SIGKILL)
			res.KilledAt, killed = m.Idx, true
			return true
		}
		return false
	}

	for {
		wpid, err := syscall.Wait4(-1, &ws, syscall.WALL, nil)
		if err != nil {
			break // ECHILD: everything is gone
		}
		if ws.Exited() || ws.Signaled() {
			if wpid == pid {
				if ws.Signaled() {
					res.Exit = "signal:" + ws.Signal().String()
				} else {
					res.Exit = "exit:" + strconv.Itoa(ws.ExitStatus())
				}
			}
			delete(inSys, wpid)
			continue
		}
		if !ws.Stopped() {
			continue
		}
		sig := ws.StopSignal()
		switch {
		case sig == syscall.SIGTRAP|0x80:
			if !onSyscallStop(wpid) {
				syscall.PtraceSyscall(wpid, 0)
			}
		case sig == syscall.SIGTRAP && ws.TrapCause() > 0:
			syscall.PtraceSyscall(wpid, 0) // clone / exec event stop
		case sig == syscall.SIGSTOP && !started[wpid]:
			started[wpid] = true
			syscall.PtraceSyscall(wpid, 0)
		default:
			if !killed {
				syscall.PtraceSyscall(wpid, int(sig)) // pass the signal on
			}
		}
	}
	finish("")
}
