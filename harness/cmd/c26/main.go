// Harness for C26 (xgo fmt never loses a file at any crash point and keeps its mode).
//
// Runs the REAL `xgo` binary (built from the tree under test) on temporary files:
//
//	ref     under `strace -f`: the system calls touching the file / its temp file are mapped to the
//	        operation list of the FS model and compared with the translator's program (fsprog),
//	        the abstract checker is run on the observed list (fssafe), final content and mode are
//	        checked (property oracle: formatted content, permission bits kept);
//	kill    under the ptrace "killer": SIGKILL before and after every file-system-mutating system
//	        call (and before exit); afterwards the path must hold the complete original or the
//	        complete formatted content (property oracle) and the state is compared with the
//	        model's runUntilCrash on the observed operation list (fsrun);
//	sinject the same kill placed by `strace -e inject=<syscall>:signal=SIGKILL:when=1` for the
//	        system calls that occur once in the run (fchmod, renameat, unlinkat, …);
//	rerun   a run killed before the rename leaves its temp file behind; a following complete run on
//	        a shorter file in the same directory must still produce exactly the formatted content.
package main

import (
	"bytes"
	"context"
	"encoding/json"
	"flag"
	"fmt"
	goformat "go/format"
	"os"
	"os/exec"
	"path/filepath"
	"runtime"
	"sort"
	"strconv"
	"strings"
	"sync"
	"syscall"
	"time"

	"github.com/goplus/xgo/format"
	"verifharness/vh"
)

const umask = 0o22

var (
	xgoBin  string
	workDir string
	selfExe string
	goEnv   []string
)

type fcase struct {
	idx    int
	sf     srcFile
	expect []byte // formatted content computed in-process
}

type obs struct {
	class string // orig | fmt | missing | other
	mode  string
	tmp   int
	size  int
}

func (o obs) String() string { return fmt.Sprintf("path=%s:%s tmp=%d", o.class, o.mode, o.tmp) }

func inspect(dir, target string, orig, fmtd []byte) obs {
	var o obs
	b, err := os.ReadFile(target)
	st, err2 := os.Stat(target) // what the path resolves to: content through the path, mode of the file holding it
	switch {
	case err != nil || err2 != nil:
		o.class, o.mode = "missing", "-"
	case bytes.Equal(b, orig):
		o.class = "orig"
	case bytes.Equal(b, fmtd):
		o.class = "fmt"
	default:
		o.class = "other"
	}
	if err == nil && err2 == nil {
		o.mode = strconv.FormatUint(uint64(st.Mode().Perm()), 8)
		o.size = len(b)
	}
	es, _ := os.ReadDir(dir)
	for _, e := range es {
		if filepath.Join(dir, e.Name()) != target && !strings.HasPrefix(e.Name(), "aux_") {
			o.tmp = 1
		}
	}
	return o
}

// prepare creates the file to format.  pk = kind of path handed to xgo fmt:
//
//	reg      a regular file
//	sym      a symbolic link to a regular file in the same directory
//	symabs   a symbolic link (absolute) to a regular file in another directory
//	chain    a symbolic link to a symbolic link to a regular file
//	hard     a regular file with a second hard link
//
// Auxiliary entries in the directory are named aux_*; "the file's path" is read through the path
// (os.ReadFile / os.Stat follow links): content reachable through it, mode of the file holding it.
func prepare(dir string, c *fcase, content []byte, mode os.FileMode, pk string) string {
	os.RemoveAll(dir)
	os.RemoveAll(dir + ".aux")
	os.MkdirAll(dir, 0o755)
	p := filepath.Join(dir, c.sf.name)
	mk := func(f string) {
		os.WriteFile(f, content, 0o600)
		os.Chmod(f, mode)
	}
	switch pk {
	case "sym":
		mk(filepath.Join(dir, "aux_real_"+c.sf.name))
		os.Symlink("aux_real_"+c.sf.name, p)
	case "symabs":
		os.MkdirAll(dir+".aux", 0o755)
		real := filepath.Join(dir+".aux", "real_"+c.sf.name)
		mk(real)
		os.Symlink(real, p)
	case "chain":
		mk(filepath.Join(dir, "aux_real_"+c.sf.name))
		os.Symlink("aux_real_"+c.sf.name, filepath.Join(dir, "aux_l2_"+c.sf.name))
		os.Symlink("aux_l2_"+c.sf.name, p)
	case "hard":
		mk(p)
		os.Link(p, filepath.Join(dir, "aux_hard_"+c.sf.name))
	default:
		mk(p)
	}
	return p
}

func cleanup(dir string) {
	os.RemoveAll(dir)
	os.RemoveAll(dir + ".aux")
}

func runCmd(timeout time.Duration, name string, args ...string) (int, string) {
	ctx, cancel := context.WithTimeout(context.Background(), timeout)
	defer cancel()
	cmd := exec.CommandContext(ctx, name, args...)
	cmd.Env = goEnv
	out, err := cmd.CombinedOutput()
	if err == nil {
		return 0, string(out)
	}
	if ee, ok := err.(*exec.ExitError); ok {
		if ws, ok := ee.Sys().(syscall.WaitStatus); ok && ws.Signaled() {
			return 128 + int(ws.Signal()), string(out)
		}
		return ee.ExitCode(), string(out)
	}
	return -1, string(out) + err.Error()
}

const traceSet = "trace=%file,%desc,%process"

// ---- tasks ---------------------------------------------------------------------------------

type task struct {
	kind  string // ref | kill | sinject | rerun
	pk    string // path kind (see prepare)
	c     *fcase
	mode  os.FileMode
	K     int
	phase string
	sname string // sinject: system call name
	ref   *refInfo
	id    string
}

type refInfo struct {
	m       *mapped
	tr      []*sysc
	final   obs
	exit    int
	fmtd    []byte // formatted content: in-process result, else what the reference run wrote
	nKiller int    // number of killer matches in an undisturbed run
	knames  []string
}

type line struct {
	caseLine, impl string
	nontrivial     bool
}

type oracleFail struct{ key, caseLine, detail string }

type result struct {
	placed  bool // kill runs: SIGKILL was delivered at the planned system call
	seen    obs  // kill runs: the state found afterwards
	lines   []line
	oracles []oracleFail
	counts  []string
	ref     *refInfo
}

func modeOct(m os.FileMode) string { return strconv.FormatUint(uint64(m.Perm()), 8) }

// opsFor: observed operations, `o` for chmods to the original mode when forSafe.
func opsFor(m *mapped, mode os.FileMode, forSafe bool) string {
	if !forSafe {
		return opsText(m.ops)
	}
	t := []string{"st"}
	for _, o := range m.ops {
		x := o.text
		if strings.HasPrefix(x, "cf:") && x[3:] == modeOct(mode) {
			x = "cf:o"
		} else if strings.HasPrefix(x, "cn:") && strings.HasSuffix(x, ":"+modeOct(mode)) {
			x = x[:strings.LastIndex(x, ":")] + ":o"
		}
		t = append(t, x)
	}
	return strings.Join(t, ",")
}

func (t *task) dir() string {
	return filepath.Join(workDir, strings.NewReplacer(":", "_", "/", "_").Replace(t.id))
}

func runRef(t *task) *result {
	r := &result{}
	c := t.c
	dir := t.dir()
	defer cleanup(dir)
	p := prepare(dir, c, c.sf.src, t.mode, t.pk)
	log := dir + ".strace"
	defer os.Remove(log)
	rc, out := runCmd(60*time.Second, "strace", "-f", "-b", "execve", "-o", log, "-e", traceSet, xgoBin, "fmt", p)
	ri := &refInfo{exit: rc}
	r.ref = ri
	tr, err := parseTrace(log)
	if err != nil || len(tr) == 0 {
		r.lines = append(r.lines, line{"fsprog\t" + modeOct(t.mode) + "\t" + t.id, "STRACE-FAILED rc=" + strconv.Itoa(rc) + " " + strings.TrimSpace(out), false})
		return r
	}
	ri.tr = tr
	ri.m = mapOps(tr, dir, p)
	ri.fmtd = c.expect
	if ri.fmtd == nil {
		ri.fmtd, _ = os.ReadFile(p)
	}
	ri.final = inspect(dir, p, c.sf.src, ri.fmtd)
	caseID := "fsprog\t" + modeOct(t.mode) + "\t" + t.id
	impl := opsText(ri.m.ops)
	if len(ri.m.unmodelled) > 0 {
		impl += " UNMODELLED " + strings.Join(ri.m.unmodelled, ";")
	}
	if len(ri.m.tmpNames) > 1 {
		impl += " SEVERAL-TEMP-FILES"
	}
	r.lines = append(r.lines, line{caseID, impl, true})
	r.lines = append(r.lines, line{"fssafe\t" + opsFor(ri.m, t.mode, true) + "\t" + t.id, "safeseq=1 modekept=1", true})
	r.lines = append(r.lines, line{fmt.Sprintf("fsrun\t%s\t%d\t%s\t%o\t%s", opsText(ri.m.ops), len(ri.m.ops), modeOct(t.mode), umask, t.id), ri.final.String(), true})
	// property oracle on the complete run
	det := fmt.Sprintf("file=%s size=%d mode=%s exit=%d ops=%s observed=%s", c.sf.name, len(c.sf.src), modeOct(t.mode), rc, opsText(ri.m.ops), ri.final)
	if rc != 0 {
		r.oracles = append(r.oracles, oracleFail{"fmt-run-failed", caseID, det + " output=" + strings.TrimSpace(out)})
	} else {
		if ri.final.class != "fmt" {
			r.oracles = append(r.oracles, oracleFail{"final-content-not-formatted", caseID, det})
		}
		if ri.final.mode != modeOct(t.mode) {
			r.oracles = append(r.oracles, oracleFail{"mode-not-kept", caseID, det})
		}
	}
	r.counts = append(r.counts, "ref_runs", "mode_"+modeOct(t.mode), "ops_"+strconv.Itoa(len(ri.m.ops)), "pathkind_"+t.pk)
	if t.pk == "sym" || t.pk == "symabs" || t.pk == "chain" {
		if st, err := os.Lstat(p); err == nil && st.Mode()&os.ModeSymlink == 0 {
			r.counts = append(r.counts, "symlink_replaced_by_regular_file") // accepted behaviour, see design notes
		} else {
			r.counts = append(r.counts, "symlink_kept")
		}
	}
	if len(ri.m.failed) > 0 {
		r.counts = append(r.counts, "ref_failed_syscalls")
	}
	// the kill points of the run: the mutating system calls seen by strace (the killer uses the
	// same predicate; every kill run checks that its own list agrees up to the kill point)
	for _, x := range ri.m.raw {
		ri.knames = append(ri.knames, x.name)
	}
	ri.nKiller = len(ri.knames)
	return r
}

func runKiller(dir, target string, K int, phase string) *kResult {
	out := dir + ".killer.json"
	defer os.Remove(out)
	runCmd(60*time.Second, selfExe, "killer", dir, strconv.Itoa(K), phase, out, "--", xgoBin, "fmt", target)
	b, err := os.ReadFile(out)
	if err != nil {
		return nil
	}
	var kr kResult
	if json.Unmarshal(b, &kr) != nil {
		return nil
	}
	return &kr
}

func crashOracle(r *result, caseID string, o obs, det string) {
	switch o.class {
	case "missing":
		r.oracles = append(r.oracles, oracleFail{"file-lost-at-crash", caseID, det})
	case "other":
		r.oracles = append(r.oracles, oracleFail{"partial-content-at-crash", caseID, det})
	}
}

func runKill(t *task) *result {
	r := &result{}
	c, ri := t.c, t.ref
	dir := t.dir()
	defer cleanup(dir)
	p := prepare(dir, c, c.sf.src, t.mode, t.pk)
	kr := runKiller(dir, p, t.K, t.phase)
	o := inspect(dir, p, c.sf.src, ri.fmtd)
	if kr == nil || kr.Err != "" {
		r.counts = append(r.counts, "killer_failed")
		return r
	}
	name := "?"
	if t.K < len(kr.Matches) {
		name = kr.Matches[t.K].Name
	}
	hit := kr.KilledAt == t.K && strings.HasPrefix(kr.Exit, "signal:")
	pairOK := len(kr.Matches) == t.K+1
	for j := 0; pairOK && j <= t.K; j++ {
		pairOK = j < len(ri.knames) && kr.Matches[j].Name == ri.knames[j]
	}
	det := fmt.Sprintf("file=%s size=%d mode=%s SIGKILL %s mutating syscall #%d (%s) of `xgo fmt`; ops of the complete run=%s; observed=%s exit=%s",
		c.sf.name, len(c.sf.src), modeOct(t.mode), t.phase, t.K, name, opsText(ri.m.ops), o, kr.Exit)
	k := -1
	if hit && pairOK && t.K < len(ri.m.raw) {
		if t.phase == "before" {
			k = ri.m.raw[t.K].opsBefore
		} else {
			k = ri.m.raw[t.K].opsAfter
		}
	}
	caseID := fmt.Sprintf("fsrun\t%s\t%d\t%s\t%o\t%s", opsText(ri.m.ops), k, modeOct(t.mode), umask, t.id)
	crashOracle(r, caseID, o, det)
	r.seen = o
	if k >= 0 {
		r.placed = true
		r.lines = append(r.lines, line{caseID, o.String(), true})
		r.counts = append(r.counts, "kill_"+t.phase, "killed_at_"+name, "crash_state_"+o.class)
	} else {
		var kn []string
		for _, m := range kr.Matches {
			kn = append(kn, m.Name)
		}
		// the kill was not placed where planned (or killer and strace disagree about the calls)
		r.lines = append(r.lines, line{caseID, fmt.Sprintf("KILL-NOT-PLACED killed_at=%d exit=%s killer=%s strace=%s", kr.KilledAt, kr.Exit, strings.Join(kn, ","), strings.Join(ri.knames, ",")), false})
		r.counts = append(r.counts, "kill_not_placed")
	}
	return r
}

// runSInject: kill placed by strace itself, for a system call that occurs once in the run.
func runSInject(t *task) *result {
	r := &result{}
	c, ri := t.c, t.ref
	dir := t.dir()
	defer cleanup(dir)
	p := prepare(dir, c, c.sf.src, t.mode, t.pk)
	log := dir + ".strace"
	defer os.Remove(log)
	rc, _ := runCmd(60*time.Second, "strace", "-f", "-b", "execve", "-o", log, "-e", traceSet,
		"-e", "inject="+t.sname+":signal=SIGKILL:when=1", xgoBin, "fmt", p)
	o := inspect(dir, p, c.sf.src, ri.fmtd)
	tr, err := parseTrace(log)
	if err != nil || len(tr) == 0 {
		r.counts = append(r.counts, "sinject_failed")
		return r
	}
	m := mapOps(tr, dir, p)
	k := len(m.ops)
	det := fmt.Sprintf("file=%s mode=%s strace inject=%s:signal=SIGKILL:when=1; completed ops=%s; observed=%s rc=%d",
		c.sf.name, modeOct(t.mode), t.sname, opsText(m.ops), o, rc)
	caseID := fmt.Sprintf("fsrun\t%s\t%d\t%s\t%o\t%s", opsText(ri.m.ops), k, modeOct(t.mode), umask, t.id)
	crashOracle(r, caseID, o, det)
	placed := rc == 137 && m.killedAt != nil && m.killedAt.name == t.sname && !m.ambiguous &&
		strings.HasPrefix(opsText(ri.m.ops), strings.TrimSuffix(opsText(m.ops), "-"))
	if placed {
		r.lines = append(r.lines, line{caseID, o.String(), true})
		r.counts = append(r.counts, "sinject_"+t.sname, "crash_state_"+o.class)
	} else {
		r.counts = append(r.counts, "sinject_not_placed")
	}
	return r
}

// runRerun: stale temp file of a killed run, then a complete run on a shorter file.
func runRerun(t *task, small *fcase) *result {
	r := &result{}
	c, ri := t.c, t.ref
	dir := t.dir()
	defer cleanup(dir)
	p := prepare(dir, c, c.sf.src, t.mode, t.pk)
	kr := runKiller(dir, p, t.K, "before")
	if kr == nil || kr.Err != "" {
		r.counts = append(r.counts, "killer_failed")
		return r
	}
	o1 := inspect(dir, p, c.sf.src, ri.fmtd)
	// same path, shorter content
	os.Remove(p)
	os.WriteFile(p, small.sf.src, 0o600)
	os.Chmod(p, t.mode)
	rc, out := runCmd(60*time.Second, xgoBin, "fmt", p)
	o2 := inspect(dir, p, small.sf.src, small.expect)
	caseID := "fsrerun\t" + t.id
	det := fmt.Sprintf("dir with leftovers of a run killed before syscall #%d (state %s); then %d-byte file formatted: rc=%d observed=%s output=%s",
		t.K, o1, len(small.sf.src), rc, o2, strings.TrimSpace(out))
	if o2.class == "missing" || o2.class == "other" || (rc == 0 && o2.class != "fmt") {
		r.oracles = append(r.oracles, oracleFail{"rerun-after-crash-wrong", caseID, det})
	}
	if rc == 0 && o2.mode != modeOct(t.mode) {
		r.oracles = append(r.oracles, oracleFail{"mode-not-kept", caseID, det})
	}
	r.counts = append(r.counts, "rerun_after_crash", fmt.Sprintf("rerun_leftover_%d", o1.tmp))
	return r
}

// ---- main ------------------------------------------------------------------------------------

func expected(sf srcFile) []byte {
	defer func() { recover() }()
	if strings.HasSuffix(sf.name, ".go") {
		b, err := goformat.Source(sf.src)
		if err != nil {
			return nil
		}
		return b
	}
	b, err := format.Source(sf.src, sf.class, sf.name)
	if err != nil {
		return nil
	}
	return b
}

func parallel(tasks []*task, fn func(*task) *result) []*result {
	res := make([]*result, len(tasks))
	n := runtime.NumCPU()
	if n > 8 {
		n = 8
	}
	var wg sync.WaitGroup
	ch := make(chan int)
	for w := 0; w < n; w++ {
		wg.Add(1)
		go func() {
			defer wg.Done()
			for i := range ch {
				res[i] = fn(tasks[i])
			}
		}()
	}
	for i := range tasks {
		ch <- i
	}
	close(ch)
	wg.Wait()
	return res
}

func emit(o *vh.Out, rs []*result) {
	for _, r := range rs {
		if r == nil {
			continue
		}
		for _, l := range r.lines {
			o.Case(l.caseLine, l.impl, l.nontrivial)
		}
		for _, f := range r.oracles {
			o.Oracle(f.key, f.caseLine, f.detail)
		}
		for _, c := range r.counts {
			o.Count(c)
		}
	}
}

func main() {
	if len(os.Args) > 1 && os.Args[1] == "killer" {
		killerMain(os.Args[2:])
		return
	}
	xf := flag.String("xgo", "", "xgo binary built from the tree under test (built here if empty)")
	wf := flag.String("work", "", "scratch directory")
	f := vh.ParseFlags()
	syscall.Umask(umask)
	o := vh.NewOut(f.Out)
	defer o.Close()
	selfExe, _ = os.Executable()
	goEnv = append(os.Environ(), "GOFLAGS=-mod=mod", "GOPROXY=off", "GOSUMDB=off", "GOTOOLCHAIN=local", "CGO_ENABLED=0")
	repo := os.Getenv("VERIF_REPO")
	if repo == "" {
		repo = "/repo"
	}
	workDir = *wf
	if workDir == "" {
		workDir = filepath.Join(f.Out, "fswork")
	}
	workDir, _ = filepath.Abs(workDir)
	os.MkdirAll(workDir, 0o755)
	defer os.RemoveAll(workDir)
	xgoBin = *xf
	if xgoBin == "" {
		xgoBin = filepath.Join(workDir, "xgo-under-test")
		cmd := exec.Command("go", "build", "-o", xgoBin, "./cmd/xgo")
		cmd.Dir, cmd.Env = repo, goEnv
		if out, err := cmd.CombinedOutput(); err != nil {
			fmt.Fprintln(os.Stderr, "cannot build xgo:", string(out))
			os.Exit(4)
		}
	}
	thorough := f.Tier == "thorough"
	seed := f.Seed
	replayID := ""
	if f.Replay != "" {
		fs := strings.Fields(f.Replay)
		replayID = fs[len(fs)-1]
		if strings.HasPrefix(replayID, "s") {
			if n, err := strconv.ParseUint(strings.SplitN(replayID[1:], ":", 2)[0], 10, 64); err == nil {
				seed = n
			}
		}
		if strings.Contains(replayID, ":T:") {
			thorough = true
		}
	}
	tierTag := "Q"
	if thorough {
		tierTag = "T"
	}
	r := vh.NewRand(seed)
	nFiles := f.N
	if nFiles <= 0 {
		nFiles = 8
	}
	var cases []*fcase
	for _, sf := range genFiles(r, repo, nFiles, thorough) {
		exp := expected(sf)
		if exp == nil || bytes.Equal(exp, sf.src) {
			o.Count("candidate_dropped")
			continue
		}
		if strings.HasSuffix(sf.name, ".go") {
			exp2 := exp
			exp = nil // the .go branch of gopfmt uses go/format.Node: take the reference run's result
			_ = exp2
		}
		cases = append(cases, &fcase{idx: len(cases), sf: sf, expect: exp})
		o.Count("file_" + sf.kind)
		switch n := len(sf.src); {
		case n < 100:
			o.Count("size_lt100")
		case n < 10000:
			o.Count("size_lt10k")
		case n < 200000:
			o.Count("size_lt200k")
		default:
			o.Count("size_ge200k")
		}
	}
	id := func(c *fcase, mode os.FileMode, pk, kind string, K int, phase string) string {
		return fmt.Sprintf("s%d:%s:f%d:m%s.%s:%s:%d:%s", seed, tierTag, c.idx, modeOct(mode), pk, kind, K, phase)
	}
	want := func(t *task) bool {
		return replayID == "" || t.id == replayID || (t.kind == "ref" && strings.HasPrefix(replayID, strings.Join(strings.Split(t.id, ":")[:4], ":")+":"))
	}

	// stage 1: reference runs (every file with 0644; the other modes on some files)
	modes := []os.FileMode{0o644, 0o600, 0o755, 0o640, 0o444, 0o664}
	var refs []*task
	for _, c := range cases {
		for mi, md := range modes {
			if mi > 0 && !thorough && c.idx != (mi-1+int(seed))%len(cases) {
				continue
			}
			t := &task{kind: "ref", c: c, mode: md, pk: "reg"}
			t.id = id(c, md, "reg", "ref", 0, "-")
			if want(t) {
				refs = append(refs, t)
			}
		}
	}
	// other kinds of path: symlinks (same dir, other dir, chain) and a hard-linked file
	kinds := []string{"sym", "symabs", "chain", "hard"}
	kmodes := []os.FileMode{0o640, 0o444, 0o600, 0o644, 0o755}
	for ki, pk := range kinds {
		for _, c := range cases {
			if thorough {
				if c.idx%3 != ki%3 {
					continue
				}
			} else if c.idx != (ki+int(seed))%len(cases) {
				continue
			}
			md := kmodes[(ki+c.idx+int(seed))%len(kmodes)]
			t := &task{kind: "ref", c: c, mode: md, pk: pk}
			t.id = id(c, md, pk, "ref", 0, "-")
			if want(t) {
				refs = append(refs, t)
			}
		}
	}
	rres := parallel(refs, runRef)
	emit(o, rres)

	// stage 2: crash points
	var tasks []*task
	var small *fcase
	for _, c := range cases {
		if small == nil || len(c.sf.src) < len(small.sf.src) {
			if c.expect != nil {
				small = c
			}
		}
	}
	// quick tier: every crash point (before and after) on the first three files, "before" only on
	// the large one, and the two points around the rename on the rest
	for i, rt := range refs {
		ri := rres[i].ref
		if ri == nil || ri.m == nil || ri.nKiller == 0 {
			continue
		}
		// quick: regular 0644 files as before; every crash point ("before") of the read-only (0444)
		// and the executable (0755) file; the points around the rename for the other path kinds
		roExec := rt.pk == "reg" && (rt.mode == 0o444 || rt.mode == 0o755)
		full := thorough || rt.mode == 0o644 || roExec || rt.pk != "reg"
		if !full {
			continue
		}
		c := rt.c
		for K := 0; K < ri.nKiller; K++ {
			for _, ph := range []string{"before", "after"} {
				if ph == "after" && ri.knames[K] == "exit_group" {
					continue
				}
				if thorough && c.sf.kind == "gen_large" && rt.mode != 0o644 && ph == "after" {
					continue // the > 1 MB file: both phases for 0644, "before" only for the other modes
				}
				if !thorough {
					switch {
					case rt.pk != "reg":
						if ph == "after" || K < ri.nKiller-2 {
							continue
						}
					case roExec:
						if ph == "after" {
							continue
						}
					case c.idx <= 1:
					case c.sf.kind == "gen_large" || c.sf.kind == "gen_medium":
						if ph == "after" {
							continue
						}
					default:
						if ph == "after" || K < ri.nKiller-2 {
							continue
						}
					}
				}
				t := &task{kind: "kill", c: c, mode: rt.mode, pk: rt.pk, K: K, phase: ph, ref: ri}
				t.id = id(c, rt.mode, rt.pk, "kill", K, ph)
				if want(t) {
					tasks = append(tasks, t)
				}
			}
		}
		// strace-placed kills for system calls that occur exactly once among the mutating calls
		if rt.pk == "reg" && (thorough || (c.idx < 2 && rt.mode == 0o644)) {
			cnt := map[string]int{}
			for _, n := range ri.knames {
				cnt[n]++
			}
			var names []string
			for n, k := range cnt {
				if k == 1 && (n == "fchmod" || n == "renameat" || n == "renameat2" || n == "rename" || n == "unlinkat" || n == "unlink" || n == "fchmodat" || n == "chmod") {
					names = append(names, n)
				}
			}
			sort.Strings(names)
			for j, n := range names {
				t := &task{kind: "sinject", c: c, mode: rt.mode, pk: rt.pk, K: j, sname: n, ref: ri}
				t.id = id(c, rt.mode, rt.pk, "sinject", j, n)
				if want(t) {
					tasks = append(tasks, t)
				}
			}
		}
		// stale temp file: kill before the last mutating call that precedes exit, then rerun
		if small != nil && c != small && rt.pk == "reg" && (thorough || (c.idx <= 3 && rt.mode == 0o644)) {
			K := ri.nKiller - 2
			for j, n := range ri.knames {
				if strings.HasPrefix(n, "rename") {
					K = j
				}
			}
			if K >= 0 {
				t := &task{kind: "rerun", c: c, mode: rt.mode, pk: rt.pk, K: K, ref: ri}
				t.id = id(c, rt.mode, rt.pk, "rerun", K, "-")
				if want(t) {
					tasks = append(tasks, t)
				}
			}
		}
	}
	res2 := parallel(tasks, func(t *task) *result {
		switch t.kind {
		case "kill":
			return runKill(t)
		case "sinject":
			return runSInject(t)
		default:
			return runRerun(t, small)
		}
	})
	emit(o, res2)
	// Stronger than the property (informational, compared with the model's ModeSafeSeq): where
	// every crash point of a run was enumerated, did the path keep its mode at all of them?
	for i, rt := range refs {
		ri := rres[i].ref
		if ri == nil || ri.m == nil || ri.nKiller == 0 {
			continue
		}
		n, placed, same := 0, 0, true
		for j, t := range tasks {
			if t.kind != "kill" || t.ref != ri {
				continue
			}
			n++
			if res2[j].placed {
				placed++
				if res2[j].seen.class != "missing" && res2[j].seen.mode != modeOct(rt.mode) {
					same = false
				}
			}
		}
		if n == 2*ri.nKiller-1 && placed == n && rt.mode != 0o600 && rt.pk == "reg" {
			b := "0"
			if same {
				b = "1"
			} else {
				o.Count("mode_changed_at_some_crash_point")
			}
			o.Case("fsmode\t"+opsFor(ri.m, rt.mode, true)+"\t"+rt.id+":modeatcrash", "modeatcrash="+b, true)
			o.Count("all_crash_points_enumerated")
		}
	}
	o.Stats["files"] = len(cases)
	o.Stats["tasks_stage2"] = len(tasks)
}
