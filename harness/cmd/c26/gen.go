package main

// Source files that `xgo fmt` has to rewrite: generated XGo programs with irregular spacing
// (sizes from a few bytes to > 1 MB) and de-formatted copies of .xgo/.gox/.go files of the tree
// under test.

import (
	"fmt"
	"os"
	"path/filepath"
	"sort"
	"strings"

	"verifharness/vh"
)

type srcFile struct {
	name  string // base name (extension selects the formatter: .xgo, .gox, .go)
	src   []byte
	kind  string
	class bool
}

func sp(r *vh.Rand) string { return strings.Repeat(" ", 1+r.Intn(3)) }

func genStmt(r *vh.Rand, i int, ind string) string {
	switch r.Intn(7) {
	case 0:
		return fmt.Sprintf("%sx%d:=%d\n", ind, i, r.Intn(1000))
	case 1:
		return fmt.Sprintf("%sprintln%s\"v%d\",%s%d\n", ind, sp(r), i, sp(r), r.Intn(99))
	case 2:
		return fmt.Sprintf("%svar%sa%d%s=%s[%d,%d,%s%d]\n", ind, sp(r), i, sp(r), sp(r), r.Intn(9), r.Intn(9), sp(r), r.Intn(9))
	case 3:
		return fmt.Sprintf("%sfor i:=0;i<%d;i++ {\n%sprintln i\n%s}\n", ind, 1+r.Intn(9), ind, ind)
	case 4:
		return fmt.Sprintf("%sif %d>%d {\n%s  echo \"y%d\"\n%s}\n", ind, r.Intn(9), r.Intn(9), ind, i, ind)
	case 5:
		return fmt.Sprintf("%sm%d:={\"k\":%d,\"j\":%s%d}\n", ind, i, r.Intn(9), sp(r), r.Intn(9))
	default:
		return fmt.Sprintf("%s// note %d\n%s_ = %d+%d*%d\n", ind, i, ind, r.Intn(9), r.Intn(9), r.Intn(9))
	}
}

// genXGo: nfunc functions of a few statements each, followed by top-level statements.
func genXGo(r *vh.Rand, nfunc, nstmt int) []byte {
	var b strings.Builder
	b.WriteString("import   \"fmt\"\n\n")
	for i := 0; i < nfunc; i++ {
		fmt.Fprintf(&b, "func f%d(a,b int)%sint {\n", i, sp(r))
		for j := 0; j < 1+r.Intn(3); j++ {
			b.WriteString(genStmt(r, i*10+j, ""))
		}
		fmt.Fprintf(&b, "return a+b*%d\n}\n\n", i)
	}
	for i := 0; i < nstmt; i++ {
		b.WriteString(genStmt(r, 100000+i, ""))
	}
	b.WriteString("fmt.Println   \"done\"\n")
	return []byte(b.String())
}

// deformat: same token stream, different layout (extra blanks at line ends are removed by any
// formatter; doubled blank lines are collapsed; indentation is normalised).
func deformat(r *vh.Rand, src []byte) []byte {
	lines := strings.Split(string(src), "\n")
	var out []string
	inRaw := false
	for _, l := range lines {
		if strings.Count(l, "`")%2 == 1 {
			inRaw = !inRaw
			out = append(out, l)
			continue
		}
		if inRaw {
			out = append(out, l)
			continue
		}
		t := strings.TrimLeft(l, "\t")
		if t != "" && !strings.HasPrefix(t, "//") && !strings.HasPrefix(t, "*") && !strings.HasPrefix(t, "/*") && r.Chance(60) {
			l = strings.Repeat(" ", r.Intn(3)) + l + strings.Repeat(" ", 1+r.Intn(2))
		}
		out = append(out, l)
		if t == "}" && r.Chance(30) {
			out = append(out, "", "")
		}
	}
	return []byte(strings.Join(out, "\n"))
}

// corpusFiles: candidate source files of the tree under test (sorted, bounded size).
func corpusFiles(repo string) []string {
	var res []string
	for _, pat := range []string{"cl/_testgop/*/in.xgo", "cl/_testgop/*/in.gop", "demo/*/*.xgo", "demo/*/*.gop", "demo/*/*.gox",
		"cl/_testspx/*/*.gox", "x/xgoprojs/*.go", "x/watcher/*.go", "tpl/token/*.go", "cl/_testgop/*/*.xgo"} {
		m, _ := filepath.Glob(filepath.Join(repo, pat))
		res = append(res, m...)
	}
	sort.Strings(res)
	var out []string
	for _, f := range res {
		if st, err := os.Stat(f); err == nil && st.Size() > 40 && st.Size() < 200000 && !strings.HasSuffix(f, "_test.go") {
			out = append(out, f)
		}
	}
	return out
}

// genFiles: the list of candidate files for a run (the caller drops those the formatter rejects
// or leaves unchanged).
func genFiles(r *vh.Rand, repo string, n int, thorough bool) []srcFile {
	var fs []srcFile
	add := func(name string, src []byte, kind string) {
		fs = append(fs, srcFile{name: name, src: src, kind: kind, class: strings.HasSuffix(name, ".gox")})
	}
	add("tiny.xgo", []byte("x:=1\nprintln   x\n"), "gen_tiny")
	add("small.xgo", genXGo(r.Fork(1), 2, 5), "gen_small")
	add("medium.xgo", genXGo(r.Fork(2), 60+r.Intn(100), 40), "gen_medium")
	big := 1200 // ≈ 70 KB (more than a pipe buffer / one page-cache batch)
	if thorough {
		big = 20000 // > 1 MB
	}
	add("large.xgo", genXGo(r.Fork(3), big+r.Intn(big/4), 200), "gen_large")
	add("plain.go", []byte("package main\nimport \"fmt\"\nfunc main(){\nfmt.Println( \"a\" )\n}\n"), "gen_go")
	add("name with space.xgo", genXGo(r.Fork(4), 1, 3), "gen_space_name")
	cf := corpusFiles(repo)
	rr := r.Fork(5)
	for i := 0; len(fs) < n && len(cf) > 0 && i < 4*n; i++ {
		f := cf[rr.Intn(len(cf))]
		src, err := os.ReadFile(f)
		if err != nil {
			continue
		}
		ext := filepath.Ext(f)
		if ext == ".gop" {
			ext = ".xgo"
		}
		add(fmt.Sprintf("corpus%d%s", i, ext), deformat(rr.Fork(i), src), "corpus"+ext)
	}
	return fs
}
