package main

// Parsing of `strace -f -o <log>` output and mapping of the system calls that touch the test
// directory to the operation list of the FS model (GopModel/Model/FS.lean, Driver/FS.lean).

import (
	"bufio"
	"fmt"
	"os"
	"regexp"
	"strconv"
	"strings"
)

type sysc struct {
	tid     int
	name    string
	args    string
	ret     string // "" while unfinished; "?" when the process died inside/before it
	done    bool   // a return value was logged
	ordinal int    // 1-based count of entries into `name` by this tid (strace's when= counter)
	line    int
}

var (
	reFull   = regexp.MustCompile(`^(\d+)\s+(\w+)\((.*)\)\s+= (-?\d+|\?|0x[0-9a-f]+)(?: .*)?$`)
	reUnfin  = regexp.MustCompile(`^(\d+)\s+(\w+)\((.*) <unfinished \.\.\.>$`)
	reResume = regexp.MustCompile(`^(\d+)\s+<\.\.\. (\w+) resumed>(.*)\)\s+= (-?\d+|\?|0x[0-9a-f]+)(?: .*)?$`)
)

func parseTrace(file string) ([]*sysc, error) {
	f, err := os.Open(file)
	if err != nil {
		return nil, err
	}
	defer f.Close()
	var res []*sysc
	pending := map[int]*sysc{}
	counts := map[string]int{}
	sc := bufio.NewScanner(f)
	sc.Buffer(make([]byte, 1<<20), 1<<26)
	ln := 0
	for sc.Scan() {
		ln++
		l := sc.Text()
		if m := reFull.FindStringSubmatch(l); m != nil {
			tid, _ := strconv.Atoi(m[1])
			k := m[1] + ":" + m[2]
			counts[k]++
			res = append(res, &sysc{tid: tid, name: m[2], args: m[3], ret: m[4], done: m[4] != "?", ordinal: counts[k], line: ln})
			continue
		}
		if m := reUnfin.FindStringSubmatch(l); m != nil {
			tid, _ := strconv.Atoi(m[1])
			k := m[1] + ":" + m[2]
			counts[k]++
			s := &sysc{tid: tid, name: m[2], args: m[3], ordinal: counts[k], line: ln}
			pending[tid] = s
			res = append(res, s)
			continue
		}
		if m := reResume.FindStringSubmatch(l); m != nil {
			tid, _ := strconv.Atoi(m[1])
			if s := pending[tid]; s != nil && s.name == m[2] {
				s.args += m[3]
				s.ret = m[4]
				s.done = m[4] != "?"
				delete(pending, tid)
			}
			continue
		}
	}
	return res, sc.Err()
}

// threadsOf: the tids that belong to the traced root process (clone with CLONE_THREAD),
// so that child processes (`go env`) with coinciding descriptor numbers are ignored.
func threadsOf(tr []*sysc) map[int]bool {
	in := map[int]bool{}
	if len(tr) == 0 {
		return in
	}
	in[tr[0].tid] = true
	for _, s := range tr {
		if (s.name == "clone" || s.name == "clone3") && in[s.tid] && s.done && strings.Contains(s.args, "CLONE_THREAD") {
			if n, err := strconv.Atoi(s.ret); err == nil && n > 0 {
				in[n] = true
			}
		}
	}
	return in
}

// quoted strings of an argument list, in order (strace prints paths completely)
var reStr = regexp.MustCompile(`"((?:[^"\\]|\\.)*)"`)

func pathsOf(args string) []string {
	var out []string
	for _, m := range reStr.FindAllStringSubmatch(args, -1) {
		out = append(out, m[1])
	}
	return out
}

type fsop struct {
	text string // serialised operation (Driver/FS.lean syntax)
	sc   *sysc
	idx  int // index into the trace
}

// rawCall: one mutating system call on the test directory (also failed ones, every write
// separately) with the number of completed operations before and after it — the same
// predicate as the killer's, so the two lists pair up by index.
type rawCall struct {
	name                string
	opsBefore, opsAfter int
}

type mapped struct {
	raw        []rawCall
	ops        []fsop   // completed mutating operations, in order
	killedAt   *sysc    // the system call the process died in (ret "?"), if any
	ambiguous  bool     // a mutating call on the test files was unfinished/killed inside
	unmodelled []string // mutating calls on the test directory outside the DSL
	failed     []string // mutating calls that returned an error
	tmpNames   map[string]bool
}

func octMode(s string) string {
	s = strings.TrimSpace(s)
	s = strings.TrimLeft(s, "0")
	if s == "" {
		return "0"
	}
	return s
}

// mapOps maps a parsed trace to FS-model operations on (target, any other file in dir).
func mapOps(tr []*sysc, dir, target string) *mapped {
	m := &mapped{tmpNames: map[string]bool{}}
	th := threadsOf(tr)
	fds := map[string]string{} // descriptor -> "p"/"t" (opened for writing on a test file)
	inDir := func(p string) bool { return strings.HasPrefix(p, dir+"/") }
	ref := func(p string) string {
		if p == target {
			return "p"
		}
		m.tmpNames[p] = true
		return "t"
	}
	lastWriteFd := ""
	sawExit := false
	for i, s := range tr {
		if !th[s.tid] {
			continue
		}
		nBefore := len(m.ops)
		isRaw := false
		defer0 := func() {
			if isRaw {
				m.raw = append(m.raw, rawCall{name: s.name, opsBefore: nBefore, opsAfter: len(m.ops)})
			}
		}
		if s.name == "exit_group" && !sawExit {
			sawExit = true
			isRaw = true
			defer0()
			continue
		}
		if s.ret == "?" && s.name != "exit_group" && s.name != "exit" {
			m.killedAt = s
		}
		add := func(text string) {
			if !s.done {
				if s.ret == "?" || s.ret == "" {
					m.ambiguous = m.ambiguous || s.ret == "" // unfinished: may or may not have happened
				}
				return
			}
			if strings.HasPrefix(s.ret, "-") {
				m.failed = append(m.failed, s.name+"("+s.args+")="+s.ret)
				return
			}
			m.ops = append(m.ops, fsop{text: text, sc: s, idx: i})
		}
		ps := pathsOf(s.args)
		touches := false
		for _, p := range ps {
			if inDir(p) {
				touches = true
			}
		}
		fdArg := ""
		if j := strings.IndexAny(s.args, ",)"); j > 0 {
			fdArg = strings.TrimSpace(s.args[:j])
		} else {
			fdArg = strings.TrimSpace(s.args)
		}
		switch s.name {
		case "openat", "open", "creat":
			if !touches {
				continue
			}
			p := ps[0]
			fl := s.args
			wr := strings.Contains(fl, "O_WRONLY") || strings.Contains(fl, "O_RDWR") || strings.Contains(fl, "O_CREAT") || strings.Contains(fl, "O_TRUNC") || s.name == "creat"
			if !wr {
				continue
			}
			isRaw = true
			if strings.Contains(fl, "O_APPEND") || strings.Contains(fl, "O_TMPFILE") || strings.Contains(fl, "O_DIRECTORY") {
				m.unmodelled = append(m.unmodelled, s.name+"("+s.args+")")
				defer0()
				continue
			}
			mode := "0"
			if j := strings.LastIndex(fl, ", 0"); j >= 0 && strings.Contains(fl, "O_CREAT") {
				mode = octMode(fl[j+2:])
			}
			r := ref(p)
			c, e, t := strings.Contains(fl, "O_CREAT"), strings.Contains(fl, "O_EXCL"), strings.Contains(fl, "O_TRUNC")
			b := func(x bool) string {
				if x {
					return "1"
				}
				return "0"
			}
			text := fmt.Sprintf("ow:%s:%s%s%s:%s", r, b(c), b(e), b(t), mode)
			if r == "t" && c && e && !t && strings.Contains(fl, "O_RDWR") {
				text = "ct:" + mode // the open of os.CreateTemp
			}
			if s.done && !strings.HasPrefix(s.ret, "-") {
				fds[s.ret] = r
			}
			lastWriteFd = ""
			add(text)
		case "write", "pwrite64", "writev":
			if _, ok := fds[fdArg]; !ok {
				continue
			}
			isRaw = true
			if s.name != "write" {
				m.unmodelled = append(m.unmodelled, s.name+" on a test file")
				defer0()
				continue
			}
			// consecutive writes on one descriptor are one f.Write (Go loops on short writes)
			if lastWriteFd == fdArg && s.done && !strings.HasPrefix(s.ret, "-") {
				defer0()
				continue
			}
			if s.done && !strings.HasPrefix(s.ret, "-") {
				lastWriteFd = fdArg
			}
			add("w")
		case "fchmod":
			if _, ok := fds[fdArg]; !ok {
				continue
			}
			isRaw = true
			lastWriteFd = ""
			j := strings.LastIndex(s.args, ",")
			add("cf:" + octMode(s.args[j+1:]))
		case "fsync", "fdatasync":
			if _, ok := fds[fdArg]; !ok {
				continue
			}
			isRaw = true
			lastWriteFd = ""
			add("sy")
		case "ftruncate", "fallocate", "fchown":
			if _, ok := fds[fdArg]; ok {
				isRaw = true
				m.unmodelled = append(m.unmodelled, s.name+" on a test file")
			}
		case "close":
			if _, ok := fds[fdArg]; !ok {
				continue
			}
			isRaw = true
			lastWriteFd = ""
			if s.done {
				delete(fds, fdArg)
			}
			add("cl")
		case "fchmodat", "chmod", "fchmodat2":
			if !touches {
				continue
			}
			isRaw = true
			lastWriteFd = ""
			j := strings.LastIndex(s.args, ", 0")
			mode := "0"
			if j >= 0 {
				mode = octMode(strings.SplitN(s.args[j+2:], ",", 2)[0])
			}
			add("cn:" + ref(ps[0]) + ":" + mode)
		case "unlinkat", "unlink":
			if !touches {
				continue
			}
			isRaw = true
			if strings.Contains(s.args, "AT_REMOVEDIR") {
				// the rmdir attempt of os.Remove after a failed unlink
				if s.done && !strings.HasPrefix(s.ret, "-") {
					m.unmodelled = append(m.unmodelled, "rmdir in test directory")
				}
				defer0()
				continue
			}
			lastWriteFd = ""
			add("rm:" + ref(ps[0]))
		case "renameat", "rename", "renameat2":
			if !touches {
				continue
			}
			isRaw = true
			lastWriteFd = ""
			if len(ps) != 2 || !inDir(ps[0]) || !inDir(ps[1]) || strings.Contains(s.args, "RENAME_EXCHANGE") || strings.Contains(s.args, "RENAME_NOREPLACE") {
				m.unmodelled = append(m.unmodelled, s.name+"("+s.args+")")
				defer0()
				continue
			}
			add("rn:" + ref(ps[0]) + ":" + ref(ps[1]))
		case "mkdirat", "mkdir", "linkat", "link", "symlinkat", "symlink", "truncate", "utimensat", "fchownat", "chown", "lchown", "mknodat", "rmdir", "setxattr", "lsetxattr":
			if touches {
				isRaw = true
				m.unmodelled = append(m.unmodelled, s.name+"("+s.args+")")
			}
		}
		defer0()
	}
	return m
}

func opsText(ops []fsop) string {
	if len(ops) == 0 {
		return "-"
	}
	t := make([]string, len(ops))
	for i, o := range ops {
		t[i] = o.text
	}
	return strings.Join(t, ",")
}

// nextSyscall: the first system call entered by the same thread after trace index i.
func nextSyscall(tr []*sysc, i int) *sysc {
	for j := i + 1; j < len(tr); j++ {
		if tr[j].tid == tr[i].tid {
			return tr[j]
		}
	}
	return nil
}
