// Debug helper of builder compA (not used by any check).
//   c07dbg file <name> <path> <envdir>     compile one file, print everything
//   c07dbg gen <n> <seed> <envdir>         type-check n generated Go programs in-process
//   c07dbg ext <n> <seed> <envdir>         same for extended programs
package main

import (
	"fmt"
	"go/types"
	"os"
	"strconv"

	"verifharness/compa"
	"verifharness/vh"
)

type failingImporter struct{}

func (failingImporter) Import(path string) (*types.Package, error) {
	return nil, fmt.Errorf("no such package %s", path)
}

func main() {
	switch os.Args[1] {
	case "gen", "ext":
		n, _ := strconv.Atoi(os.Args[2])
		seed, _ := strconv.Atoi(os.Args[3])
		env, err := compa.NewEnv(os.Args[4])
		if err != nil {
			panic(err)
		}
		r := vh.NewRand(uint64(seed))
		bad := 0
		for i := 0; i < n; i++ {
			rr := r.Fork(i)
			var src string
			if os.Args[1] == "gen" {
				prog, _ := compa.GenGo(rr)
				src = prog.Print(rr.Fork(7))
			} else {
				if i%2 == 0 {
					src = compa.GenGoExtNamed(rr, []string{"range-forms", "assign-ops", "operator-precedence", "operator-precedence"})
				} else {
					src, _ = compa.GenGoExt(rr, 2+rr.Intn(4))
				}
			}
			if class, msg := env.GoCheck([]byte(src), nil); class != "" {
				bad++
				if bad <= 3 {
					fmt.Printf("=== %d: %s %s\n%s\n", i, class, msg, src)
				} else {
					fmt.Printf("=== %d: %s %s\n", i, class, msg)
				}
				continue
			}
			// as XGo
			out, err, esc, _ := env.BuildFile("main.xgo", src, false)
			if err != nil || esc != "" {
				fmt.Printf("=== %d: XGO %v %s\n", i, err, esc)
				continue
			}
			if class, msg := env.GoCheck(out, nil); class != "" {
				fmt.Printf("=== %d: XGO-OUT %s %s\n", i, class, msg)
			}
		}
		fmt.Println("bad:", bad, "of", n)
	case "names":
		env, err := compa.NewEnv(os.Args[2])
		if err != nil {
			panic(err)
		}
		scs := compa.GenNameScenarios(vh.NewRand(1))
		for i, sc := range scs {
			src := compa.NamesProgram([]compa.NameScenario{sc})
			tag := fmt.Sprintf("%d %s after=%v", i, sc.Name, sc.After)
			if class, msg := env.GoCheck([]byte(src), nil); class != "" {
				fmt.Printf("=== %s: INVALID GO %s %s\n%s\n", tag, class, msg, src)
				continue
			}
			out, err, esc, _ := env.BuildFile("main.xgo", src, false)
			if err != nil || esc != "" {
				fmt.Printf("=== %s: XGO %v %s\n", tag, err, esc)
				continue
			}
			if class, msg := env.GoCheck(out, nil); class != "" {
				fmt.Printf("=== %s: XGO-OUT %s %s\n", tag, class, msg)
			}
		}
		all := compa.NamesProgram(scs)
		if class, msg := env.GoCheck([]byte(all), nil); class != "" {
			fmt.Println("=== ALL: INVALID", class, msg)
		}
		fmt.Println("scenarios:", len(scs))
	case "recorder":
		// replay of C07_recorder_defer_unprotected on the real code: an importer that cannot find
		// "fmt" makes gogen.NewPackage panic; with a Recorder configured the deferred rec.Complete runs
		// after the recover with p == nil
		fs := compa.Files{"main.xgo": "echo 1\n"}
		p := compa.Parse(fs)
		func() {
			defer func() {
				if r := recover(); r != nil {
					fmt.Println("ESCAPED:", compa.PanicKey(r))
				}
			}()
			_, err := compa.CompileWith(p.Fset, compa.MainPkg(p.Pkgs), failingImporter{}, true)
			fmt.Println("returned err:", err)
		}()
		func() {
			defer func() {
				if r := recover(); r != nil {
					fmt.Println("ESCAPED (no recorder):", compa.PanicKey(r))
				}
			}()
			_, err := compa.CompileWith(p.Fset, compa.MainPkg(p.Pkgs), failingImporter{}, false)
			fmt.Println("returned err (no recorder):", err)
		}()
	case "file":
		src, _ := os.ReadFile(os.Args[3])
		fs := compa.Files{os.Args[2]: string(src)}
		env, err := compa.NewEnv(os.Args[4])
		if err != nil {
			panic(err)
		}
		p := compa.Parse(fs)
		fmt.Println("parse err:", p.Err, "panic:", p.Panic)
		pkg := compa.MainPkg(p.Pkgs)
		if pkg == nil {
			return
		}
		c := env.Compile(p.Fset, pkg, false)
		fmt.Printf("cl err: %v\npanic: %s\nwpanic: %s\n", c.Err, c.Panic, c.WPanic)
		fmt.Println(string(c.Src))
		if c.Err != nil {
			fmt.Println(compa.PosIssue(c.Err, p.Fset, fs, func(s string) string { return s[len("/pkg/"):] }))
		} else {
			fmt.Println(env.GoCheck(c.Src, fs))
		}
		out, err, esc, _ := env.BuildDir(fs, false)
		fmt.Printf("BuildDir: out=%d bytes err=%v esc=%s\n", len(out), err, esc)
	}
}
