package main

import (
	"fmt"
	"os"

	"verifharness/compa"
)

func main() {
	src, _ := os.ReadFile(os.Args[2])
	fs := compa.Files{os.Args[1]: string(src)}
	env, err := compa.NewEnv(os.Args[3])
	if err != nil {
		panic(err)
	}
	p := compa.Parse(fs)
	fmt.Println("parse err:", p.Err, "panic:", p.Panic)
	pkg := compa.MainPkg(p.Pkgs)
	if pkg == nil {
		return
	}
	c := env.Compile(p.Fset, pkg, false)
	fmt.Printf("cl err: %v\npanic: %s\nwpanic: %s\n", c.Err, c.Panic, c.WPanic)
	fmt.Println(string(c.Src))
	if c.Err != nil {
		fmt.Println(compa.PosIssue(c.Err, p.Fset, fs, func(s string) string { return s[len("/pkg/"):] }))
	} else {
		fmt.Println(env.GoCheck(c.Src, fs))
	}
	out, err, esc, _ := env.BuildDir(fs, false)
	fmt.Printf("BuildDir: out=%d bytes err=%v esc=%s\n", len(out), err, esc)
}
