// Debug helper of builder compA (not used by any check).
//   c07dbg file <name> <path> <envdir>     compile one file, print everything
//   c07dbg gen <n> <seed> <envdir>         type-check n generated Go programs in-process
//   c07dbg ext <n> <seed> <envdir>         same for extended programs
package main

import (
	"fmt"
	"os"
	"strconv"

	"verifharness/compa"
	"verifharness/vh"
)

func main() {
	switch os.Args[1] {
	case "gen", "ext":
		n, _ := strconv.Atoi(os.Args[2])
		seed, _ := strconv.Atoi(os.Args[3])
		env, err := compa.NewEnv(os.Args[4])
		if err != nil {
			panic(err)
		}
		r := vh.NewRand(uint64(seed))
		bad := 0
		for i := 0; i < n; i++ {
			rr := r.Fork(i)
			var src string
			if os.Args[1] == "gen" {
				prog, _ := compa.GenGo(rr)
				src = prog.Print(rr.Fork(7))
			} else {
				src, _ = compa.GenGoExt(rr, 2+rr.Intn(4))
			}
			if class, msg := env.GoCheck([]byte(src), nil); class != "" {
				bad++
				if bad <= 3 {
					fmt.Printf("=== %d: %s %s\n%s\n", i, class, msg, src)
				} else {
					fmt.Printf("=== %d: %s %s\n", i, class, msg)
				}
				continue
			}
			// as XGo
			out, err, esc, _ := env.BuildFile("main.xgo", src, false)
			if err != nil || esc != "" {
				fmt.Printf("=== %d: XGO %v %s\n", i, err, esc)
				continue
			}
			if class, msg := env.GoCheck(out, nil); class != "" {
				fmt.Printf("=== %d: XGO-OUT %s %s\n", i, class, msg)
			}
		}
		fmt.Println("bad:", bad, "of", n)
	case "file":
		src, _ := os.ReadFile(os.Args[3])
		fs := compa.Files{os.Args[2]: string(src)}
		env, err := compa.NewEnv(os.Args[4])
		if err != nil {
			panic(err)
		}
		p := compa.Parse(fs)
		fmt.Println("parse err:", p.Err, "panic:", p.Panic)
		pkg := compa.MainPkg(p.Pkgs)
		if pkg == nil {
			return
		}
		c := env.Compile(p.Fset, pkg, false)
		fmt.Printf("cl err: %v\npanic: %s\nwpanic: %s\n", c.Err, c.Panic, c.WPanic)
		fmt.Println(string(c.Src))
		if c.Err != nil {
			fmt.Println(compa.PosIssue(c.Err, p.Fset, fs, func(s string) string { return s[len("/pkg/"):] }))
		} else {
			fmt.Println(env.GoCheck(c.Src, fs))
		}
		out, err, esc, _ := env.BuildDir(fs, false)
		fmt.Printf("BuildDir: out=%d bytes err=%v esc=%s\n", len(out), err, esc)
	}
}
